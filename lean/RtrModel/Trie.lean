/-
  Trie: executable model of rtrlib/pfx/trie/trie.c and of the node-payload handling of
  rtrlib/pfx/trie/trie-pfx.c, for one address family of width `w` (32 or 128).

  The C structure (nodes with parent pointers, mutated in place) becomes an immutable binary
  tree; "the node returned by trie_lookup_exact" becomes a path from the root (`List Bool`,
  `false` = lchild); `*lvl` is the length of that path.
-/
import RtrModel.Bits

namespace Rtr

/-- `struct data_elem` of trie-pfx.c; `src` identifies the `rtr_socket` -/
structure Elem where
  asn : Nat
  maxLen : Nat
  src : Nat
deriving DecidableEq, Repr

/-- the payload-carrying part of `struct trie_node` (`prefix`, `len`, `data`) — exactly what
    `swap_nodes` / `replace_node_data` move between nodes -/
structure NodeC where
  addr : Addr
  len : Nat
  data : List Elem
deriving DecidableEq, Repr

inductive Trie where
  | nil : Trie
  | node (c : NodeC) (l r : Trie) : Trie
deriving DecidableEq, Repr

namespace Trie

def size : Trie → Nat
  | .nil => 0
  | .node _ l r => l.size + r.size + 1

def isNil : Trie → Bool
  | .nil => true
  | _ => false

/-- in-order list of node payloads (the order of `pfx_table_for_each_rec`) -/
def nodes : Trie → List NodeC
  | .nil => []
  | .node c l r => l.nodes ++ c :: r.nodes

def keys : Trie → List (Addr × Nat)
  | .nil => []
  | .node c l r => l.keys ++ (c.addr, c.len) :: r.keys

/-- the subtree reached by following `p` -/
def subAt : Trie → List Bool → Trie
  | t, [] => t
  | .nil, _ :: _ => .nil
  | .node _ l r, b :: p => if b then r.subAt p else l.subAt p

/-- replace the subtree at `p` by `f` of it -/
def modifyAt : Trie → List Bool → (Trie → Trie) → Trie
  | t, [], f => f t
  | .nil, _ :: _, _ => .nil
  | .node c l r, b :: p, f => if b then .node c l (r.modifyAt p f) else .node c (l.modifyAt p f) r

end Trie

/-- `is_left_child(addr, lvl)` — via the abstract bit view (literal version: `isLeftChildC4/6`) -/
def isLeft (w : Nat) (a : Addr) (lvl : Nat) : Bool := !bitAt w a lvl

/-- the covering test of `trie_lookup`:
    `lrtr_ip_addr_equal(get_bits(root.prefix, 0, root.len), get_bits(prefix, 0, root.len))` -/
def prefixEq (w : Nat) (a q : Addr) (len : Nat) : Bool := a >>> (w - len) == q >>> (w - len)

/-! ## trie_insert -/

/-- `trie_insert(root, new, lvl)`: swap payloads if the new one is shorter, descend by bit `lvl`
    of the payload that keeps travelling -/
def insert (w : Nat) : Trie → NodeC → Nat → Trie
  | .nil, n, _ => .node n .nil .nil      -- add_child_node at the empty slot
  | .node c l r, n, lvl =>
    let c' := if n.len < c.len then n else c
    let n' := if n.len < c.len then c else n
    if isLeft w n'.addr lvl then .node c' (insert w l n' (lvl+1)) r
    else .node c' l (insert w r n' (lvl+1))

/-! ## trie_lookup -/

/-- `trie_lookup(root, prefix, mask_len, &lvl)`: first (shortest) node on the query path that
    covers the query; returns the node (as a subtree) and the value of `*lvl` on return -/
def lookup (w : Nat) (q : Addr) (n : Nat) : Trie → Nat → Option (Trie × Nat)
  | .nil, _ => none
  | .node c l r, lvl =>
    if c.len ≤ n ∧ prefixEq w c.addr q c.len then some (.node c l r, lvl)
    else if isLeft w q lvl then lookup w q n l (lvl+1) else lookup w q n r (lvl+1)

/-! ## trie_lookup_exact -/

/-- result of `trie_lookup_exact` relative to the node it was entered at:
    `up` = "return root_node->parent, (*lvl)--" (the caller's node),
    `at p found` = the node reached by path `p`, `*lvl` advanced by `p.length` -/
inductive LxRes where
  | up : LxRes
  | at (p : List Bool) (found : Bool) : LxRes
deriving DecidableEq, Repr

def lookupExact (w : Nat) (q : Addr) (n : Nat) : Trie → Nat → LxRes
  | .nil, _ => .at [] false              -- `while (root_node)` not entered: NULL, found = false
  | .node c l r, lvl =>
    if lvl > 0 ∧ c.len > n then .up
    else if c.len = n ∧ c.addr = q then .at [] true
    else if isLeft w q lvl then
      match l with
      | .nil => .at [] false
      | .node cl ll lr =>
        match lookupExact w q n (.node cl ll lr) (lvl+1) with
        | .up => .at [] false
        | .at p f => .at (false :: p) f
    else
      match r with
      | .nil => .at [] false
      | .node cr rl rr =>
        match lookupExact w q n (.node cr rl rr) (lvl+1) with
        | .up => .at [] false
        | .at p f => .at (true :: p) f

/-! ## trie_remove at the node whose prefix is the one removed -/

/-- `trie_remove(node, &node->prefix, node->len, lvl)`: pull up the payload of the child with
    the smaller length (the left one only if strictly smaller or there is no right child),
    recursively; the leaf that ends up holding the removed payload is unlinked. -/
def removeRoot : Trie → Trie
  | .nil => .nil
  | .node _ .nil .nil => .nil
  | .node _ (.node cl ll lr) .nil => .node cl (removeRoot (.node cl ll lr)) .nil
  | .node _ .nil (.node cr rl rr) => .node cr .nil (removeRoot (.node cr rl rr))
  | .node _ (.node cl ll lr) (.node cr rl rr) =>
    if cl.len < cr.len then .node cl (removeRoot (.node cl ll lr)) (.node cr rl rr)
    else .node cr (.node cl ll lr) (removeRoot (.node cr rl rr))

/-- the general `trie_remove(root, prefix, mask_len, lvl)`: descend by the bits of `prefix`
    until `prefix_is_same`; `none` = returns NULL -/
def remove (w : Nat) (q : Addr) (n : Nat) : Trie → Nat → Option Trie
  | .nil, _ => none
  | .node c l r, lvl =>
    if c.len = n ∧ c.addr = q then some (removeRoot (.node c l r))
    else if isLeft w q lvl then
      match l with
      | .nil => none
      | _ => (remove w q n l (lvl+1)).map fun l' => .node c l' r
    else
      match r with
      | .nil => none
      | _ => (remove w q n r (lvl+1)).map fun r' => .node c l r'

theorem removeRoot_size_lt' : ∀ (t : Trie), t ≠ .nil → (removeRoot t).size < t.size := by
  intro t
  induction t with
  | nil => intro h; exact absurd rfl h
  | node c0 l0 r0 ih1 ih2 =>
    intro _
    cases l0 with
    | nil =>
      cases r0 with
      | nil => simp [removeRoot, Trie.size]
      | node c2 l2 r2 =>
        have := ih2 (by simp)
        simp only [removeRoot, Trie.size] at *
        omega
    | node c1 l1 r1 =>
      cases r0 with
      | nil =>
        have := ih1 (by simp)
        simp only [removeRoot, Trie.size] at *
        omega
      | node c2 l2 r2 =>
        simp only [removeRoot]
        split
        · have := ih1 (by simp)
          simp only [Trie.size] at *
          omega
        · have := ih2 (by simp)
          simp only [Trie.size] at *
          omega

theorem removeRoot_size_lt (c : NodeC) (l r : Trie) : (removeRoot (.node c l r)).size < (Trie.node c l r).size :=
  removeRoot_size_lt' _ (by simp)

/-! ## payload operations of trie-pfx.c -/

/-- `pfx_table_find_elem`: index of the first element equal in asn, max_len and socket -/
def findElem (d : List Elem) (e : Elem) : Option Nat :=
  d.findIdx? (fun x => x.asn == e.asn && x.maxLen == e.maxLen && x.src == e.src)

/-- `pfx_table_del_elem` (successful reallocation): remove index `i`, shifting the rest down -/
def delElem (d : List Elem) (i : Nat) : List Elem := d.eraseIdx i

/-- `pfx_table_elem_matches` -/
def elemMatches (d : List Elem) (asn n : Nat) : Bool :=
  d.any fun e => e.asn != 0 && e.asn == asn && decide (n ≤ e.maxLen)

/-! ## pfx_table_remove_id (removal by source within one family) -/

/-- returns the new tree and the payload elements removed, as (node key, element), in
    notification order -/
def removeId (src : Nat) : Trie → Trie × List (Addr × Nat × Elem)
  | .nil => (.nil, [])
  | .node c l r =>
    let kept := c.data.filter (fun e => e.src != src)
    let gone := (c.data.filter (fun e => e.src == src)).map fun e => (c.addr, c.len, e)
    if kept.isEmpty then
      if l.isNil && r.isNil then (.nil, gone)                -- rm_node == node (or == *root)
      else
        -- payload pulled up from a child: the same position is checked again
        let t' := removeRoot (.node { c with data := [] } l r)
        let (t'', log) := removeId src t'
        (t'', gone ++ log)
    else
      let (l', log1) := removeId src l
      let (r', log2) := removeId src r
      (.node { c with data := kept } l' r', gone ++ log1 ++ log2)
termination_by t => t.size
decreasing_by
  · have := removeRoot_size_lt { c with data := [] } l r
    simp only [Trie.size] at *
    omega
  · simp [Trie.size]; omega
  · simp [Trie.size]; omega

/-! ## validation (pfx_table_validate_r for one family) -/

inductive PfxvState where
  | valid | notFound | invalid
deriving DecidableEq, Repr

/-- `pfx_table_validate_r` on one trie.  The C text is two nested loops walking one path from the
    root: `trie_lookup` advances along the query bits until a node covers the query
    (`root->len <= mask_len && equal(get_bits(root->prefix, 0, root->len), get_bits(prefix, 0, root->len))`);
    the outer `while (!pfx_table_elem_matches(...))` loop appends the node's records to `reason`,
    answers VALID if one matches, and otherwise continues the lookup below it at `lvl + 1`
    (the post-incremented `lvl`).  `seen` = "the first trie_lookup has already returned a node":
    running off the path then answers INVALID, before that NOT_FOUND.
    Returns the state and the visited covering nodes in visiting order. -/
def walkR (w : Nat) (q : Addr) (n asn : Nat) : Trie → Nat → Bool → PfxvState × List NodeC
  | .nil, _, seen => (if seen then .invalid else .notFound, [])
  | .node c l r, lvl, seen =>
    if c.len ≤ n ∧ prefixEq w c.addr q c.len then
      if elemMatches c.data asn n then (.valid, [c])
      else
        let res := if isLeft w q lvl then walkR w q n asn l (lvl+1) true else walkR w q n asn r (lvl+1) true
        (res.1, c :: res.2)
    else if isLeft w q lvl then walkR w q n asn l (lvl+1) seen else walkR w q n asn r (lvl+1) seen

def validateR (w : Nat) (q : Addr) (n asn : Nat) (t : Trie) : PfxvState × List NodeC :=
  walkR w q n asn t 0 false

/-! ## destruction (the do-while loop of pfx_table_free for one root) -/

/-- notifications emitted by `pfx_table_free` for one family: payload of the current root, then
    `trie_remove(root, root.prefix, root.len, 0)`, until the root itself is the removed leaf -/
def freeLog : Trie → List (Addr × Nat × Elem)
  | .nil => []
  | .node c l r =>
    (c.data.map fun e => (c.addr, c.len, e)) ++ freeLog (removeRoot (.node c l r))
termination_by t => t.size
decreasing_by exact removeRoot_size_lt c l r

end Rtr
