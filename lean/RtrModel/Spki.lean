/-
  Spki: executable model of rtrlib/spki/hashtable/ht-spkitable.c
  (`struct spki_table` = tommy_hashlin keyed by tommy_inthash_u32(asn) + insertion-ordered
  tommy_list of the same entries + update callback).  Locks are not modelled here (C16),
  allocation failures neither (C18).

  The model is of the code WITH the fix for defect F9 (build/fixes/F9.diff):
  `spki_table_src_remove` notifies the removal of every entry it drops.
-/
import RtrModel.Hashlin

namespace Rtr

/-- `struct spki_record` / `struct key_entry` (SKI: 20 bytes, SPKI: 91 bytes, both read as
    big-endian numbers; `src` identifies the `rtr_socket`) -/
structure SpkiRec where
  asn : Nat
  ski : Nat
  spki : Nat
  src : Nat
deriving DecidableEq, Repr

/-- `enum spki_rtvals` -/
inductive SpkiRc where
  | success | error | duplicate | notFound
deriving DecidableEq, Repr

def SpkiRc.toInt : SpkiRc → Int
  | .success => 0 | .error => -1 | .duplicate => -2 | .notFound => -3

/-- the hash every entry is filed under: `tommy_inthash_u32(record->asn)` -/
def spkiHash (r : SpkiRec) : Nat := inthash r.asn

/-- the hash-table node of an entry (`entry->hash_node`: key = hash, data = entry) -/
def spkiNode (r : SpkiRec) : HNode SpkiRec := ⟨spkiHash r, r⟩

/-- `struct spki_table`: hash table, list, whether `update_fp` is set, and the ghost log of
    `update_fp` invocations (`true` = added) -/
structure SpkiTable where
  ht : Hashlin SpkiRec := Hashlin.init
  list : List SpkiRec := []
  hasCb : Bool := true
  log : List (Bool × SpkiRec) := []
deriving Inhabited

namespace SpkiTable

/-- `spki_table_init` -/
def init (hasCb : Bool) : SpkiTable := { hasCb := hasCb }

/-- `spki_table_notify_clients` -/
def notify (T : SpkiTable) (added : Bool) (r : SpkiRec) : SpkiTable :=
  if T.hasCb then { T with log := T.log ++ [(added, r)] } else T

/-- `key_entry_cmp(arg, obj) == 0` -/
def cmp (r : SpkiRec) : SpkiRec → Bool := fun e => e == r

/-- `spki_table_add_entry` -/
def add (T : SpkiTable) (r : SpkiRec) : SpkiTable × SpkiRc :=
  let hash := spkiHash r
  if (T.ht.search (cmp r) hash).isSome then (T, .duplicate)
  else
    let T1 := { T with ht := T.ht.insert r hash, list := T.list ++ [r] }
    (T1.notify true r, .success)

/-- `spki_table_get_all`: walk of the bucket of `tommy_inthash_u32(asn)`, in bucket order -/
def getAll (T : SpkiTable) (asn ski : Nat) : List SpkiRec :=
  ((T.ht.bucketOf (inthash asn)).filter fun n => n.data.asn == asn && n.data.ski == ski).map (·.data)

/-- `spki_table_search_by_ski`: walk of the list, in insertion order -/
def searchBySki (T : SpkiTable) (ski : Nat) : List SpkiRec :=
  T.list.filter fun e => e.ski == ski

/-- `spki_table_remove_entry` -/
def remove (T : SpkiTable) (r : SpkiRec) : SpkiTable × SpkiRc :=
  let hash := spkiHash r
  if (T.ht.search (cmp r) hash).isNone then (T, .notFound)
  else
    match T.ht.remove (cmp r) hash with
    | (ht', some e) =>
      -- tommy_list_remove_existing(&list, &rmv_elem->list_node) never returns 0 for an entry
      let T1 := { T with ht := ht', list := T.list.erase e }
      (T1.notify false r, .success)
    | (ht', none) => ({ T with ht := ht' }, .error)

/-- the loop of `spki_table_src_remove` over the entries that were in the list at entry
    (each is unlinked from the list, then from the hash table through its own node; F9 fix:
    then the removal is notified) -/
def srcRemoveLoop (src : Nat) : List SpkiRec → SpkiTable → SpkiTable
  | [], T => T
  | e :: rest, T =>
    if e.src == src then
      let T1 := { T with list := T.list.erase e, ht := T.ht.removeExisting (spkiNode e) }
      srcRemoveLoop src rest (T1.notify false e)
    else srcRemoveLoop src rest T

/-- `spki_table_src_remove` (always SPKI_SUCCESS: both `remove_existing` calls return the
    entry, never 0) -/
def srcRemove (T : SpkiTable) (src : Nat) : SpkiTable × SpkiRc :=
  (srcRemoveLoop src T.list T, .success)

/-- the loop of `spki_table_copy_except_socket`; stops at the first failing add -/
def copyLoop (src : Nat) : List SpkiRec → SpkiTable → SpkiTable × SpkiRc
  | [], D => (D, .success)
  | e :: rest, D =>
    if e.src != src then
      match D.add e with
      | (D', .success) => copyLoop src rest D'
      | (D', _) => (D', .error)
    else copyLoop src rest D

/-- `spki_table_copy_except_socket(src, dst, socket)`: returns dst and the return code -/
def copyExcept (S D : SpkiTable) (src : Nat) : SpkiTable × SpkiRc := copyLoop src S.list D

/-- `spki_table_swap`: hash table and list change places; callbacks (and logs) stay -/
def swap (A B : SpkiTable) : SpkiTable × SpkiTable :=
  ({ A with ht := B.ht, list := B.list }, { B with ht := A.ht, list := A.list })

/-- first loop of `spki_table_notify_diff` (over the list of `new`; `old` has no callback) -/
def diffLoop (src : Nat) : List SpkiRec → SpkiTable × SpkiTable → SpkiTable × SpkiTable
  | [], st => st
  | e :: rest, (N, O) =>
    if e.src == src then
      let (O', rc) := O.remove e
      if rc == .notFound then diffLoop src rest (N.notify true e, O')
      else diffLoop src rest (N, O')
    else diffLoop src rest (N, O)

/-- `spki_table_notify_diff(new, old, socket)`: returns (new, old) -/
def notifyDiff (N O : SpkiTable) (src : Nat) : SpkiTable × SpkiTable :=
  let O0 := { O with hasCb := false }
  let (N1, O1) := diffLoop src N.list (N, O0)
  let N2 := (O1.list.filter fun e => e.src == src).foldl (fun N e => N.notify false e) N1
  (N2, { O1 with hasCb := O.hasCb })

/-- `spki_table_free`: every entry released, hash table torn down; NO notification
    (the table is dead afterwards; the model leaves an empty table behind) -/
def free (T : SpkiTable) : SpkiTable := { T with ht := Hashlin.init, list := [] }

/-- `spki_table_free_without_notify` -/
def freeWithoutNotify (T : SpkiTable) : SpkiTable := { T with ht := Hashlin.init, list := [], hasCb := false }

end SpkiTable
end Rtr
