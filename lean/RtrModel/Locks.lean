/-
  Locks: the lock IR extracted from trie-pfx.c / trie.c / ht-spkitable.c (tools/gen_locks.py),
  its path semantics, the small-step interleaving semantics of any number of threads under
  POSIX rwlocks, and the `wellLocked` checker.  (C16, C06.)   Core Lean only.

  Layering
  * `Prog`      structured IR of one C function: `acq R|W ℓ`, `rel ℓ`, `rd x`, `wr x`, `call f`,
                `cb p` (invoke a function-pointer parameter), `alt` (if / short-circuit),
                `loop`, `ret`, `brk`; `unknown` for anything the extractor did not recognise.
                Locks and locations are named after the table *parameter* the access goes
                through (parameter index); `Prog.inst` renames them at a call.
  * `Exec`      path semantics: `Exec T p π o` — `π : List Ev` is the sequence of lock events and
                shared accesses of one complete run through `p` (branch conditions are
                abstracted: every branch can be taken, every loop can run any number of times,
                calls are inlined from the function table `T`, a write stores an arbitrary value).
  * `Sys`/`fire` small-step interleaving semantics: any number of threads, each running a path;
                in every state any thread whose next event is enabled may step.
                `acq W ℓ` is enabled iff ℓ has no writer and no reader, `acq R ℓ` iff no writer.
  * `check`     the checker: computes the lock state at every program point over all paths
                (unique lock state per point; loops must be lock-state invariant = post-fixpoint
                check on the lock-state lattice); `wellLocked`.
-/
namespace Rtr.Locks

/-! ## IR -/

inductive Mode where
  | R | W
deriving DecidableEq, Repr, Inhabited

/-- the parts of a table's shared state -/
inductive Part where
  | ipv4       -- `pfx_table->ipv4` (root pointer)
  | ipv6       -- `pfx_table->ipv6`
  | nodes      -- trie nodes, node_data, element arrays reachable from the roots
  | hashtable  -- `spki_table->hashtable`
  | list       -- `spki_table->list` (head pointer)
  | entries    -- key_entry objects / tommy nodes reachable from hashtable and list
deriving DecidableEq, Repr, Inhabited

/-- a shared location: part `part` of the table with id `tbl`; it is protected by the table's
    rwlock, which carries the same id -/
structure Loc where
  tbl : Nat
  part : Part
deriving DecidableEq, Repr, Inhabited

/-- binding of a function-pointer parameter at a call: a known static callback together with the
    tables it works on (in the caller's name space) -/
structure CbBind where
  fn : Nat
  tmap : List Nat
deriving DecidableEq, Repr, Inhabited

/-- actions; the trailing `Nat` is the source line (diagnostics only) -/
inductive Act where
  | acq (m : Mode) (l : Nat) (line : Nat)
  | rel (l : Nat) (line : Nat)
  | rd (x : Loc) (line : Nat)
  | wr (x : Loc) (line : Nat)
  | call (f : Nat) (tmap : List Nat) (cbs : List (Option CbBind)) (line : Nat)
  | cb (p : Nat) (line : Nat)
  | ext (line : Nat)
  | unknown (line : Nat)
deriving DecidableEq, Repr, Inhabited

inductive Prog where
  | skip
  | act (a : Act)
  | seq (p q : Prog)
  | alt (p q : Prog)
  | loop (p : Prog)
  | ret
  | brk
deriving DecidableEq, Repr, Inhabited

/-- right-nested sequence -/
def Prog.ofList : List Prog → Prog
  | [] => .skip
  | [p] => p
  | p :: ps => .seq p (Prog.ofList ps)

/-- summary of a helper without lock calls: its accesses, any number of times, in any order -/
def Prog.many (as : List Act) : Prog :=
  .loop (as.foldr (fun a p => .alt (.act a) p) .skip)

structure Fn where
  name : String
  ntbl : Nat      -- number of table parameters (ids 0 … ntbl-1)
  ncb : Nat       -- number of function-pointer parameters
  body : Prog
deriving Repr, Inhabited

/-- renaming of a table id at a call (`tm` = actual table of every formal) -/
def rn (tm : List Nat) (t : Nat) : Nat := tm.getD t t

def CbBind.rename (tm : List Nat) (b : CbBind) : CbBind := ⟨b.fn, b.tmap.map (rn tm)⟩

def Act.inst (tm : List Nat) (cbs : List (Option CbBind)) : Act → Act
  | .acq m l n => .acq m (rn tm l) n
  | .rel l n => .rel (rn tm l) n
  | .rd x n => .rd ⟨rn tm x.tbl, x.part⟩ n
  | .wr x n => .wr ⟨rn tm x.tbl, x.part⟩ n
  | .call f tm' cbs' n => .call f (tm'.map (rn tm)) (cbs'.map (Option.map (CbBind.rename tm))) n
  | .cb p n =>
    match cbs.getD p none with
    | some b => .call b.fn b.tmap [] n
    | none => .ext n
  | .ext n => .ext n
  | .unknown n => .unknown n

/-- instantiate a function body at a call site -/
def Prog.inst (tm : List Nat) (cbs : List (Option CbBind)) : Prog → Prog
  | .skip => .skip
  | .act a => .act (a.inst tm cbs)
  | .seq p q => .seq (p.inst tm cbs) (q.inst tm cbs)
  | .alt p q => .alt (p.inst tm cbs) (q.inst tm cbs)
  | .loop p => .loop (p.inst tm cbs)
  | .ret => .ret
  | .brk => .brk

/-! ## Path semantics -/

/-- events of one thread: lock operations and shared accesses. `bad` = unrecognised code ran. -/
inductive Ev where
  | acq (m : Mode) (l : Nat)
  | rel (l : Nat)
  | rd (x : Loc)
  | wr (x : Loc) (v : Nat)
  | bad
deriving DecidableEq, Repr, Inhabited

inductive Out where
  | norm | ret | brk
deriving DecidableEq, Repr

/-- `Exec T p π o`: `π` is the event sequence of one run through `p` ending normally, by `return`
    or by `break`.  Calls are inlined from `T`; an unbound callback parameter is external code
    (assumed not to touch table state); the value a write stores is arbitrary. -/
inductive Exec (T : List Fn) : Prog → List Ev → Out → Prop where
  | skip : Exec T .skip [] .norm
  | acq {m l n} : Exec T (.act (.acq m l n)) [.acq m l] .norm
  | rel {l n} : Exec T (.act (.rel l n)) [.rel l] .norm
  | rd {x n} : Exec T (.act (.rd x n)) [.rd x] .norm
  | wr {x n} (v : Nat) : Exec T (.act (.wr x n)) [.wr x v] .norm
  | ext {n} : Exec T (.act (.ext n)) [] .norm
  | cbFree {p n} : Exec T (.act (.cb p n)) [] .norm
  | unknown {n} : Exec T (.act (.unknown n)) [.bad] .norm
  | call {f tm cbs n fn π o} : T[f]? = some fn → Exec T (fn.body.inst tm cbs) π o → o ≠ .brk →
      Exec T (.act (.call f tm cbs n)) π .norm
  | seqNorm {p q π₁ π₂ o} : Exec T p π₁ .norm → Exec T q π₂ o → Exec T (.seq p q) (π₁ ++ π₂) o
  | seqStop {p q π o} : Exec T p π o → o ≠ .norm → Exec T (.seq p q) π o
  | altL {p q π o} : Exec T p π o → Exec T (.alt p q) π o
  | altR {p q π o} : Exec T q π o → Exec T (.alt p q) π o
  | loopDone {p} : Exec T (.loop p) [] .norm
  | loopStep {p π₁ π₂ o} : Exec T p π₁ .norm → Exec T (.loop p) π₂ o → Exec T (.loop p) (π₁ ++ π₂) o
  | loopBrk {p π} : Exec T p π .brk → Exec T (.loop p) π .norm
  | loopRet {p π} : Exec T p π .ret → Exec T (.loop p) π .ret
  | ret : Exec T .ret [] .ret
  | brk : Exec T .brk [] .brk

/-! ## Thread-local lock discipline -/

/-- the locks a thread holds, most recent first -/
abbrev Held := List (Nat × Mode)

def holds (h : Held) (l : Nat) : Bool := h.any (fun e => e.1 == l)
def holdsW (h : Held) (l : Nat) : Bool := h.any (fun e => e.1 == l && e.2 == Mode.W)

/-- is event `e` allowed while holding `h`?  `strict = false` exempts reads (discipline of the
    single writer thread: its own unguarded reads cannot conflict with anybody's writes). -/
def okEv (strict : Bool) (h : Held) : Ev → Bool
  | .acq _ l => !holds h l
  | .rel l => holds h l
  | .rd x => !strict || holds h x.tbl
  | .wr x _ => holdsW h x.tbl
  | .bad => false

def updHeld (h : Held) : Ev → Held
  | .acq m l => (l, m) :: h
  | .rel l => h.filter (fun e => e.1 != l)
  | _ => h

/-- run a path from lock state `h`: `none` as soon as an event violates the discipline -/
def runHeld (strict : Bool) : Held → List Ev → Option Held
  | h, [] => some h
  | h, e :: π => if okEv strict h e then runHeld strict (updHeld h e) π else none

/-- every access of the path is guarded (reads under R or W of the location's lock, writes under
    W), no lock is acquired twice, every release matches -/
def Guarded (strict : Bool) (π : List Ev) : Prop := (runHeld strict [] π).isSome = true

/-- guarded and all locks released at the end -/
def Balanced (strict : Bool) (π : List Ev) : Prop := runHeld strict [] π = some []

/-! ## Interleaving semantics -/

structure Thread where
  held : Held        -- ghost: the locks this thread holds (kept consistent with `writer`/`readers`)
  rest : List Ev     -- remaining events of the path it runs
deriving Inhabited

structure Sys where
  writer : Nat → Option Nat     -- lock ↦ thread holding it for writing
  readers : Nat → List Nat      -- lock ↦ threads holding it for reading
  store : Loc → Nat             -- shared store
  thr : Nat → Thread            -- thread id ↦ thread (ids are all naturals; idle threads have `rest = []`)

def upd {α β : Type} [DecidableEq α] (f : α → β) (a : α) (b : β) : α → β :=
  fun x => if x = a then b else f x

/-- is the event enabled for thread `i` in `s`? (rwlock semantics; accesses never block) -/
def enabled (s : Sys) (_i : Nat) : Ev → Bool
  | .acq .W l => (s.writer l).isNone && (s.readers l).isEmpty
  | .acq .R l => (s.writer l).isNone
  | _ => true

/-- effect of thread `i` performing `e` (its ghost lock set follows `updHeld`) -/
def apply (s : Sys) (i : Nat) (e : Ev) (r : List Ev) : Sys :=
  let th : Thread := ⟨updHeld (s.thr i).held e, r⟩
  match e with
  | .acq .W l => { s with writer := upd s.writer l (some i), thr := upd s.thr i th }
  | .acq .R l => { s with readers := upd s.readers l (i :: s.readers l), thr := upd s.thr i th }
  | .rel l =>
    if s.writer l = some i then { s with writer := upd s.writer l none, thr := upd s.thr i th }
    else { s with readers := upd s.readers l ((s.readers l).erase i), thr := upd s.thr i th }
  | .wr x v => { s with store := upd s.store x v, thr := upd s.thr i th }
  | .rd _ => { s with thr := upd s.thr i th }
  | .bad => { s with thr := upd s.thr i th }

/-- thread `i` takes one step -/
def fire (s : Sys) (i : Nat) : Option Sys :=
  match (s.thr i).rest with
  | [] => none
  | e :: r => if enabled s i e then some (apply s i e r) else none

/-- one step of the system: any thread whose next event is enabled -/
def Step (s s' : Sys) : Prop := ∃ i, fire s i = some s'

/-- reflexive-transitive closure -/
inductive Steps : Sys → Sys → Prop where
  | refl (s) : Steps s s
  | tail {s t u} : Steps s t → Step t u → Steps s u

/-- initial state: no lock held, thread `i` is about to run `paths i` -/
def init (store : Loc → Nat) (paths : Nat → List Ev) : Sys :=
  { writer := fun _ => none, readers := fun _ => [], store := store,
    thr := fun i => ⟨[], paths i⟩ }

def Reach (store : Loc → Nat) (paths : Nat → List Ev) (s : Sys) : Prop := Steps (init store paths) s

/-- the next event of thread `i` -/
def next (s : Sys) (i : Nat) : Option Ev := (s.thr i).rest.head?

/-- two accesses conflict: same location, at least one is a write -/
def conflict : Ev → Ev → Bool
  | .wr x _, .wr y _ => x == y
  | .wr x _, .rd y => x == y
  | .rd x, .wr y _ => x == y
  | _, _ => false

/-- a data race: two different threads are both about to perform conflicting accesses
    (accesses never block, so both are enabled: they can happen in either order, concurrently) -/
def Race (s : Sys) : Prop := ∃ i j e₁ e₂, i ≠ j ∧ next s i = some e₁ ∧ next s j = some e₂ ∧ conflict e₁ e₂ = true

/-- abstract value of table `l`: the content of all its parts -/
def abs (s : Sys) (l : Nat) : Part → Nat := fun p => s.store ⟨l, p⟩

/-- what a read by thread `i` returns in `s` -/
def observes (s : Sys) (i : Nat) : Option (Loc × Nat) :=
  match next s i with
  | some (.rd x) => some (x, s.store x)
  | _ => none

/-! ## The checker -/

/-- `check strict T fuel p entry lp h`: lock state after `p` when started with `h`.
    * `none`            — a violation on some path (unguarded access, double acquire, release of a
                          lock not held, `return` with a lock state other than `entry`, `break`
                          with a lock state other than the loop's, branches that join with
                          different lock states, a loop body that changes the lock state,
                          unrecognised code, fuel exhausted)
    * `some none`       — no path completes normally (all return / break)
    * `some (some h')`  — every path that completes normally ends with `h'`. -/
def check (strict : Bool) (T : List Fn) : Nat → Prog → Held → Option Held → Held → Option (Option Held)
  | 0, _, _, _, _ => none
  | _ + 1, .skip, _, _, h => some (some h)
  | n + 1, .act a, _, _, h =>
    match a with
    | .acq m l _ => if holds h l then none else some (some ((l, m) :: h))
    | .rel l _ => if holds h l then some (some (h.filter (fun e => e.1 != l))) else none
    | .rd x _ => if !strict || holds h x.tbl then some (some h) else none
    | .wr x _ => if holdsW h x.tbl then some (some h) else none
    | .ext _ => some (some h)
    | .cb _ _ => some (some h)
    | .unknown _ => none
    | .call f tm cbs _ =>
      match T[f]? with
      | none => none
      | some fn =>
        match check strict T n (fn.body.inst tm cbs) h none h with
        | none => none
        | some none => some (some h)
        | some (some h') => if h' = h then some (some h) else none
  | n + 1, .seq p q, e, lp, h =>
    match check strict T n p e lp h with
    | none => none
    | some none => some none
    | some (some h₁) => check strict T n q e lp h₁
  | n + 1, .alt p q, e, lp, h =>
    match check strict T n p e lp h, check strict T n q e lp h with
    | some none, some r => some r
    | some (some h₁), some none => some (some h₁)
    | some (some h₁), some (some h₂) => if h₁ = h₂ then some (some h₁) else none
    | _, _ => none
  | n + 1, .loop p, e, _, h =>
    match check strict T n p e (some h) h with
    | none => none
    | some none => some (some h)
    | some (some h') => if h' = h then some (some h) else none
  | _ + 1, .ret, e, _, h => if h = e then some none else none
  | _ + 1, .brk, _, lp, h => if lp = some h then some none else none

def fuel : Nat := 400

/-- all paths through the body of function `f` are guarded and release every lock -/
def wellLocked (strict : Bool) (T : List Fn) (f : Nat) : Bool :=
  match T[f]? with
  | none => false
  | some fn =>
    match check strict T fuel fn.body [] none [] with
    | some none => true
    | some (some h) => h.isEmpty
    | none => false

/-- same for an arbitrary (client) program -/
def wellLockedProg (strict : Bool) (T : List Fn) (p : Prog) : Bool :=
  match check strict T fuel p [] none [] with
  | some none => true
  | some (some h) => h.isEmpty
  | none => false

/-- upper bound on the number of acquisitions selected by `sel` (mode, lock) on any path;
    `none` = unbounded (a selected acquisition inside a loop) or fuel exhausted -/
def acqBound (sel : Mode → Nat → Bool) (T : List Fn) : Nat → Prog → Option Nat
  | 0, _ => none
  | n + 1, .act a =>
    match a with
    | .acq m l _ => some (if sel m l then 1 else 0)
    | .call f tm cbs _ =>
      match T[f]? with
      | none => none
      | some fn => acqBound sel T n (fn.body.inst tm cbs)
    | _ => some 0
  | n + 1, .seq p q =>
    match acqBound sel T n p, acqBound sel T n q with
    | some a, some b => some (a + b)
    | _, _ => none
  | n + 1, .alt p q =>
    match acqBound sel T n p, acqBound sel T n q with
    | some a, some b => some (max a b)
    | _, _ => none
  | n + 1, .loop p =>
    match acqBound sel T n p with
    | some 0 => some 0
    | _ => none
  | _ + 1, _ => some 0

def isAcq (sel : Mode → Nat → Bool) : Ev → Bool
  | .acq m l => sel m l
  | _ => false

/-- number of selected acquisitions in a path -/
def countAcq (sel : Mode → Nat → Bool) (π : List Ev) : Nat := π.countP (isAcq sel)

/-- selector: every write acquisition -/
def anyW : Mode → Nat → Bool := fun m _ => m == Mode.W
/-- selector: write acquisition of lock `L` -/
def selL (L : Nat) : Mode → Nat → Bool := fun m l => m == Mode.W && l == L
/-- selector: every acquisition -/
def anyAcq : Mode → Nat → Bool := fun _ _ => true

/-- locations written by the program text itself (calls not followed) -/
def Prog.writes : Prog → List Loc
  | .act (.wr x _) => [x]
  | .seq p q => p.writes ++ q.writes
  | .alt p q => p.writes ++ q.writes
  | .loop p => p.writes
  | _ => []

/-- replace every write by writes of the same part of every table in `ls`: the result is well
    locked iff every write of the original happens while holding the write locks of all `ls` -/
def Prog.requireAtWrites (ls : List Nat) : Prog → Prog
  | .act (.wr x n) => ls.foldr (fun l p => .seq (.act (.wr ⟨l, x.part⟩ n)) p) .skip
  | .seq p q => .seq (p.requireAtWrites ls) (q.requireAtWrites ls)
  | .alt p q => .alt (p.requireAtWrites ls) (q.requireAtWrites ls)
  | .loop p => .loop (p.requireAtWrites ls)
  | p => p

/-- one concrete path through a program, steered by a list of choices (`true` = left branch /
    one more loop iteration; exhausted = left branch / leave the loop); writes store 0 -/
def runPath (T : List Fn) : Nat → Prog → List Bool → Option (List Ev × Out × List Bool)
  | 0, _, _ => none
  | _ + 1, .skip, cs => some ([], .norm, cs)
  | n + 1, .act a, cs =>
    match a with
    | .acq m l _ => some ([.acq m l], .norm, cs)
    | .rel l _ => some ([.rel l], .norm, cs)
    | .rd x _ => some ([.rd x], .norm, cs)
    | .wr x _ => some ([.wr x 0], .norm, cs)
    | .ext _ => some ([], .norm, cs)
    | .cb _ _ => some ([], .norm, cs)
    | .unknown _ => some ([.bad], .norm, cs)
    | .call f tm cbs _ =>
      match T[f]? with
      | none => none
      | some fn =>
        match runPath T n (fn.body.inst tm cbs) cs with
        | some (_, .brk, _) => none
        | some (π, _, cs') => some (π, .norm, cs')
        | none => none
  | n + 1, .seq p q, cs =>
    match runPath T n p cs with
    | some (π₁, .norm, cs₁) =>
      match runPath T n q cs₁ with
      | some (π₂, o, cs₂) => some (π₁ ++ π₂, o, cs₂)
      | none => none
    | r => r
  | n + 1, .alt p q, cs =>
    match cs with
    | false :: cs' => runPath T n q cs'
    | true :: cs' => runPath T n p cs'
    | [] => runPath T n p []
  | n + 1, .loop p, cs =>
    match cs with
    | true :: cs' =>
      match runPath T n p cs' with
      | some (π₁, .norm, cs₁) =>
        match runPath T n (.loop p) cs₁ with
        | some (π₂, o, cs₂) => some (π₁ ++ π₂, o, cs₂)
        | none => none
      | some (π₁, .brk, cs₁) => some (π₁, .norm, cs₁)
      | r => r
    | _ :: cs' => some ([], .norm, cs')
    | [] => some ([], .norm, [])
  | _ + 1, .ret, cs => some ([], .ret, cs)
  | _ + 1, .brk, cs => some ([], .brk, cs)

/-! ## Diagnostics (driver / replay files; not used by any theorem) -/

def Mode.str : Mode → String
  | .R => "R" | .W => "W"

def Part.str : Part → String
  | .ipv4 => "ipv4" | .ipv6 => "ipv6" | .nodes => "nodes" | .hashtable => "hashtable"
  | .list => "list" | .entries => "entries"

def heldStr (h : Held) : String :=
  "[" ++ ", ".intercalate (h.map fun e => s!"{e.2.str}(t{e.1})") ++ "]"

/-- like `check`, but reports the first violation: `.error msg` -/
def diag (strict : Bool) (T : List Fn) (ctx : String) : Nat → Prog → Held → Option Held → Held → Except String (Option Held)
  | 0, _, _, _, _ => .error s!"{ctx}: fuel exhausted"
  | _ + 1, .skip, _, _, h => .ok (some h)
  | n + 1, .act a, _, _, h =>
    match a with
    | .acq m l ln => if holds h l then .error s!"{ctx}: line {ln}: acq {m.str} t{l} while already holding it, held={heldStr h}" else .ok (some ((l, m) :: h))
    | .rel l ln => if holds h l then .ok (some (h.filter (fun e => e.1 != l))) else .error s!"{ctx}: line {ln}: rel t{l} which is not held, held={heldStr h}"
    | .rd x ln => if !strict || holds h x.tbl then .ok (some h) else .error s!"{ctx}: line {ln}: unguarded read of t{x.tbl}.{x.part.str}, held={heldStr h}"
    | .wr x ln => if holdsW h x.tbl then .ok (some h) else .error s!"{ctx}: line {ln}: write of t{x.tbl}.{x.part.str} without the write lock, held={heldStr h}"
    | .ext _ => .ok (some h)
    | .cb _ _ => .ok (some h)
    | .unknown ln => .error s!"{ctx}: line {ln}: code the extractor does not recognise"
    | .call f tm cbs ln =>
      match T[f]? with
      | none => .error s!"{ctx}: line {ln}: call of unknown function #{f}"
      | some fn =>
        match diag strict T s!"{ctx} -> {fn.name}{tm}" n (fn.body.inst tm cbs) h none h with
        | .error m => .error m
        | .ok none => .ok (some h)
        | .ok (some h') => if h' = h then .ok (some h) else .error s!"{ctx}: line {ln}: {fn.name} returns holding {heldStr h'}, entered with {heldStr h}"
  | n + 1, .seq p q, e, lp, h =>
    match diag strict T ctx n p e lp h with
    | .error m => .error m
    | .ok none => .ok none
    | .ok (some h₁) => diag strict T ctx n q e lp h₁
  | n + 1, .alt p q, e, lp, h =>
    match diag strict T ctx n p e lp h, diag strict T ctx n q e lp h with
    | .error m, _ => .error m
    | _, .error m => .error m
    | .ok none, .ok r => .ok r
    | .ok (some h₁), .ok none => .ok (some h₁)
    | .ok (some h₁), .ok (some h₂) => if h₁ = h₂ then .ok (some h₁) else .error s!"{ctx}: branches join with different lock states {heldStr h₁} / {heldStr h₂}"
  | n + 1, .loop p, e, _, h =>
    match diag strict T ctx n p e (some h) h with
    | .error m => .error m
    | .ok none => .ok (some h)
    | .ok (some h') => if h' = h then .ok (some h) else .error s!"{ctx}: loop body changes the lock state {heldStr h} -> {heldStr h'}"
  | _ + 1, .ret, e, _, h => if h = e then .ok none else .error s!"{ctx}: return while holding {heldStr h} (entered with {heldStr e})"
  | _ + 1, .brk, _, lp, h => if lp = some h then .ok none else .error s!"{ctx}: break with lock state {heldStr h} different from the loop's"

/-- `none` = well locked, `some msg` = first violation -/
def diagnose (strict : Bool) (T : List Fn) (f : Nat) : Option String :=
  match T[f]? with
  | none => some s!"no function #{f}"
  | some fn =>
    match diag strict T fn.name fuel fn.body [] none [] with
    | .error m => some m
    | .ok none => none
    | .ok (some h) => if h.isEmpty then none else some s!"{fn.name}: falls off the end holding {heldStr h}"

end Rtr.Locks
