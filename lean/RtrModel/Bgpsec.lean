/-
  Bgpsec: executable, byte-level model of rtrlib/bgpsec/bgpsec.c + bgpsec_utils.c (C11, C12)
  and, separately, the SPECIFICATION `Rfc8205.digestOf` of the octet sequence of RFC 8205 §4.2.

  Modelled exactly as the C text computes it:
    * `alignBytes`            = `align_byte_sequence` (VALIDATION and SIGNING)
    * `reqStreamSize`         = `req_stream_size` / `get_sig_seg_size`
    * `valLoop`               = the `for (offset …)` loop of `rtr_bgpsec_validate_as_path`, hashing
                                the stream suffix at a moving offset (`read_stream_at`)
    * `searchBySki`, `checkRouterKeys`, `tryKeys` = key selection and the inner key loop
    * `validate`, `generateSignature` = decision logic and error-code order of the two entry points
  over UNINTERPRETED `hash`, `verify`, `sign` (parameters).  Bytes are `Nat`s (`< 256` is part of
  the well-formedness predicates of the theorems; the driver refuses anything else).

  Representation decisions
    * a NULL list pointer is the empty list; `data == NULL` / `table == NULL` are `none`;
    * `path_len` / `sigs_len` are the lengths of the lists (the API maintains them, "do not edit
      manually"); they are unbounded here, i.e. the model describes the code with counters that
      do not wrap (`uint8_t path_len` wraps at 256 in the current tree: finding Fbgp1);
    * stream offsets are unbounded (`uint16_t` in the current tree: total size must stay < 65536, finding Fbgp2);
    * `sig_len` is `sig.length`, `nlri->nlri` holds exactly `(nlri_len+7)/8` bytes;
    * `stop = false` is the validation loop of the current tree (bounded by the stream offset only),
      `stop = true` the repaired loop that also ends with the Signature Segment list;
    * `KeyMode.skiOnly` is what the current tree does (router keys selected by SKI only, F10),
      `KeyMode.skiAndAs` is the repaired behaviour (the key must also be registered for the AS of
      the corresponding Secure_Path segment);
    * THE KEY TABLE IS SHARED with the RTR threads; every lookup of one validation call takes the table's
      read lock separately.  A call therefore does not see "the" table but a sequence of snapshots:
      `View = Nat → Table`, `V k` being the table as the k-th lookup of the call finds it (lookups are
      numbered in program order: one per Signature Segment in `check_router_keys`, then one per iteration
      of the validation loop).  `validate … T` (one fixed table) is the special case `fun _ => T`;
    * `validate_signature` = `validateSignature`: the signature field must be the strict DER encoding of an
      ECDSA-Sig-Value (`ECDSA_verify` re-encodes what it parsed and compares; parameter `wf`), only then
      the uninterpreted `verify` (ECDSA_do_verify) is asked; anything else is `error`.
-/
namespace Rtr.Bgpsec

/-! ## data -/

/-- `struct rtr_secure_path_seg` -/
structure PathSeg where
  pcount : Nat
  flags : Nat
  asn : Nat
deriving DecidableEq, Repr, Inhabited

/-- `struct rtr_signature_seg` (`sig_len = sig.length`) -/
structure SigSeg where
  ski : List Nat
  sig : List Nat
deriving DecidableEq, Repr, Inhabited

/-- `struct rtr_bgpsec_nlri`: `afi` is `nlri->afi` (the one the entry points CHECK),
    `len` the prefix length in bits, `bytes` the prefix octets -/
structure Nlri where
  afi : Nat
  len : Nat
  bytes : List Nat
deriving DecidableEq, Repr, Inhabited

/-- `struct rtr_bgpsec`; `afi`/`safi` are `data->afi`/`data->safi` (the ones that are HASHED).
    Lists in AS-path order: most recently added segment first. -/
structure Data where
  alg : Nat
  afi : Nat
  safi : Nat
  targetAs : Nat
  nlri : Nlri
  path : List PathSeg
  sigs : List SigSeg
deriving DecidableEq, Repr, Inhabited

/-- `enum rtr_bgpsec_rtvals`, plus `fault` for executions that leave defined behaviour
    (NULL dereference in the validation loop, see `valLoop`) -/
inductive Rc where
  | notValid | valid | success | error | loadPubKeyError | loadPrivKeyError | routerKeyNotFound
  | signingError | unsupportedAlgorithmSuite | unsupportedAfi | wrongSegmentCount | invalidArguments
  | fault
deriving DecidableEq, Repr, Inhabited

def Rc.name : Rc → String
  | .notValid => "NOT_VALID" | .valid => "VALID" | .success => "SUCCESS" | .error => "ERROR"
  | .loadPubKeyError => "LOAD_PUB_KEY_ERROR" | .loadPrivKeyError => "LOAD_PRIV_KEY_ERROR"
  | .routerKeyNotFound => "ROUTER_KEY_NOT_FOUND" | .signingError => "SIGNING_ERROR"
  | .unsupportedAlgorithmSuite => "UNSUPPORTED_ALGORITHM_SUITE" | .unsupportedAfi => "UNSUPPORTED_AFI"
  | .wrongSegmentCount => "WRONG_SEGMENT_COUNT" | .invalidArguments => "INVALID_ARGUMENTS"
  | .fault => "FAULT"

/-- the numeric values of `enum rtr_bgpsec_rtvals` -/
def Rc.code : Rc → Int
  | .notValid => 2 | .valid => 1 | .success => 0 | .error => -1 | .loadPubKeyError => -2
  | .loadPrivKeyError => -3 | .routerKeyNotFound => -4 | .signingError => -5
  | .unsupportedAlgorithmSuite => -6 | .unsupportedAfi => -7 | .wrongSegmentCount => -8
  | .invalidArguments => -9 | .fault => -99

inductive AlignType where
  | validation | signing
deriving DecidableEq, Repr

/-! ## serialisation primitives (`htonl`/`htons` + `write_stream`) -/

def be16 (n : Nat) : List Nat := [n / 256 % 256, n % 256]
def be32 (n : Nat) : List Nat := [n / 16777216 % 256, n / 65536 % 256, n / 256 % 256, n % 256]

/-- one Secure_Path Segment on the wire: pCount, Flags, AS Number (RFC 8205 Figure 5) -/
def pathBytes (p : PathSeg) : List Nat := [p.pcount, p.flags] ++ be32 p.asn

/-- one Signature Segment on the wire: SKI, Signature Length, Signature (RFC 8205 Figure 7) -/
def sigBytes (s : SigSeg) : List Nat := s.ski ++ (be16 s.sig.length ++ s.sig)

def nlriB (len : Nat) : Nat := (len + 7) / 8

/-- Algorithm Suite Identifier, AFI, SAFI, NLRI (length octet + prefix octets) -/
def tailBytes (d : Data) : List Nat := [d.alg] ++ (be16 d.afi ++ ([d.safi] ++ ([d.nlri.len] ++ d.nlri.bytes)))

/-! ## the code: `align_byte_sequence`, `req_stream_size` -/

/-- the `while (tmp_sec)` loop of `align_byte_sequence`: a signature segment is written before the
    Secure_Path segment as long as signature segments are left -/
def alignLoop : List PathSeg → List SigSeg → List Nat
  | [], _ => []
  | p :: ps, [] => pathBytes p ++ alignLoop ps []
  | p :: ps, s :: ss => sigBytes s ++ (pathBytes p ++ alignLoop ps ss)

/-- the signature list `align_byte_sequence` starts from: `data->sigs->next` for VALIDATION -/
def startSigs : AlignType → List SigSeg → List SigSeg
  | .validation, ss => ss.drop 1
  | .signing, ss => ss

/-- `align_byte_sequence`: the bytes written to the stream, in order -/
def alignBytes (ty : AlignType) (d : Data) : List Nat :=
  be32 d.targetAs ++ (alignLoop d.path (startSigs ty d.sigs) ++ tailBytes d)

/-- `get_sig_seg_size` -/
def sigSegSize (ty : AlignType) (ss : List SigSeg) : Nat :=
  ((startSigs ty ss).map fun s => s.sig.length + 2 + 20).sum

/-- `req_stream_size` (SECURE_PATH_SEG_SIZE = 6, SKI_SIZE = 20) -/
def reqStreamSize (ty : AlignType) (d : Data) : Nat :=
  9 + nlriB d.nlri.len + sigSegSize ty d.sigs + 6 * d.path.length

/-! ## the code: key selection -/

/-- `struct spki_record` without the socket -/
structure Key where
  asn : Nat
  ski : List Nat
  spki : List Nat
deriving DecidableEq, Repr, Inhabited

/-- the router-key table as its insertion-ordered list (`spki_table->list`), which is what
    `spki_table_search_by_ski` walks -/
abbrev Table := List Key

/-- `spki_table_search_by_ski`: all records with that SKI, in list order -/
def searchBySki (T : Table) (ski : List Nat) : List Key := T.filter fun k => k.ski = ski

inductive KeyMode where
  | skiOnly    -- current tree (F10)
  | skiAndAs   -- repaired: the key must be registered for the AS of the Secure_Path segment
deriving DecidableEq, Repr

/-- does key `k` count for a segment signed under `ski` by AS `asn`? -/
def keyOk (m : KeyMode) (ski : List Nat) (asn : Nat) (k : Key) : Bool :=
  match m with
  | .skiOnly => k.ski = ski
  | .skiAndAs => k.ski = ski && k.asn = asn

/-- the keys that may validate hop (`ski`, `asn`) -/
def keysFor (m : KeyMode) (T : Table) (ski : List Nat) (asn : Nat) : List Key := T.filter (keyOk m ski asn)

/-- The key table as one call sees it: `V k` is the table found by the k-th lookup of the call
    (each lookup holds the table's read lock on its own; writers may run in between). -/
abbrev View := Nat → Table

/-- `check_router_keys`: first Signature Segment without a usable router key → `ROUTER_KEY_NOT_FOUND`.
    (`skiAndAs`: the repaired function walks the Secure_Path in parallel.)  `k` is the number of the
    lookup made for the first segment of the list. -/
def checkRouterKeysV (m : KeyMode) (V : View) : Nat → List SigSeg → List PathSeg → Rc
  | _, [], _ => .success
  | k, s :: ss, ps =>
    let asn := (ps.head?.map (·.asn)).getD 0
    if (keysFor m (V k) s.ski asn).isEmpty then .routerKeyNotFound else checkRouterKeysV m V (k + 1) ss ps.tail

/-- `check_router_keys` against a table nobody changes meanwhile -/
def checkRouterKeys (m : KeyMode) (T : Table) (ss : List SigSeg) (ps : List PathSeg) : Rc :=
  checkRouterKeysV m (fun _ => T) 0 ss ps

/-! ## the code: validation -/

/-- result of `validate_signature` for one key: `load_public_key` failure or `ECDSA_verify = -1`
    is `error`, 0 is `notValid`, 1 is `valid` -/
inductive VRes where
  | valid | notValid | error
deriving DecidableEq, Repr, Inhabited

def VRes.rc : VRes → Rc
  | .valid => .valid | .notValid => .notValid | .error => .error

/-- `validate_signature` for one router key whose public key loads (`verify` answers `error` for one
    that does not): `ECDSA_verify` = "the `sig_len` octets are exactly the DER encoding of the
    ECDSA-Sig-Value they parse to" (`wf`; otherwise -1 = `error`), then the signature check proper. -/
def validateSignature {H : Type} (wf : List Nat → Bool) (verify : List Nat → H → List Nat → VRes)
    (spki : List Nat) (h : H) (sig : List Nat) : VRes :=
  if wf sig then verify spki h sig else .error

section crypto
variable {H : Type} (hash : List Nat → H) (verify : List Nat → H → List Nat → VRes)

/-- the inner `for (j …)` loop over the router keys found for the SKI: `acc` is `retval` as it
    stands before the iteration; the first key giving VALID ends the loop, otherwise the
    verdict of the LAST key tried is what remains.  `skiAndAs`: a verifying key only counts
    when it is registered for the AS of the Secure_Path segment. -/
def tryKeys (m : KeyMode) (h : H) (sig : List Nat) (asn : Nat) : List Key → Rc → Rc
  | [], acc => acc
  | k :: ks, _ =>
    let r := (verify k.spki h sig).rc
    let r := if m = .skiAndAs ∧ r = .valid ∧ k.asn ≠ asn then Rc.notValid else r
    if r = .valid then .valid else tryKeys m h sig asn ks r

/-- the `for (offset = 0, next_offset = 0; offset <= size && retval == VALID; offset += next_offset)`
    loop.  `ss`/`ps` are `tmp_sig` and the Secure_Path cursor, `off` is `offset`, `k` the number of the
    table lookup this iteration makes.
      * `ss = []` is `tmp_sig == NULL`: the current C code evaluates `tmp_sig->next` if the loop
        condition `offset <= size` still holds there → `fault` (`stop = false`; finding "loop overrun");
        the repaired loop also tests `tmp_sig` (`stop = true`);
      * the hashed bytes are the stream suffix from `off` (`read_stream_at` with `len = size - off`);
      * `retval` is `RTR_BGPSEC_SUCCESS` (the status of `hash_byte_sequence`) when the key loop starts: a
        lookup that returns NO key leaves it there, the loop condition `retval == VALID` fails and
        `SUCCESS` (0, not VALID) is the answer of the call;
      * `next_offset = sig_len(next segment, or this one if it is the last) + 20 + 2 + 6`. -/
def valLoopV (m : KeyMode) (stop : Bool) (V : View) (stream : List Nat) : Nat → List SigSeg → List PathSeg → Nat → Rc
  | _, [], _, off => if stop then .valid else if off ≤ stream.length then .fault else .valid
  | k, s :: ss, ps, off =>
    if stream.length < off then .valid
    else
      let nextLen := match ss with
        | s' :: _ => s'.sig.length
        | [] => s.sig.length
      let h := hash (stream.drop off)
      let asn := (ps.head?.map (·.asn)).getD 0
      let r := tryKeys verify m h s.sig asn (searchBySki (V k) s.ski) .success
      if r = .valid then valLoopV m stop V stream (k + 1) ss ps.tail (off + (nextLen + 28)) else r

/-- the loop against a table nobody changes meanwhile -/
def valLoop (m : KeyMode) (stop : Bool) (T : Table) (stream : List Nat) (ss : List SigSeg) (ps : List PathSeg) (off : Nat) : Rc :=
  valLoopV hash verify m stop (fun _ => T) stream 0 ss ps off

/-- `rtr_bgpsec_validate_as_path` after the NULL checks of `data` and `table`, the table being whatever
    each lookup finds: lookups `0 … n-1` are those of `check_router_keys` (one per Signature Segment, in
    order, until the first one that finds nothing), lookup `n + i` is the one of loop iteration `i`. -/
def validateV (m : KeyMode) (stop : Bool) (d : Data) (V : View) : Rc :=
  if d.path = [] ∨ d.sigs = [] then .invalidArguments
  else if d.path.length ≠ d.sigs.length then .wrongSegmentCount
  else if d.alg ≠ 1 then .unsupportedAlgorithmSuite
  else if d.nlri.afi ≠ 1 ∧ d.nlri.afi ≠ 2 then .unsupportedAfi
  else
    match checkRouterKeysV m V 0 d.sigs d.path with
    | .success => valLoopV hash verify m stop V (alignBytes .validation d) d.sigs.length d.sigs d.path 0
    | e => e

/-- `rtr_bgpsec_validate_as_path` while nobody changes the table -/
def validate (m : KeyMode) (stop : Bool) (d : Data) (T : Table) : Rc :=
  validateV hash verify m stop d (fun _ => T)

/-- `rtr_bgpsec_validate_as_path` including `!data || !table` -/
def validateArgs (m : KeyMode) (stop : Bool) (d : Option Data) (T : Option Table) : Rc :=
  match d, T with
  | some d, some T => validate hash verify m stop d T
  | _, _ => .invalidArguments

/-- the entry point with all its pointer arguments: `nlriNull` is `data->nlri == NULL`, which the
    repaired argument check refuses together with the other missing members (the current tree reads
    `data->nlri->afi` unchecked: finding Fbgp4) -/
def validateEntry (m : KeyMode) (stop : Bool) (d : Option Data) (nlriNull : Bool) (T : Option Table) : Rc :=
  if nlriNull then .invalidArguments else validateArgs hash verify m stop d T

/-- the whole of `rtr_bgpsec_validate_as_path` + `validate_signature`: table snapshots per lookup,
    strict-DER requirement on every signature field, uninterpreted hash / ECDSA check -/
def validateFull (wf : List Nat → Bool) (m : KeyMode) (stop : Bool) (d : Data) (V : View) : Rc :=
  validateV hash (validateSignature wf verify) m stop d V

end crypto

/-! ## the code: signing -/

section signing
variable {H SK : Type} (hash : List Nat → H) (loadKey : List Nat → Option SK) (sign : SK → H → List Nat)

/-- `rtr_bgpsec_generate_signature`.  `key = none` is `private_key == NULL`, `outNull = false` is
    `*new_signature != NULL`.  `loadKey` is `load_private_key` followed by `ECDSA_size ≠ 0`;
    `sign` is `ECDSA_sign` (an empty result is `sig_res < 1`). -/
def generateSignature (d : Option Data) (key : Option (List Nat)) (outNull : Bool) : Rc × Option (List Nat) :=
  match d, key with
  | some d, some key =>
    if d.path = [] ∨ outNull = false then (.invalidArguments, none)
    else if d.alg ≠ 1 then (.unsupportedAlgorithmSuite, none)
    else if d.nlri.afi ≠ 1 ∧ d.nlri.afi ≠ 2 then (.unsupportedAfi, none)
    else if d.path.length ≠ d.sigs.length + 1 then (.wrongSegmentCount, none)
    else match loadKey key with
      | none => (.loadPrivKeyError, none)
      | some sk =>
        let sig := sign sk (hash (alignBytes .signing d))
        if sig.length < 1 then (.signingError, none) else (.success, some sig)
  | _, _ => (.invalidArguments, none)

/-- `rtr_bgpsec_generate_signature` with `data->nlri == NULL` refused by the (repaired) argument check -/
def generateEntry (d : Option Data) (nlriNull : Bool) (key : Option (List Nat)) (outNull : Bool) : Rc × Option (List Nat) :=
  if nlriNull then (.invalidArguments, none) else generateSignature hash loadKey sign d key outNull

end signing

/-! ## the per-hop offsets of the validation loop, in closed form

`offsetAt sigs i` is the value of `offset` at the start of iteration `i` (sum of the
`next_offset`s of iterations `0 … i-1`).  `valLoop` does not use it; `RtrProofs.Bgpsec` proves
that the loop visits exactly these offsets. -/
def offsetAt : List SigSeg → Nat → Nat
  | _, 0 => 0
  | [], _ + 1 => 0
  | [s], i + 1 => s.sig.length + 28 + offsetAt [] i
  | _ :: s' :: ss, i + 1 => s'.sig.length + 28 + offsetAt (s' :: ss) i

end Rtr.Bgpsec

/-! ## SPECIFICATION: the octets to be hashed, RFC 8205 §4.2

Reading of the RFC (Figure 8 and the text around it).  The signature that the AS of
Secure_Path Segment N puts into its Signature Segment N is computed over

    Target AS Number (4 octets)                     -- the AS the UPDATE is sent to
    Signature Segment   N-1 , Secure_Path Segment N
    Signature Segment   N-2 , Secure_Path Segment N-1
      …
    Signature Segment   1   , Secure_Path Segment 2
    Secure_Path Segment 1                            -- the origin; no signature precedes it
    Algorithm Suite Identifier (1), AFI (2), SAFI (1), NLRI (length octet + prefix octets,
                                                        trailing bits zero)

where segments are numbered from the origin (1) to the signer (N), a Secure_Path Segment is
pCount(1) Flags(1) AS(4) and a Signature Segment is SKI(20) Length(2) Signature.  The signer's
own Signature Segment (N) is of course not part of what it signs.  For validation (§5.2) the same
sequence is rebuilt for every segment k of the received path, where the Target AS of segment k
is the AS number of Secure_Path Segment k+1, and for the most recent segment the validator's own
AS number.

`digestOf` writes this down as a recursive function over the Secure_Path *from the signer back to
the origin* (`ps`, signer first) and the Signature Segments *older than the signer's* (`ss`, most
recent first; one fewer than `ps`).  It does not mention streams or offsets.  The NLRI octets are
taken as given: zero trailing bits are the caller's documented obligation ("Trailing bits must be
set to 0", bgpsec.h), rtrlib does not mask them.
-/
namespace Rtr.Rfc8205
open Rtr.Bgpsec

/-- the "Data from N segments" block of Figure 8 -/
def segments : List PathSeg → List SigSeg → List Nat
  | [], _ => []
  | [p], _ => pathBytes p
  | p :: p' :: ps, [] => pathBytes p ++ segments (p' :: ps) []     -- malformed input (a signature is missing)
  | p :: p' :: ps, s :: ss => sigBytes s ++ (pathBytes p ++ segments (p' :: ps) ss)

/-- octets hashed by the signer whose Secure_Path Segment is `ps.head`, sending to `target` -/
def digestOf (d : Data) (target : Nat) (ps : List PathSeg) (ss : List SigSeg) : List Nat :=
  be32 target ++ (segments ps ss ++ tailBytes d)

/-- Target AS of hop `i` of a path `ps` (`i = 0` most recent) that was sent to `t`: the AS of the
    next more recent Secure_Path Segment, `t` itself for hop 0 -/
def targetOf (t : Nat) (ps : List PathSeg) : Nat → Nat
  | 0 => t
  | i + 1 => ((ps[i]?).map (·.asn)).getD 0

/-- Target AS of hop `i` of a received path; the validator (`d.targetAs`) for hop 0 -/
def targetAt (d : Data) (i : Nat) : Nat := targetOf d.targetAs d.path i

/-- octets whose hash Signature Segment `i` of a received path must sign -/
def digest (d : Data) (i : Nat) : List Nat :=
  digestOf d (targetAt d i) (d.path.drop i) (d.sigs.drop (i + 1))

/-- octets a speaker hashes when it signs: `d.path` already holds its own new Secure_Path
    Segment, `d.sigs` the Signature Segments received -/
def signDigest (d : Data) : List Nat := digestOf d d.targetAs d.path d.sigs

end Rtr.Rfc8205
