/-
  NamesIR: the tiny intermediate representation into which tools/gen_constants.py translates the
  bodies of `rtr_state_to_str` / `rtr_mgr_status_to_str` (clang AST), and its semantics.

  Recognised source shapes
      return T[p];                                        shape = unchecked, guards = []
      if (c1 || c2 ...) return NULL; ... return T[p];     shape = guarded,   guards = [c1, c2, ...]
      return helper(T, <constants>, p);                   one level of delegation: the helper's body must
                                                          have one of the two shapes above over its own
                                                          parameters; passing `p` to the helper's parameter is
                                                          one more conversion in every chain
  where every `ci` compares the parameter, converted through a chain of integer types, with a
  constant, and the index is the parameter converted through `indexConvs` (signedness matters: an
  `int` index is negative for arguments >= 2^31).  Any other body is `unrecognised` and has no
  semantics here (outcome `unknown`).
-/
namespace Rtr.NamesIR

/-- a C integer type: width in bits and signedness -/
structure CInt where
  bits : Nat
  signed : Bool
deriving DecidableEq, Repr

/-- conversion of an integer value to the type (C11 6.3.1.3; gcc/clang: reduction modulo 2^bits) -/
def CInt.wrap (t : CInt) (v : Int) : Int :=
  let m : Int := 2 ^ t.bits
  let r := v % m
  if t.signed ∧ m ≤ 2 * r then r - m else r

inductive Cmp where
  | lt | le | gt | ge | eq | ne
deriving DecidableEq, Repr

def Cmp.eval : Cmp → Int → Int → Bool
  | .lt, a, b => decide (a < b)
  | .le, a, b => decide (a ≤ b)
  | .gt, a, b => decide (a > b)
  | .ge, a, b => decide (a ≥ b)
  | .eq, a, b => decide (a = b)
  | .ne, a, b => decide (a ≠ b)

/-- one comparison `(conv … p) op const`; `convs` are the conversions applied to the parameter in
    order, the last one is the type the comparison is performed in; `const` is the other operand
    as a value of that type -/
structure Guard where
  convs : List CInt
  op : Cmp
  const : Int
deriving DecidableEq, Repr

inductive Shape where
  | unchecked | guarded | unrecognised
deriving DecidableEq, Repr

/-- extracted body of a to-string function; `paramTy` is the type the compiler gives the enum -/
structure ToStrFn where
  shape : Shape
  paramTy : CInt
  /-- conversions applied to the parameter before it is used as the array index -/
  indexConvs : List CInt := []
  guards : List Guard
deriving DecidableEq, Repr

/-- what a call does: returns a string / NULL, reads outside the table, or is not modelled -/
inductive Outcome where
  | ok (r : Option String)
  | oob
  | unknown
deriving DecidableEq, Repr

def Guard.fires (g : Guard) (v : Int) : Bool :=
  g.op.eval (g.convs.foldl (fun x t => t.wrap x) v) g.const

/-- the function on the parameter value `v` (already a value of the enum's type) -/
def ToStrFn.runV (f : ToStrFn) (tbl : List (Option String)) (v : Int) : Outcome :=
  match f.shape with
  | .unrecognised => .unknown
  | _ =>
    if f.guards.any (·.fires v) then .ok none
    else
      let idx := f.indexConvs.foldl (fun x t => t.wrap x) v
      if idx < 0 then .oob
      else match tbl[idx.toNat]? with
        | some e => .ok e
        | none => .oob

/-- the function called with the C integer `i` as argument (converted to the enum's type) -/
def ToStrFn.run (f : ToStrFn) (tbl : List (Option String)) (i : Int) : Outcome :=
  f.runV tbl (f.paramTy.wrap i)

end Rtr.NamesIR
