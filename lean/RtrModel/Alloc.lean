/-
  Alloc: allocation behaviour of the prefix table (trie-pfx.c), of the linear hash table
  (tommyhashlin.c) and of the router-key table (ht-spkitable.c), as an EXTENSION of the existing
  executable models (RtrModel.PfxTable, RtrModel.Hashlin, RtrModel.Spki).

  The allocator is an oracle `A` that may refuse one request: `budget = some k` means "the k-th
  request from now on (0-based) is refused, every other one is granted"; `budget = none` never
  refuses.  Every request and every release is appended to `trace`.  Every table operation `op` of
  the existing models gets a companion `opF : A → … → A × result` that passes its allocation sites in
  the order of the C code; with `budget = none` it returns exactly the result of `op`
  (RtrProofs/AllocBasic.lean).

  The code modelled is the code WITH the fixes build/fixes/F15.diff, F16a–F16d.diff:
   * F15  spki_table_free / spki_table_free_without_notify release entries with lrtr_free;
   * F16a hashlin_grow_step: a refused segment allocation means "do not grow now";
   * F16b spki_table_init reports a refused first segment (SPKI_ERROR), callers check it;
   * F16c pfx_table_del_elem keeps the larger block when the SHRINKING realloc is refused;
   * F16d pfx_table_validate_r releases the reasons collected so far when a realloc is refused.
  The behaviour of the unfixed code at those places is kept next to it (`…U`), for the witnesses
  in RtrProps/C18.lean.
-/
import RtrModel.PfxTable
import RtrModel.Spki
import RtrModel.Generated.Constants

namespace Rtr
namespace Alloc

/-- what a block holds.  The size argument of the events below counts elements of that kind
    (`ary`: struct data_elem, `reason`: struct pfx_record, `result`: struct spki_record,
    `segment`: bucket pointers, everything else: 1) -/
inductive Blk where
  | node | ndata | ary | reason | entry | segment | result | ptab | ktab | pdu4 | pdu6 | pduk
deriving DecidableEq, Repr

/-- one allocator event; `ok = false`: the request was refused (returned NULL) -/
inductive Ev where
  | malloc (b : Blk) (n : Nat) (ok : Bool)
  | realloc (b : Blk) (old new : Nat) (ok : Bool)     -- old = 0: realloc(NULL, …)
  | free (b : Blk) (n : Nat)                          -- through the configured free (lrtr_free)
  | libcFree (b : Blk) (n : Nat)                      -- through libc free (only the unfixed code, F15)
deriving DecidableEq, Repr

/-- effect of one event on the number of live blocks of the configured allocator -/
def Ev.delta : Ev → Int
  | .malloc _ _ true => 1
  | .malloc _ _ false => 0
  | .realloc _ 0 _ true => 1
  | .realloc _ (_ + 1) _ _ => 0
  | .realloc _ 0 _ false => 0
  | .free _ _ => -1
  | .libcFree _ _ => 0

/-- net change of the number of live blocks of the configured allocator over a trace -/
def net : List Ev → Int
  | [] => 0
  | e :: es => e.delta + net es

def Ev.isReq : Ev → Bool
  | .malloc .. => true
  | .realloc .. => true
  | _ => false

def Ev.refused : Ev → Bool
  | .malloc _ _ ok => !ok
  | .realloc _ _ _ ok => !ok
  | _ => false

/-- number of allocation requests in a trace -/
def reqs (t : List Ev) : Nat := (t.filter Ev.isReq).length

/-- the allocator oracle -/
structure A where
  budget : Option Nat := none
  trace : List Ev := []
deriving Repr

namespace A

/-- consult the oracle: granted?, remaining budget -/
def take (a : A) : Bool × Option Nat :=
  match a.budget with
  | none => (true, none)
  | some 0 => (false, none)
  | some (k + 1) => (true, some k)

def malloc (a : A) (b : Blk) (n : Nat) : Bool × A :=
  ((a.take).1, { budget := (a.take).2, trace := a.trace ++ [.malloc b n (a.take).1] })

def realloc (a : A) (b : Blk) (old new : Nat) : Bool × A :=
  ((a.take).1, { budget := (a.take).2, trace := a.trace ++ [.realloc b old new (a.take).1] })

def free (a : A) (b : Blk) (n : Nat) : A := { a with trace := a.trace ++ [.free b n] }

def libcFree (a : A) (b : Blk) (n : Nat) : A := { a with trace := a.trace ++ [.libcFree b n] }

/-- `lrtr_free(p)` where `p` may be NULL (`n = 0`): no event then -/
def freeIf (a : A) (b : Blk) (n : Nat) : A := if n = 0 then a else a.free b n

end A

/-- a release, or a request whose result the code ignores -/
inductive Act where
  | free (b : Blk) (n : Nat)
  | shrink (b : Blk) (new : Nat)      -- realloc from new + 1 to new elements; refusal is absorbed (F16c)
deriving DecidableEq, Repr

def A.act (a : A) : Act → A
  | .free b n => a.free b n
  | .shrink b new => (a.realloc b (new + 1) new).2

def A.run (a : A) (acts : List Act) : A := acts.foldl A.act a

/-! ## prefix table (trie-pfx.c) -/

/-- `pfx_table_create_node`: node, node_data, first array; the blocks already obtained are
    released again when a later request is refused -/
def createNodeReq (a : A) : Bool × A :=
  let r1 := a.malloc .node 1
  if !r1.1 then (false, r1.2) else
  let r2 := r1.2.malloc .ndata 1
  if !r2.1 then (false, r2.2.free .node 1) else
  let r3 := r2.2.realloc .ary 0 1
  if !r3.1 then (false, (r3.2.free .ndata 1).free .node 1) else
  (true, r3.2)

/-- which allocation site `pfx_table_add` passes -/
inductive AddSite where
  | none                   -- duplicate record: no request
  | append (n : Nat)       -- pfx_table_append_elem on an array of n elements
  | create                 -- pfx_table_create_node
deriving DecidableEq, Repr

def addSite (w : Nat) (t : Trie) (addr : Addr) (len : Nat) (e : Elem) : AddSite :=
  match t with
  | .nil => .create
  | _ =>
    match lookupExact w addr len t 0 with
    | .up => .none
    | .at p true =>
      match t.subAt p with
      | .node c _ _ => if (findElem c.data e).isSome then .none else .append c.data.length
      | .nil => .none
    | .at _ false => .create

/-- `pfx_table_add` under the oracle -/
def addF (a : A) (T : PfxTable) (r : Rec) : A × PfxTable × PfxRc :=
  match addSite r.width (T.root r.v6) r.addr r.len r.elem with
  | .none => (a, T.add r)
  | .append n =>
    let q := a.realloc .ary n (n + 1)
    if q.1 then (q.2, T.add r) else (q.2, T, .error)
  | .create =>
    let q := createNodeReq a
    if q.1 then (q.2, T.add r) else (q.2, T, .error)

/-- which allocation site `pfx_table_remove` passes -/
inductive RemSite where
  | none                   -- record not found
  | shrink (n : Nat)       -- pfx_table_del_elem on an array of n > 1 elements: realloc to n - 1
  | last                   -- the node's last element: array, node_data and node are released
deriving DecidableEq, Repr

def remSite (w : Nat) (t : Trie) (addr : Addr) (len : Nat) (e : Elem) : RemSite :=
  match lookupExact w addr len t 0 with
  | .at p true =>
    match t.subAt p with
    | .node c _ _ =>
      match findElem c.data e with
      | none => .none
      | some i => if (delElem c.data i).isEmpty then .last else .shrink c.data.length
    | .nil => .none
  | _ => .none

/-- releases / ignored request of `pfx_table_remove` (fixed code, F16c: the result of the shrinking
    realloc is not looked at) -/
def remActs (T : PfxTable) (r : Rec) : List Act :=
  match remSite r.width (T.root r.v6) r.addr r.len r.elem with
  | .none => []
  | .shrink n => [.shrink .ary (n - 1)]
  | .last => [.free .ary 1, .free .ndata 1, .free .node 1]

/-- `pfx_table_remove` under the oracle (fixed code: a refused shrinking realloc is ignored) -/
def removeF (a : A) (T : PfxTable) (r : Rec) : A × PfxTable × PfxRc := (a.run (remActs T r), T.remove r)

/-- `pfx_table_remove` of the UNFIXED code: a refused shrinking realloc restores the element
    (at the end of the array: same set) and reports PFX_ERROR -/
def removeU (a : A) (T : PfxTable) (r : Rec) : A × PfxTable × PfxRc :=
  match remSite r.width (T.root r.v6) r.addr r.len r.elem with
  | .none => (a, T.remove r)
  | .shrink n =>
    let q := a.realloc .ary n (n - 1)
    if q.1 then (q.2, T.remove r) else (q.2, T, .error)
  | .last => (((a.free .ary 1).free .ndata 1).free .node 1, T.remove r)

/-- the `pfx_table_del_elem` calls of one visit of `pfx_table_remove_id` to a node holding `n`
    elements of which `g` belong to the source: every call shrinks the array by one, the call that
    empties it releases it -/
def delActs (n g : Nat) : List Act :=
  (List.range g).map fun j => if n - j = 1 then .free .ary 1 else .shrink .ary (n - j - 1)

/-- requests and releases of `pfx_table_remove_id`, in order (same recursion as `removeId`) -/
def removeIdActs (src : Nat) : Trie → List Act
  | .nil => []
  | .node c l r =>
    let kept := c.data.filter (fun e => e.src != src)
    let gone := c.data.filter (fun e => e.src == src)
    let here := delActs c.data.length gone.length
    if kept.isEmpty then
      if l.isNil && r.isNil then here ++ [.free .ndata 1, .free .node 1]
      else here ++ [.free .ndata 1, .free .node 1] ++ removeIdActs src (removeRoot (.node { c with data := [] } l r))
    else here ++ removeIdActs src l ++ removeIdActs src r
termination_by t => t.size
decreasing_by
  · have := removeRoot_size_lt { c with data := [] } l r
    simp only [Trie.size] at *
    omega
  · simp [Trie.size]; omega
  · simp [Trie.size]; omega

/-- `pfx_table_src_remove` under the oracle (fixed code: always PFX_SUCCESS) -/
def srcRemoveF (a : A) (T : PfxTable) (src : Nat) : A × PfxTable × PfxRc :=
  ((a.run (removeIdActs src T.v4)).run (removeIdActs src T.t6), T.srcRemove src, .success)

/-- the reallocations of the reason array in `pfx_table_validate_r`, one per visited covering
    node; `acc` = records collected so far.  Fixed code (F16d): on refusal the array collected so
    far is released -/
def reasonReqs (a : A) (acc : Nat) : List NodeC → Bool × A
  | [] => (true, a)
  | c :: cs =>
    let q := a.realloc .reason acc (acc + c.data.length)
    if q.1 then reasonReqs q.2 (acc + c.data.length) cs else (false, q.2.freeIf .reason acc)

/-- the same loop in the UNFIXED code: `*reason = lrtr_realloc(*reason, …)` loses the old block -/
def reasonReqsU (a : A) (acc : Nat) : List NodeC → Bool × A
  | [] => (true, a)
  | c :: cs =>
    let q := a.realloc .reason acc (acc + c.data.length)
    if q.1 then reasonReqsU q.2 (acc + c.data.length) cs else (false, q.2)

/-- `pfx_table_validate_r` with a reason array, under the oracle: return code, state, reasons.
    The reason array (when not empty) is owned by the caller afterwards. -/
def validateF (a : A) (T : PfxTable) (v6 : Bool) (asn : Nat) (q : Addr) (n : Nat) :
    A × PfxRc × PfxvState × List Rec :=
  let w := if v6 then 128 else 32
  let res := validateR w q n asn (T.root v6)
  let rq := reasonReqs a 0 res.2
  if rq.1 then (rq.2, .success, T.validate v6 asn q n) else (rq.2, .error, .notFound, [])

/-- `pfx_table_copy_except_socket(S, D, src)` under the oracle: the IPv4 pass runs to completion
    even after a failed add, the IPv6 pass is skipped then -/
def copyPass (src : Nat) (st : A × PfxTable × Bool) (rs : List Rec) : A × PfxTable × Bool :=
  rs.foldl (fun (acc : A × PfxTable × Bool) r =>
    if r.src != src then
      let q := addF acc.1 acc.2.1 r
      (q.1, q.2.1, acc.2.2 || q.2.2 != .success)
    else acc) st

def copyExceptF (a : A) (S D : PfxTable) (src : Nat) : A × PfxTable × PfxRc :=
  let s1 := copyPass src (a, D, false) S.recs4
  if s1.2.2 then (s1.1, s1.2.1, .error) else
  let s2 := copyPass src (s1.1, s1.2.1, false) S.recs6
  if s2.2.2 then (s2.1, s2.2.1, .error) else (s2.1, s2.2.1, .success)

/-- releases of the do-while loop of `pfx_table_free` for one root: the payload of the current
    root leaves with the unlinked leaf (array, node_data, node) -/
def freeActs : Trie → List Act
  | .nil => []
  | .node c l r =>
    (if c.data.isEmpty then [] else [.free .ary c.data.length]) ++ [.free .ndata 1, .free .node 1] ++
      freeActs (removeRoot (.node c l r))
termination_by t => t.size
decreasing_by exact removeRoot_size_lt c l r

/-- `pfx_table_free` under the oracle -/
def freeF (a : A) (T : PfxTable) : A × PfxTable :=
  ((a.run (freeActs T.v4)).run (freeActs T.t6), T.free)

/-- live blocks of one trie: node and node_data for every node, the array if it is not empty -/
def trieBlocks (t : Trie) : Nat := (t.nodes.map fun c => if c.data.isEmpty then 2 else 3).sum

/-- live blocks of a prefix table (the `struct pfx_table` itself belongs to the caller) -/
def pfxBlocks (T : PfxTable) : Nat := trieBlocks T.v4 + trieBlocks T.t6

/-! ## linear hash table (tommyhashlin.c) -/

section Hl
variable {α : Type}

/-- `hashlin_grow_step` asks for a new segment exactly in this situation -/
def needSeg (h : Hashlin α) : Bool := h.state == .stable && decide (h.count > h.bucketMax / 2)

/-- `hashlin_grow_step` under the oracle; fixed code (F16a): a refused segment = no growth now -/
def growStepF (a : A) (h : Hashlin α) : A × Hashlin α :=
  if needSeg h then
    let q := a.malloc .segment h.bucketMax
    if q.1 then (q.2, h.growStep) else (q.2, h)
  else (a, h.growStep)

/-- the UNFIXED `hashlin_grow_step`: the refused segment pointer is used (`none` = crash) -/
def growStepU (a : A) (h : Hashlin α) : A × Option (Hashlin α) :=
  if needSeg h then
    let q := a.malloc .segment h.bucketMax
    if q.1 then (q.2, some h.growStep) else (q.2, none)
  else (a, some h.growStep)

/-- `tommy_hashlin_insert` under the oracle -/
def hlInsertF (a : A) (h : Hashlin α) (data : α) (hash : Nat) : A × Hashlin α :=
  let p := h.bucketPos hash
  growStepF a { h with bucket := upd h.bucket p (h.bucket p ++ [⟨hash, data⟩]), count := h.count + 1 }

/-- the release made by a shrink step that finishes: the last segment -/
def segActs (h h' : Hashlin α) : List Act :=
  if h'.bucketBit < h.bucketBit then [.free .segment h'.bucketMax] else []

/-- `tommy_hashlin_done`: the first segment, then the segments added by growing -/
def doneActs (h : Hashlin α) : List Act :=
  .free .segment (2 ^ hashlinBit) ::
    (List.range (h.bucketBit - hashlinBit)).map fun i => .free .segment (2 ^ (hashlinBit + i))

/-- live segments -/
def hlBlocks (h : Hashlin α) : Nat := h.bucketBit - hashlinBit + 1

end Hl

/-! ## router-key table (ht-spkitable.c) -/

/-- `spki_table_init` under the oracle; fixed code (F16b): `none` = SPKI_ERROR, table unusable -/
def kinitF (a : A) (cb : Bool) : A × Option SpkiTable :=
  let q := a.malloc .segment (2 ^ hashlinBit)
  if q.1 then (q.2, some (SpkiTable.init cb)) else (q.2, none)

/-- `spki_table_add_entry` under the oracle: the entry is allocated BEFORE the duplicate test -/
def kaddF (a : A) (T : SpkiTable) (r : SpkiRec) : A × SpkiTable × SpkiRc :=
  let q := a.malloc .entry 1
  if !q.1 then (q.2, T, .error) else
  if (T.ht.search (SpkiTable.cmp r) (spkiHash r)).isSome then (q.2.free .entry 1, T, .duplicate) else
  let g := hlInsertF q.2 T.ht r (spkiHash r)
  (g.1, ({ T with ht := g.2, list := T.list ++ [r] } : SpkiTable).notify true r, .success)

/-- releases of `spki_table_remove_entry`: the last hash segment if the shrink step finishes, then
    the entry -/
def kremActs (T : SpkiTable) (r : SpkiRec) : List Act :=
  if (T.remove r).2 = .success then segActs T.ht (T.remove r).1.ht ++ [.free .entry 1] else []

/-- `spki_table_remove_entry` under the oracle (no request; releases only) -/
def kremoveF (a : A) (T : SpkiTable) (r : SpkiRec) : A × SpkiTable × SpkiRc := (a.run (kremActs T r), T.remove r)

/-- releases of `spki_table_src_remove` (same loop as `srcRemoveLoop`) -/
def ksrcRemoveActs (src : Nat) : List SpkiRec → SpkiTable → List Act
  | [], _ => []
  | e :: rest, T =>
    if e.src == src then
      let T1 : SpkiTable := { T with list := T.list.erase e, ht := T.ht.removeExisting (spkiNode e) }
      segActs T.ht T1.ht ++ [.free .entry 1] ++ ksrcRemoveActs src rest (T1.notify false e)
    else ksrcRemoveActs src rest T

def ksrcRemoveF (a : A) (T : SpkiTable) (src : Nat) : A × SpkiTable × SpkiRc :=
  (a.run (ksrcRemoveActs src T.list T), T.srcRemove src)

/-- a result array grown one record at a time (`spki_table_get_all`, `spki_table_search_by_ski`):
    `m` records still to come, `cur` collected; on refusal the array is released -/
def growReqs (b : Blk) : Nat → Nat → A → Bool × A
  | 0, _, a => (true, a)
  | m + 1, cur, a =>
    let q := a.realloc b cur (cur + 1)
    if q.1 then growReqs b m (cur + 1) q.2 else (false, q.2.freeIf b cur)

/-- `spki_table_get_all` under the oracle; the result array is owned by the caller afterwards -/
def kgetAllF (a : A) (T : SpkiTable) (asn ski : Nat) : A × SpkiRc × List SpkiRec :=
  let rs := T.getAll asn ski
  let q := growReqs .result rs.length 0 a
  if q.1 then (q.2, .success, rs) else (q.2, .error, [])

/-- `spki_table_search_by_ski` under the oracle -/
def ksearchBySkiF (a : A) (T : SpkiTable) (ski : Nat) : A × SpkiRc × List SpkiRec :=
  let rs := T.searchBySki ski
  let q := growReqs .result rs.length 0 a
  if q.1 then (q.2, .success, rs) else (q.2, .error, [])

/-- the loop of `spki_table_copy_except_socket` under the oracle -/
def kcopyLoopF (src : Nat) : List SpkiRec → A → SpkiTable → A × SpkiTable × SpkiRc
  | [], a, D => (a, D, .success)
  | e :: rest, a, D =>
    if e.src != src then
      match kaddF a D e with
      | (a', D', .success) => kcopyLoopF src rest a' D'
      | (a', D', _) => (a', D', .error)
    else kcopyLoopF src rest a D

def kcopyExceptF (a : A) (S D : SpkiTable) (src : Nat) : A × SpkiTable × SpkiRc :=
  kcopyLoopF src S.list a D

/-- releases of `spki_table_free` / `spki_table_free_without_notify` (fixed code, F15) -/
def kfreeActs (T : SpkiTable) : List Act := T.list.map (fun _ => .free .entry 1) ++ doneActs T.ht

/-- `spki_table_free`: afterwards the table is dead (every block released) -/
def kfreeF (a : A) (T : SpkiTable) : A := a.run (kfreeActs T)

/-- `spki_table_free` of the UNFIXED code: the entries go to libc `free` -/
def kfreeU (a : A) (T : SpkiTable) : A :=
  (T.list.foldl (fun a _ => a.libcFree .entry 1) a).run (doneActs T.ht)

/-- live blocks of a router-key table: one per entry, plus the hash segments -/
def spkiBlocks (T : SpkiTable) : Nat := T.list.length + hlBlocks T.ht

/-! ## the UNFIXED `pfx_table_remove_id` (F16c), for the witness only

  element-wise loop as in the C text; a refused shrinking realloc makes `pfx_table_del_elem`
  restore the element at the end of the array and the whole walk stops with PFX_ERROR -/

/-- the inner loops over one node's payload: returns the remaining payload, the removed elements
    in order, and whether a `pfx_table_del_elem` failed -/
def delLoopU (src : Nat) : Nat → A → List Elem → Nat → List Elem → A × List Elem × List Elem × Bool
  | 0, a, d, _, gone => (a, d, gone, false)
  | fuel + 1, a, d, i, gone =>
    match d[i]? with
    | none => (a, d, gone, false)
    | some e =>
      if e.src == src then
        let d' := d.eraseIdx i
        if d'.isEmpty then delLoopU src fuel (a.free .ary 1) d' i (gone ++ [e])
        else
          let q := a.realloc .ary d.length (d.length - 1)
          if q.1 then delLoopU src fuel q.2 d' i (gone ++ [e])
          else (q.2, d' ++ [e], gone, true)
      else delLoopU src fuel a d (i + 1) gone

/-- returns: oracle, new tree, removed (key, element) in notification order, error flag -/
def removeIdU (src : Nat) (a : A) : Trie → A × Trie × List (Addr × Nat × Elem) × Bool
  | .nil => (a, .nil, [], false)
  | .node c l r =>
    let s := delLoopU src (2 * c.data.length + 1) a c.data 0 []
    let log := s.2.2.1.map fun e => (c.addr, c.len, e)
    if s.2.2.2 then (s.1, .node { c with data := s.2.1 } l r, log, true)
    else if s.2.1.isEmpty then
      let a1 := (s.1.free .ndata 1).free .node 1
      if l.isNil && r.isNil then (a1, .nil, log, false)
      else
        let q := removeIdU src a1 (removeRoot (.node { c with data := [] } l r))
        (q.1, q.2.1, log ++ q.2.2.1, q.2.2.2)
    else
      let ql := removeIdU src s.1 l
      if ql.2.2.2 then (ql.1, .node { c with data := s.2.1 } ql.2.1 r, log ++ ql.2.2.1, true)
      else
        let qr := removeIdU src ql.1 r
        (qr.1, .node { c with data := s.2.1 } ql.2.1 qr.2.1, log ++ ql.2.2.1 ++ qr.2.2.1, qr.2.2.2)
termination_by t => t.size
decreasing_by
  · have := removeRoot_size_lt { c with data := [] } l r
    simp only [Trie.size] at *
    omega
  · simp [Trie.size]; omega
  · simp [Trie.size]; omega

/-- `pfx_table_src_remove` of the UNFIXED code -/
def srcRemoveU (a : A) (T : PfxTable) (src : Nat) : A × PfxTable × PfxRc :=
  let q4 := removeIdU src a T.v4
  let T1 := ({ T with v4 := q4.2.1 }).notifyAll false (q4.2.2.1.map fun (ad, ln, e) => mkRec false ad ln e)
  if q4.2.2.2 then (q4.1, T1, .error) else
  let q6 := removeIdU src q4.1 T1.t6
  let T2 := ({ T1 with t6 := q6.2.1 }).notifyAll false (q6.2.2.1.map fun (ad, ln, e) => mkRec true ad ln e)
  (q6.1, T2, if q6.2.2.2 then .error else .success)

/-! ## rtr_sync_receive_and_store_pdus under the oracle

  The part of a synchronisation that allocates: the three PDU buffers, the shadow tables of a
  full reload, the updates and their undo, the purge, the diff after the swap and the cleanup.
  Input is the cache's answer already split into payload PDUs (`Item`s, in arrival order); only
  well-formed answers are modelled here (session, lengths, flags, intervals in order — the malformed
  ones are the business of C03/C04).  `me` (source 0) is the synchronising socket. -/

/-- a payload PDU: announcement (`true`) or withdrawal of a record of this socket -/
inductive Item where
  | p4 (add : Bool) (r : Rec)
  | p6 (add : Bool) (r : Rec)
  | key (add : Bool) (r : SpkiRec)
deriving Repr

def Item.isP4 : Item → Bool | .p4 .. => true | _ => false
def Item.isP6 : Item → Bool | .p6 .. => true | _ => false
def Item.isKey : Item → Bool | .key .. => true | _ => false

/-- `TEMPORARY_PDU_STORE_INCREMENT_VALUE`: the value extracted from the tree under test (a temporary
    PDU store grows by this many elements whenever it is full) -/
def storeIncr : Nat := Gen.TEMPORARY_PDU_STORE_INCREMENT_VALUE

/-- fill (`n…`) and capacity (`s…`) of the three temporary PDU arrays -/
structure Bufs where
  n4 : Nat := 0
  s4 : Nat := 0
  n6 : Nat := 0
  s6 : Nat := 0
  nk : Nat := 0
  sk : Nat := 0
deriving Repr

/-- `rtr_store_prefix_pdu` / `rtr_store_router_key_pdu` for every payload PDU in arrival order;
    `false`: a realloc was refused (the arrays keep their old blocks) -/
def storeLoop : List Item → A → Bufs → Bool × A × Bufs
  | [], a, b => (true, a, b)
  | .p4 .. :: rest, a, b =>
    if b.n4 ≥ b.s4 then
      let q := a.realloc .pdu4 b.s4 (b.s4 + storeIncr)
      if q.1 then storeLoop rest q.2 { b with s4 := b.s4 + storeIncr, n4 := b.n4 + 1 } else (false, q.2, b)
    else storeLoop rest a { b with n4 := b.n4 + 1 }
  | .p6 .. :: rest, a, b =>
    if b.n6 ≥ b.s6 then
      let q := a.realloc .pdu6 b.s6 (b.s6 + storeIncr)
      if q.1 then storeLoop rest q.2 { b with s6 := b.s6 + storeIncr, n6 := b.n6 + 1 } else (false, q.2, b)
    else storeLoop rest a { b with n6 := b.n6 + 1 }
  | .key .. :: rest, a, b =>
    if b.nk ≥ b.sk then
      let q := a.realloc .pduk b.sk (b.sk + storeIncr)
      if q.1 then storeLoop rest q.2 { b with sk := b.sk + storeIncr, nk := b.nk + 1 } else (false, q.2, b)
    else storeLoop rest a { b with nk := b.nk + 1 }

/-- the last three lines of the `cleanup:` label -/
def freeBufs (a : A) (b : Bufs) : A := ((a.freeIf .pduk b.sk).freeIf .pdu6 b.s6).freeIf .pdu4 b.s4

/-- `rtr_update_pfx_table` / `rtr_update_spki_table` (`undo = true`: the `rtr_undo_update_…`
    twin, which performs the inverse operation); `true` = the table function returned SUCCESS -/
def applyItem (undo : Bool) (a : A) (P : PfxTable) (K : SpkiTable) : Item → A × PfxTable × SpkiTable × Bool
  | .p4 add r | .p6 add r =>
    let q := if add != undo then addF a P r else removeF a P r
    (q.1, q.2.1, K, q.2.2 == .success)
  | .key add r =>
    let q := if add != undo then kaddF a K r else kremoveF a K r
    (q.1, P, q.2.1, q.2.2 == .success)

/-- the three apply loops; `some done` = the PDU after `done` failed -/
def applyAll : List Item → List Item → A → PfxTable → SpkiTable → A × PfxTable × SpkiTable × Option (List Item)
  | [], _, a, P, K => (a, P, K, none)
  | it :: rest, done, a, P, K =>
    let q := applyItem false a P K it
    if q.2.2.2 then applyAll rest (done ++ [it]) q.1 q.2.1 q.2.2.1 else (q.1, q.2.1, q.2.2.1, some done)

/-- the undo loops: forward order, stop at the first inverse operation that fails -/
def undoAll : List Item → A → PfxTable → SpkiTable → A × PfxTable × SpkiTable × Bool
  | [], a, P, K => (a, P, K, true)
  | it :: rest, a, P, K =>
    let q := applyItem true a P K it
    if q.2.2.2 then undoAll rest q.1 q.2.1 q.2.2.1 else (q.1, q.2.1, q.2.2.1, false)

/-- `rtr_purge_records_after_failed_undo` on the socket's (live) tables -/
def purgeF (a : A) (P : PfxTable) (K : SpkiTable) : A × PfxTable × SpkiTable :=
  let p := srcRemoveF a P 0
  let k := ksrcRemoveF p.1 K 0
  (k.1, p.2.1, k.2.1)

/-- `pfx_table_free_without_notify(shadow); lrtr_free(shadow)` -/
def freeShadowP (a : A) (S : PfxTable) : A := ((a.run (freeActs S.v4)).run (freeActs S.t6)).free .ptab 1

/-- `spki_table_free_without_notify(shadow); lrtr_free(shadow)` -/
def freeShadowK (a : A) (S : SpkiTable) : A := (a.run (kfreeActs S)).free .ktab 1

/-- releases made by `pfx_table_notify_diff`: the records of `src` in `new` are removed from `old` -/
def pdiffActs (src : Nat) : List Rec → PfxTable → List Act
  | [], _ => []
  | r :: rs, O => if r.src == src then remActs O r ++ pdiffActs src rs (O.remove r).1 else pdiffActs src rs O

/-- releases made by `spki_table_notify_diff` -/
def kdiffActs (src : Nat) : List SpkiRec → SpkiTable → List Act
  | [], _ => []
  | e :: rest, O => if e.src == src then kremActs O e ++ kdiffActs src rest (O.remove e).1 else kdiffActs src rest O

structure SyncRes where
  ok : Bool            -- RTR_SUCCESS
  purged : Bool        -- the socket's records were purged, `request_session_id` set
deriving Repr, DecidableEq

/-- the End of Data branch and the cleanup for an incremental update (`is_resetting = false`) -/
def syncUpdate (a : A) (b : Bufs) (P : PfxTable) (K : SpkiTable) (ops : List Item) :
    A × PfxTable × SpkiTable × SyncRes :=
  match applyAll ops [] a P K with
  | (a1, P1, K1, none) => (freeBufs a1 b, P1, K1, ⟨true, false⟩)
  | (a1, P1, K1, some done) =>
    let u := undoAll done a1 P1 K1
    if u.2.2.2 then (freeBufs u.1 b, u.2.1, u.2.2.1, ⟨false, false⟩)
    else
      let g := purgeF u.1 u.2.1 u.2.2.1
      (freeBufs g.1 b, g.2.1, g.2.2, ⟨false, true⟩)

/-- the End of Data branch and the cleanup for a full reload (`is_resetting = true`) -/
def syncReset (a : A) (b : Bufs) (P : PfxTable) (K : SpkiTable) (ops : List Item) :
    A × PfxTable × SpkiTable × SyncRes :=
  let q1 := a.malloc .ptab 1
  if !q1.1 then (freeBufs q1.2 b, P, K, ⟨false, false⟩) else
  let c1 := copyExceptF q1.2 P { hasCb := false } 0
  if c1.2.2 != .success then (freeBufs (freeShadowP c1.1 c1.2.1) b, P, K, ⟨false, false⟩) else
  let q2 := c1.1.malloc .ktab 1
  if !q2.1 then (freeBufs (freeShadowP q2.2 c1.2.1) b, P, K, ⟨false, false⟩) else
  let i := kinitF q2.2 false
  match i.2 with
  | none => (freeBufs (freeShadowP (i.1.free .ktab 1) c1.2.1) b, P, K, ⟨false, false⟩)    -- F16b
  | some K0 =>
    let c2 := kcopyExceptF i.1 K K0 0
    if c2.2.2 != .success then
      (freeBufs (freeShadowK (freeShadowP c2.1 c1.2.1) c2.2.1) b, P, K, ⟨false, false⟩)
    else
      match applyAll ops [] c2.1 c1.2.1 c2.2.1 with
      | (a1, SP, SK, none) =>
        -- swap the shadow tables in, report the difference, release the old contents
        let sp := PfxTable.swap P SP
        let sk := SpkiTable.swap K SK
        let dp := if P.hasCb then
                    (a1.run (pdiffActs 0 (sp.1.recs4 ++ sp.1.recs6) { sp.2 with hasCb := false }),
                     PfxTable.notifyDiff sp.1 sp.2 0)
                  else (a1, sp)
        let dk := if K.hasCb then
                    (dp.1.run (kdiffActs 0 sk.1.list { sk.2 with hasCb := false }), SpkiTable.notifyDiff sk.1 sk.2 0)
                  else (dp.1, sk)
        (freeBufs (freeShadowK (freeShadowP dk.1 dp.2.2) dk.2.2) b, dp.2.1, dk.2.1, ⟨true, false⟩)
      | (a1, SP, SK, some done) =>
        let u := undoAll done a1 SP SK
        if u.2.2.2 then (freeBufs (freeShadowK (freeShadowP u.1 u.2.1) u.2.2.1) b, P, K, ⟨false, false⟩)
        else
          let g := purgeF u.1 P K
          (freeBufs (freeShadowK (freeShadowP g.1 u.2.1) u.2.2.1) b, g.2.1, g.2.2, ⟨false, true⟩)

/-- `rtr_sync_receive_and_store_pdus` on a well-formed answer -/
def syncF (a : A) (P : PfxTable) (K : SpkiTable) (reset : Bool) (items : List Item) :
    A × PfxTable × SpkiTable × SyncRes :=
  let st := storeLoop items a {}
  if !st.1 then (freeBufs st.2.1 st.2.2, P, K, ⟨false, false⟩) else
  let ops := items.filter Item.isP4 ++ items.filter Item.isP6 ++ items.filter Item.isKey
  if reset then syncReset st.2.1 st.2.2 P K ops else syncUpdate st.2.1 st.2.2 P K ops

/-! ### decoding a well-formed answer (driver input) -/

def beNat (bs : List Nat) (off n : Nat) : Nat := ((bs.drop off).take n).foldl (fun acc b => acc * 256 + b) 0

/-- payload PDUs up to the End of Data PDU, which must be the last one; returns its serial number -/
def parsePdus : Nat → List Nat → List Item → Option (List Item × Nat)
  | 0, _, _ => none
  | fuel + 1, bs, acc =>
    let ty := bs.getD 1 0
    let len := beNat bs 4 4
    if bs.length < 8 ∨ len < 8 ∨ bs.length < len then none else
    let pdu := bs.take len
    let rest := bs.drop len
    if ty = 4 then
      if len ≠ 20 ∨ pdu.getD 8 0 > 1 ∨ pdu.getD 9 0 > 32 ∨ pdu.getD 10 0 > 32 then none else
      parsePdus fuel rest (acc ++ [.p4 (pdu.getD 8 0 = 1) ⟨false, beNat pdu 12 4, pdu.getD 9 0, pdu.getD 10 0, beNat pdu 16 4, 0⟩])
    else if ty = 6 then
      if len ≠ 32 ∨ pdu.getD 8 0 > 1 ∨ pdu.getD 9 0 > 128 ∨ pdu.getD 10 0 > 128 then none else
      parsePdus fuel rest (acc ++ [.p6 (pdu.getD 8 0 = 1) ⟨true, beNat pdu 12 16, pdu.getD 9 0, pdu.getD 10 0, beNat pdu 28 4, 0⟩])
    else if ty = 9 then
      if len ≠ 123 ∨ pdu.getD 2 0 > 1 then none else
      parsePdus fuel rest (acc ++ [.key (pdu.getD 2 0 = 1) ⟨beNat pdu 28 4, beNat pdu 8 20, beNat pdu 32 91, 0⟩])
    else if ty = 7 then
      if rest ≠ [] ∨ len ≠ 24 then none else some (acc, beNat pdu 8 4)
    else none

/-- Cache Response, payload PDUs, End of Data (protocol version 1) -/
def parseStream (bs : List Nat) : Option (List Item × Nat) :=
  if bs.getD 1 0 = 3 ∧ beNat bs 4 4 = 8 then parsePdus bs.length (bs.drop 8) [] else none

end Alloc
end Rtr
