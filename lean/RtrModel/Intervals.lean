/-
  Intervals: executable model of everything in rtrlib that reads or writes the three timers of an
  RTR socket (C17).

    rtrlib/rtr/packets.c   rtr_check_interval_range, apply_interval_value, rtr_check_interval_option,
                           the interval part of the End-of-Data branch of
                           rtr_sync_receive_and_store_pdus, the version handling of rtr_receive_pdu
                           that decides which End of Data a socket accepts, rtr_wait_for_sync,
                           the two tr_recv_all calls of rtr_receive_pdu (header with the caller's
                           timeout, remainder with RTR_RECV_TIMEOUT)
    rtrlib/transport/transport.c   tr_recv_all: the receive loop that hands the transport the time
                           that is left until `entry time + timeout` on every call
    rtrlib/rtr/rtr.c       rtr_init (range checks), the RTR_ESTABLISHED branch of rtr_fsm_start
    rtrlib/rtr_mgr.c       rtr_mgr_init (passes the intervals to rtr_init, mode DEFAULT_MIN_MAX)

  Integer types are the C ones: the interval fields and PDU fields are 32-bit unsigned (`UInt32`),
  `uint16_t minimum` in rtr_check_interval_option truncates to 16 bits, `time_t` is a signed 64-bit
  integer modelled by `Int` (no overflow: clock values are far below 2^62).  All range constants and
  enumerator values come from `Generated.Constants`.
-/
import RtrModel.Generated.Constants
import RtrModel.Generated.PduLayout

namespace Rtr.Intervals

/-- `enum rtr_interval_range` -/
inductive Range where
  | below | inside | above
deriving DecidableEq, Repr

def Range.code : Range → Int
  | .below => Gen.RTR_BELOW_INTERVAL_RANGE
  | .inside => Gen.RTR_INSIDE_INTERVAL_RANGE
  | .above => Gen.RTR_ABOVE_INTERVAL_RANGE

/-- `rtr_check_interval_range(interval, minimum, maximum)` -/
def checkIntervalRange (interval minimum maximum : UInt32) : Range :=
  if interval < minimum then .below
  else if interval > maximum then .above
  else .inside

/-- `enum rtr_interval_type`; `invalid` stands for any other integer -/
inductive IvType where
  | expiration | refresh | retry | invalid
deriving DecidableEq, Repr

def IvType.ofCode (c : Int) : IvType :=
  if c = Gen.RTR_INTERVAL_TYPE_EXPIRATION then .expiration
  else if c = Gen.RTR_INTERVAL_TYPE_REFRESH then .refresh
  else if c = Gen.RTR_INTERVAL_TYPE_RETRY then .retry
  else .invalid

/-- the fields of `struct rtr_socket` that matter here.  `ivMode` is the raw integer stored in
    `iv_mode` (rtr_init stores whatever it is given). -/
structure Sock where
  refresh : UInt32
  expire : UInt32
  retry : UInt32
  ivMode : Int
  version : Nat := Gen.RTR_PROTOCOL_MAX_SUPPORTED_VERSION
  hasReceivedPdus : Bool := false
  lastUpdate : Int := 0
deriving DecidableEq, Repr

/-- `apply_interval_value` -/
def applyIntervalValue (s : Sock) (interval : UInt32) (t : IvType) : Sock :=
  match t with
  | .expiration => { s with expire := interval }
  | .refresh => { s with refresh := interval }
  | .retry => { s with retry := interval }
  | .invalid => s

/-- assignment of a constant to `uint16_t minimum` -/
def u16 (c : Nat) : UInt32 := UInt32.ofNat (c % 65536)
/-- assignment of a constant to `uint32_t maximum` -/
def u32 (c : Nat) : UInt32 := UInt32.ofNat c

/-- the `switch (type)` of rtr_check_interval_option: `(minimum, maximum)` -/
def bounds : IvType → Option (UInt32 × UInt32)
  | .expiration => some (u16 Gen.RTR_EXPIRATION_MIN, u32 Gen.RTR_EXPIRATION_MAX)
  | .refresh => some (u16 Gen.RTR_REFRESH_MIN, u32 Gen.RTR_REFRESH_MAX)
  | .retry => some (u16 Gen.RTR_RETRY_MIN, u32 Gen.RTR_RETRY_MAX)
  | .invalid => none

/-- `rtr_check_interval_option(rtr_socket, interval_mode, interval, type)`: socket afterwards and
    return value -/
def checkIntervalOption (s : Sock) (mode : Int) (interval : UInt32) (t : IvType) : Sock × Int :=
  match bounds t with
  | none => (s, Gen.RTR_ERROR)
  | some (minimum, maximum) =>
    let r := checkIntervalRange interval minimum maximum
    if r = .inside ∨ mode = Gen.RTR_INTERVAL_MODE_ACCEPT_ANY then
      (applyIntervalValue s interval t, Gen.RTR_SUCCESS)
    else if mode = Gen.RTR_INTERVAL_MODE_DEFAULT_MIN_MAX then
      if r = .below then (applyIntervalValue s minimum t, Gen.RTR_SUCCESS)
      else (applyIntervalValue s maximum t, Gen.RTR_SUCCESS)
    else (s, Gen.RTR_SUCCESS)

/-- the interval part of the End-of-Data branch of rtr_sync_receive_and_store_pdus: `ver` is the
    version byte of the PDU, `e r y` its expire / refresh / retry fields (present for version 1).
    Result: socket and whether processing continues (`false` = `goto cleanup` with RTR_ERROR). -/
def eodIntervals (s : Sock) (ver : Nat) (e r y : UInt32) : Sock × Bool :=
  if ver = Gen.RTR_PROTOCOL_VERSION_1 ∧ s.ivMode ≠ Gen.RTR_INTERVAL_MODE_IGNORE_ANY then
    let (s1, rc1) := checkIntervalOption s s.ivMode e .expiration
    if rc1 = Gen.RTR_ERROR then (s1, false) else
    let (s2, rc2) := checkIntervalOption s1 s1.ivMode r .refresh
    if rc2 = Gen.RTR_ERROR then (s2, false) else
    let (s3, rc3) := checkIntervalOption s2 s2.ivMode y .retry
    if rc3 = Gen.RTR_ERROR then (s3, false) else
    (s3, true)
  else (s, true)

/-- `rtr_set_interval_mode(rtr_socket, option)` (rtr.c): only the four declared modes are accepted -/
def setIntervalMode (s : Sock) (option : Int) : Sock :=
  if option = Gen.RTR_INTERVAL_MODE_IGNORE_ANY ∨ option = Gen.RTR_INTERVAL_MODE_ACCEPT_ANY ∨
     option = Gen.RTR_INTERVAL_MODE_DEFAULT_MIN_MAX ∨ option = Gen.RTR_INTERVAL_MODE_IGNORE_ON_FAILURE
  then { s with ivMode := option } else s

/-- what can happen to the timers of a socket during its life: an End of Data arrives, or the user
    reconfigures the interval mode -/
inductive HEv where
  | eod (ver : Nat) (e r y : UInt32)
  | setMode (option : Int)
deriving DecidableEq, Repr

def applyEv (s : Sock) : HEv → Sock
  | .eod ver e r y => (eodIntervals s ver e r y).1
  | .setMode o => setIntervalMode s o

def runHistory (s : Sock) (h : List HEv) : Sock := h.foldl applyEv s

/-- version handling of rtr_receive_pdu for a non-error PDU with version byte `ver`:
    live downgrade on the first PDU, then the version must match.  `none` = PDU refused. -/
def receiveVersion (s : Sock) (ver : Nat) : Sock × Bool :=
  let s1 :=
    if ¬ s.hasReceivedPdus then
      let s0 := if s.version = Gen.RTR_PROTOCOL_VERSION_1 ∧ ver = Gen.RTR_PROTOCOL_VERSION_0
        then { s with version := Gen.RTR_PROTOCOL_VERSION_0 } else s
      { s0 with hasReceivedPdus := true }
    else s
  (s1, decide (ver = s1.version))

/-- `rtr_sync` on the conversation  Cache Response, End of Data  (both with version byte `ver`,
    matching session, no payload PDUs), clock reading `now` at the end: socket and return value -/
def syncCrEod (s : Sock) (ver : Nat) (e r y : UInt32) (now : Int) : Sock × Int :=
  let (s1, ok1) := receiveVersion s ver          -- Cache Response
  if ¬ ok1 then (s1, Gen.RTR_ERROR) else
  let (s2, ok2) := receiveVersion s1 ver         -- End of Data
  if ¬ ok2 then (s2, Gen.RTR_ERROR) else
  let (s3, ok3) := eodIntervals s2 ver e r y
  if ¬ ok3 then (s3, Gen.RTR_ERROR) else
  ({ s3 with lastUpdate := now }, Gen.RTR_SUCCESS)

/-- is a requested interval acceptable to rtr_init? -/
def initOk (refresh expire retry : UInt32) : Bool :=
  checkIntervalRange refresh (u32 Gen.RTR_REFRESH_MIN) (u32 Gen.RTR_REFRESH_MAX) = .inside ∧
  checkIntervalRange expire (u32 Gen.RTR_EXPIRATION_MIN) (u32 Gen.RTR_EXPIRATION_MAX) = .inside ∧
  checkIntervalRange retry (u32 Gen.RTR_RETRY_MIN) (u32 Gen.RTR_RETRY_MAX) = .inside

/-- `rtr_init(…, refresh_interval, expire_interval, retry_interval, iv_mode, …)`: return value and the
    socket it leaves behind on success -/
def rtrInit (refresh expire retry : UInt32) (mode : Int) : Int × Option Sock :=
  if initOk refresh expire retry then
    (Gen.RTR_SUCCESS, some { refresh := refresh, expire := expire, retry := retry, ivMode := mode,
                             version := Gen.RTR_PROTOCOL_MAX_SUPPORTED_VERSION, hasReceivedPdus := false,
                             lastUpdate := 0 })
  else (Gen.RTR_INVALID_PARAM, none)

/-- `rtr_mgr_init` for well-formed groups (`groupSizes` = sockets per group, all > 0, distinct
    preferences, no allocation failure): every socket is initialised by rtr_init with mode
    DEFAULT_MIN_MAX, the first failure is returned.  Result: return value and the sockets. -/
def mgrInit (groupSizes : List Nat) (refresh expire retry : UInt32) : Int × List Sock :=
  if groupSizes = [] ∨ groupSizes.any (· = 0) then (Gen.RTR_ERROR, []) else
  match rtrInit refresh expire retry Gen.RTR_INTERVAL_MODE_DEFAULT_MIN_MAX with
  | (_, some s) => (Gen.RTR_SUCCESS, List.replicate (groupSizes.foldl (· + ·) 0) s)
  | (rc, none) => (rc, [])

/-- the timeout `rtr_wait_for_sync` passes to the transport receive function when the monotonic
    clock reads `now` -/
def waitTimeout (s : Sock) (now : Int) : Int :=
  let wait := (s.lastUpdate + (s.refresh.toNat : Int)) - now
  if wait < 0 then 0 else wait

/-- what the transport delivers to rtr_wait_for_sync -/
inductive WaitEvent where
  | serialNotify       -- a well-formed Serial Notify PDU
  | otherPdu           -- any other well-formed PDU
  | timeout            -- TR_WOULDBLOCK
  | intr               -- TR_INTR
  | error              -- TR_ERROR / TR_CLOSED / malformed PDU
deriving DecidableEq, Repr

/-- return value of `rtr_wait_for_sync` -/
def waitForSync (ev : WaitEvent) : Int :=
  match ev with
  | .serialNotify => Gen.RTR_SUCCESS
  | .timeout => Gen.RTR_SUCCESS
  | _ => Gen.RTR_ERROR

/-- what the RTR_ESTABLISHED branch of rtr_fsm_start does next -/
inductive Action where
  | sendSerialQuery     -- rtr_send_serial_query, then RTR_SYNC
  | waitAgain           -- state unchanged, loop
  | leave               -- rtr_receive_pdu changed the state (transport error / fatal)
deriving DecidableEq, Repr

def establishedStep (ev : WaitEvent) : Action :=
  if waitForSync ev = Gen.RTR_SUCCESS then .sendSerialQuery
  else match ev with
    | .error => .leave
    | _ => .waitAgain

/-! ### PDUs that arrive in pieces: `tr_recv_all` under a clock

    `rtr_receive_pdu` reads the 8-byte header with `tr_recv_all(…, timeout)` and the rest of the PDU
    with `tr_recv_all(…, RTR_RECV_TIMEOUT)`.  `tr_recv_all` reads the monotonic clock once on entry
    (`end_time = now + timeout`) and once before EVERY call of the transport receive function, which
    gets `end_time − now` as its timeout.  The scripted transport delivers the PDU in fragments. -/

/-- `n` bytes of the PDU that reach the client `dt` seconds after the previous fragment was
    delivered (the first one: after the wait began) -/
structure Frag where
  dt : Nat
  n : Nat
deriving DecidableEq, Repr

/-- one call of the transport receive function: bytes asked for, timeout argument, clock reading -/
structure RecvCall where
  len : Nat
  timeout : Int
  now : Int
deriving DecidableEq, Repr

/-- the scripted transport's receive function, called for `len` bytes with `timeout` at clock `now`:
    bytes delivered (`none` = TR_WOULDBLOCK), clock afterwards, fragments still to come.  A fragment
    that is due within the timeout (a timeout of 0 polls: only what is there already) is delivered
    when it is due; otherwise the whole timeout passes (a negative one passes no time). -/
def mockRecv (len : Nat) (timeout now : Int) : List Frag → Option Nat × Int × List Frag
  | [] => (none, now + max timeout 0, [])
  | f :: rest =>
    if (f.dt : Int) ≤ timeout then
      (some (min f.n len), now + (f.dt : Int), if f.n ≤ len then rest else ⟨0, f.n - len⟩ :: rest)
    else (none, now + max timeout 0, rest)

/-- result of one `tr_recv_all` -/
structure RecvAll where
  calls : List RecvCall
  now : Int
  rest : List Frag
  complete : Bool            -- `false`: a transport call returned TR_WOULDBLOCK
deriving DecidableEq, Repr

/-- the loop of `tr_recv_all` with `end_time = endTime`, `rem` bytes still missing, clock `now`.
    `fuel` bounds the number of transport calls (every call delivers at least one byte, so
    `fuel = rem` suffices; fragments of 0 bytes are not part of the protocol). -/
def recvAll (endTime : Int) : Nat → Nat → Int → List Frag → RecvAll
  | 0, rem, now, fr => ⟨[], now, fr, rem = 0⟩
  | fuel + 1, rem, now, fr =>
    if rem = 0 then ⟨[], now, fr, true⟩ else
    let t := endTime - now
    match mockRecv rem t now fr with
    | (none, now', fr') => ⟨[⟨rem, t, now⟩], now', fr', false⟩
    | (some k, now', fr') =>
      let r := recvAll endTime fuel (rem - k) now' fr'
      ⟨⟨rem, t, now⟩ :: r.calls, r.now, r.rest, r.complete⟩

/-- result of `rtr_receive_pdu` as far as time is concerned -/
structure PduRecv where
  hcalls : List RecvCall     -- transport calls made for the header
  bcalls : List RecvCall     -- transport calls made for the rest of the PDU
  now : Int                  -- clock when rtr_receive_pdu returns
  complete : Bool            -- the whole PDU was read (`false` = TR_WOULDBLOCK)
deriving DecidableEq, Repr

/-- `rtr_receive_pdu(…, timeout)` entered at clock `now` for a well-formed PDU of `8 + body` bytes -/
def receivePdu (body : Nat) (timeout now : Int) (fr : List Frag) : PduRecv :=
  let h := recvAll (now + timeout) Gen.sizeof_pdu_header Gen.sizeof_pdu_header now fr
  if h.complete = false ∨ body = 0 then ⟨h.calls, [], h.now, h.complete⟩ else
  let b := recvAll (h.now + (Gen.RTR_RECV_TIMEOUT : Int)) body body h.now h.rest
  ⟨h.calls, b.calls, b.now, b.complete⟩

/-- `rtr_wait_for_sync` entered at clock `now` while the cache sends a PDU of `8 + body` bytes in
    fragments -/
def waitPdu (s : Sock) (now : Int) (body : Nat) (fr : List Frag) : PduRecv :=
  receivePdu body (waitTimeout s now) now fr

/-- return value of that `rtr_wait_for_sync`: a complete Serial Notify and an expired wait both
    trigger the poll -/
def waitPduRc (isNotify : Bool) (p : PduRecv) : Int :=
  if p.complete = true ∧ isNotify = false then Gen.RTR_ERROR else Gen.RTR_SUCCESS

/-- bytes of a Serial Notify behind the header -/
def notifyBody : Nat := Gen.sizeof_pdu_serial_notify - Gen.sizeof_pdu_header

/-! ### scripted run of the state machine (trace of the transport calls that matter)

    A cache that answers every query with  Cache Response, End of Data(ver, e, r, y)  and, while
    the socket is established, produces the scripted events.  `dt` = seconds that pass before the
    event, capped by the timeout the client asked for (for `timeout` the full timeout passes). -/

inductive TraceItem where
  | send (pduType : Nat) (now : Int)       -- a PDU handed to the transport send function
  | wait (timeout : Int) (now : Int)        -- first receive call of rtr_wait_for_sync
  | recv (len : Nat) (timeout : Int) (now : Int)  -- every receive call of a wait whose PDU comes in fragments
deriving DecidableEq, Repr

def TraceItem.time : TraceItem → Int
  | .send _ n => n
  | .wait _ n => n
  | .recv _ _ n => n

def callItems (cs : List RecvCall) : List TraceItem := cs.map (fun c => .recv c.len c.timeout c.now)

structure Ev where
  ev : WaitEvent
  dt : Nat
  e : UInt32
  r : UInt32
  y : UInt32
  /-- non-empty: the event is a Serial Notify that arrives in these fragments (`dt` is not used) -/
  frags : List Frag := []
deriving Repr

/-- when the scripted event reaches the client that started waiting at `now` with timeout `t` -/
def arrival (ev : Ev) (now t : Int) : Int :=
  if ev.ev = .timeout then now + t else now + min (ev.dt : Int) t

/-- established phase: consume events; after the last event the socket waits once more -/
def fsmEstablished (ver : Nat) : Sock → Int → List Ev → List TraceItem
  | s, now, [] => [.wait (waitTimeout s now) now]
  | s, now, ev :: rest =>
    let t := waitTimeout s now
    let here := TraceItem.wait t now
    if ev.frags ≠ [] then
      -- a Serial Notify in fragments, then silence: whether it completes or the wait expires, the
      -- client polls when rtr_wait_for_sync returns
      let p := waitPdu s now notifyBody ev.frags
      let items := here :: callItems (p.hcalls ++ p.bcalls)
      let (s', rc) := syncCrEod s ver ev.e ev.r ev.y p.now
      if rc = Gen.RTR_SUCCESS then items ++ .send 1 p.now :: fsmEstablished ver s' p.now rest
      else items ++ [.send 1 p.now]
    else
    let now' := arrival ev now t
    match establishedStep ev.ev with
    | .sendSerialQuery =>
      -- Serial Query, then rtr_sync on the scripted answer
      let (s', rc) := syncCrEod s ver ev.e ev.r ev.y now'
      if rc = Gen.RTR_SUCCESS then here :: .send 1 now' :: fsmEstablished ver s' now' rest
      else [here, .send 1 now']
    | .waitAgain => here :: fsmEstablished ver s now' rest
    | .leave => [here]

/-- from rtr_start: Reset Query, first synchronisation (End of Data carries `e0 r0 y0`), then the
    established phase -/
def fsmTrace (s : Sock) (ver : Nat) (now : Int) (e0 r0 y0 : UInt32) (evs : List Ev) : List TraceItem :=
  let (s', rc) := syncCrEod s ver e0 r0 y0 now
  if rc = Gen.RTR_SUCCESS then .send 2 now :: fsmEstablished ver s' now evs
  else [.send 2 now]

end Rtr.Intervals
