/-
  PduConv: literal model of the byte-order conversions of rtrlib/rtr/packets.c on a little-endian
  host: rtr_pdu_convert_header_byte_order, rtr_pdu_convert_footer_byte_order and the four wrappers
  rtr_pdu_header_to_host_byte_order / rtr_pdu_footer_to_host_byte_order /
  rtr_pdu_header_to_network_byte_order / rtr_pdu_to_network_byte_order.

  A PDU buffer is the list of its bytes in memory.  `lrtr_convert_short` / `lrtr_convert_long` on a
  little-endian host reverse the 2 / 4 bytes of the field in place (`htons = ntohs = bswap16`,
  `htonl = ntohl = bswap32`), so every conversion is a sequence of `revAt buf off k`.  A field that
  does not lie inside the buffer is an out-of-bounds access in C; the model leaves the buffer
  unchanged there and `needLen` says how long the buffer must be for the C code to stay in bounds.
  Offsets and sizes come from the generated layout (`Rtr.Gen`, RtrModel/Generated/PduLayout.lean).
-/
import RtrModel.Rtr

namespace Rtr.Conv
open Rtr.P

/-- reverse the `k` bytes at offset `off` (a `k`-byte field converted between the byte orders) -/
def revAt (buf : List Nat) (off k : Nat) : List Nat :=
  if off + k ≤ buf.length then buf.take off ++ ((buf.drop off).take k).reverse ++ buf.drop (off + k) else buf

/-- a `uint16_t` / `uint32_t` read from the buffer by the little-endian host -/
def le16 (b : List Nat) (off : Nat) : Nat := b.getD off 0 + 256 * b.getD (off + 1) 0
def le32 (b : List Nat) (off : Nat) : Nat :=
  b.getD off 0 + 256 * (b.getD (off + 1) 0 + 256 * (b.getD (off + 2) 0 + 256 * b.getD (off + 3) 0))

inductive Dir where
  | toHost | toNetwork
deriving DecidableEq, Repr

/-- `rtr_pdu_convert_header_byte_order` (the same bytes move in both directions): the 16-bit field
    at offset 2 unless the type is ROUTER_KEY, then the 32-bit length -/
def convHeader (buf : List Nat) : List Nat :=
  let b1 := if typeOf buf ≠ 9 then revAt buf Gen.offsetof_pdu_header_reserved Gen.fieldsize_pdu_header_reserved else buf
  revAt b1 Gen.offsetof_pdu_header_len Gen.fieldsize_pdu_header_len

/-- `rtr_pdu_convert_footer_byte_order`, statement by statement -/
def convFooter (dir : Dir) (buf : List Nat) : List Nat :=
  match typeOf buf with
  | 1 => revAt buf Gen.offsetof_pdu_serial_query_sn 4
  | 10 =>
    match dir with
    | .toNetwork =>
      -- the text-length field is located with the host-order len_enc_pdu, then len_enc_pdu is converted
      let encLen := le32 buf Gen.offsetof_pdu_error_len_enc_pdu
      let b1 := revAt buf (Gen.offsetof_pdu_error_rest + encLen) 4
      revAt b1 Gen.offsetof_pdu_error_len_enc_pdu 4
    | .toHost =>
      let b1 := revAt buf Gen.offsetof_pdu_error_len_enc_pdu 4
      let encLen := le32 b1 Gen.offsetof_pdu_error_len_enc_pdu
      revAt b1 (Gen.offsetof_pdu_error_rest + encLen) 4
  | 0 => revAt buf Gen.offsetof_pdu_serial_notify_sn 4
  | 7 =>
    if verOf buf = 1 then
      let b1 := revAt buf Gen.offsetof_pdu_end_of_data_v1_expire_interval 4
      let b2 := revAt b1 Gen.offsetof_pdu_end_of_data_v1_refresh_interval 4
      let b3 := revAt b2 Gen.offsetof_pdu_end_of_data_v1_retry_interval 4
      revAt b3 Gen.offsetof_pdu_end_of_data_v1_sn 4
    else revAt buf Gen.offsetof_pdu_end_of_data_v0_sn 4
  | 4 =>
    let b1 := revAt buf Gen.offsetof_pdu_ipv4_prefix 4
    revAt b1 Gen.offsetof_pdu_ipv4_asn 4
  | 6 =>
    let b1 := revAt buf Gen.offsetof_pdu_ipv6_prefix 4
    let b2 := revAt b1 (Gen.offsetof_pdu_ipv6_prefix + 4) 4
    let b3 := revAt b2 (Gen.offsetof_pdu_ipv6_prefix + 8) 4
    let b4 := revAt b3 (Gen.offsetof_pdu_ipv6_prefix + 12) 4
    revAt b4 Gen.offsetof_pdu_ipv6_asn 4
  | 9 => revAt buf Gen.offsetof_pdu_router_key_asn 4
  | _ => buf

/-- `rtr_pdu_header_to_host_byte_order` -/
def hdrToHost (buf : List Nat) : List Nat := convHeader buf
/-- `rtr_pdu_header_to_network_byte_order` -/
def hdrToNetwork (buf : List Nat) : List Nat := convHeader buf

/-- what `rtr_receive_pdu` does to the buffer: header to host order, then
    `rtr_pdu_footer_to_host_byte_order` -/
def toHost (buf : List Nat) : List Nat := convFooter .toHost (convHeader buf)

/-- `rtr_pdu_to_network_byte_order`: footer, then header -/
def toNetwork (buf : List Nat) : List Nat := convHeader (convFooter .toNetwork buf)

/-- the number of bytes the footer conversion touches at most (the C code is in bounds iff the
    buffer is at least this long) -/
def footerNeed (dir : Dir) (buf : List Nat) : Nat :=
  match typeOf buf with
  | 1 => Gen.offsetof_pdu_serial_query_sn + 4
  | 10 =>
    if buf.length < Gen.offsetof_pdu_error_len_enc_pdu + 4 then Gen.offsetof_pdu_error_len_enc_pdu + 4
    else
      match dir with
      | .toNetwork => Gen.offsetof_pdu_error_rest + le32 buf Gen.offsetof_pdu_error_len_enc_pdu + 4
      | .toHost => Gen.offsetof_pdu_error_rest + be32 buf Gen.offsetof_pdu_error_len_enc_pdu + 4
  | 0 => Gen.offsetof_pdu_serial_notify_sn + 4
  | 7 => if verOf buf = 1 then Gen.sizeof_pdu_end_of_data_v1 else Gen.sizeof_pdu_end_of_data_v0
  | 4 => Gen.sizeof_pdu_ipv4
  | 6 => Gen.sizeof_pdu_ipv6
  | 9 => Gen.offsetof_pdu_router_key_asn + 4
  | _ => 0

def needLen (op : String) (buf : List Nat) : Nat :=
  if op = "tohost" then max Gen.sizeof_pdu_header (footerNeed .toHost buf)
  else if op = "tonet" then max Gen.sizeof_pdu_header (footerNeed .toNetwork buf)
  else Gen.sizeof_pdu_header

/-- the line protocol of harness/pduconv_harness.c: `<op> <hex>` ↦ hex of the converted buffer;
    `bad-op` for anything else (unknown op, bad hex, a buffer too short for the fields the C code
    would touch) -/
def runLine (line : String) : String :=
  match Proto.words line with
  | [op, h] =>
    match Proto.hexToBytes? h with
    | none => "bad-op"
    | some buf =>
      if op ≠ "tohost" ∧ op ≠ "tonet" ∧ op ≠ "hdr2host" ∧ op ≠ "hdr2net" then "bad-op"
      else if buf.length < needLen op buf ∨ buf.length > 65536 then "bad-op"
      else if op = "tohost" then hex (toHost buf)
      else if op = "tonet" then hex (toNetwork buf)
      else if op = "hdr2host" then hex (hdrToHost buf)
      else hex (hdrToNetwork buf)
  | _ => "bad-op"

end Rtr.Conv
