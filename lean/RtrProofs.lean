import RtrProofs.TrieWF
import RtrProofs.Validate
import RtrProofs.TrieOps
import RtrProofs.TrieSet
import RtrProofs.TableSet
import RtrProofs.BitsLink
