import RtrModel.Bits
import RtrModel.Trie
import RtrModel.PfxTable
import RtrModel.Proto
