import RtrSpec.CLink
import RtrSpec.CLinkPdu
import RtrSpec.CLinkIo
import RtrSpec.CLinkFsm
import RtrSpec.CLinkSync
import RtrSpec.CLinkRecv
import RtrSpec.CLinkErr
