import RtrProps.C02
import RtrProps.C01
import RtrProps.C09
