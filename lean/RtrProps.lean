import RtrProps.C02
import RtrProps.C01
import RtrProps.C09
import RtrProps.C20
import RtrProps.C17
import RtrProps.C10
import RtrProps.C15
import RtrProps.C19
