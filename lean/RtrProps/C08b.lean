/-
  C08b — the CONVERGENCE half of C08 ("After any finite run of faults the client re-converges on the
  cache's data"), proved on the model `Rtr.P` (RtrModel/Rtr.lean) of rtr_receive_pdu, rtr_sync and
  rtr_fsm_start.  RtrProps/C08.lean proves the progress half (no busy loop, no absorbing error
  state); this file proves that once the environment is good the client reaches ESTABLISHED with
  exactly the cache's data, and how fast.

  THE REACTIVE CACHE AS A SCRIPT.  The environment of the model is a script (input tape, send
  outcomes, open outcomes).  "The cache answers correctly from now on" is expressed for ONE exchange
  as: the next `open` succeeds, no scripted send fails, and the tape holds — without any transport
  fault or clock advance, in ANY segmentation into non-empty chunks — exactly the good answer to the
  query the socket is going to send.  Which query that is, is a function of the socket's state
  (C05: `nextQuery`, plus the expiry check made when connecting): `cvSendsReset st` (a Reset Query
  will be sent) / `cvSendsSerial st` (a Serial Query with the stored session and serial will be
  sent).  The good answer to a Reset Query is `goodResetAnswer` (Cache Response, one announcement
  per record / router key of the cache's data set, End of Data); to a Serial Query
  `goodSerialAnswer` (Cache Response, a consistent list of announcements and withdrawals, End of
  Data), both built with the byte layout the model parses.

  WHAT IS PROVED (for all socket states, tables, intervals, data sets, segmentations):
  (1) `receive_complete`, `receive_complete_general`: rtr_receive_pdu returns a complete well-formed
      PDU at the head of a fault-free tape, consuming exactly its bytes (including the live
      downgrade on the first PDU and Error Reports of any version).
  (2) `sync_complete_reset`: rtr_sync succeeds on the good answer to a Reset Query; afterwards the
      socket's records are exactly the announced ones, other sockets' records are untouched,
      session / serial / update time / intervals are those of the End of Data.  The socket may hold
      records of its own (the reload replaces them); the only hypothesis on the tables is C07's
      invariant (`Inv7`, first clause: own data only together with a time stamp; `inv7_own_data`).
      Both protocol versions; every interval triple (`eod_intervals`, `eod_intervals_unchanged`
      say which values are taken over, per interval mode).
  (3) `sync_complete_serial`: the same for an incremental answer: announcements of absent and
      withdrawals of present records, every record named once, in any interleaving.
      `sync_complete_items`: the common general form of (2) and (3) (any interleaving also for the
      answer to a Reset Query).
  (4) `converges_with_reset_query` (named instances `converges_from_error`,
      `converges_from_connecting`): from ERROR_TRANSPORT, ERROR_FATAL, ERROR_NO_DATA_AVAIL,
      ERROR_NO_INCR_UPDATE_AVAIL, FAST_RECONNECT, CONNECTING, RESET, in a good environment, after at
      most k = 4 iterations of the state machine (ERROR_TRANSPORT / ERROR_FATAL / FAST_RECONNECT: 4;
      CONNECTING / ERROR_NO_DATA_AVAIL / ERROR_NO_INCR_UPDATE_AVAIL: 3; RESET: 2) the state is
      ESTABLISHED, the socket's records are the cache's data set, and the time that passed is 0 or
      exactly one `retry_interval`: `st'.n.now ≤ st.n.now + st.tm.retry`.
      `sendsReset_of_no_data`: by `Inv7` every socket without a time stamp (never synchronised,
      purged) is covered.
      `converges_with_serial_query`: from ERROR_TRANSPORT, ERROR_FATAL, FAST_RECONNECT, CONNECTING
      with a session and unexpired data: at most 3 iterations, same time bound.
      `converged_invariants`: the run keeps the tables duplicate-free and preserves `Inv7`;
      `run_deterministic`: the run is the computation `cvIter`.

  WHAT IS NOT COVERED HERE.  * A cache that needs several exchanges (Cache Reset or "no data
  available" answer followed by a new query, session change, version negotiation by Error Report):
  each of these ends in one of the start states of (4) — ERROR_NO_INCR_UPDATE_AVAIL,
  ERROR_NO_DATA_AVAIL, FAST_RECONNECT — by `syncG`'s case analysis (C03/C05/C13), after which (4)
  applies to the NEXT exchange; the composition over several exchanges is not stated as one theorem.
  * The refresh / expire part of the bound of C08 (refresh + expire + c·retry) belongs to the fault
  phase: how long the client may keep using old data while the cache is unreachable is C07; that
  the fault phase makes progress is C08.  Here the bound for the good phase is c = 1 retry interval
  and 4 iterations.  * Serial Notify PDUs interleaved with the answer, and clock advances (`dt`)
  between the chunks of the answer (they would only shift `last_update`), are not in the good
  environment.  * The wait in ESTABLISHED (rtr_wait_for_sync) that precedes a periodic Serial
  Query is not part of (4); `sync_complete_serial` covers the exchange itself.
-/
import RtrProofs.Converge

namespace Rtr.C08b
open Rtr Rtr.P

/-! ## (1) completeness of rtr_receive_pdu -/

/-- **a complete well-formed PDU is received** (general form).  `raw` is complete (`raw.length` is its
    length field), passes `rtr_pdu_check_size`, is not longer than RTR_MAX_PDU_LEN, and carries the
    version the socket speaks after the live-downgrade rule (`downgraded`) or is an Error Report;
    the tape holds `raw ++ rest` in any segmentation into non-empty chunks, without faults.  Then
    `rtr_receive_pdu` returns exactly `raw`, the rest of the tape holds exactly `rest`, the clock, the
    send and open scripts are untouched and nothing but recv calls appear in the trace. -/
theorem receive_complete_general (c : Conn) (n : Net) (own : Nat) (timeout : Int) (raw rest : List Nat)
    (hs : c.state ≠ .shutdown) (hff : FaultFree n.tape) (hb : tapeBytes n.tape = raw ++ rest)
    (hlen : raw.length = lenOf raw) (hcs : checkSize raw = true) (hmax : lenOf raw ≤ Gen.RTR_MAX_PDU_LEN)
    (hv : verOf raw = (downgraded c raw).version ∨ typeOf raw = 10) :
    ∃ n', receivePdu c n own timeout = (.ok raw, downgraded c raw, n') ∧
      FaultFree n'.tape ∧ tapeBytes n'.tape = rest ∧ n'.now = n.now ∧ n'.sendQ = n.sendQ ∧ n'.openQ = n.openQ ∧
      dropRecv n'.trace = dropRecv n.trace := by
  obtain ⟨n', r, t, s⟩ := cv_receivePdu_complete c n own timeout raw rest hs ⟨hff, hb⟩ hlen hcs hmax hv
  exact ⟨n', r, t.ff, t.eq, s.now, s.sendQ, s.openQ, s.trace⟩

/-- **… in the version the socket speaks**: only the "a PDU was seen on this connection" flag changes -/
theorem receive_complete (c : Conn) (n : Net) (own : Nat) (timeout : Int) (raw rest : List Nat)
    (hs : c.state ≠ .shutdown) (hff : FaultFree n.tape) (hb : tapeBytes n.tape = raw ++ rest)
    (hlen : raw.length = lenOf raw) (hcs : checkSize raw = true) (hmax : lenOf raw ≤ Gen.RTR_MAX_PDU_LEN)
    (hv : verOf raw = c.version) :
    ∃ n', receivePdu c n own timeout = (.ok raw, { c with hasReceived := true }, n') ∧
      FaultFree n'.tape ∧ tapeBytes n'.tape = rest ∧ n'.now = n.now ∧ n'.sendQ = n.sendQ ∧ n'.openQ = n.openQ := by
  have hd := cv_downgraded_same c raw hv
  obtain ⟨n', r, h1, h2, h3, h4, h5, _⟩ := receive_complete_general c n own timeout raw rest hs hff hb hlen hcs hmax
    (Or.inl (by rw [hd]; exact hv))
  rw [hd] at r
  exact ⟨n', r, h1, h2, h3, h4, h5⟩

/-- **… the legitimate downgrade**: first PDU of the connection, socket at version 1, PDU of version 0 -/
theorem receive_complete_downgrade (c : Conn) (n : Net) (own : Nat) (timeout : Int) (raw rest : List Nat)
    (hs : c.state ≠ .shutdown) (hff : FaultFree n.tape) (hb : tapeBytes n.tape = raw ++ rest)
    (hlen : raw.length = lenOf raw) (hcs : checkSize raw = true) (hmax : lenOf raw ≤ Gen.RTR_MAX_PDU_LEN)
    (h1 : c.hasReceived = false) (h2 : c.version = 1) (h3 : verOf raw = 0) (h4 : typeOf raw ≠ 10) :
    ∃ n', receivePdu c n own timeout = (.ok raw, { c with version := 0, hasReceived := true }, n') ∧
      FaultFree n'.tape ∧ tapeBytes n'.tape = rest ∧ n'.now = n.now := by
  have hd := cv_downgraded_down c raw h1 h2 h3 h4
  obtain ⟨n', r, a1, a2, a3, _⟩ := receive_complete_general c n own timeout raw rest hs hff hb hlen hcs hmax
    (Or.inl (by rw [hd]; exact h3))
  rw [hd] at r
  exact ⟨n', r, a1, a2, a3⟩

/-! ## the good answers -/

/-- the good answer to a Reset Query for the data set `recs`, `keys` -/
def goodResetAnswer (ver sess serial : Nat) (iv : CvIvals) (recs : List Rec) (keys : List KeyRec) : List Nat :=
  cvAnswer ver sess serial iv (cvResetItems recs keys)

/-- its byte layout: Cache Response, one Prefix PDU (flags = 1) per record, one Router Key PDU
    (flags = 1) per key, End of Data (see `cvCacheResponse`, `cvPfxPdu`, `cvKeyPdu`, `cvEndOfData`) -/
theorem goodResetAnswer_eq (ver sess serial : Nat) (iv : CvIvals) (recs : List Rec) (keys : List KeyRec) :
    goodResetAnswer ver sess serial iv recs keys =
      cvCacheResponse ver sess ++ (((recs.map (cvPfxPdu ver 1)).flatten ++ (keys.map (cvKeyPdu ver 1)).flatten) ++
        cvEndOfData ver sess serial iv) := by
  unfold goodResetAnswer cvAnswer cvResetItems
  rw [List.map_append, List.flatten_append, List.map_map, List.map_map]
  rfl

/-- the good answer to a Serial Query: `items` = the announcements and withdrawals since that serial -/
def goodSerialAnswer (ver sess serial : Nat) (iv : CvIvals) (items : List CvItem) : List Nat :=
  cvAnswer ver sess serial iv items

/-! ## (2) completeness of rtr_sync for the answer to a Reset Query -/

/-- **rtr_sync succeeds on the good answer to a Reset Query.**
    Hypotheses: the socket is not shut down and requests a new session; the answer is in the version
    the socket speaks (or version 0 as first PDU to a version-1 socket); tables duplicate-free, no
    reload in progress; own data only together with a time stamp (C07 `Inv7`); session id 16 bit,
    serial 32 bit; records and keys well-formed (`cvRecOK`, `cvKeyOK`) and duplicate-free; the tape
    holds the answer (then `rest`) fault-free in any segmentation; the fuel covers the PDUs.
    Conclusion: success; the socket's records (src = 0) are exactly the announced ones; records of
    other sockets are untouched; tables duplicate-free; session, serial, flags, update time =
    now (no time passes), intervals per `applyEodIntervals`; version; the tape holds `rest`. -/
theorem sync_complete_reset (fuel : Nat) (st : St) (ver sess serial : Nat) (iv : CvIvals) (recs : List Rec)
    (keys : List KeyRec) (rest : List Nat)
    (hs : st.c.state ≠ .shutdown) (hr : st.ss.reqSession = true)
    (hver : ver = st.c.version ∨ (st.c.hasReceived = false ∧ st.c.version = 1 ∧ ver = 0)) (hv : ver ≤ 1)
    (ht : TblOK st.t) (hi : st.ss.lastUpdate = 0 → NoOwn st.t)
    (hsess : sess < 65536) (hserial : serial < 4294967296)
    (hrok : ∀ r ∈ recs, cvRecOK r) (hkok : ∀ k ∈ keys, cvKeyOK k) (hrn : recs.Nodup) (hkn : keys.Nodup)
    (hff : FaultFree st.n.tape) (hb : tapeBytes st.n.tape = goodResetAnswer ver sess serial iv recs keys ++ rest)
    (hfuel : recs.length + keys.length < fuel) :
    (syncG fuel st).1 = true ∧
    (∀ x : Rec, x.src = 0 → (x ∈ (syncG fuel st).2.1.t.pt ↔ x ∈ recs)) ∧
    (∀ x : KeyRec, x.src = 0 → (x ∈ (syncG fuel st).2.1.t.kt ↔ x ∈ keys)) ∧
    OthersSame st.t (syncG fuel st).2.1.t ∧ TblOK (syncG fuel st).2.1.t ∧
    (syncG fuel st).2.1.ss =
      { session := sess, serial := serial, reqSession := false, lastUpdate := st.n.now, isResetting := false } ∧
    (syncG fuel st).2.1.tm = applyEodIntervals st.tm (cvEndOfData ver sess serial iv) ∧
    (syncG fuel st).2.1.c = { st.c with version := ver, hasReceived := true } ∧
    (syncG fuel st).2.1.n.now = st.n.now ∧
    FaultFree (syncG fuel st).2.1.n.tape ∧ tapeBytes (syncG fuel st).2.1.n.tape = rest := by
  obtain ⟨pt', kt', n', g, t', s', e, np, nk, mp, mk⟩ := cv_sync_reset fuel st ver sess serial iv recs keys rest hfuel hs hver hv
    ht hi hr hsess hrok hkok hrn hkn ⟨hff, hb⟩
  rw [e]
  refine ⟨rfl, fun x hx => ?_, fun x hx => ?_, ⟨fun x hx => ?_, fun x hx => ?_⟩, ⟨rfl, np, nk⟩, ?_, rfl, rfl, s'.now, t'.ff, t'.eq⟩
  · show x ∈ pt' ↔ _
    rw [mp x]; simp [hx]
  · show x ∈ kt' ↔ _
    rw [mk x]; simp [hx]
  · show x ∈ pt' ↔ _
    rw [mp x]
    have : x ∉ recs := fun h => hx (hrok x h).1
    simp [hx, this]
  · show x ∈ kt' ↔ _
    rw [mk x]
    have : x ∉ keys := fun h => hx (hkok x h).1
    simp [hx, this]
  · show ({ session := sess, serial := be32 (cvEndOfData ver sess serial iv) 8, reqSession := false,
            lastUpdate := st.n.now, isResetting := false } : Sess) = _
    rw [cv_endOfData_serial ver sess serial iv hserial]

/-- an interval triple the socket takes over in interval mode `mode`: any in ACCEPT_ANY; in
    DEFAULT_MIN_MAX and IGNORE_ON_FAILURE the values within the RFC 8210 bounds -/
def ivAccepted (mode : IvMode) (iv : CvIvals) : Prop :=
  mode = .acceptAny ∨
  (mode ≠ .ignoreAny ∧
   Gen.RTR_REFRESH_MIN ≤ iv.refresh ∧ iv.refresh ≤ Gen.RTR_REFRESH_MAX ∧
   Gen.RTR_RETRY_MIN ≤ iv.retry ∧ iv.retry ≤ Gen.RTR_RETRY_MAX ∧
   Gen.RTR_EXPIRATION_MIN ≤ iv.expire ∧ iv.expire ≤ Gen.RTR_EXPIRATION_MAX)

instance (mode : IvMode) (iv : CvIvals) : Decidable (ivAccepted mode iv) := by unfold ivAccepted; exact inferInstance

/-- **the intervals of a version-1 End of Data are taken over** when the mode accepts them -/
theorem eod_intervals (tm : Timers) (sess serial : Nat) (iv : CvIvals) (h : ivAccepted tm.ivMode iv)
    (h1 : iv.refresh < 4294967296) (h2 : iv.retry < 4294967296) (h3 : iv.expire < 4294967296) :
    applyEodIntervals tm (cvEndOfData 1 sess serial iv) =
      { refresh := iv.refresh, retry := iv.retry, expire := iv.expire, ivMode := tm.ivMode } := by
  obtain ⟨e1, e2, e3⟩ := cv_endOfData_ivals sess serial iv
  rw [Nat.mod_eq_of_lt h1] at e1
  rw [Nat.mod_eq_of_lt h2] at e2
  rw [Nat.mod_eq_of_lt h3] at e3
  have hv : verOf (cvEndOfData 1 sess serial iv) = 1 := rfl
  have hm : tm.ivMode ≠ .ignoreAny := by
    rcases h with h | h
    · rw [h]; decide
    · exact h.1
  unfold applyEodIntervals
  rw [if_pos ⟨hv, hm⟩]
  simp only [e1, e2, e3]
  unfold applyIv
  have c1 : (Gen.RTR_EXPIRATION_MIN ≤ iv.expire ∧ iv.expire ≤ Gen.RTR_EXPIRATION_MAX) ∨ tm.ivMode = .acceptAny := by
    rcases h with h | h
    · exact Or.inr h
    · exact Or.inl ⟨h.2.2.2.2.2.1, h.2.2.2.2.2.2⟩
  have c2 : (Gen.RTR_REFRESH_MIN ≤ iv.refresh ∧ iv.refresh ≤ Gen.RTR_REFRESH_MAX) ∨ tm.ivMode = .acceptAny := by
    rcases h with h | h
    · exact Or.inr h
    · exact Or.inl ⟨h.2.1, h.2.2.1⟩
  have c3 : (Gen.RTR_RETRY_MIN ≤ iv.retry ∧ iv.retry ≤ Gen.RTR_RETRY_MAX) ∨ tm.ivMode = .acceptAny := by
    rcases h with h | h
    · exact Or.inr h
    · exact Or.inl ⟨h.2.2.2.1, h.2.2.2.2.1⟩
  rw [if_pos c1, if_pos c2, if_pos c3]

/-- a version-0 End of Data carries no intervals; in mode IGNORE_ANY they are ignored -/
theorem eod_intervals_unchanged (tm : Timers) (ver sess serial : Nat) (iv : CvIvals) (h : ver = 0 ∨ tm.ivMode = .ignoreAny) :
    applyEodIntervals tm (cvEndOfData ver sess serial iv) = tm := by
  unfold applyEodIntervals
  rw [if_neg]
  rintro ⟨hv, hm⟩
  rcases h with h | h
  · subst h
    have : verOf (cvEndOfData 0 sess serial iv) = 0 := rfl
    rw [this] at hv; cases hv
  · exact hm h

/-! ## (3) completeness of rtr_sync for the answer to a Serial Query -/

/-- **rtr_sync succeeds on a good incremental answer.**  The socket has a session (`reqSession =
    false`, no reload pending) and the answer carries it; `items` is consistent with the tables:
    every record / key is named at most once, announcements name absent, withdrawals present
    records — in any interleaving of IPv4, IPv6 and Router Key PDUs (the apply loops run IPv4 first,
    then IPv6, then keys; for a consistent list every order is accepted).  Afterwards the tables
    hold the announced records and the old ones that were not withdrawn. -/
theorem sync_complete_serial (fuel : Nat) (st : St) (ver serial : Nat) (iv : CvIvals) (items : List CvItem) (rest : List Nat)
    (hs : st.c.state ≠ .shutdown) (hr : st.ss.reqSession = false) (hres : st.ss.isResetting = false)
    (hver : ver = st.c.version ∨ (st.c.hasReceived = false ∧ st.c.version = 1 ∧ ver = 0)) (hv : ver ≤ 1)
    (ht : TblOK st.t) (hsess : st.ss.session < 65536) (hserial : serial < 4294967296)
    (hok : ∀ i ∈ items, i.OK)
    (hnp : ((cvPfxOps items).map Prod.snd).Nodup) (hnk : ((cvKeyOps items).map Prod.snd).Nodup)
    (hcp : ∀ op ∈ cvPfxOps items, (op.1 = true ↔ op.2 ∉ st.t.pt))
    (hck : ∀ op ∈ cvKeyOps items, (op.1 = true ↔ op.2 ∉ st.t.kt))
    (hff : FaultFree st.n.tape) (hb : tapeBytes st.n.tape = goodSerialAnswer ver st.ss.session serial iv items ++ rest)
    (hfuel : items.length < fuel) :
    (syncG fuel st).1 = true ∧
    (∀ x, x ∈ (syncG fuel st).2.1.t.pt ↔ ((true, x) ∈ cvPfxOps items ∨ (x ∈ st.t.pt ∧ (false, x) ∉ cvPfxOps items))) ∧
    (∀ x, x ∈ (syncG fuel st).2.1.t.kt ↔ ((true, x) ∈ cvKeyOps items ∨ (x ∈ st.t.kt ∧ (false, x) ∉ cvKeyOps items))) ∧
    TblOK (syncG fuel st).2.1.t ∧
    (syncG fuel st).2.1.ss =
      { session := st.ss.session, serial := serial, reqSession := false, lastUpdate := st.n.now, isResetting := false } ∧
    (syncG fuel st).2.1.tm = applyEodIntervals st.tm (cvEndOfData ver st.ss.session serial iv) ∧
    (syncG fuel st).2.1.n.now = st.n.now ∧
    FaultFree (syncG fuel st).2.1.n.tape ∧ tapeBytes (syncG fuel st).2.1.n.tape = rest := by
  obtain ⟨pt', kt', n', g, t', s', e, np, nk, mp, mk⟩ := cv_sync_serial fuel st ver st.ss.session serial iv items rest hfuel hs
    hver hv ht hr hres rfl hsess hok hnp hnk hcp hck ⟨hff, hb⟩
  rw [e]
  refine ⟨rfl, mp, mk, ⟨rfl, np, nk⟩, ?_, rfl, s'.now, t'.ff, t'.eq⟩
  show ({ session := st.ss.session, serial := be32 (cvEndOfData ver st.ss.session serial iv) 8, reqSession := false,
          lastUpdate := st.n.now, isResetting := false } : Sess) = _
  rw [cv_endOfData_serial ver st.ss.session serial iv hserial]

/-- **the general form of (2) and (3)**: a new session is requested *or* the answer carries the stored
    session; the payload is any interleaving of announcements and withdrawals that is consistent
    with the tables the update writes to (`baseOf`: the live tables, or for a reload the copy without
    this socket's records).  (2) is the instance "announcements only, canonical order", (3) the
    instance "session stored".  In particular the answer to a Reset Query may interleave IPv4, IPv6
    and Router Key PDUs arbitrarily. -/
theorem sync_complete_items (fuel : Nat) (st : St) (ver sess serial : Nat) (iv : CvIvals) (items : List CvItem) (rest : List Nat)
    (hs : st.c.state ≠ .shutdown) (hq : st.ss.reqSession = true ∨ st.ss.session = sess)
    (hver : ver = st.c.version ∨ (st.c.hasReceived = false ∧ st.c.version = 1 ∧ ver = 0)) (hv : ver ≤ 1)
    (ht : TblOK st.t) (hsess : sess < 65536) (hok : ∀ i ∈ items, i.OK)
    (hnp : ((cvPfxOps items).map Prod.snd).Nodup) (hnk : ((cvKeyOps items).map Prod.snd).Nodup)
    (hcp : ∀ op ∈ cvPfxOps items, (op.1 = true ↔ op.2 ∉ (baseOf st.t (resettingAfter st.ss)).pt))
    (hck : ∀ op ∈ cvKeyOps items, (op.1 = true ↔ op.2 ∉ (baseOf st.t (resettingAfter st.ss)).kt))
    (hff : FaultFree st.n.tape) (hb : tapeBytes st.n.tape = cvAnswer ver sess serial iv items ++ rest)
    (hfuel : items.length < fuel) :
    (syncG fuel st).1 = true ∧
    (∀ x, x ∈ (syncG fuel st).2.1.t.pt ↔ ((true, x) ∈ cvPfxOps items ∨
      (x ∈ (baseOf st.t (resettingAfter st.ss)).pt ∧ (false, x) ∉ cvPfxOps items))) ∧
    (∀ x, x ∈ (syncG fuel st).2.1.t.kt ↔ ((true, x) ∈ cvKeyOps items ∨
      (x ∈ (baseOf st.t (resettingAfter st.ss)).kt ∧ (false, x) ∉ cvKeyOps items))) ∧
    TblOK (syncG fuel st).2.1.t ∧ (syncG fuel st).2.1.ss.session = sess ∧ (syncG fuel st).2.1.ss.reqSession = false ∧
    (syncG fuel st).2.1.ss.lastUpdate = st.n.now ∧ (syncG fuel st).2.1.n.now = st.n.now ∧
    tapeBytes (syncG fuel st).2.1.n.tape = rest := by
  obtain ⟨pt', kt', n', g, t', s', e, np, nk, mp, mk⟩ := cv_sync_items fuel st ver sess serial iv items rest hfuel hs
    hver hv ht hsess hq hok hnp hnk hcp hck ⟨hff, hb⟩
  rw [e]
  exact ⟨rfl, mp, mk, ⟨rfl, np, nk⟩, rfl, rfl, rfl, s'.now, t'.eq⟩

/-! ## (4) convergence of the state machine -/

/-- the environment is good for one exchange: the next `open` succeeds (no scripted outcome left, or
    the next one is not -1), no scripted send outcome is a failure, and the tape holds exactly
    `answer` followed by `rest`, without faults or clock advances, in any segmentation -/
structure GoodEnv (st : St) (answer rest : List Nat) : Prop where
  open_ok : CvOpenOK st.n.openQ
  send_ok : NoFail st.n.sendQ
  fault_free : FaultFree st.n.tape
  bytes : tapeBytes st.n.tape = answer ++ rest

/-- the socket has converged on the data set `recs`, `keys` of the cache: after `k ≤ 4` iterations of
    rtr_fsm_start it is ESTABLISHED; its own records (src = 0) are exactly the cache's; other
    sockets' records are untouched; the tables are duplicate-free; session and serial are those of
    the End of Data, no new session is requested, the update time is the current time; the
    intervals are those of `applyEodIntervals`; and the time that passed is 0 or exactly one retry
    interval (the sleep of ERROR_TRANSPORT / ERROR_FATAL / ERROR_NO_DATA_AVAIL), hence at most
    `retry_interval`.  What is left of the environment: `rest` on the tape, no failing send. -/
def ConvergedOnReset (fuel : Nat) (st : St) (ver sess serial : Nat) (iv : CvIvals) (recs : List Rec) (keys : List KeyRec)
    (rest : List Nat) : Prop :=
  ∃ k st', k ≤ 4 ∧ CvRun fuel k st st' ∧ st'.c.state = .established ∧
    (∀ x : Rec, x.src = 0 → (x ∈ st'.t.pt ↔ x ∈ recs)) ∧
    (∀ x : KeyRec, x.src = 0 → (x ∈ st'.t.kt ↔ x ∈ keys)) ∧
    OthersSame st.t st'.t ∧ TblOK st'.t ∧
    st'.ss.session = sess ∧ st'.ss.serial = serial ∧ st'.ss.reqSession = false ∧ st'.ss.lastUpdate = st'.n.now ∧
    st'.tm = applyEodIntervals st.tm (cvEndOfData ver sess serial iv) ∧ st'.c.version = ver ∧
    (st'.n.now = st.n.now ∨ st'.n.now = st.n.now + st.tm.retry) ∧
    st.n.now ≤ st'.n.now ∧ st'.n.now ≤ st.n.now + st.tm.retry ∧
    FaultFree st'.n.tape ∧ tapeBytes st'.n.tape = rest ∧ NoFail st'.n.sendQ

/-- **convergence with a Reset Query.**  `cvSendsReset st`: the socket is in ERROR_NO_DATA_AVAIL,
    ERROR_NO_INCR_UPDATE_AVAIL; or in RESET with a new session requested; or in CONNECTING /
    FAST_RECONNECT / ERROR_TRANSPORT / ERROR_FATAL with a new session requested or data that will have
    expired when it connects.  `CvVerFrom st ver`: the cache answers in the version the socket
    speaks, or in version 0 where the live downgrade applies.  In a good environment whose tape
    holds the good answer to a Reset Query the socket converges (`ConvergedOnReset`). -/
theorem converges_with_reset_query (fuel : Nat) (st : St) (ver sess serial : Nat) (iv : CvIvals) (recs : List Rec)
    (keys : List KeyRec) (rest : List Nat)
    (hq : cvSendsReset st) (hver : CvVerFrom st ver) (hv : ver ≤ 1)
    (ht : TblOK st.t) (hi : st.ss.lastUpdate = 0 → NoOwn st.t)
    (hsess : sess < 65536) (hserial : serial < 4294967296)
    (hrok : ∀ r ∈ recs, cvRecOK r) (hkok : ∀ k ∈ keys, cvKeyOK k) (hrn : recs.Nodup) (hkn : keys.Nodup)
    (env : GoodEnv st (goodResetAnswer ver sess serial iv recs keys) rest)
    (hfuel : recs.length + keys.length < fuel) :
    ConvergedOnReset fuel st ver sess serial iv recs keys rest := by
  obtain ⟨k, d, st', hk, hd, hrun, hdone, mp, mk⟩ := cv_converges_reset fuel st ver sess serial iv recs keys rest
    env.open_ok env.send_ok hq hver hv ht hi hsess hserial hrok hkok hrn hkn ⟨env.fault_free, env.bytes⟩ hfuel
  have hss := hdone.ss
  refine ⟨k, st', hk, hrun, hdone.state, fun x hx => ?_, fun x hx => ?_, ⟨fun x hx => ?_, fun x hx => ?_⟩, hdone.tblok,
    by rw [hss], by rw [hss], by rw [hss], by rw [hss, hdone.now], hdone.tm, hdone.version, ?_, ?_, ?_,
    hdone.tape.ff, hdone.tape.eq, hdone.send env.send_ok⟩
  · rw [mp x]; simp [hx]
  · rw [mk x]; simp [hx]
  · rw [mp x]
    have : x ∉ recs := fun h => hx (hrok x h).1
    simp [hx, this]
  · rw [mk x]
    have : x ∉ keys := fun h => hx (hkok x h).1
    simp [hx, this]
  · rw [hdone.now]
    rcases hd with h | h
    · left; rw [h]; simp
    · right; rw [h]
  · rw [hdone.now]; omega
  · rw [hdone.now]
    rcases hd with h | h
    · rw [h]; omega
    · rw [h]; exact Int.le_refl _

/-- C07's invariant gives the hypothesis on the tables used above -/
theorem inv7_own_data (st : St) (h : Inv7 st) : st.ss.lastUpdate = 0 → NoOwn st.t := by
  intro h0
  exact Classical.byContradiction fun hn => h.1 hn h0

/-- … and the pending Reset Query: a socket without a time stamp (never synchronised, or purged —
    expiry, failed undo, rtr_stop) requests a new session, so from each of the seven states of the
    recovery path it will send a Reset Query -/
theorem sendsReset_of_no_data (st : St) (h : Inv7 st) (h0 : st.ss.lastUpdate = 0)
    (hstate : st.c.state = .errTransport ∨ st.c.state = .errFatal ∨ st.c.state = .errNoData ∨ st.c.state = .errNoIncr ∨
      st.c.state = .fastReconnect ∨ st.c.state = .connecting ∨ st.c.state = .reset) : cvSendsReset st := by
  have hr := h.2.1 h0
  unfold cvSendsReset
  rcases hstate with e | e | e | e | e | e | e <;> rw [e] <;> simp only <;> first | exact Or.inl hr | exact hr | trivial

/-- **from the error states** with a new session requested (the named form of the theorem) -/
theorem converges_from_error (fuel : Nat) (st : St) (ver sess serial : Nat) (iv : CvIvals) (recs : List Rec)
    (keys : List KeyRec) (rest : List Nat)
    (hstate : st.c.state = .errTransport ∨ st.c.state = .errFatal ∨ st.c.state = .errNoData ∨ st.c.state = .errNoIncr ∨
      st.c.state = .fastReconnect)
    (hreq : st.ss.reqSession = true ∨ st.c.state = .errNoData ∨ st.c.state = .errNoIncr)
    (hver : CvVerFrom st ver) (hv : ver ≤ 1) (ht : TblOK st.t) (hi : st.ss.lastUpdate = 0 → NoOwn st.t)
    (hsess : sess < 65536) (hserial : serial < 4294967296)
    (hrok : ∀ r ∈ recs, cvRecOK r) (hkok : ∀ k ∈ keys, cvKeyOK k) (hrn : recs.Nodup) (hkn : keys.Nodup)
    (env : GoodEnv st (goodResetAnswer ver sess serial iv recs keys) rest)
    (hfuel : recs.length + keys.length < fuel) :
    ConvergedOnReset fuel st ver sess serial iv recs keys rest := by
  refine converges_with_reset_query fuel st ver sess serial iv recs keys rest ?_ hver hv ht hi hsess hserial hrok hkok hrn hkn
    env hfuel
  unfold cvSendsReset
  rcases hstate with e | e | e | e | e <;> rw [e] at hreq ⊢ <;> simp only
  all_goals first
    | trivial
    | (rcases hreq with h | h | h
       · exact Or.inl h
       · cases h
       · cases h)

/-- **from CONNECTING or RESET** with a new session requested -/
theorem converges_from_connecting (fuel : Nat) (st : St) (ver sess serial : Nat) (iv : CvIvals) (recs : List Rec)
    (keys : List KeyRec) (rest : List Nat)
    (hstate : st.c.state = .connecting ∨ st.c.state = .reset) (hreq : st.ss.reqSession = true)
    (hver : CvVerFrom st ver) (hv : ver ≤ 1) (ht : TblOK st.t) (hi : st.ss.lastUpdate = 0 → NoOwn st.t)
    (hsess : sess < 65536) (hserial : serial < 4294967296)
    (hrok : ∀ r ∈ recs, cvRecOK r) (hkok : ∀ k ∈ keys, cvKeyOK k) (hrn : recs.Nodup) (hkn : keys.Nodup)
    (env : GoodEnv st (goodResetAnswer ver sess serial iv recs keys) rest)
    (hfuel : recs.length + keys.length < fuel) :
    ConvergedOnReset fuel st ver sess serial iv recs keys rest := by
  refine converges_with_reset_query fuel st ver sess serial iv recs keys rest ?_ hver hv ht hi hsess hserial hrok hkok hrn hkn
    env hfuel
  unfold cvSendsReset
  rcases hstate with e | e <;> rw [e] <;> simp only
  · exact Or.inl hreq
  · exact hreq

/-- **convergence with a Serial Query.**  `cvSendsSerial st`: the socket is in CONNECTING /
    FAST_RECONNECT / ERROR_TRANSPORT / ERROR_FATAL, has a session and data that will not have expired
    when it connects.  With the good incremental answer on the tape: ESTABLISHED after `k ≤ 3`
    iterations and at most one retry interval; the tables are the old ones plus the announced minus
    the withdrawn records. -/
theorem converges_with_serial_query (fuel : Nat) (st : St) (ver serial : Nat) (iv : CvIvals) (items : List CvItem)
    (rest : List Nat)
    (hq : cvSendsSerial st) (hres : st.ss.isResetting = false)
    (hver : ver = st.c.version ∨ (st.c.version = 1 ∧ ver = 0)) (hv : ver ≤ 1)
    (ht : TblOK st.t) (hsess : st.ss.session < 65536) (hserial : serial < 4294967296)
    (hok : ∀ i ∈ items, i.OK)
    (hnp : ((cvPfxOps items).map Prod.snd).Nodup) (hnk : ((cvKeyOps items).map Prod.snd).Nodup)
    (hcp : ∀ op ∈ cvPfxOps items, (op.1 = true ↔ op.2 ∉ st.t.pt))
    (hck : ∀ op ∈ cvKeyOps items, (op.1 = true ↔ op.2 ∉ st.t.kt))
    (env : GoodEnv st (goodSerialAnswer ver st.ss.session serial iv items) rest)
    (hfuel : items.length < fuel) :
    ∃ k st', k ≤ 3 ∧ CvRun fuel k st st' ∧ st'.c.state = .established ∧
      (∀ x, x ∈ st'.t.pt ↔ ((true, x) ∈ cvPfxOps items ∨ (x ∈ st.t.pt ∧ (false, x) ∉ cvPfxOps items))) ∧
      (∀ x, x ∈ st'.t.kt ↔ ((true, x) ∈ cvKeyOps items ∨ (x ∈ st.t.kt ∧ (false, x) ∉ cvKeyOps items))) ∧
      TblOK st'.t ∧
      st'.ss.session = st.ss.session ∧ st'.ss.serial = serial ∧ st'.ss.reqSession = false ∧ st'.ss.lastUpdate = st'.n.now ∧
      st'.tm = applyEodIntervals st.tm (cvEndOfData ver st.ss.session serial iv) ∧ st'.c.version = ver ∧
      st.n.now ≤ st'.n.now ∧ st'.n.now ≤ st.n.now + st.tm.retry ∧
      FaultFree st'.n.tape ∧ tapeBytes st'.n.tape = rest := by
  obtain ⟨k, d, st', hk, hd, hrun, hdone, mp, mk⟩ := cv_converges_serial fuel st ver serial iv items rest
    env.open_ok env.send_ok hq hres hver hv ht hsess hserial hok hnp hnk hcp hck ⟨env.fault_free, env.bytes⟩ hfuel
  have hss := hdone.ss
  refine ⟨k, st', hk, hrun, hdone.state, mp, mk, hdone.tblok,
    by rw [hss], by rw [hss], by rw [hss], by rw [hss, hdone.now], hdone.tm, hdone.version, ?_, ?_,
    hdone.tape.ff, hdone.tape.eq⟩
  · rw [hdone.now]; omega
  · rw [hdone.now]
    rcases hd with h | h
    · rw [h]; omega
    · rw [h]; exact Int.le_refl _

/-- the run of (4) is a run of the state machine in the sense of RtrProofs/Fsm.lean (`Reach`): the
    invariants proved for all runs hold along it, in particular C07's `Inv7` at its end -/
theorem converged_invariants (fuel k : Nat) (st st' : St) (run : CvRun fuel k st st') (ht : TblOK st.t) (hi : Inv7 st) :
    TblOK st'.t ∧ OthersSame st.t st'.t ∧ st'.c.version ≤ st.c.version ∧ Inv7 st' :=
  ⟨(reach_inv fuel run.reach ht).2.1, (reach_inv fuel run.reach ht).2.2, (reach_inv fuel run.reach ht).1,
   reach_inv7 fuel run.reach ht hi⟩

/-- the run as a computation: `cvIter fuel k st` is the state after `k` iterations -/
theorem run_deterministic (fuel k : Nat) (st st' : St) : CvRun fuel k st st' ↔ cvIter fuel k st = some st' :=
  (cvIter_iff fuel k st st').symm

/-! ## non-vacuity: a data set of two prefixes and one router key, protocol version 1 -/

def exR4 : Rec := ⟨false, 0x0a000000, 8, 16, 65001, 0⟩                                   -- 10.0.0.0/8-16 AS65001
def exR6 : Rec := ⟨true, 0x20010db8000000000000000000000000, 32, 48, 65002, 0⟩          -- 2001:db8::/32-48 AS65002
def exKey : KeyRec := ⟨65003, List.replicate 20 7, List.replicate 91 9, 0⟩
def exOther : Rec := ⟨false, 0x0b000000, 8, 8, 65009, 1⟩                                 -- learned from another socket
def exStale : Rec := ⟨false, 0x0c000000, 8, 8, 65010, 0⟩                                 -- old data of this socket
def exIv : CvIvals := ⟨1800, 300, 3600⟩
/-- the answer of the cache to a Reset Query: session 77, serial 5 (207 bytes) -/
def exAnswer : List Nat := goodResetAnswer 1 77 5 exIv [exR4, exR6] [exKey]

/-- the socket after a transport error: stale data of an old session, a new session requested, the
    answer on the tape in three chunks that do not respect PDU boundaries -/
def exErr : St :=
  { c := { state := .errTransport, version := 1, hasReceived := true },
    ss := { session := 3, serial := 9, reqSession := true, lastUpdate := 500 },
    t := { pt := [exOther, exStale] },
    n := { tape := [.rx (exAnswer.take 5), .rx ((exAnswer.drop 5).take 100), .rx (exAnswer.drop 105)], threaded := true } }

/-- the same socket in SYNC (the Reset Query has been sent) -/
def exSync : St := { exErr with c := { exErr.c with state := .sync } }

-- (1) `receive_complete`: the first PDU of the answer (the Cache Response), split over two chunks
example : ∃ n', receivePdu exSync.c exSync.n 0 60 = (.ok (cvCacheResponse 1 77), { exSync.c with hasReceived := true }, n') ∧
    FaultFree n'.tape ∧ tapeBytes n'.tape = exAnswer.drop 8 ∧ n'.now = exSync.n.now ∧ n'.sendQ = exSync.n.sendQ ∧
    n'.openQ = exSync.n.openQ :=
  receive_complete exSync.c exSync.n 0 60 (cvCacheResponse 1 77) (exAnswer.drop 8) (by decide) (by decide +kernel)
    (by decide +kernel) (by decide) (by decide) (by decide) (by decide)
example : (match (receivePdu exSync.c exSync.n 0 60).1 with | .ok raw => raw | .rc _ => []) = [1, 3, 0, 77, 0, 0, 0, 8] := by
  decide +kernel

-- (2) `sync_complete_reset`: every hypothesis instantiated, the conclusion evaluated
example : (syncG 10 exSync).1 = true ∧ (syncG 10 exSync).2.1.ss =
    { session := 77, serial := 5, reqSession := false, lastUpdate := exSync.n.now, isResetting := false } :=
  have h := sync_complete_reset 10 exSync 1 77 5 exIv [exR4, exR6] [exKey] [] (by decide) rfl (Or.inl rfl) (by decide)
    ⟨rfl, by decide, by decide⟩ (fun h => absurd h (by decide)) (by decide) (by decide) (by decide) (by decide) (by decide)
    (by decide) (by decide +kernel) (by decide +kernel) (by decide)
  ⟨h.1, h.2.2.2.2.2.1⟩
example : (syncG 10 exSync).1 = true ∧ (syncG 10 exSync).2.1.t.pt = [exR6, exR4, exOther] ∧
    (syncG 10 exSync).2.1.t.kt = [exKey] ∧ (syncG 10 exSync).2.1.ss.lastUpdate = 1000 ∧
    (syncG 10 exSync).2.1.tm.refresh = 1800 ∧ (syncG 10 exSync).2.1.tm.retry = 300 ∧
    (syncG 10 exSync).2.1.tm.expire = 3600 := by
  decide +kernel
example : ivAccepted exSync.tm.ivMode exIv := by decide
example : applyEodIntervals exSync.tm (cvEndOfData 1 77 5 exIv) =
    { refresh := 1800, retry := 300, expire := 3600, ivMode := .acceptAny } :=
  eod_intervals exSync.tm 77 5 exIv (by decide) (by decide) (by decide) (by decide)

-- (4) `converges_with_reset_query` from ERROR_TRANSPORT: hypotheses instantiated …
example : ∃ k st', k ≤ 4 ∧ CvRun 10 k exErr st' ∧ st'.c.state = .established ∧
    (∀ x : Rec, x.src = 0 → (x ∈ st'.t.pt ↔ x ∈ [exR4, exR6])) ∧ OthersSame exErr.t st'.t ∧
    st'.n.now ≤ exErr.n.now + exErr.tm.retry :=
  have ⟨k, st', h1, h2, h3, h4, _, h6, _, _, _, _, _, _, _, _, _, h16, _⟩ :=
    converges_with_reset_query 10 exErr 1 77 5 exIv [exR4, exR6] [exKey] []
      (show exErr.ss.reqSession = true ∨ _ from Or.inl rfl) (Or.inl rfl) (by decide)
      ⟨rfl, by decide, by decide⟩ (fun h => absurd h (by decide)) (by decide) (by decide) (by decide) (by decide) (by decide)
      (by decide) ⟨by decide, by decide, by decide +kernel, by decide +kernel⟩ (by decide)
  ⟨k, st', h1, h2, h3, h4, h6, h16⟩
-- … and the run evaluated: ERROR_TRANSPORT → (sleep 600) CONNECTING → RESET → SYNC → ESTABLISHED
example : (cvIter 10 4 exErr).map (fun s => (s.c.state, s.t.pt, s.t.kt, s.n.now)) =
    some (.established, [exR6, exR4, exOther], [exKey], 1600) := by
  decide +kernel
example : (cvIter 10 4 exErr).map (fun s => (s.ss.session, s.ss.serial, s.ss.reqSession, s.ss.lastUpdate, s.tm.retry)) =
    some (77, 5, false, 1600, 300) := by
  decide +kernel

/-- a socket in ERROR_FATAL that holds the cache's data of serial 5 -/
def exFatal : St :=
  { c := { state := .errFatal, version := 1, hasReceived := true },
    ss := { session := 77, serial := 5, reqSession := false, lastUpdate := 900 },
    t := { pt := [exR6, exR4, exOther], kt := [exKey] },
    n := { threaded := true } }
def exR4b : Rec := ⟨false, 0x0a800000, 9, 24, 65001, 0⟩
/-- serial 6: 10.0.0.0/8 is withdrawn, 10.128.0.0/9 announced, the router key withdrawn -/
def exItems : List CvItem := [.pfx false exR4, .key false exKey, .pfx true exR4b]
def exFatal' : St :=
  { exFatal with n := { exFatal.n with tape := [.rx ((goodSerialAnswer 1 77 6 exIv exItems).take 30),
                                                 .rx ((goodSerialAnswer 1 77 6 exIv exItems).drop 30)] } }

-- (3)+(4) `converges_with_serial_query`: hypotheses instantiated, the run evaluated
example : ∃ k st', k ≤ 3 ∧ CvRun 10 k exFatal' st' ∧ st'.c.state = .established ∧ st'.ss.serial = 6 :=
  have ⟨k, st', h1, h2, h3, _, _, _, _, h8, _⟩ :=
    converges_with_serial_query 10 exFatal' 1 6 exIv exItems []
      (show exFatal'.ss.reqSession = false ∧ ¬ cvExpired exFatal' _ from ⟨rfl, fun h => absurd h.2 (by decide)⟩) rfl
      (Or.inl rfl) (by decide) ⟨rfl, by decide, by decide⟩ (by decide) (by decide) (by decide) (by decide +kernel)
      (by decide +kernel) (by decide +kernel) (by decide +kernel)
      ⟨by decide, by decide, by decide +kernel, by decide +kernel⟩ (by decide)
  ⟨k, st', h1, h2, h3, h8⟩
example : (cvIter 10 3 exFatal').map (fun s => (s.c.state, s.t.pt, s.t.kt, s.ss.serial, s.n.now)) =
    some (.established, [exR4b, exR6, exOther], [], 6, 1600) := by
  decide +kernel
-- `sync_complete_serial` on the same answer, the socket already in SYNC
example : (syncG 10 { exFatal' with c := { exFatal'.c with state := .sync } }).1 = true :=
  (sync_complete_serial 10 { exFatal' with c := { exFatal'.c with state := .sync } } 1 6 exIv exItems []
    (by decide) rfl rfl (Or.inl rfl) (by decide) ⟨rfl, by decide, by decide⟩ (by decide) (by decide) (by decide)
    (by decide +kernel) (by decide +kernel) (by decide +kernel) (by decide +kernel) (by decide +kernel) (by decide +kernel)
    (by decide)).1

-- `converged_invariants`: its hypotheses hold for the example
example : TblOK exErr.t ∧ Inv7 exErr :=
  ⟨⟨rfl, by decide, by decide⟩, fun _ => by decide, fun h => absurd h (by decide), by decide⟩

-- the byte layout of the answer (`goodResetAnswer_eq`): Cache Response, IPv4 Prefix, IPv6 Prefix, Router Key, End of Data
example : exAnswer.length = 8 + 20 + 32 + 123 + 24 ∧ exAnswer.take 28 =
    [1, 3, 0, 77, 0, 0, 0, 8,  1, 4, 0, 0, 0, 0, 0, 20, 1, 8, 16, 0, 10, 0, 0, 0, 0, 0, 253, 233] ∧
    exAnswer.drop 183 = [1, 7, 0, 77, 0, 0, 0, 24, 0, 0, 0, 5, 0, 0, 7, 8, 0, 0, 1, 44, 0, 0, 14, 16] := by decide +kernel

-- `receive_complete_downgrade`: a version-1 socket that has not yet seen a PDU gets a version-0 Cache Response
def exConn1 : Conn := { state := .sync, version := 1, hasReceived := false }
def exNet0 : Net := { tape := [.rx [0, 3, 0], .rx [77, 0, 0, 0, 8, 42]] }
example : ∃ n', receivePdu exConn1 exNet0 0 60 = (.ok (cvCacheResponse 0 77), { exConn1 with version := 0, hasReceived := true }, n') ∧
    FaultFree n'.tape ∧ tapeBytes n'.tape = [42] ∧ n'.now = exNet0.now :=
  receive_complete_downgrade exConn1 exNet0 0 60 (cvCacheResponse 0 77) [42] (by decide) (by decide) (by decide) (by decide)
    (by decide) (by decide) rfl rfl (by decide) (by decide)
-- `receive_complete_general`: an Error Report of another version is handed to the caller
def exErrPdu : List Nat := errorPduBytes 0 [] 2 []
example : ∃ n', receivePdu exSync.c { exNet0 with tape := [.rx exErrPdu] } 0 60 = (.ok exErrPdu, downgraded exSync.c exErrPdu, n') ∧
    FaultFree n'.tape ∧ tapeBytes n'.tape = [] ∧ n'.now = exNet0.now ∧ n'.sendQ = [] ∧ n'.openQ = [] ∧
    dropRecv n'.trace = dropRecv [] :=
  receive_complete_general exSync.c { exNet0 with tape := [.rx exErrPdu] } 0 60 exErrPdu [] (by decide) (by decide) (by decide)
    (by decide) (by decide) (by decide) (Or.inr (by decide))

-- `eod_intervals_unchanged`
example : applyEodIntervals exSync.tm (cvEndOfData 0 77 5 exIv) = exSync.tm := eod_intervals_unchanged _ 0 77 5 exIv (Or.inl rfl)

-- `sync_complete_items`: the same data set with Router Key, IPv6 and IPv4 PDUs in another order
def exMixed : List CvItem := [.key true exKey, .pfx true exR6, .pfx true exR4]
def exSync' : St := { exSync with n := { exSync.n with tape := [.rx (cvAnswer 1 77 5 exIv exMixed)] } }
example : (syncG 10 exSync').1 = true :=
  (sync_complete_items 10 exSync' 1 77 5 exIv exMixed [] (by decide) (Or.inl rfl) (Or.inl rfl) (by decide)
    ⟨rfl, by decide, by decide⟩ (by decide) (by decide) (by decide +kernel) (by decide +kernel) (by decide +kernel)
    (by decide +kernel) (by decide) (by decide +kernel) (by decide)).1
example : (syncG 10 exSync').2.1.t.pt = [exR6, exR4, exOther] ∧ (syncG 10 exSync').2.1.t.kt = [exKey] := by decide +kernel

-- `converges_from_error` on the same socket; `converges_from_connecting` on the socket in CONNECTING
example : ConvergedOnReset 10 exErr 1 77 5 exIv [exR4, exR6] [exKey] [] :=
  converges_from_error 10 exErr 1 77 5 exIv [exR4, exR6] [exKey] [] (Or.inl rfl) (Or.inl rfl) (Or.inl rfl) (by decide)
    ⟨rfl, by decide, by decide⟩ (fun h => absurd h (by decide)) (by decide) (by decide) (by decide) (by decide) (by decide)
    (by decide) ⟨by decide, by decide, by decide +kernel, by decide +kernel⟩ (by decide)
def exConnecting : St := { exErr with c := { exErr.c with state := .connecting } }
example : ConvergedOnReset 10 exConnecting 1 77 5 exIv [exR4, exR6] [exKey] [] :=
  converges_from_connecting 10 exConnecting 1 77 5 exIv [exR4, exR6] [exKey] [] (Or.inl rfl) rfl (Or.inl rfl) (by decide)
    ⟨rfl, by decide, by decide⟩ (fun h => absurd h (by decide)) (by decide) (by decide) (by decide) (by decide) (by decide)
    (by decide) ⟨by decide, by decide, by decide +kernel, by decide +kernel⟩ (by decide)
example : (cvIter 10 3 exConnecting).map (fun s => (s.c.state, s.t.pt, s.n.now)) =
    some (.established, [exR6, exR4, exOther], 1000) := by decide +kernel

-- `inv7_own_data`, `sendsReset_of_no_data`: a freshly initialised socket (rtr_init) in CONNECTING
def exFresh : St := { c := { state := .connecting } }
example : Inv7 exFresh := ⟨fun h => absurd ⟨by decide, by decide⟩ h, fun _ => rfl, by decide⟩
example : cvSendsReset exFresh :=
  sendsReset_of_no_data exFresh ⟨fun h => absurd ⟨by decide, by decide⟩ h, fun _ => rfl, by decide⟩ rfl
    (Or.inr (Or.inr (Or.inr (Or.inr (Or.inr (Or.inl rfl))))))
example : exFresh.ss.lastUpdate = 0 → NoOwn exFresh.t :=
  inv7_own_data exFresh ⟨fun h => absurd ⟨by decide, by decide⟩ h, fun _ => rfl, by decide⟩

-- `run_deterministic`: the run of the converged socket is the computed one
example : ∃ st', CvRun 10 4 exErr st' ∧ st'.c.state = .established := by
  have h : (cvIter 10 4 exErr).isSome = true := by decide +kernel
  obtain ⟨st', e⟩ := Option.isSome_iff_exists.1 h
  have hs : (cvIter 10 4 exErr).map (fun s => s.c.state) = some .established := by decide +kernel
  rw [e] at hs
  exact ⟨st', (run_deterministic 10 4 exErr st').2 e, by simpa using hs⟩

end Rtr.C08b
