/-
  C09 — Update callbacks are a complete and exact change log of the prefix table.

  Model: the ghost field `PfxTable.log` records every `update_fp` invocation in order.
  Statement: replaying the stream from table creation (a) never meets an entry that reports a
  change that did not happen (`replay` returns `some`: an "added" entry for a record already
  present, or a "removed" entry for an absent one, makes it `none` — this rules out spurious and
  repeated callbacks), and (b) ends in exactly the table's contents (rules out missing ones) —
  after every public operation: add, remove, remove-by-source, destruction.

  The atomic reload (copy_except_socket + swap + pfx_table_notify_diff: "only the net difference
  for the reloading cache is reported") is proved in RtrProps/C09b.lean (`notifyDiff_net`,
  `reload_log_replays`, `log_replays_reload`: histories that mix reloads with the operations
  below).  The rollback of a failed synchronisation is a sequence of add/remove and is covered by
  `log_replays`.
-/
import RtrProofs.TableSet
import RtrProps.C02

namespace Rtr.C09
open Rtr PfxTable

/-- replay of a callback stream over a multiset of records; `none` = some entry is not a real change -/
def replay : List (Bool × Rec) → List Rec → Option (List Rec)
  | [], s => some s
  | (true, r) :: l, s => if r ∈ s then none else replay l (r :: s)
  | (false, r) :: l, s => if r ∈ s then replay l (s.erase r) else none

theorem replay_append : ∀ (l1 l2 : List (Bool × Rec)) (s : List Rec),
    replay (l1 ++ l2) s = (replay l1 s).bind (replay l2) := by
  intro l1
  induction l1 with
  | nil => intro l2 s; simp [replay]
  | cons x xs ih =>
    intro l2 s
    obtain ⟨b, r⟩ := x
    cases b <;> simp only [List.cons_append, replay] <;> split <;> simp [ih]

/-- the log is an exact change log of the contents: it replays without a spurious entry to a
    duplicate-free list that is the table's contents -/
def LogOK (T : PfxTable) : Prop := ∃ s, replay T.log [] = some s ∧ s.Perm T.recs

theorem perm_erase_of_cons' {r : Rec} {s t : List Rec} (h : s.Perm (r :: t)) : (s.erase r).Perm t := by
  have := h.erase r
  simpa using this

/-- removing, one callback each, a duplicate-free list of records that are all present -/
theorem replay_removals : ∀ (gone s : List Rec), gone.Nodup → (∀ g ∈ gone, g ∈ s) → s.Nodup →
    ∃ s', replay (gone.map fun r => (false, r)) s = some s' ∧ (∀ x, x ∈ s' ↔ x ∈ s ∧ x ∉ gone) ∧ s'.Nodup := by
  intro gone
  induction gone with
  | nil => intro s _ _ hs; exact ⟨s, rfl, by simp, hs⟩
  | cons g gs ih =>
    intro s hg hin hs
    rw [List.nodup_cons] at hg
    have hgin : g ∈ s := hin g (by simp)
    have hs' : (s.erase g).Nodup := hs.sublist (List.erase_sublist)
    have hin' : ∀ x ∈ gs, x ∈ s.erase g := by
      intro x hx
      have : x ≠ g := fun e => hg.1 (e ▸ hx)
      exact (List.mem_erase_of_ne this).2 (hin x (List.mem_cons_of_mem _ hx))
    obtain ⟨s', h1, h2, h3⟩ := ih (s.erase g) hg.2 hin' hs'
    refine ⟨s', by simp [replay, hgin, h1], ?_, h3⟩
    intro x
    rw [h2 x]
    by_cases e : x = g
    · subst e
      simp [List.Nodup.mem_erase_iff hs]
    · simp [List.mem_erase_of_ne e, e]

theorem logOK_init : LogOK {} := ⟨[], rfl, by simp [PfxTable.recs, recs4, recs6, trieRecs, Trie.nodes]⟩

/-- **C09** for one operation: add, remove, remove-by-source keep the log an exact change log -/
theorem step_logOK (T : PfxTable) (op : C02.Op) (h : TableWF T) (hcb : T.hasCb = true) (hl : LogOK T) (hop : op.OK) :
    LogOK (C02.stepT T op).1 ∧ (C02.stepT T op).1.hasCb = true := by
  obtain ⟨s, hs, hp⟩ := hl
  have nd : s.Nodup := hp.nodup_iff.2 (C02.forEach_enumerates T h)
  cases op with
  | add r =>
    have a := add_spec T r h hop
    simp only [C02.stepT]
    by_cases hin : r ∈ T.recs
    · obtain ⟨_, h2⟩ := a.dup hin
      rw [h2]; exact ⟨⟨s, hs, hp⟩, hcb⟩
    · obtain ⟨_, h2, h3, h4⟩ := a.ok hin
      have hin' : r ∉ s := fun x => hin (hp.mem_iff.1 x)
      refine ⟨⟨r :: s, ?_, (List.Perm.cons r hp).trans h2.symm⟩, by rw [h4, hcb]⟩
      rw [h3, hcb, if_pos rfl, replay_append, hs]
      simp [replay, hin']
  | remove r =>
    have a := remove_spec T r h
    simp only [C02.stepT]
    by_cases hin : r ∈ T.recs
    · obtain ⟨_, h2, h3, h4⟩ := a.ok hin
      have hin' : r ∈ s := hp.mem_iff.2 hin
      refine ⟨⟨s.erase r, ?_, perm_erase_of_cons' (hp.trans h2)⟩, by rw [h4, hcb]⟩
      rw [h3, hcb, if_pos rfl, replay_append, hs]
      simp [replay, hin']
    · obtain ⟨_, h2⟩ := a.nf hin
      rw [h2]; exact ⟨⟨s, hs, hp⟩, hcb⟩
  | srcRemove src =>
    have a := srcRemove_spec T src h
    simp only [C02.stepT]
    obtain ⟨gone, hg, hlog⟩ := a.log
    have ndT := C02.forEach_enumerates T h
    have gnd : gone.Nodup := hg.nodup_iff.2 (ndT.sublist List.filter_sublist)
    have gin : ∀ g ∈ gone, g ∈ s := by
      intro g hgm
      have := hg.mem_iff.1 hgm
      exact hp.mem_iff.2 (List.mem_filter.1 this).1
    obtain ⟨s', h1, h2, h3⟩ := replay_removals gone s gnd gin nd
    refine ⟨⟨s', ?_, ?_⟩, by rw [a.cb, hcb]⟩
    · rw [hlog, hcb, if_pos rfl, replay_append, hs]
      simpa using h1
    · refine (List.perm_ext_iff_of_nodup h3 (C02.forEach_enumerates _ a.wf)).2 ?_
      intro x
      rw [h2 x, a.recs.mem_iff, List.mem_filter, hp.mem_iff, hg.mem_iff, List.mem_filter]
      constructor
      · rintro ⟨hx, hn⟩
        refine ⟨hx, ?_⟩
        cases e : (x.src == src)
        · simp [bne, e]
        · exact absurd ⟨hx, e⟩ hn
      · rintro ⟨hx, hne⟩
        refine ⟨hx, fun hh => ?_⟩
        simp [bne, hh.2] at hne

/-- **C09**: after every finite history of public operations on a table created with a callback,
    replaying the callback stream from creation meets no spurious entry and reproduces exactly
    the table's contents. -/
theorem log_replays : ∀ (ops : List C02.Op) (T : PfxTable), TableWF T → T.hasCb = true → LogOK T →
    (∀ op ∈ ops, op.OK) → LogOK (C02.runT ops T).1 := by
  intro ops
  induction ops with
  | nil => intro T _ _ hl _; exact hl
  | cons op ops ih =>
    intro T h hcb hl hok
    have s := step_logOK T op h hcb hl (hok op (by simp))
    have w := (C02.step_refines T T.recs op h (List.Perm.refl _) (hok op (by simp))).1
    simp only [C02.runT]
    exact ih _ w s.2 s.1 (fun o ho => hok o (List.mem_cons_of_mem _ ho))

/-- no callback reports a change that did not happen, none is repeated: a successful replay
    means every "added" entry found the record absent and every "removed" entry found it present -/
theorem log_exact (l : List (Bool × Rec)) (s s' : List Rec) (h : replay l s = some s') (hs : s.Nodup) : s'.Nodup := by
  induction l generalizing s with
  | nil => simp [replay] at h; exact h ▸ hs
  | cons x xs ih =>
    obtain ⟨b, r⟩ := x
    cases b
    · simp only [replay] at h
      split at h
      · exact ih _ h (hs.sublist List.erase_sublist)
      · cases h
    · simp only [replay] at h
      split at h
      · cases h
      · rename_i hn
        exact ih _ h (List.nodup_cons.2 ⟨hn, hs⟩)

/-! ### destruction -/

theorem freeLog_perm : ∀ (t : Trie), (freeLog t).Perm t.elems
  | .nil => by rw [freeLog]; simp [Trie.elems, Trie.nodes]
  | .node c l r => by
    rw [freeLog]
    have ih := freeLog_perm (removeRoot (.node c l r))
    have np := removeRoot_nodes_perm _ c l r rfl
    have ep : (removeRoot (.node c l r)).elems.Perm (l.elems ++ r.elems) := by
      have := List.Perm.flatMap_right (fun (c : NodeC) => c.data.map fun e => (c.addr, c.len, e)) np
      simpa [Trie.elems, List.flatMap_append] using this
    rw [elems_node]
    refine (List.Perm.append_left _ (ih.trans ep)).trans ?_
    rw [← List.append_assoc]
    exact List.Perm.append_right _ List.perm_append_comm
termination_by t => t.size
decreasing_by exact removeRoot_size_lt c l r

/-- `pfx_table_free` reports the removal of every stored record exactly once and leaves the
    table empty, so the replayed stream ends in the empty set -/
theorem free_log (T : PfxTable) (h : TableWF T) (hcb : T.hasCb = true) (hl : LogOK T) :
    LogOK T.free ∧ T.free.recs = [] := by
  obtain ⟨s, hs, hp⟩ := hl
  have nd : s.Nodup := hp.nodup_iff.2 (C02.forEach_enumerates T h)
  unfold PfxTable.free
  have n1 := notifyAll_spec false ((freeLog T.v4).map fun (ad, ln, e) => mkRec false ad ln e) { T with v4 := .nil }
  generalize ({ T with v4 := .nil } : PfxTable).notifyAll false ((freeLog T.v4).map fun (ad, ln, e) => mkRec false ad ln e) = T1 at n1
  obtain ⟨n11, n12, n13, n14⟩ := n1
  simp only at n11 n12 n13 n14
  have n2 := notifyAll_spec false ((freeLog T.t6).map fun (ad, ln, e) => mkRec true ad ln e) { T1 with t6 := .nil }
  generalize ({ T1 with t6 := .nil } : PfxTable).notifyAll false ((freeLog T.t6).map fun (ad, ln, e) => mkRec true ad ln e) = T2 at n2
  obtain ⟨n21, n22, n23, n24⟩ := n2
  simp only at n21 n22 n23 n24
  have hrecs : T2.recs = [] := by simp [PfxTable.recs, recs4, recs6, n21, n22, n11, trieRecs, Trie.nodes]
  refine ⟨?_, hrecs⟩
  let gone := (freeLog T.v4).map (toRec false) ++ (freeLog T.t6).map (toRec true)
  have hgone : gone.Perm T.recs := by
    simp only [gone, PfxTable.recs, recs4, recs6, trieRecs_eq]
    exact ((freeLog_perm T.v4).map _).append ((freeLog_perm T.t6).map _)
  have gnd : gone.Nodup := hgone.nodup_iff.2 (C02.forEach_enumerates T h)
  obtain ⟨s', h1, h2, h3⟩ := replay_removals gone s gnd (fun g hg => hp.mem_iff.2 (hgone.mem_iff.1 hg)) nd
  have hempty : s' = [] := by
    apply List.eq_nil_iff_forall_not_mem.2
    intro x hx
    have := (h2 x).1 hx
    exact this.2 (hgone.mem_iff.2 (hp.mem_iff.1 this.1))
  refine ⟨s', ?_, by rw [hempty, hrecs]⟩
  have e4 : ((freeLog T.v4).map fun (ad, ln, e) => mkRec false ad ln e) = (freeLog T.v4).map (toRec false) := rfl
  have e6 : ((freeLog T.t6).map fun (ad, ln, e) => mkRec true ad ln e) = (freeLog T.t6).map (toRec true) := rfl
  rw [n24, n13, n14, hcb, e4, e6]
  simp only [if_true, List.append_assoc, ← List.map_append]
  rw [replay_append, hs]
  simpa [gone] using h1

/-! ### non-vacuity -/

example : LogOK (C02.runT C02.demo {}).1 :=
  log_replays C02.demo {} C02.init_ok.1 rfl logOK_init (fun op hop => C02.demo_ok op (List.mem_append_left _ hop))

example : replay (C02.runT C02.demo {}).1.log [] = some [C02.r4, C02.r1, C02.r2] := by decide

end Rtr.C09
