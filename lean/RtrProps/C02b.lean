/-
  C02b — C02 for ARBITRARY records (non-canonical prefixes included).

  `pfx_table_add` does not check that the prefix of the record is canonical for its family
  (length ≤ 32/128, address within the width, host bits zero).  The set refinement of C02 does
  not need it: under the weaker invariant `TableWFg` (RtrProofs/TrieGen: every stored node has a
  non-empty payload without a repeated element, the `Below` conditions hold — nothing about
  the shape of the prefix) add / remove / remove-by-source refine the mathematical set of
  records for every record whatsoever.
  Quantifier: every finite sequence of operations, NO hypothesis on the operations.
  `TableWF T → TableWFg T` (`Rtr.TableWF_TableWFg`), so every table reachable under C02 is covered.

  Scope of the tie: these are theorems about the model.  The correspondence (tools/pfxcheck.py, classes
  "ncspine" and "random-noncanonical") compares the model with trie.c / trie-pfx.c on records with host bits
  set and lengths ≤ 32/128 - what a cache can make rtr_sync store: only the two length fields of a Prefix PDU
  are checked on receipt - including root paths of 2w+1 nodes (depth 64 / 256, the maximum for such lengths).
  For lengths beyond the width (reachable through the C API only) a path can get deeper than 256 nodes; trie.c
  passes the level through a `uint8_t` (`lrtr_ip_addr_get_bits(addr, lvl, 1)`), the model's `isLeft` does not
  wrap: model and code then build different (both set-correct) tries.  The set semantics of the implementation's
  own answers is evaluated by the Python oracle in either case.
-/
import RtrProps.C02
import RtrProofs.TrieGen

namespace Rtr.C02
open Rtr PfxTable

/-! ### per-operation refinement, any record -/

/-- adding a present record reports a duplicate and changes nothing; adding an absent one
    succeeds and the contents gain exactly that record — for every record -/
theorem add_refines_any (T : PfxTable) (r : Rec) (h : TableWFg T) :
    TableWFg (T.add r).1 ∧
    (r ∈ T.recs → (T.add r).2 = .duplicate ∧ (T.add r).1 = T) ∧
    (r ∉ T.recs → (T.add r).2 = .success ∧ (T.add r).1.recs.Perm (r :: T.recs)) := by
  have s := add_spec_g T r h
  exact ⟨s.wf, s.dup, fun hn => ⟨(s.ok hn).1, (s.ok hn).2.1⟩⟩

/-- removing an absent record reports not-found and changes nothing; removing a present one
    succeeds and the contents lose exactly that record -/
theorem remove_refines_any (T : PfxTable) (r : Rec) (h : TableWFg T) :
    TableWFg (T.remove r).1 ∧
    (r ∉ T.recs → (T.remove r).2 = .notFound ∧ (T.remove r).1 = T) ∧
    (r ∈ T.recs → (T.remove r).2 = .success ∧ T.recs.Perm (r :: (T.remove r).1.recs)) := by
  have s := remove_spec_g T r h
  exact ⟨s.wf, s.nf, fun hn => ⟨(s.ok hn).1, (s.ok hn).2.1⟩⟩

/-- removing by source deletes exactly that source's records -/
theorem srcRemove_refines_any (T : PfxTable) (src : Nat) (h : TableWFg T) :
    TableWFg (T.srcRemove src) ∧ (T.srcRemove src).recs.Perm (T.recs.filter fun r => r.src != src) := by
  have s := srcRemove_spec_g T src h
  exact ⟨s.wf, s.recs⟩

/-- enumeration yields every stored record exactly once -/
theorem forEach_enumerates_any (T : PfxTable) (h : TableWFg T) : T.recs.Nodup := by
  unfold PfxTable.recs recs4 recs6
  rw [trieRecs_eq, trieRecs_eq, List.nodup_append]
  refine ⟨?_, ?_, ?_⟩
  · exact List.Pairwise.map _ (fun a b hab e => hab (toRec_inj false a b e)) (WFg_elems_nodup 32 _ 0 h.w4)
  · exact List.Pairwise.map _ (fun a b hab e => hab (toRec_inj true a b e)) (WFg_elems_nodup 128 _ 0 h.w6)
  · intro a ha b hb e
    subst e
    simp only [List.mem_map] at ha hb
    obtain ⟨x, _, hx⟩ := ha
    obtain ⟨y, _, hy⟩ := hb
    have : (toRec false x).v6 = (toRec true y).v6 := by rw [hx, hy]
    simp [toRec, mkRec] at this

/-! ### histories -/

/-- one step preserves: the general invariant, "contents = the set", equal return codes —
    no hypothesis on the operation -/
theorem step_refines_any (T : PfxTable) (s : List Rec) (op : Op) (h : TableWFg T) (hp : T.recs.Perm s) :
    TableWFg (stepT T op).1 ∧ (stepT T op).1.recs.Perm (stepS s op).1 ∧ (stepT T op).2 = (stepS s op).2 := by
  cases op with
  | add r =>
    have a := add_spec_g T r h
    simp only [stepT, stepS, specAdd]
    by_cases hin : r ∈ T.recs
    · have hin' : r ∈ s := hp.mem_iff.1 hin
      obtain ⟨h1, h2⟩ := a.dup hin
      simp only [hin', if_true]
      exact ⟨a.wf, by rw [h2]; exact hp, h1⟩
    · have hin' : r ∉ s := fun x => hin (hp.mem_iff.2 x)
      obtain ⟨h1, h2, _⟩ := a.ok hin
      simp only [hin', if_false]
      exact ⟨a.wf, h2.trans (List.Perm.cons r hp), h1⟩
  | remove r =>
    have a := remove_spec_g T r h
    simp only [stepT, stepS, specRemove]
    by_cases hin : r ∈ T.recs
    · have hin' : r ∈ s := hp.mem_iff.1 hin
      obtain ⟨h1, h2, _⟩ := a.ok hin
      simp only [hin', if_true]
      refine ⟨a.wf, ?_, h1⟩
      exact (perm_erase_of_cons (hp.symm.trans h2)).symm
    · have hin' : r ∉ s := fun x => hin (hp.mem_iff.2 x)
      obtain ⟨h1, h2⟩ := a.nf hin
      simp only [hin', if_false]
      exact ⟨a.wf, by rw [h2]; exact hp, h1⟩
  | srcRemove src =>
    have a := srcRemove_spec_g T src h
    simp only [stepT, stepS, specSrcRemove]
    exact ⟨a.wf, a.recs.trans (hp.filter _), trivial⟩

/-- **C02 for arbitrary records**: for every finite history of add / remove / remove-by-source
    over ANY records (non-canonical prefixes included), starting from any table satisfying the
    general invariant whose contents are the set `s`, the final contents are the set obtained by
    applying the same operations to `s`, every return code is the one the set semantics
    prescribes, and the enumeration has no repeated record. -/
theorem history_refines_any : ∀ (ops : List Op) (T : PfxTable) (s : List Rec), TableWFg T → T.recs.Perm s →
    TableWFg (runT ops T).1 ∧ (runT ops T).1.recs.Perm (runS ops s).1 ∧ (runT ops T).2 = (runS ops s).2 ∧
      (runT ops T).1.recs.Nodup := by
  intro ops
  induction ops with
  | nil => intro T s h hp; exact ⟨h, hp, rfl, forEach_enumerates_any T h⟩
  | cons op ops ih =>
    intro T s h hp
    obtain ⟨w1, p1, c1⟩ := step_refines_any T s op h hp
    obtain ⟨w2, p2, c2, n2⟩ := ih (stepT T op).1 (stepS s op).1 w1 p1
    simp only [runT, runS]
    exact ⟨w2, p2, by rw [c1, c2], n2⟩

/-- the empty table (after `pfx_table_init`) satisfies the general invariant -/
theorem init_ok_any : TableWFg {} := ⟨trivial, trivial⟩

/-- from the empty table, every history whatsoever -/
theorem history_from_empty_any (ops : List Op) :
    (runT ops {}).1.recs.Perm (runS ops []).1 ∧ (runT ops {}).2 = (runS ops []).2 ∧ (runT ops {}).1.recs.Nodup := by
  have h := history_refines_any ops {} [] init_ok_any (by rw [init_ok.2])
  exact ⟨h.2.1, h.2.2.1, h.2.2.2⟩

/-! ### non-vacuity: a concrete history over NON-canonical records (host bits set, length beyond
    the width, address beyond the width), with a duplicate, an unknown removal, a removal that
    pulls a payload up, and a removal by source, evaluated by the kernel -/

/-- IPv4, length 0, host bits set (0x80000001/0) -/
def n1 : Rec := ⟨false, 0x80000001, 0, 32, 65001, 1⟩
/-- IPv4, length 0, another address with host bits set: a different key than `n1` -/
def n2 : Rec := ⟨false, 0x00000001, 0, 0, 65002, 2⟩
/-- IPv4, length 40 > 32 -/
def n3 : Rec := ⟨false, 0x80000001, 40, 40, 1, 3⟩
/-- IPv4, address ≥ 2^32, length 33 -/
def n4 : Rec := ⟨false, 0x180000001, 33, 5, 7, 1⟩
/-- IPv6, address ≥ 2^128, length 200 -/
def n5 : Rec := ⟨true, 0x100000000000000000000000000000005, 200, 0, 7, 2⟩

/-- none of them satisfies the hypothesis `RecOK` of `add_refines` / `history_refines` -/
example : ¬ RecOK n1 ∧ ¬ RecOK n2 ∧ ¬ RecOK n3 ∧ ¬ RecOK n4 ∧ ¬ RecOK n5 := by
  refine ⟨fun h => ?_, fun h => ?_, fun h => absurd h.len (by decide), fun h => absurd h.len (by decide),
    fun h => absurd h.len (by decide)⟩
  · exact absurd (h.hz 0 (by decide) (by decide)) (by decide)
  · exact absurd (h.hz 31 (by decide) (by decide)) (by decide)

def demoAny : List Op :=
  [.add n1, .add n2, .add n1, .add n3, .add n4, .add n5, .remove n2, .remove n2, .add n2, .remove n1, .srcRemove 1]

example : (runT demoAny {}).2 =
    [.success, .success, .duplicate, .success, .success, .success, .success, .notFound, .success, .success, .success] := by
  decide

/-- before the removal by source -/
example : (runT demoAny.dropLast {}).1.recs = [n2, n3, n4, n5] := by decide

/-- the final contents (`removeId` is defined by well-founded recursion, which the elaborator's
    `decide` does not unfold; the kernel evaluates it) -/
example : (runT demoAny {}).1.recs = [n2, n3, n5] := by decide +kernel

example : (runS demoAny []).1 = [n2, n5, n3] := by decide

/-- `history_from_empty_any` applies to it as it stands: there is no hypothesis to meet -/
example : (runT demoAny {}).1.recs.Perm (runS demoAny []).1 ∧ (runT demoAny {}).2 = (runS demoAny []).2 ∧
    (runT demoAny {}).1.recs.Nodup := history_from_empty_any demoAny

end Rtr.C02
