/-
  C10 — The router-key table is an exact set keyed by AS, SKI, key and source.

  "Under any history of add, remove, remove-by-source, copy and swap, lookup by (AS, SKI) returns
   exactly the stored keys with that AS and SKI and lookup by SKI alone returns exactly those with
   that SKI; duplicates are rejected and unknown removals reported, both without change.  Update
   callbacks mirror every addition and every removal, including removals by source."

  Models: RtrModel.Hashlin (tommyhashlin.c, tommy_inthash_u32), RtrModel.Spki (ht-spkitable.c with
  the fix of defect F9: spki_table_src_remove notifies).  Proof layers: RtrProofs.Hashlin*,
  RtrProofs.Spki*.  Only the property theorems and their non-vacuity examples live here.
-/
import RtrProofs.SpkiHistory
import RtrProofs.SpkiLog

namespace Rtr.C10
open Rtr Rtr.SpkiTable

/-! ## 1. tommy_hashlin: representation invariant, for any hash values and any history -/

/-- operations of tommy_hashlin on a table whose `data` are of type `α`; the hash is an arbitrary
    argument of every call (so the statement covers every hash function) -/
inductive HOp (α : Type) where
  | insert (data : α) (hash : Nat)
  | remove (cmp : α → Bool) (hash : Nat)

def stepH {α : Type} (h : Hashlin α) : HOp α → Hashlin α
  | .insert d k => h.insert d k
  | .remove cmp k => (h.remove cmp k).1

def runH {α : Type} (h : Hashlin α) (ops : List (HOp α)) : Hashlin α := ops.foldl stepH h

/-- the freshly initialised table satisfies the invariant -/
theorem hashlin_inv_init {α : Type} : (Hashlin.init : Hashlin α).Inv := Hashlin.init_inv

/-- **Representation invariant of the linear hash table** (`Hashlin.Inv`, see RtrProofs.HashlinInv:
    `bucket_max = 2^bucket_bit ≥ 64`, masks = max − 1, stable (`low_max = bucket_max`, `split = 0`)
    or resizing (`bucket_max = 2·low_max`, `0 < split < low_max`), every node stored in a bucket
    `i < low_max + split` has `index key = i`, `count` = number of stored nodes) is preserved by
    insert (+ grow step), by remove (+ shrink step) and by remove_existing of a stored node, for
    ANY hash values, and therefore holds after ANY history, whatever the table size. -/
theorem hashlin_inv {α : Type} [DecidableEq α] :
    (∀ (h : Hashlin α), h.Inv → ∀ d k, (h.insert d k).Inv) ∧
    (∀ (h : Hashlin α), h.Inv → ∀ cmp k, (h.remove cmp k).1.Inv) ∧
    (∀ (h : Hashlin α), h.Inv → ∀ n, h.Mem n → (h.removeExisting n).Inv) ∧
    (∀ ops : List (HOp α), (runH Hashlin.init ops).Inv) := by
  have hins : ∀ (h : Hashlin α), h.Inv → ∀ d k, (h.insert d k).Inv :=
    fun h iv d k => (Hashlin.insert_spec h iv d k).1
  have hrem : ∀ (h : Hashlin α), h.Inv → ∀ cmp k, (h.remove cmp k).1.Inv := by
    intro h iv cmp k
    cases hs : (h.search cmp k).isSome with
    | false => rw [Hashlin.remove_none cmp k hs]; exact iv
    | true =>
      obtain ⟨_, _, _, _, hi, _⟩ := Hashlin.remove_some iv cmp k hs
      exact hi
  refine ⟨hins, hrem, fun h iv n hm => (Hashlin.removeExisting_spec iv n hm).1, ?_⟩
  intro ops
  suffices ∀ h : Hashlin α, h.Inv → (runH h ops).Inv from this _ Hashlin.init_inv
  induction ops with
  | nil => exact fun h iv => iv
  | cons op ops ih =>
    intro h iv
    apply ih
    cases op with
    | insert d k => exact hins h iv d k
    | remove cmp k => exact hrem h iv cmp k

/-- what the invariant says, spelled out (so that the statement above can be read without the
    proof library) -/
theorem hashlin_inv_unfold {α : Type} (h : Hashlin α) (iv : h.Inv) :
    h.bucketMax = 2 ^ h.bucketBit ∧ hashlinBit ≤ h.bucketBit ∧
    h.bucketMask = h.bucketMax - 1 ∧ h.lowMask = h.lowMax - 1 ∧
    ((h.state = .stable ∧ h.lowMax = h.bucketMax ∧ h.split = 0) ∨
     (h.state ≠ .stable ∧ h.bucketMax = 2 * h.lowMax ∧ 0 < h.split ∧ h.split < h.lowMax)) ∧
    (∀ i, i < h.lowMax + h.split → ∀ n, n ∈ h.bucket i →
      (if n.key % h.lowMax < h.split then n.key % (2 * h.lowMax) else n.key % h.lowMax) = i) ∧
    (∀ key, h.bucketPos key = (if key % h.lowMax < h.split then key % (2 * h.lowMax) else key % h.lowMax) ∧
      h.bucketPos key < h.lowMax + h.split) ∧
    h.count = sumB List.length h.bucket (h.lowMax + h.split) := by
  refine ⟨iv.max_eq, iv.bit_ge, iv.mask_eq, iv.lowmask_eq, ?_, iv.filed, fun key => ?_, iv.count_eq⟩
  · rcases iv.shape with h1 | ⟨a, _, b, c, d⟩
    · exact Or.inl h1
    · exact Or.inr ⟨a, b, c, d⟩
  · have := Hashlin.bucketPos_eq_index iv.toWf.num key
    exact ⟨this, by rw [this]; exact Hashlin.index_lt_valid iv.toWf.num key⟩

/-- **`tommy_hashlin_search` / the bucket walk finds exactly the stored nodes** with that hash on
    which the compare function returns 0; what it returns is the data of such a node -/
theorem search_iff_mem {α : Type} (h : Hashlin α) (iv : h.Inv) (cmp : α → Bool) (hash : Nat) :
    ((h.search cmp hash).isSome ↔ ∃ x, h.Mem x ∧ x.key = hash ∧ cmp x.data = true) ∧
    (∀ d, h.search cmp hash = some d → h.Mem ⟨hash, d⟩ ∧ cmp d = true) ∧
    (∀ x, h.Mem x ↔ x ∈ h.bucketOf x.key) :=
  ⟨Hashlin.search_isSome_iff iv.toWf cmp hash, fun d => Hashlin.search_some iv.toWf cmp hash d,
   fun x => Hashlin.mem_iff_in_bucket iv.toWf x⟩

-- non-vacuity: forty inserts whose hashes all collide modulo 64 leave the table in the middle of a
-- grow (split 16 of 64); removing down to 12 reverses it into a shrink; both states satisfy Inv
def demoOps : List (HOp Nat) := (List.range 40).map fun i => .insert i (5 + 64 * i)
def demoOps2 : List (HOp Nat) :=
  demoOps ++ (List.range 28).map fun i => .remove (fun d => d == i) (5 + 64 * i)

example : (runH Hashlin.init demoOps).Inv ∧ (runH Hashlin.init demoOps).state = .grow ∧
    (runH Hashlin.init demoOps).split = 16 ∧ (runH Hashlin.init demoOps).count = 40 ∧
    ((runH Hashlin.init demoOps).bucket 5).length = 20 ∧ ((runH Hashlin.init demoOps).bucket 69).length = 20 :=
  ⟨hashlin_inv.2.2.2 demoOps, by decide +kernel, by decide +kernel, by decide +kernel, by decide +kernel,
   by decide +kernel⟩

example : (runH Hashlin.init demoOps2).Inv ∧ (runH Hashlin.init demoOps2).state = .shrink ∧
    (runH Hashlin.init demoOps2).count = 12 ∧ 0 < (runH Hashlin.init demoOps2).split :=
  ⟨hashlin_inv.2.2.2 demoOps2, by decide +kernel, by decide +kernel, by decide +kernel⟩

example : ((runH Hashlin.init demoOps).search (fun d => d == 7) (5 + 64 * 7)) = some 7 := by decide +kernel

/-! ## 2. the router-key table refines a finite set of records -/

/-- the representation invariant of `struct spki_table` holds initially -/
theorem sinv_init (cb : Bool) : SInv (SpkiTable.init cb) := SpkiTable.sinv_init cb

/-- **hash table and list hold the same entries**: a node is stored in the hash table exactly if
    its entry is in the list and it is filed under `tommy_inthash_u32(asn)`; every entry occurs once
    in either container -/
theorem list_hash_same_elems (T : SpkiTable) (iv : SInv T) :
    (∀ x : HNode SpkiRec, T.ht.Mem x ↔ x.key = inthash x.data.asn ∧ x.data ∈ T.list) ∧
    (∀ r, r ∈ T.list → T.ht.mult (spkiNode r) = 1 ∧ T.list.count r = 1) ∧ T.list.Nodup ∧
    T.ht.count = T.list.length := by
  refine ⟨fun x => mem_node iv x, fun r hr => ?_, iv.nodup, ?_⟩
  · have h1 : T.list.count r = 1 := by rw [iv.nodup.count]; simp [hr]
    refine ⟨?_, h1⟩
    rw [iv.same (spkiNode r)]; simp [spkiNode, h1]
  · exact ht_count_eq_length T iv

/-- **add**: a stored record is rejected as duplicate without any change; a new record is stored
    (success), appended to the list, and the invariant is kept -/
theorem add_refines (T : SpkiTable) (iv : SInv T) (r : SpkiRec) :
    (r ∈ T.list → T.add r = (T, .duplicate)) ∧
    (r ∉ T.list → (T.add r).2 = .success ∧ SInv (T.add r).1 ∧
      ∀ x, x ∈ (T.add r).1.list ↔ (x ∈ T.list ∨ x = r)) := by
  refine ⟨add_dup iv r, fun hr => ?_⟩
  obtain ⟨h1, h2, h3, _, _⟩ := add_new_spec iv r hr
  exact ⟨h1, h2, fun x => by rw [h3]; simp⟩

/-- **remove**: an unknown record is reported as not found without any change; a stored record
    is removed (success) and the invariant is kept -/
theorem remove_refines (T : SpkiTable) (iv : SInv T) (r : SpkiRec) :
    (r ∉ T.list → T.remove r = (T, .notFound)) ∧
    (r ∈ T.list → (T.remove r).2 = .success ∧ SInv (T.remove r).1 ∧
      ∀ x, x ∈ (T.remove r).1.list ↔ (x ∈ T.list ∧ x ≠ r)) := by
  refine ⟨remove_absent iv r, fun hr => ?_⟩
  obtain ⟨h1, h2, h3, _, _⟩ := remove_present_spec iv r hr
  exact ⟨h1, h2, fun x => by rw [h3, iv.nodup.mem_erase_iff]; exact and_comm⟩

/-- **remove by source**: exactly the records of that source disappear -/
theorem srcRemove_refines (T : SpkiTable) (iv : SInv T) (src : Nat) :
    (T.srcRemove src).2 = .success ∧ SInv (T.srcRemove src).1 ∧
    ∀ x, x ∈ (T.srcRemove src).1.list ↔ (x ∈ T.list ∧ x.src ≠ src) := by
  obtain ⟨h1, h2, h3, _, _⟩ := srcRemove_spec iv src
  exact ⟨h1, h2, h3⟩

/-- **`spki_table_get_all` returns exactly the stored keys with that AS and SKI** (as a multiset:
    each of them once, nothing else) -/
theorem getAll_spec (T : SpkiTable) (iv : SInv T) (asn ski : Nat) :
    (∀ x, x ∈ T.getAll asn ski ↔ (x ∈ T.list ∧ x.asn = asn ∧ x.ski = ski)) ∧ (T.getAll asn ski).Nodup := by
  have hc := getAll_count iv asn ski
  constructor
  · intro x
    rw [← List.count_pos_iff, hc x]
    split
    · rename_i h; rw [List.count_pos_iff]; simp [h]
    · rename_i h; simp; intro _ h1 h2; exact h ⟨h1, h2⟩
  · rw [List.nodup_iff_count]
    intro x
    rw [hc x]
    split
    · exact List.nodup_iff_count.mp iv.nodup x
    · omega

/-- **`spki_table_search_by_ski` returns exactly the stored keys with that SKI** -/
theorem searchBySki_spec (T : SpkiTable) (iv : SInv T) (ski : Nat) :
    (∀ x, x ∈ T.searchBySki ski ↔ (x ∈ T.list ∧ x.ski = ski)) ∧ (T.searchBySki ski).Nodup := by
  constructor
  · intro x; simp [searchBySki, List.mem_filter]
  · exact iv.nodup.sublist List.filter_sublist

/-- **copy except a source**: if none of the copied records is already in the target the copy
    succeeds and the target gains exactly the records of the other sources; otherwise it stops
    with SPKI_ERROR and the target is somewhere between its old contents and the full copy -/
theorem copyExcept_refines (S D : SpkiTable) (is : SInv S) (id : SInv D) (src : Nat) :
    SInv (copyExcept S D src).1 ∧
    (((∀ x, x ∈ S.list → x.src ≠ src → x ∉ D.list) ∧ (copyExcept S D src).2 = .success ∧
        ∀ x, x ∈ (copyExcept S D src).1.list ↔ (x ∈ D.list ∨ (x ∈ S.list ∧ x.src ≠ src))) ∨
     ((∃ x, x ∈ S.list ∧ x.src ≠ src ∧ x ∈ D.list) ∧ (copyExcept S D src).2 = .error ∧
        (∀ x, x ∈ D.list → x ∈ (copyExcept S D src).1.list) ∧
        (∀ x, x ∈ (copyExcept S D src).1.list → (x ∈ D.list ∨ (x ∈ S.list ∧ x.src ≠ src))))) := by
  obtain ⟨a, _, _, d, f, g⟩ := copyLoop_spec src S.list D id is.nodup
  refine ⟨a, ?_⟩
  rcases g with ⟨g1, g2, g3⟩ | ⟨g1, g2⟩
  · refine Or.inl ⟨g2, g1, fun x => ?_⟩
    show x ∈ (copyLoop src S.list D).1.list ↔ _
    rw [g3]; simp [List.mem_filter]
  · exact Or.inr ⟨g2, g1, d, f⟩

/-- **swap** exchanges the contents (and keeps both invariants); callbacks stay with the tables -/
theorem swap_refines (A B : SpkiTable) (ia : SInv A) (ib : SInv B) :
    SInv (swap A B).1 ∧ SInv (swap A B).2 ∧ (swap A B).1.list = B.list ∧ (swap A B).2.list = A.list ∧
    (swap A B).1.hasCb = A.hasCb ∧ (swap A B).2.hasCb = B.hasCb ∧
    (swap A B).1.log = A.log ∧ (swap A B).2.log = B.log :=
  ⟨(sinv_swap ia ib).1, (sinv_swap ia ib).2, rfl, rfl, rfl, rfl, rfl, rfl⟩

/-- **notify_diff(new, old, src)** leaves `new` unchanged and removes from `old` the records of
    `src` that `new` also holds -/
theorem notifyDiff_refines (N O : SpkiTable) (inn : SInv N) (io : SInv O) (src : Nat) :
    SInv (notifyDiff N O src).1 ∧ SInv (notifyDiff N O src).2 ∧ (notifyDiff N O src).1.list = N.list ∧
    ∀ x, x ∈ (notifyDiff N O src).2.list ↔ (x ∈ O.list ∧ ¬ (x ∈ N.list ∧ x.src = src)) := by
  obtain ⟨h1, h2, h3, _, _, _, h7, _⟩ := notifyDiff_spec N O inn io src
  exact ⟨h1, h2, h3, h7⟩

/-- **history_refines**: for every finite sequence of operations on a pair of tables (add, remove,
    remove-by-source, copy-except, swap, notify_diff, free) the abstract contents follow the set
    semantics `specStep` step by step, the return codes are those of the set semantics, and both
    tables keep their representation invariant — whatever the table sizes reached on the way -/
theorem history_refines (ops : List SpkiOp) :
    let S0 : Bool → SpkiTable := fun t => SpkiTable.init (!t)
    SpecRun (fun _ _ => False) ops (runOps S0 ops).2 (absT (runOps S0 ops).1) ∧
    (∀ t, SInv ((runOps S0 ops).1 t)) ∧ (runOps S0 ops).2.length = ops.length := by
  intro S0
  have h0 : ∀ t, SInv (S0 t) := fun t => SpkiTable.sinv_init _
  obtain ⟨h1, h2⟩ := runOps_refines S0 h0 ops
  refine ⟨?_, h2, ?_⟩
  · have e : absT S0 = fun _ _ => False := by
      funext t x; simp [absT, S0, SpkiTable.init]
    rw [← e]; exact h1
  · clear h1 h2 h0
    generalize S0 = S
    induction ops generalizing S with
    | nil => rfl
    | cons op ops ih => simp [runOps, ih]

-- non-vacuity: a concrete history with a duplicate, an unknown removal, a lookup with two answers
-- from different sources, a removal by source, a failing and a succeeding copy
def k1 : SpkiRec := ⟨65001, 0xaa, 0xbb, 1⟩
def k2 : SpkiRec := ⟨65001, 0xaa, 0xbb, 2⟩
def k3 : SpkiRec := ⟨1, 0xaa, 0xcc, 1⟩
def demoHist : List SpkiOp :=
  [.add false k1, .add false k1, .add false k2, .add false k3, .remove false ⟨2, 0, 0, 1⟩,
   .add true k2, .copyExcept false 1, .free true, .copyExcept false 1, .srcRemove false 1, .swap]

example : (runOps (fun t => SpkiTable.init (!t)) demoHist).2 =
    [.success, .duplicate, .success, .success, .notFound, .success, .error, .success, .success, .success,
     .success] := by decide +kernel

example : ((runOps (fun t => SpkiTable.init (!t)) (demoHist.take 4)).1 false).getAll 65001 0xaa = [k1, k2] ∧
    ((runOps (fun t => SpkiTable.init (!t)) (demoHist.take 4)).1 false).searchBySki 0xaa = [k1, k2, k3] ∧
    ((runOps (fun t => SpkiTable.init (!t)) demoHist).1 true).list = [k2] := by
  refine ⟨by decide +kernel, by decide +kernel, by decide +kernel⟩

-- non-vacuity of the single-operation theorems: a concrete table meeting their hypotheses
-- (invariant, a stored record, an unknown record, two sources under one (AS, SKI))
def demoT : SpkiTable := (runOps (fun t => SpkiTable.init (!t)) (demoHist.take 4)).1 false

example : SInv demoT ∧ k1 ∈ demoT.list ∧ (⟨2, 0, 0, 1⟩ : SpkiRec) ∉ demoT.list ∧ demoT.list.length = 3 ∧
    demoT.ht.count = 3 ∧ (demoT.add k1).2 = .duplicate ∧ (demoT.remove ⟨2, 0, 0, 1⟩).2 = .notFound ∧
    ((demoT.srcRemove 1).1.list = [k2]) ∧ (copyExcept demoT (SpkiTable.init false) 2).1.list = [k1, k3] :=
  ⟨(history_refines (demoHist.take 4)).2.1 false, by decide +kernel, by decide +kernel, by decide +kernel,
   by decide +kernel, by decide +kernel, by decide +kernel, by decide +kernel, by decide +kernel⟩

/-! ## 3. the callback stream is an exact change log -/

/-- **spki_log_replays**: after every history of additions, removals, removals by source and full
    reloads (shadow copy, updates, swap, notify_diff) on a table with a callback, replaying the
    stream of `update_fp` invocations yields exactly the table's contents -/
theorem spki_log_replays (ops : List LogOp) :
    ∀ x, replayFrom emptySet (runLog (SpkiTable.init true) ops).log x ↔ x ∈ (runLog (SpkiTable.init true) ops).list :=
  (runLog_linv _ linv_init ops).replays

/-- **spki_log_exact**: no event of that stream is spurious or repeated — every reported addition
    concerns a record that was absent, every reported removal one that was present -/
theorem spki_log_exact (ops : List LogOp) : ExactFrom emptySet (runLog (SpkiTable.init true) ops).log :=
  (runLog_linv _ linv_init ops).exact

/-- the log after a single operation, explicitly: add and remove report the record, remove-by-source
    reports every record of that source (this is what defect F9 violated) -/
theorem spki_log_steps (T : SpkiTable) (iv : SInv T) (hcb : T.hasCb = true) :
    (∀ r, r ∉ T.list → (T.add r).1.log = T.log ++ [(true, r)]) ∧
    (∀ r, r ∈ T.list → (T.remove r).1.log = T.log ++ [(false, r)]) ∧
    (∀ r, r ∈ T.list → (T.add r).1.log = T.log) ∧ (∀ r, r ∉ T.list → (T.remove r).1.log = T.log) ∧
    (∀ src, (T.srcRemove src).1.log = T.log ++ (T.list.filter fun e => e.src == src).map fun e => (false, e)) := by
  refine ⟨fun r hr => ?_, fun r hr => ?_, fun r hr => ?_, fun r hr => ?_, fun src => ?_⟩
  · have := (add_new_spec iv r hr).2.2.2.2; rw [hcb] at this; simpa using this
  · have := (remove_present_spec iv r hr).2.2.2.2; rw [hcb] at this; simpa using this
  · rw [add_dup iv r hr]
  · rw [remove_absent iv r hr]
  · have := (srcRemove_spec iv src).2.2.2.2; rw [hcb] at this; simpa using this

/-- **notifyDiff_net**: `spki_table_notify_diff(new, old, src)` reports exactly the records of `src`
    in new \ old as added and those in old \ new as removed, each once -/
theorem notifyDiff_net (N O : SpkiTable) (inn : SInv N) (io : SInv O) (src : Nat) (hcb : N.hasCb = true) :
    ∃ AL RL : List SpkiRec, AL.Nodup ∧ RL.Nodup ∧
      (∀ x, x ∈ AL ↔ (x ∈ N.list ∧ x.src = src ∧ x ∉ O.list)) ∧
      (∀ x, x ∈ RL ↔ (x ∈ O.list ∧ x.src = src ∧ x ∉ N.list)) ∧
      (notifyDiff N O src).1.log = N.log ++ AL.map (fun e => (true, e)) ++ RL.map (fun e => (false, e)) := by
  obtain ⟨_, _, _, _, _, _, _, RL, r1, r2, r3⟩ := notifyDiff_spec N O inn io src
  refine ⟨N.list.filter fun e => e.src == src && decide (e ∉ O.list), RL,
    inn.nodup.sublist List.filter_sublist, r1, fun x => by simp [List.mem_filter], r2, ?_⟩
  rw [r3, hcb]; simp

-- non-vacuity: a history with a removal by source and a reload; the log is non-trivial
def demoLog : List LogOp :=
  [.add k1, .add k2, .add k3, .add k1, .srcRemove 1, .add k1,
   .reload 2 [(true, ⟨7, 1, 2, 0⟩), (true, k2), (false, k2), (true, ⟨8, 1, 2, 0⟩)]]

example : (runLog (SpkiTable.init true) demoLog).log =
    [(true, k1), (true, k2), (true, k3), (false, k1), (false, k3), (true, k1),
     (true, ⟨7, 1, 2, 2⟩), (true, ⟨8, 1, 2, 2⟩), (false, k2)] ∧
    (runLog (SpkiTable.init true) demoLog).list = [k1, ⟨7, 1, 2, 2⟩, ⟨8, 1, 2, 2⟩] := by
  refine ⟨by decide +kernel, by decide +kernel⟩

/-! ## 4. defect F9 on the unfixed tree, as a kernel-checked witness

The code before the fix ran the same loop without the notification.  On the witness
"add two keys of source 1, remove source 1" its callback stream replays to both keys while the
table is empty: the property is false of that code.  (corpus/spki/F9_srcremove_no_callback.ops
replays the witness on the implementation.) -/

/-- `spki_table_src_remove` as it was before the fix: no `spki_table_notify_clients` call -/
def srcRemoveLoopUnfixed (src : Nat) : List SpkiRec → SpkiTable → SpkiTable
  | [], T => T
  | e :: rest, T =>
    if e.src == src then
      srcRemoveLoopUnfixed src rest { T with list := T.list.erase e, ht := T.ht.removeExisting (spkiNode e) }
    else srcRemoveLoopUnfixed src rest T

def f9Witness : SpkiTable :=
  let T := ((SpkiTable.init true).add k1).1
  let T := (T.add k3).1
  srcRemoveLoopUnfixed 1 T.list T

theorem F9_unfixed_violates :
    f9Witness.list = [] ∧ f9Witness.log = [(true, k1), (true, k3)] ∧
    ¬ (∀ x, replayFrom emptySet f9Witness.log x ↔ x ∈ f9Witness.list) := by
  have h1 : f9Witness.list = [] := by decide +kernel
  have h2 : f9Witness.log = [(true, k1), (true, k3)] := by decide +kernel
  refine ⟨h1, h2, fun h => ?_⟩
  have := (h k1).mp (by rw [h2]; simp [replayFrom, applyEv])
  rw [h1] at this; simp at this

/-! ## 5. the comparison function alone keeps records apart, whatever the hash does

The table is exact because of TWO facts: nodes are filed under a hash, and `key_entry_cmp` answers 0
only for the same (AS, SKI, key, source).  The theorems above hold for every hash value a record
might be filed under (`search_iff_mem` quantifies over `hash` and over the compare function), so the
second fact must not lean on the first: two records that differ in the AS number only are different
entries even when their hashes agree in all 32 bits.  (harness: `cmp` calls the static
`key_entry_cmp` directly, `fadd/fget/frm` drive the real tommy_hashlin under a CHOSEN hash.) -/

/-- `key_entry_cmp(arg, obj) == 0` exactly when the two entries agree in all four fields -/
theorem cmp_iff_eq (a b : SpkiRec) :
    SpkiTable.cmp a b = true ↔ (b.asn = a.asn ∧ b.ski = a.ski ∧ b.spki = a.spki ∧ b.src = a.src) := by
  unfold SpkiTable.cmp
  constructor
  · intro h
    have : b = a := by simpa using h
    subst this
    exact ⟨rfl, rfl, rfl, rfl⟩
  · rintro ⟨h1, h2, h3, h4⟩
    cases a; cases b
    simp only at h1 h2 h3 h4
    subst h1; subst h2; subst h3; subst h4
    simp

/-- Under ANY hash value — in particular one shared by other records (a full collision) — the search
    with `key_entry_cmp` finds a record iff exactly that record is stored under that hash, and what
    it returns is that record: neighbours in the chain that differ in one field are never taken for it. -/
theorem collision_kept_apart (h : Hashlin SpkiRec) (iv : h.Inv) (r : SpkiRec) (hash : Nat) :
    ((h.search (SpkiTable.cmp r) hash).isSome ↔ h.Mem ⟨hash, r⟩) ∧
    (∀ d, h.search (SpkiTable.cmp r) hash = some d → d = r) := by
  have hs := search_iff_mem h iv (SpkiTable.cmp r) hash
  constructor
  · rw [hs.1]
    constructor
    · rintro ⟨x, hm, hk, hc⟩
      have hd : x.data = r := by simpa [SpkiTable.cmp] using hc
      cases x
      simp only at hk hd
      subst hk; subst hd
      exact hm
    · intro hm
      exact ⟨⟨hash, r⟩, hm, rfl, by simp [SpkiTable.cmp]⟩
  · intro d hd
    have := (hs.2.1 d hd).2
    simpa [SpkiTable.cmp] using this

/-- two records that differ in the AS number only, filed under one and the same hash: both stored,
    each found as itself, the absent third one (again differing in the AS only) not found, and
    removing the absent one removes nothing -/
example :
    let a : SpkiRec := ⟨65001, 0xaa, 0xbb, 1⟩
    let b : SpkiRec := ⟨65002, 0xaa, 0xbb, 1⟩
    let c : SpkiRec := ⟨65003, 0xaa, 0xbb, 1⟩
    let h := ((Hashlin.init : Hashlin SpkiRec).insert a 77).insert b 77
    h.search (SpkiTable.cmp a) 77 = some a ∧ h.search (SpkiTable.cmp b) 77 = some b ∧
    h.search (SpkiTable.cmp c) 77 = none ∧ (h.remove (SpkiTable.cmp c) 77).2 = none ∧
    (SpkiTable.cmp a b = false) := by decide +kernel

end Rtr.C10
