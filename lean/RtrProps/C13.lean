/-
  C13 — The protocol version is negotiated downward only and then enforced.

  Model: `Rtr.P.receivePdu` (rtr_receive_pdu: live downgrade on the first PDU of a connection,
  version check on all others), `handleErrorPdu` (downgrade on error code 4), `syncFirst`
  (downgrade when the cache hangs up before any session exists), `fsmStep` / `Reach` (the state
  machine over any number of reconnects), `checkSize` (End of Data formats).
  Quantifier: every socket state, every transport script — each PDU may carry any version byte.
-/
import RtrProofs.Fsm

namespace Rtr.C13
open Rtr Rtr.P

/-- a socket opens with the highest version it supports (`rtr_init`) -/
theorem opens_with_highest : ({} : Conn).version = Gen.RTR_PROTOCOL_MAX_SUPPORTED_VERSION := rfl

/-- **the version only ever goes down**: over any run of the state machine (any number of
    reconnects, any script) the version never exceeds the one the run started with; in particular
    it stays a supported version. -/
theorem version_monotone (fuel : Nat) (st st' : St) (h : Reach fuel st st') (ht : TblOK st.t) :
    st'.c.version ≤ st.c.version := (reach_inv fuel h ht).1

theorem version_supported (fuel : Nat) (st st' : St) (h : Reach fuel st st') (ht : TblOK st.t)
    (h0 : st.c.version ≤ Gen.RTR_PROTOCOL_MAX_SUPPORTED_VERSION) :
    st'.c.version ≤ Gen.RTR_PROTOCOL_MAX_SUPPORTED_VERSION := Nat.le_trans (version_monotone fuel st st' h ht) h0

/-- every single iteration, whatever the state -/
theorem step_version_le (fuel : Nat) (st st' : St) (h : fsmStep fuel st = some st') : st'.c.version ≤ st.c.version :=
  (fsmStep_ok fuel st st' h).ver

/-- **cause 1 — first PDU of a connection**: `rtr_receive_pdu` changes the version only if no PDU
    has been received on this connection, the socket speaks version 1, and the header just read
    carries version 0 and is not an Error Report; the exchange continues (the PDU is then processed
    at the new version). -/
theorem downgrade_first_pdu (c : Conn) (n : Net) (own : Nat) (t : Int) :
    (receivePdu c n own t).2.1.version = c.version ∨
    (c.hasReceived = false ∧ c.version = 1 ∧ (receivePdu c n own t).2.1.version = 0) :=
  (receivePdu_conn c n own t).1

/-- **cause 2 — Unsupported-Version error report**: `rtr_handle_error_pdu` changes the version only
    for error code 4 carrying a lower supported version; the version becomes that one. -/
theorem downgrade_error_report (c : Conn) (n : Net) (own : Nat) (raw : List Nat) :
    (handleErrorPdu c n own raw).1.version = c.version ∨
    (be16 raw 2 = 4 ∧ verOf raw < c.version ∧ verOf raw ≤ Gen.RTR_PROTOCOL_MAX_SUPPORTED_VERSION ∧
      (handleErrorPdu c n own raw).1.version = verOf raw) :=
  handleErrorPdu_version c n own raw

/-- ... and then the socket reconnects at once (state FAST_RECONNECT, no retry sleep), unless a stop
    request has already arrived -/
theorem downgrade_error_report_reconnects (c : Conn) (n : Net) (own : Nat) (raw : List Nat)
    (h4 : be16 raw 2 = 4) (hv : verOf raw ≤ Gen.RTR_PROTOCOL_MAX_SUPPORTED_VERSION ∧ verOf raw < c.version)
    (hs : c.state ≠ .shutdown) :
    (handleErrorPdu c n own raw).1.state = .fastReconnect ∧ (handleErrorPdu c n own raw).1.version = verOf raw := by
  unfold handleErrorPdu
  have hv' : verOf raw ≤ Gen.RTR_PROTOCOL_MAX_SUPPORTED_VERSION ∧ verOf raw ≥ Gen.RTR_PROTOCOL_MIN_SUPPORTED_VERSION ∧
      verOf raw < c.version := ⟨hv.1, Nat.zero_le _, hv.2⟩
  simp only [h4, Nat.reduceEqDiff, if_false, if_true, hv', and_self]
  unfold changeState
  by_cases e : c.state = .fastReconnect
  · simp [e]
  · simp [e, hs]

/-- **cause 3 — the cache hangs up before any session exists**: if the first receive of `rtr_sync`
    ends with TR_CLOSED while a new session is requested and the version is above the minimum, the
    version is lowered by one and the socket reconnects at once. -/
theorem downgrade_on_hangup (fuel : Nat) (st : St) (c : Conn) (n : Net)
    (hr : receivePdu st.c st.n st.t.own Gen.RTR_RECV_TIMEOUT = (.rc (-4), c, n))
    (hq : st.ss.reqSession = true) (hv : c.version > Gen.RTR_PROTOCOL_MIN_SUPPORTED_VERSION) :
    (syncFirst (fuel + 1) st).1 = none ∧
    (syncFirst (fuel + 1) st).2.c.version = c.version - 1 := by
  unfold syncFirst
  rw [hr]
  have hc : ((-4 : Int) = -4 ∧ st.ss.reqSession = true ∧ c.version > Gen.RTR_PROTOCOL_MIN_SUPPORTED_VERSION) := ⟨rfl, hq, hv⟩
  simp only [hc, and_self, if_true]
  have := (changeState_conn { c with version := c.version - 1 } n st.t.own .fastReconnect).1
  generalize changeState { c with version := c.version - 1 } n st.t.own .fastReconnect = r at this
  obtain ⟨c', n'⟩ := r
  simp only at this ⊢
  exact ⟨trivial, this⟩

/-- **restart**: a run started by `rtr_start` on a socket that was used before (`rtr_stop`, no
    `rtr_init`) enters CONNECTING by assignment, not through `rtr_change_socket_state`; its first
    iteration clears the first-PDU flag, so the whole run is the same whatever value the earlier run
    left in it — the first PDU of the first connection decides about a live downgrade like the first
    PDU of every other connection (`downgrade_first_pdu`). -/
theorem restart_forgets_first_pdu_flag (steps fuel : Nat) (st : St) (b : Bool) (hs : st.c.state ≠ .shutdown) :
    fsmStart (steps + 1) fuel { st with c := { st.c with hasReceived := b } } = fsmStart (steps + 1) fuel st := by
  have e1 := fsmStart_first steps fuel ({ st with c := { st.c with hasReceived := b } } : St) hs
  rw [e1, fsmStart_first steps fuel st hs]
  exact congrArg _ (stepConnecting_forgets (startState st) b)

/-- **enforcement**: a PDU handed to the callers of `rtr_receive_pdu` (and so the only kind that
    can be applied) carries the version the socket speaks — its header is the one just read —
    unless it is an Error Report; it passed the size check. -/
theorem mismatch_never_accepted (c : Conn) (n : Net) (own : Nat) (t : Int) (raw : List Nat)
    (h : (receivePdu c n own t).1 = .ok raw) :
    (∃ body, raw = (recvAll n 8 t).2.1 ++ body) ∧
    (verOf (recvAll n 8 t).2.1 = (receivePdu c n own t).2.1.version ∨ typeOf (recvAll n 8 t).2.1 = 10) ∧
    checkSize raw = true :=
  let r := (receivePdu_conn c n own t).2 raw h
  ⟨r.1, r.2.1, r.2.2.1⟩

/-- ... and a header whose version differs from the (possibly just downgraded) version of the
    socket, and that is not an Error Report, is answered with an Unexpected-Protocol-Version report
    (code 8, encapsulating the header as received); the call fails without a state change and
    without reading the payload. -/
theorem mismatch_refused (c : Conn) (n : Net) (own : Nat) (hdr : List Nat)
    (hl : ¬ lenOf hdr < 8) (hm : ¬ lenOf hdr > Gen.RTR_MAX_PDU_LEN)
    (hv : verOf hdr ≠ (downgraded c hdr).version ∧ typeOf hdr ≠ 10) :
    recvStage2 c n own hdr = (.rc (-1), downgraded c hdr, (sendErrorPdu (downgraded c hdr) n hdr 8 []).2) := by
  unfold recvStage2
  simp only
  rw [if_neg hl, if_neg hm, if_pos hv]

/-- **End of Data formats**: a version-0 End of Data is accepted only with 12 bytes, a version-1 one
    only with 24 -/
theorem eod_format (raw : List Nat) (ht : typeOf raw = 7) (h : checkSize raw = true) :
    (verOf raw = 0 ∧ lenOf raw = 12) ∨ (verOf raw = 1 ∧ lenOf raw = 24) := by
  unfold checkSize at h
  simp only [ht] at h
  simp only [Bool.or_eq_true, Bool.and_eq_true, beq_iff_eq] at h
  rcases h with ⟨h1, h2⟩ | ⟨h1, h2⟩
  · exact Or.inl ⟨h1, h2⟩
  · exact Or.inr ⟨h1, h2⟩

/-- every query the socket builds carries the version it currently speaks -/
theorem queries_carry_version (ver sess sn : Nat) :
    (serialQueryBytes ver sess sn).getD 0 0 = ver % 256 ∧ (resetQueryBytes ver).getD 0 0 = ver % 256 ∧
    ∀ enc code text, (errorPduBytes ver enc code text).getD 0 0 = ver % 256 := ⟨rfl, rfl, fun _ _ _ => rfl⟩

/-! ### non-vacuity -/

/-- a version-0 Cache Response as first PDU of a version-1 connection: live downgrade -/
example : (downgraded { version := 1, hasReceived := false } [0, 3, 0, 7, 0, 0, 0, 8]).version = 0 := by decide
/-- the same PDU later in the connection: no downgrade (it will be refused) -/
example : (downgraded { version := 1, hasReceived := true } [0, 3, 0, 7, 0, 0, 0, 8]).version = 1 := by decide
/-- a version-0 Error Report as first PDU does not downgrade -/
example : (downgraded { version := 1, hasReceived := false } [0, 10, 0, 2, 0, 0, 0, 16]).version = 1 := by decide
example : checkSize ([1, 7, 0, 7, 0, 0, 0, 12] ++ [0, 0, 0, 5]) = false := by decide   -- v1 EOD in v0 format
example : checkSize ([0, 7, 0, 7, 0, 0, 0, 12] ++ [0, 0, 0, 5]) = true := by decide

end Rtr.C13
