/-
  C03 — A cache response is applied completely or not at all.

  Model: `Rtr.P.syncG` (rtr_sync: first PDU, Cache Response handling,
  rtr_sync_receive_and_store_pdus with buffering, interval handling, shadow tables, the three apply
  loops, the forward-order undo loops, purge, cleanup) over the abstract tables justified by C02/C10.
  Quantifier: every socket state, every pair of duplicate-free tables (records of this socket and of
  any other sockets), every transport script (any bytes in any segmentation, any placement of
  transport errors, timeouts, closes) — `syncG fuel st` for arbitrary `st`.

  "Records attributed to that cache" = the records with `src = 0`; `OthersSame` = records learned
  from other caches are never altered.
-/
import RtrProofs.SyncAtomic

namespace Rtr.C03
open Rtr Rtr.P

/-- **C03, success**: when `rtr_sync` returns success, the Cache Response `cr` was followed by
    buffered Prefix / Router Key PDUs and an End of Data `b.eod` such that the tables are the
    result of applying every buffered PDU in order (IPv4, IPv6, router keys) to the previous tables
    (incremental update) or to the tables without this cache's records (reset), every PDU was
    acceptable, the stored serial is the one of the End of Data, the session is the one both PDUs
    carry, no new session is requested, and the update time is now. -/
theorem sync_success (fuel : Nat) (st : St) (ht : TblOK st.t) (h : (syncG fuel st).1 = true) :
    ∃ cr b, (syncG fuel st).2.2 = some (cr, b) ∧
      (st.ss.reqSession = false → be16 cr 2 = st.ss.session) ∧
      be16 cr 2 = (syncG fuel st).2.1.ss.session ∧ be16 b.eod 2 = (syncG fuel st).2.1.ss.session ∧
      lsApplyAll (baseOf st.t (resettingAfter st.ss)).pt ((b.v4 ++ b.v6).map pfxOp) = some (syncG fuel st).2.1.t.pt ∧
      lsApplyAll (baseOf st.t (resettingAfter st.ss)).kt (b.keys.map keyOp) = some (syncG fuel st).2.1.t.kt ∧
      (∀ p ∈ b.v4 ++ b.v6, pfxOK p) ∧ (∀ p ∈ b.keys, keyOK p) ∧
      (syncG fuel st).2.1.ss.serial = be32 b.eod 8 ∧ (syncG fuel st).2.1.ss.reqSession = false ∧
      (syncG fuel st).2.1.ss.lastUpdate = (syncG fuel st).2.1.n.now :=
  (syncG_spec fuel st ht).success h

/-- **C03, failure**: when `rtr_sync` fails at any point — malformed or unexpected PDU, duplicate
    announcement, withdrawal of an unknown record, invalid flags or lengths, session mismatch,
    transport error, timeout, close — either the tables hold exactly the records from before and the
    next query is the one that would have been sent before (same session and serial, or again a
    Reset Query), or all of this cache's records are gone and the next query is a Reset Query. -/
theorem sync_failure (fuel : Nat) (st : St) (ht : TblOK st.t) (h : (syncG fuel st).1 = false) :
    (TblSame st.t (syncG fuel st).2.1.t ∧ nextQuery (syncG fuel st).2.1.ss = nextQuery st.ss) ∨
    (NoOwn (syncG fuel st).2.1.t ∧ nextQuery (syncG fuel st).2.1.ss = none) := by
  rcases ((syncG_spec fuel st ht).failure h).2 with h1 | ⟨h1, h2⟩
  · exact Or.inl h1
  · exact Or.inr ⟨h1, by simp [nextQuery, h2]⟩

/-- **C03, other caches**: whatever happens, the records learned from other caches are untouched,
    and the tables stay duplicate-free with no shadow table left behind. -/
theorem others_untouched (fuel : Nat) (st : St) (ht : TblOK st.t) :
    OthersSame st.t (syncG fuel st).2.1.t ∧ TblOK (syncG fuel st).2.1.t :=
  ⟨(syncG_spec fuel st ht).others, (syncG_spec fuel st ht).tblok⟩

/-- the key lemma behind the rollback: a forward-order undo that succeeds at every step restores -/
theorem forward_undo {α : Type} [DecidableEq α] (ops : List (Bool × α)) (t t' t'' : List α) (hn : t.Nodup)
    (ha : lsApplyAll t ops = some t') (hu : lsUndoAll t' ops = some t'') : SameSet t'' t :=
  (ls_forward_undo ops t t' t'' hn ha hu).2

/-- reading of a successful in-order application as a set: a record is present afterwards iff the
    last PDU naming it announced it, or no PDU named it and it was present before
    (= previous + announcements − withdrawals, every PDU having been a real change) -/
theorem applied_membership {α : Type} [DecidableEq α] (ops : List (Bool × α)) (t t' : List α) (hn : t.Nodup)
    (ha : lsApplyAll t ops = some t') (x : α) :
    (x ∈ t') ↔ ((Undo.flagsOf x ops).getLast?.getD (decide (x ∈ t)) = true) := by
  obtain ⟨_, a⟩ := lsApplyAll_abs ops t t' hn ha
  have := Undo.applyB_last _ _ _ (Undo.applyAll_proj x ops (memF t) (memF t') a)
  simp only [memF] at this
  rw [this]
  simp

/-! ### non-vacuity -/

/-- the empty tables satisfy the hypothesis -/
example : TblOK ({} : Tbl) := ⟨rfl, List.nodup_nil, List.nodup_nil⟩

def pB : List Nat := [1, 4, 0, 0, 0, 0, 0, 20, 1, 8, 8, 0, 11, 0, 0, 0, 0, 0, 253, 234]      -- announce 11.0.0.0/8 AS 65002
def pBw : List Nat := [1, 4, 0, 0, 0, 0, 0, 20, 0, 8, 8, 0, 11, 0, 0, 0, 0, 0, 253, 234]     -- withdraw it
def pC : List Nat := [1, 4, 0, 0, 0, 0, 0, 20, 1, 8, 8, 0, 12, 0, 0, 0, 0, 0, 253, 235]      -- announce 12.0.0.0/8
def pDw : List Nat := [1, 4, 0, 0, 0, 0, 0, 20, 0, 8, 8, 0, 13, 0, 0, 0, 0, 0, 253, 236]     -- withdraw unknown 13.0.0.0/8

/-- the F3 history: announce B, withdraw B, announce C, withdraw unknown D.  The forward undo fails
    at its first step (B is no longer there), so the records are purged — C does not stay. -/
example : (applyTablesU ⟨[], []⟩ [pB, pBw, pC, pDw] [] []).ok = false ∧
    (applyTablesU ⟨[], []⟩ [pB, pBw, pC, pDw] [] []).undone = false := by decide

/-- a failure whose undo restores: announce B, then withdraw unknown D -/
example : (applyTablesU ⟨[], []⟩ [pB, pDw] [] []).ok = false ∧
    (applyTablesU ⟨[], []⟩ [pB, pDw] [] []).undone = true ∧ (applyTablesU ⟨[], []⟩ [pB, pDw] [] []).u.pt = [] := by decide

/-- a success -/
example : (applyTablesU ⟨[], []⟩ [pB, pC] [] []).ok = true ∧
    ((applyTablesU ⟨[], []⟩ [pB, pC] [] []).u.pt.map (·.addr)) = [0x0c000000, 0x0b000000] := by decide

end Rtr.C03
