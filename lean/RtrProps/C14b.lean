/-
  C14 (part b) — "An Error Report is sent for every protocol violation the client detects (except
  in reply to an Error Report); it carries the code for that violation, an encapsulated copy that
  is a byte-exact prefix of the offending PDU as it was received, and a text length consistent with
  the PDU length."

  Proved on the protocol model `Rtr.P` (RtrModel/Rtr.lean) itself, not on a copy: `Sent n n' rs`
  (RtrProofs/ErrReports.lean) says that the environment `n'` of the REAL model function is reached
  from `n` by `tr_recv_all` calls, state-change callbacks and `tr_send_all` of exactly the Error Report
  PDUs `rs` (data `(ver, code, enc, text)`, bytes `errorPduBytes ver enc code text`), in this order.

  SITE → CODE table (every place of packets.c that sends an Error Report; codes of RFC 8210 §12):
    rtr_receive_pdu          length field < 8                        0 Corrupt Data   enc = 8 header bytes   text "corrupt data received, …"
    rtr_receive_pdu          length field > RTR_MAX_PDU_LEN          0 Corrupt Data   enc = 8 header bytes   text "PDU too big, …"
    rtr_receive_pdu          version ≠ socket's (after live downgrade), type ≠ 10
                                                                     8 Unexpected Protocol Version   enc = 8 header bytes   no text
    rtr_receive_pdu          size check fails (length ≠ what the type requires, unknown type)
                                                                     0 Corrupt Data   enc = 8 header bytes   text "corrupt data received, …"
    rtr_sync                 first answer not Cache Response / Cache Reset / Error Report
                                                                     0 Corrupt Data   enc = 8 header bytes   text "Unexpected PDU received in data synchronisation"
    rtr_handle_cache_response_pdu   session id ≠ running session     0 Corrupt Data   enc = []  (the only site without encapsulated PDU)
    rtr_sync_receive_and_store_pdus PDU of type 1, 2, 3, 8 in the answer
                                                                     0 Corrupt Data   enc = 8 header bytes   text "Unexpected PDU received during data synchronisation"
    rtr_sync_receive_and_store_pdus End of Data with another session id
                                                                     0 Corrupt Data   enc = whole End of Data PDU   text names both ids
    rtr_update_pfx_table     prefix / max length > address width     0 Corrupt Data   enc = whole Prefix PDU
    rtr_update_pfx_table / rtr_update_spki_table   flags ∉ {0, 1}    0 Corrupt Data   enc = whole PDU
    rtr_update_pfx_table / rtr_update_spki_table   record already there   7 Duplicate Announcement Received   enc = whole PDU, no text
    rtr_update_pfx_table / rtr_update_spki_table   record not there       6 Withdrawal of Unknown Record      enc = whole PDU, no text
  Not codes the client ever sends: 4 (Unsupported Protocol Version) and 5 (Unsupported PDU Type) —
  the branches exist in rtr_receive_pdu's `error:` label but nothing jumps there with these values;
  an unknown PDU type fails the size check and is reported as 0.  The interval reports of
  rtr_sync_receive_and_store_pdus are dead code (rtr_check_interval_option never returns RTR_ERROR
  for a valid interval type); 1 (Internal Error) needs an allocation failure, which the model's
  tables do not have.

  SILENT (violation detected, nothing sent): `waitForSync_silent` — in ESTABLISHED, waiting for a
  Serial Notify, any other well-formed PDU makes rtr_wait_for_sync return RTR_ERROR without report
  and without state change.  By design: nothing in reply to an Error Report (`no_report_for_error_pdu…`),
  nothing once the socket is SHUTDOWN (`shutdown_suppresses`).  A PDU cut short by a transport fault
  or the end of the stream is a transport failure, not a report (`RecvClass.payloadFault`).
-/
import RtrProofs.ErrReports
import RtrModel.Rfc8210

namespace Rtr.C14b
open Rtr.P

/-! ## (1) well-formedness, (2) echo -/

/-- **(1)(2) `rtr_sync`, all streams (faults included), all table contents.**  At most one Error Report
    per exchange and only when it fails.  The report is `errorPduBytes` of the socket's version with
    code 0, 6, 7 or 8; it fits RTR_MAX_PDU_LEN, its length field is its length, the encapsulated
    length / bytes / text length / text are in place (text length consistent with the PDU length); it
    never echoes an Error Report; and the encapsulated bytes are a prefix — the first 8 bytes, or the
    whole PDU — of a PDU exactly as it stands in the stream at a PDU boundary (after complete,
    checked PDUs), or empty at the one site that sends no encapsulated PDU. -/
theorem sync_reports (fuel : Nat) (st : St) (hok : TapeOk st.n.tape) :
    ∃ rs, Sent st.n (syncG fuel st).2.1.n rs ∧ rs.length ≤ 1 ∧ (rs ≠ [] → (syncG fuel st).1 = false) ∧
      ∀ r ∈ rs,
        r.ver = (syncG fuel st).2.1.c.version ∧ (r.code = 0 ∨ r.code = 6 ∨ r.code = 7 ∨ r.code = 8) ∧
        ¬ (2 ≤ r.enc.length ∧ r.enc.getD 1 0 = 10) ∧
        WellFormedPdu r.ver r.bytes ∧ r.bytes.length = 16 + r.enc.length + r.text.length ∧
        be32 r.bytes 8 = r.enc.length ∧ (r.bytes.drop 12).take r.enc.length = r.enc ∧
        be32 r.bytes (12 + r.enc.length) = r.text.length ∧ r.bytes.drop (16 + r.enc.length) = r.text ∧
        be16 r.bytes 2 = r.code ∧
        ((∃ rest, AtBoundary (tapeBytes st.n.tape) rest ∧ r.enc <+: rest ∧
            (r.enc = rest.take 8 ∨ ValidPdu r.enc)) ∨
         (r.enc = [] ∧ r.code = 0 ∧ r.text = txtWrongSession)) := by
  obtain ⟨rs, hs, hle, hf, hsh⟩ := er_syncG fuel st _ _ _ hok rfl
  refine ⟨rs, hs, hle, hf, ?_⟩
  intro r hr
  obtain ⟨hsr, he⟩ := hsh r hr
  obtain ⟨_, hw, f1, f2, f3, f4, f5, f6, _⟩ := er_report_wellformed _ _ r hsr he
  refine ⟨hsr.ver, hsr.code, hsr.notErr, by rw [hsr.ver]; exact hw, f5, f1, f2, f3, f4, f6, ?_⟩
  rcases he with ⟨rest, hb, h | h⟩ | h
  · exact Or.inl ⟨rest, hb, by rw [h.2]; exact List.take_prefix _ _, Or.inl h.2⟩
  · exact Or.inl ⟨rest, hb, h.2, Or.inr h.1⟩
  · exact Or.inr h

/-- the same for `rtr_wait_for_sync` and for a single `rtr_receive_pdu`: the report echoes the 8
    header bytes at the front of the stream -/
theorem receive_reports (c : Conn) (n : Net) (own : Nat) (t : Int) (hok : TapeOk n.tape) :
    ∃ rs, Sent n (receivePdu c n own t).2.2 rs ∧ rs.length ≤ 1 ∧
      ∀ r ∈ rs, (receivePdu c n own t).1 = .rc (-1) ∧ r.ver = (receivePdu c n own t).2.1.version ∧
        8 ≤ (tapeBytes n.tape).length ∧ r.enc = (tapeBytes n.tape).take 8 ∧ r.enc.getD 1 0 ≠ 10 ∧
        ((r.code = 0 ∧ (r.text = txtCorrupt ∨ r.text = txtTooBig)) ∨ (r.code = 8 ∧ r.text = [])) ∧
        WellFormedPdu r.ver r.bytes ∧ be32 r.bytes 20 = r.text.length := by
  obtain ⟨cls, hdr, hs, hv, hf, _, hh, _⟩ := er_receivePdu c n own t hok _ _ _ rfl
  refine ⟨classReports c hdr cls, hs, er_classReports_le c hdr cls, ?_⟩
  intro r hr
  have hnh : ∀ k, cls ≠ .noHeader k := by intro k hk; subst hk; cases hr
  obtain ⟨_, hhdr, h8⟩ := hh hnh
  obtain ⟨he, hne, hcls⟩ := er_classReports_mem c hdr cls r hr
  obtain ⟨hsr, _⟩ := er_classReports_sync c _ hdr cls r hr (hv r hr)
  have hecho : SyncEcho (tapeBytes n.tape) r := Or.inl (by rw [he, hhdr]; exact StreamEcho.head8 h8)
  obtain ⟨_, hw, _, _, f3, _⟩ := er_report_wellformed _ _ r hsr hecho
  have hl8 : r.enc.length = 8 := by rw [he, hhdr, List.length_take]; omega
  refine ⟨?_, hv r hr, h8, by rw [he, hhdr], ?_, ?_, by rw [hv r hr]; exact hw, by rw [hl8] at f3; exact f3⟩
  · cases cls with
    | delivered raw => cases hr
    | noHeader k => cases hr
    | payloadFault k => cases hr
    | lenSmall => exact hf.1
    | lenBig => exact hf.1
    | version => exact hf.1
    | sizeCheck => exact hf.1
  · intro h10; exact hne ⟨by rw [← he, hl8]; omega, by rw [← he]; exact h10⟩
  · rcases hcls with ⟨_, a, b⟩ | ⟨_, a, b⟩ | ⟨_, a, b⟩ | ⟨_, a, b⟩
    · exact Or.inl ⟨a, Or.inl b⟩
    · exact Or.inl ⟨a, Or.inr b⟩
    · exact Or.inr ⟨a, b⟩
    · exact Or.inl ⟨a, Or.inl b⟩

theorem wait_reports (st : St) (hok : TapeOk st.n.tape) :
    ∃ rs, Sent st.n (waitForSync st).2.n rs ∧ rs.length ≤ 1 ∧ (rs ≠ [] → (waitForSync st).1 = false) ∧
      ∀ r ∈ rs, SyncReport (waitForSync st).2.c r ∧ StreamEcho (tapeBytes st.n.tape) r.enc :=
  er_waitForSync st hok

/-- the codes the client uses are RFC 8210's -/
theorem codes_rfc : Rfc8210.errCorruptData = 0 ∧ Rfc8210.errWithdrawalOfUnknown = 6 ∧
    Rfc8210.errDuplicateAnnouncement = 7 ∧ Rfc8210.errUnexpectedVersion = 8 ∧ Rfc8210.pduErrorReport = 10 :=
  ⟨rfl, rfl, rfl, rfl, rfl⟩

/-! ## (3)(5) `rtr_receive_pdu`: violation ⇒ exactly this report -/

/-- **Converse direction for `rtr_receive_pdu`.**  A fault-free stream (any chunking) with the 8 header
    bytes and — unless the header alone is rejected — the whole announced PDU, socket not shut
    down: the call falls into class `classOf c bs`, sends exactly `classReports` of that class, and
    returns the PDU or RTR_ERROR. -/
theorem receive_violation_reported (c : Conn) (n : Net) (own : Nat) (t : Int) (hq : Quiet n.tape)
    (hs : c.state ≠ .shutdown) (h8 : 8 ≤ (tapeBytes n.tape).length)
    (hall : lenOf ((tapeBytes n.tape).take 8) ≤ (tapeBytes n.tape).length ∨
      lenOf ((tapeBytes n.tape).take 8) > Gen.RTR_MAX_PDU_LEN ∨
      (verOf ((tapeBytes n.tape).take 8) ≠ (downgrade c ((tapeBytes n.tape).take 8)).version ∧
        typeOf ((tapeBytes n.tape).take 8) ≠ 10)) :
    Sent n (receivePdu c n own t).2.2 (classReports c ((tapeBytes n.tape).take 8) (classOf c (tapeBytes n.tape))) ∧
    (receivePdu c n own t).1 =
      (match classOf c (tapeBytes n.tape) with | .delivered raw => .ok raw | _ => .rc (-1)) := by
  obtain ⟨a, _, b⟩ := er_receivePdu_quiet c n own t hq hs h8 hall _ _ _ rfl
  exact ⟨a, b⟩

/-- the table of `classReports`, spelled out for a header that is not an Error Report's -/
theorem receive_codes (c : Conn) (hdr : List Nat) (hs : c.state ≠ .shutdown) (h10 : hdr.getD 1 0 ≠ 10) :
    classReports c hdr .lenSmall = [⟨c.version, 0, hdr, txtCorrupt⟩] ∧
    classReports c hdr .lenBig = [⟨c.version, 0, hdr, txtTooBig⟩] ∧
    classReports c hdr .version = [⟨(downgrade c hdr).version, 8, hdr, []⟩] ∧
    classReports c hdr .sizeCheck = [⟨(downgrade c hdr).version, 0, hdr, txtCorrupt⟩] ∧
    (∀ raw, classReports c hdr (.delivered raw) = []) ∧ (∀ k, classReports c hdr (.noHeader k) = []) ∧
    (∀ k, classReports c hdr (.payloadFault k) = []) := by
  have hs' : (downgrade c hdr).state ≠ .shutdown := by rw [er_downgrade_state]; exact hs
  exact ⟨er_repOf_one _ _ _ _ (fun h => h10 h.2) hs, er_repOf_one _ _ _ _ (fun h => h10 h.2) hs,
    er_repOf_one _ _ _ _ (fun h => h10 h.2) hs', er_repOf_one _ _ _ _ (fun h => h10 h.2) hs',
    fun _ => rfl, fun _ => rfl, fun _ => rfl⟩

/-- which class a stream falls into (`classOf` unfolded) -/
theorem classOf_spec (c : Conn) (bs : List Nat) :
    (lenOf (bs.take 8) < 8 → classOf c bs = .lenSmall) ∧
    (lenOf (bs.take 8) > Gen.RTR_MAX_PDU_LEN → classOf c bs = .lenBig) ∧
    (8 ≤ lenOf (bs.take 8) → lenOf (bs.take 8) ≤ Gen.RTR_MAX_PDU_LEN →
      ((verOf (bs.take 8) ≠ (downgrade c (bs.take 8)).version ∧ typeOf (bs.take 8) ≠ 10) →
        classOf c bs = .version) ∧
      (¬ (verOf (bs.take 8) ≠ (downgrade c (bs.take 8)).version ∧ typeOf (bs.take 8) ≠ 10) →
        (¬ KnownSize (bs.take (lenOf (bs.take 8))) → classOf c bs = .sizeCheck) ∧
        (KnownSize (bs.take (lenOf (bs.take 8))) → classOf c bs = .delivered (bs.take (lenOf (bs.take 8)))))) := by
  have hm : Gen.RTR_MAX_PDU_LEN = 3248 := rfl
  refine ⟨fun h => by unfold classOf; rw [if_pos h], fun h => by unfold classOf; rw [if_neg (by omega), if_pos h], ?_⟩
  intro h1 h2
  refine ⟨fun h => by unfold classOf; rw [if_neg (by omega), if_neg (by omega), if_pos h], fun h => ⟨?_, ?_⟩⟩
  · intro hk
    rw [← P.checkSize_spec] at hk
    have : checkSize (bs.take (lenOf (bs.take 8))) = false := by simpa using hk
    unfold classOf; rw [if_neg (by omega), if_neg (by omega), if_neg h, this]; rfl
  · intro hk
    rw [← P.checkSize_spec] at hk
    unfold classOf; rw [if_neg (by omega), if_neg (by omega), if_neg h, hk]; rfl

/-! ## (3)(5) the table stage and the sync-level sites -/

theorem pfx_codes (c : Conn) (t : Tbl) (raw : List Nat) (h8 : 8 ≤ raw.length) (h10 : raw.getD 1 0 ≠ 10)
    (hs : c.state ≠ .shutdown) :
    Sent (n : Net) (updatePfx c n t raw).2.2.1 (pfxReports c t raw) ∧
    (((pfxRecOf raw).len > maxBitsOf raw ∨ (pfxRecOf raw).maxLen > maxBitsOf raw) →
      pfxReports c t raw = [⟨c.version, 0, raw, txtBadLenPfx⟩]) ∧
    (¬ ((pfxRecOf raw).len > maxBitsOf raw ∨ (pfxRecOf raw).maxLen > maxBitsOf raw) →
      ((flagsOf raw ≠ 0 ∧ flagsOf raw ≠ 1) → pfxReports c t raw = [⟨c.version, 0, raw, txtBadFlagsPfx⟩]) ∧
      (flagsOf raw = 1 → pfxRecOf raw ∈ t.upd.pt → pfxReports c t raw = [⟨c.version, 7, raw, []⟩]) ∧
      (flagsOf raw = 0 → pfxRecOf raw ∉ t.upd.pt → pfxReports c t raw = [⟨c.version, 6, raw, []⟩]) ∧
      (flagsOf raw = 1 → pfxRecOf raw ∉ t.upd.pt → pfxReports c t raw = []) ∧
      (flagsOf raw = 0 → pfxRecOf raw ∈ t.upd.pt → pfxReports c t raw = [])) :=
  ⟨(er_updatePfx c n t raw).1, (er_pfx_codes c t raw h8 h10 hs).1, (er_pfx_codes c t raw h8 h10 hs).2⟩

theorem key_codes (c : Conn) (t : Tbl) (raw : List Nat) (h8 : 8 ≤ raw.length) (h10 : raw.getD 1 0 ≠ 10)
    (hs : c.state ≠ .shutdown) :
    Sent (n : Net) (updateKey c n t raw).2.2.1 (keyReports c t raw) ∧
    ((flagsOf raw ≠ 0 ∧ flagsOf raw ≠ 1) → keyReports c t raw = [⟨c.version, 0, raw, txtBadFlagsKey⟩]) ∧
    (flagsOf raw = 1 → keyRecOf raw ∈ t.upd.kt → keyReports c t raw = [⟨c.version, 7, raw, []⟩]) ∧
    (flagsOf raw = 0 → keyRecOf raw ∉ t.upd.kt → keyReports c t raw = [⟨c.version, 6, raw, []⟩]) ∧
    (flagsOf raw = 1 → keyRecOf raw ∉ t.upd.kt → keyReports c t raw = []) ∧
    (flagsOf raw = 0 → keyRecOf raw ∈ t.upd.kt → keyReports c t raw = []) :=
  ⟨(er_updateKey c n t raw).1, er_key_codes c t raw h8 h10 hs⟩

/-- the End of Data branch: the buffered PDUs are applied; a report is sent exactly when one of them
    cannot be applied — exactly one, echoing that PDU whole, with a table-stage code -/
theorem tables_violation_reported (c : Conn) (n : Net) (t : Tbl) (resetting : Bool) (v4 v6 keys : List (List Nat))
    (hg : ∀ p ∈ v4 ++ v6 ++ keys, GoodPdu p) (hs : c.state ≠ .shutdown) :
    ∃ rs, Sent n (applyTables c n t resetting v4 v6 keys).n rs ∧
      ((applyTables c n t resetting v4 v6 keys).ok = true → rs = []) ∧
      ((applyTables c n t resetting v4 v6 keys).ok = false → rs.length = 1) ∧
      ∀ r ∈ rs, ∃ p ∈ v4 ++ v6 ++ keys, TableReport c p r := by
  obtain ⟨rs, a, _, _, _, b, c', d⟩ := er_applyTables c n t resetting v4 v6 keys
  exact ⟨rs, a, b, fun h => d h hg hs, c'⟩

/-- End of Data with a session id other than the socket's: code 0, the whole End of Data PDU echoed -/
theorem eod_session_mismatch_reported (fuel : Nat) (st : St) (v4 v6 keys : List (List Nat)) (raw : List Nat)
    (c1 : Conn) (n1 : Net)
    (hrecv : receivePdu st.c st.n st.t.own Gen.RTR_RECV_TIMEOUT = (.ok raw, c1, n1)) (hty : typeOf raw = 7)
    (hsess : be16 raw 2 ≠ st.ss.session) (h8 : 8 ≤ raw.length) (hs : c1.state ≠ .shutdown) :
    (recvAndStore (fuel + 1) st v4 v6 keys).1 = false ∧
    Sent n1 (recvAndStore (fuel + 1) st v4 v6 keys).2.1.n
      [⟨c1.version, 0, raw, txtEodSession st.ss.session (be16 raw 2)⟩] :=
  er_eod_session_mismatch fuel st v4 v6 keys raw c1 n1 hrecv hty hsess h8 hs

/-- a PDU of a type that does not belong into the answer: code 0, the 8 header bytes echoed -/
theorem unexpected_in_answer_reported (fuel : Nat) (st : St) (v4 v6 keys : List (List Nat)) (raw : List Nat)
    (c1 : Conn) (n1 : Net)
    (hrecv : receivePdu st.c st.n st.t.own Gen.RTR_RECV_TIMEOUT = (.ok raw, c1, n1))
    (hty : typeOf raw ≠ 4 ∧ typeOf raw ≠ 6 ∧ typeOf raw ≠ 9 ∧ typeOf raw ≠ 7 ∧ typeOf raw ≠ 10 ∧ typeOf raw ≠ 0)
    (hs : c1.state ≠ .shutdown) :
    (recvAndStore (fuel + 1) st v4 v6 keys).1 = false ∧
    Sent n1 (recvAndStore (fuel + 1) st v4 v6 keys).2.1.n [⟨c1.version, 0, raw.take 8, txtUnexpectedSync⟩] :=
  er_unexpected_in_answer fuel st v4 v6 keys raw c1 n1 hrecv hty hs

/-- the first answer is neither Cache Response, Cache Reset nor Error Report: code 0, header echoed -/
theorem unexpected_first_reported (fuel : Nat) (st : St) (raw : List Nat) (st1 : St)
    (hfirst : syncFirst fuel st = (some raw, st1))
    (hty : typeOf raw ≠ 10 ∧ typeOf raw ≠ 8 ∧ typeOf raw ≠ 3) (hs : st1.c.state ≠ .shutdown) :
    (syncG fuel st).1 = false ∧
    Sent st1.n (syncG fuel st).2.1.n [⟨st1.c.version, 0, raw.take 8, txtUnexpectedSync2⟩] :=
  er_unexpected_first fuel st raw st1 hfirst hty hs

/-- Cache Response with the wrong session id: code 0 and NO encapsulated PDU -/
theorem cache_response_session_reported (c : Conn) (ss : Sess) (n : Net) (own : Nat) (raw : List Nat)
    (hreq : ss.reqSession = false) (hsess : ss.session ≠ be16 raw 2) (hs : c.state ≠ .shutdown) :
    (handleCacheResponse c ss n own raw).1 = false ∧
    Sent n (handleCacheResponse c ss n own raw).2.2.2 [⟨c.version, 0, [], txtWrongSession⟩] :=
  er_cache_response_session c ss n own raw hreq hsess hs

/-! ## (4) nothing in reply to an Error Report -/

/-- `rtr_receive_pdu`: the PDU at the front of the stream is an Error Report ⇒ nothing is sent,
    whatever is wrong with it -/
theorem no_report_for_error_pdu_receive (c : Conn) (n : Net) (own : Nat) (t : Int) (hok : TapeOk n.tape)
    (h10 : (tapeBytes n.tape).getD 1 0 = 10) : Sent n (receivePdu c n own t).2.2 [] :=
  er_receivePdu_error_pdu c n own t hok h10 _ _ _ rfl

/-- an Error Report inside the answer ends the exchange without a reply -/
theorem no_report_for_error_pdu_in_answer (fuel : Nat) (st : St) (v4 v6 keys : List (List Nat)) (raw : List Nat)
    (c1 : Conn) (n1 : Net)
    (hrecv : receivePdu st.c st.n st.t.own Gen.RTR_RECV_TIMEOUT = (.ok raw, c1, n1)) (hty : typeOf raw = 10) :
    (recvAndStore (fuel + 1) st v4 v6 keys).1 = false ∧ Sent n1 (recvAndStore (fuel + 1) st v4 v6 keys).2.1.n [] :=
  er_recvAndStore_error_pdu fuel st v4 v6 keys raw c1 n1 hrecv hty

/-- an Error Report as the first answer to a query: handled, not answered -/
theorem no_report_for_error_pdu_first (fuel : Nat) (st : St) (raw : List Nat) (st1 : St)
    (hfirst : syncFirst fuel st = (some raw, st1)) (hty : typeOf raw = 10) :
    (syncG fuel st).1 = false ∧ Sent st1.n (syncG fuel st).2.1.n [] :=
  er_syncG_error_pdu fuel st raw st1 hfirst hty

/-- `rtr_handle_error_pdu` only changes the state -/
theorem no_report_for_error_pdu_handler (c : Conn) (n : Net) (own : Nat) (raw : List Nat) :
    Sent n (handleErrorPdu c n own raw).2 [] := er_handleErrorPdu c n own raw

/-! ## silent -/

/-- **SILENT.**  Waiting for a Serial Notify (`rtr_wait_for_sync`), any other PDU that passes the
    checks of `rtr_receive_pdu` makes the call fail with NO Error Report and no state change: the
    PDU is consumed and dropped. -/
theorem waitForSync_silent (st : St) (raw : List Nat) (c1 : Conn) (n1 : Net)
    (hrecv : receivePdu st.c st.n st.t.own
      (if st.ss.lastUpdate + ↑st.tm.refresh - st.n.now < 0 then (0 : Int)
        else st.ss.lastUpdate + ↑st.tm.refresh - st.n.now) = (.ok raw, c1, n1))
    (hty : typeOf raw ≠ 0) (hok : TapeOk st.n.tape) :
    (waitForSync st).1 = false ∧ (waitForSync st).2.c = c1 ∧ (waitForSync st).2.n = n1 ∧
    c1.state = st.c.state ∧ Sent st.n (waitForSync st).2.n [] :=
  er_waitForSync_silent st raw c1 n1 hrecv hty hok

/-- `rtr_send_pdu` sends nothing once the socket is shut down: the report is suppressed -/
theorem shutdown_suppresses (c : Conn) (enc : List Nat) (code : Nat) (text : List Nat)
    (h : c.state = .shutdown) : repOf c enc code text = [] := by
  unfold repOf; rw [if_pos (Or.inr h)]

/-! ## non-vacuity -/

section Examples

/-- a header announcing 7 bytes; an IPv4 Prefix PDU announcing 21 bytes; an unknown type; a version-0
    PDU on a version-1 socket that has already received PDUs -/
def bsSmall : List Nat := [1, 4, 0, 0, 0, 0, 0, 7]
def bsSize : List Nat := [1, 4, 0, 0, 0, 0, 0, 21] ++ List.replicate 13 0
def bsType : List Nat := [1, 5, 0, 0, 0, 0, 0, 8]
def bsVer : List Nat := [0, 3, 0, 7, 0, 0, 0, 8]
def cSync : Conn := { state := .sync, version := 1, hasReceived := true }

example : Quiet [TapeEv.rx bsSmall] ∧ cSync.state ≠ .shutdown ∧ 8 ≤ (tapeBytes [TapeEv.rx bsSmall]).length := by decide
example : classOf cSync bsSmall = .lenSmall := by decide
example : classOf cSync bsSize = .sizeCheck ∧ classOf cSync bsType = .sizeCheck ∧ classOf cSync bsVer = .version := by
  decide
/-- the report for the 21-byte IPv4 PDU: code 0, the header echoed -/
example : ∃ txt, classReports cSync (bsSize.take 8) (classOf cSync bsSize) = [⟨1, 0, [1, 4, 0, 0, 0, 0, 0, 21], txt⟩] :=
  ⟨txtCorrupt, by
    have : classOf cSync bsSize = .sizeCheck := by decide
    rw [this]; exact (receive_codes cSync _ (by decide) (by decide)).2.2.2.1⟩

/-- a duplicate announcement: 10.0.0.0/24-24 AS 65000 is already in the table -/
def rawDup : List Nat := [1, 4, 0, 0, 0, 0, 0, 20, 1, 24, 24, 0, 10, 0, 0, 0, 0, 0, 253, 232]
def tblDup : Tbl := { pt := [⟨false, 167772160, 24, 24, 65000, 0⟩] }
example : pfxReports cSync tblDup rawDup = [⟨1, 7, rawDup, []⟩] := by decide
/-- … and a withdrawal of a record that is not there -/
example : pfxReports cSync {} ([1, 4, 0, 0, 0, 0, 0, 20, 0, 24, 24, 0, 10, 0, 0, 0, 0, 0, 253, 232]) =
    [⟨1, 6, [1, 4, 0, 0, 0, 0, 0, 20, 0, 24, 24, 0, 10, 0, 0, 0, 0, 0, 253, 232], []⟩] := by decide
/-- an Error Report is not echoed -/
example : repOf cSync [1, 10, 0, 2, 0, 0, 0, 16] 0 [] = [] := by decide

/-- the silent case: ESTABLISHED, and the cache sends a Cache Reset instead of a Serial Notify -/
def stWait : St :=
  { c := { state := .established, version := 1, hasReceived := true }, n := { tape := [.rx [1, 8, 0, 0, 0, 0, 0, 8]] } }
example : (receivePdu stWait.c stWait.n stWait.t.own
      (if stWait.ss.lastUpdate + ↑stWait.tm.refresh - stWait.n.now < 0 then (0 : Int)
        else stWait.ss.lastUpdate + ↑stWait.tm.refresh - stWait.n.now)).1 = .ok [1, 8, 0, 0, 0, 0, 0, 8] := by rfl
example : (waitForSync stWait).1 = false ∧ (waitForSync stWait).2.c.state = .established ∧
    (waitForSync stWait).2.n.sendQ = [] ∧ (waitForSync stWait).2.n.tape.length = 0 := by decide

end Examples

end Rtr.C14b
