/-
  C20 -- State and status names are defined for every enumerator.

  "Converting a socket state or a group status to text returns the enumerator's name for every
   value the public headers declare, including the initial not-started state, and the documented
   null result for values outside the enumeration; it never reads outside its name table."

  The enumerators (`Gen.socketStates`, `Gen.mgrStatus`), the name tables (`Gen.socketStrStates`,
  `Gen.mgrStrStatus`) and the bodies of the two functions (`Gen.stateToStrFn`, `Gen.mgrStatusToStrFn`)
  are regenerated from the current source on every run; every theorem below is re-checked against
  them.  `decide` is used only on the finite generated tables (whole-table); the statements about
  ALL integers go through `ToStrFn.run_spec` (case split on the range of the argument).
-/
import RtrModel.Names
import RtrModel.Rfc8210
import RtrProofs.Names

namespace Rtr.C20
open Rtr.NamesIR Rtr.Names

/-! ### the tables are total on the enumerations -/

/-- every declared socket state has its own identifier in `socket_str_states` -/
theorem names_total_state :
    ∀ e ∈ Gen.socketStates, tableAt Gen.socketStrStates e.2 = some (some e.1) := by decide

/-- every declared group status has its own identifier in `mgr_str_status` -/
theorem names_total_mgr :
    ∀ e ∈ Gen.mgrStatus, tableAt Gen.mgrStrStatus e.2 = some (some e.1) := by decide

/-- the enumerators of the public 0.8 API are all (still) declared with their ABI values -/
theorem public_enumerators_declared :
    (∀ e ∈ Rfc8210.socketStates, e ∈ Gen.socketStates) ∧ (∀ e ∈ Rfc8210.mgrStatus, e ∈ Gen.mgrStatus) := by
  decide

/-! ### the functions, for all integers -/

theorem state_sound : Gen.stateToStrFn.Sound Gen.socketStrStates Gen.socketStates = true := by decide
theorem mgr_sound : Gen.mgrStatusToStrFn.Sound Gen.mgrStrStatus Gen.mgrStatus = true := by decide

/-- `rtr_state_to_str`: for EVERY integer argument the result is the identifier of the (converted)
    argument when that is a declared value and NULL otherwise -- never an out-of-table read -/
theorem toStr_spec_state (i : Int) :
    stateToStr i = .ok (specName Gen.socketStates (stateArg i)) :=
  Gen.stateToStrFn.run_spec _ _ state_sound i

/-- `rtr_mgr_status_to_str`, likewise -/
theorem toStr_spec_mgr (i : Int) :
    mgrStatusToStr i = .ok (specName Gen.mgrStatus (mgrArg i)) :=
  Gen.mgrStatusToStrFn.run_spec _ _ mgr_sound i

theorem state_bound_facts :
    Gen.stateToStrFn.paramTy.bits = 32 ∧ (Gen.stateToStrFn.bound : Int) ≤ 2 ^ 31 ∧
    Gen.socketStates.all (fun e => decide (0 ≤ e.2) && decide (e.2 < (Gen.stateToStrFn.bound : Int))) = true := by
  decide

theorem mgr_bound_facts :
    Gen.mgrStatusToStrFn.paramTy.bits = 32 ∧ (Gen.mgrStatusToStrFn.bound : Int) ≤ 2 ^ 31 ∧
    Gen.mgrStatus.all (fun e => decide (0 ≤ e.2) && decide (e.2 < (Gen.mgrStatusToStrFn.bound : Int))) = true := by
  decide

/-- every value a C caller can pass (any `int`, any `unsigned int`): the name of `i` itself if `i`
    is a declared enumerator value, the documented NULL otherwise -/
theorem toStr_spec_state_int (i : Int) (h1 : -(2 ^ 31) ≤ i) (h2 : i < 2 ^ 32) :
    stateToStr i = .ok (specName Gen.socketStates i) := by
  rw [toStr_spec_state, stateArg]
  exact congrArg _ (specName_wrap32 _ state_bound_facts.1 _ _ state_bound_facts.2.1 state_bound_facts.2.2 i h1 h2)

theorem toStr_spec_mgr_int (i : Int) (h1 : -(2 ^ 31) ≤ i) (h2 : i < 2 ^ 32) :
    mgrStatusToStr i = .ok (specName Gen.mgrStatus i) := by
  rw [toStr_spec_mgr, mgrArg]
  exact congrArg _ (specName_wrap32 _ mgr_bound_facts.1 _ _ mgr_bound_facts.2.1 mgr_bound_facts.2.2 i h1 h2)

/-- neither function ever reads outside its table, whatever the argument -/
theorem never_oob (i : Int) : stateToStr i ≠ .oob ∧ mgrStatusToStr i ≠ .oob := by
  rw [toStr_spec_state, toStr_spec_mgr]
  exact ⟨by simp, by simp⟩

/-- every declared enumerator is converted to its own identifier -/
theorem toStr_enumerators :
    (∀ e ∈ Gen.socketStates, stateToStr e.2 = .ok (some e.1)) ∧
    (∀ e ∈ Gen.mgrStatus, mgrStatusToStr e.2 = .ok (some e.1)) := by decide

/-- "including the initial not-started state" -/
theorem initial_state_named :
    stateToStr Gen.RTR_CLOSED = .ok (some Rfc8210.initialState) := by decide

/-! ### F18: the same model on the tables and bodies of the tree before the fix (frozen literals)
    exhibits the defect -- the model is able to say `oob` -/

def f18Table : List (Option String) :=
  [some "RTR_CONNECTING", some "RTR_ESTABLISHED", some "RTR_RESET", some "RTR_SYNC", some "RTR_FAST_RECONNECT",
   some "RTR_ERROR_NO_DATA_AVAIL", some "RTR_ERROR_NO_INCR_UPDATE_AVAIL", some "RTR_ERROR_FATAL",
   some "RTR_ERROR_TRANSPORT", some "RTR_SHUTDOWN"]
def f18Fn : ToStrFn := { shape := .unchecked, paramTy := ⟨32, false⟩, guards := [] }

theorem f18_unfixed_reads_outside_table :
    f18Fn.run f18Table 10 = .oob ∧ f18Fn.run f18Table (-1) = .oob ∧
    f18Fn.Sound f18Table Rfc8210.socketStates = false := by decide

/-! ### non-vacuity -/

example : stateToStr 10 = .ok (some "RTR_CLOSED") := by decide
example : stateToStr 11 = .ok none ∧ stateToStr (-1) = .ok none ∧ stateToStr 2147483647 = .ok none := by decide
example : mgrStatusToStr 3 = .ok (some "RTR_MGR_ERROR") ∧ mgrStatusToStr 4 = .ok none := by decide
example : Gen.socketStates.length = 11 ∧ Gen.mgrStatus.length = 4 := by decide
example : specName Gen.socketStates 7 = some "RTR_ERROR_FATAL" := by decide

end Rtr.C20
