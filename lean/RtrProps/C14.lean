/-
  C14 — Every PDU sent is well-formed; error reports echo the offending PDU exactly.

  Part a (RtrProps/C14a.lean, namespace `Rtr.C14`): the PDUs the client builds are well-formed PDUs
  of the socket's version whose length field is their length, `tr_send_all` hands exactly those
  bytes to the transport however the writes are split, nothing is sent in reply to an Error Report.

  Part b (this file): the byte-order conversions around sending.  `rtr_receive_pdu` converts the
  received buffer to host order in place; `rtr_send_error_pdu_from_host` copies (a prefix of) that
  buffer and converts the copy back before it is encapsulated; `rtr_send_pdu` converts a copy of
  every PDU before it goes to the transport.  The model `Rtr.Conv` (RtrModel/PduConv.lean) is the
  statement-by-statement transcription of these functions for a little-endian host, tied to the C
  functions by tools/pduconvcheck.py (the real static functions run on exact-size heap buffers).

  Which violation is answered with which code, and that the encapsulated bytes are a prefix of the
  PDU as received, is part of the protocol model `Rtr.P` (every `sendErrorPdu` call there passes
  `raw` or `raw.take 8` of the PDU just received) and is decided on the implementation by the
  correspondence and by the trace oracle `rtroracle.check_sent` (every Error Report sent is matched
  against the bytes consumed from the tape); uninitialised bytes are looked for by a second build of
  the harness under MemorySanitizer.
-/
import RtrProps.C14a
import RtrProofs.PduConv

namespace Rtr.C14
open Rtr.P Rtr.Conv

/-- converting back what `rtr_receive_pdu` converted gives the bytes as received — every type,
    every buffer (Error Reports with hostile nested lengths included) -/
theorem conv_roundtrip (b : List Nat) : toNetwork (toHost b) = b := toNetwork_toHost b

/-- header-only echo (`rtr_send_error_pdu_from_host` with length 8): byte-exact -/
theorem echo_header_exact (raw : List Nat) (h8 : 8 ≤ raw.length) :
    hdrToNetwork ((toHost raw).take 8) = raw.take 8 := echo_header raw h8

/-- header conversions are mutually inverse -/
theorem hdr_roundtrip (b : List Nat) : hdrToNetwork (hdrToHost b) = b ∧ hdrToHost (hdrToNetwork b) = b :=
  ⟨hdrToNetwork_hdrToHost b, hdrToHost_hdrToNetwork b⟩

/-- for a PDU that passed the size check, every field the conversions touch lies inside the PDU -/
theorem conv_in_bounds (raw : List Nat) (hc : checkSize raw = true) (hl : raw.length = lenOf raw) :
    ∀ f ∈ convFields raw, f.1 + f.2 ≤ raw.length := convFields_inBounds raw hc hl

/-- a struct built in host order and converted for sending is what the peer converts back
    (all types but the Error Report, which is assembled in network order by `rtr_send_error_pdu`) -/
theorem send_conv_roundtrip (b : List Nat) (hne : typeOf b ≠ 10) : toHost (toNetwork b) = b :=
  toHost_toNetwork b hne

end Rtr.C14
