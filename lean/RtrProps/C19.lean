/-
  C19 — Address text conversion round-trips and agrees with the platform parser.

  Statement (properties.jsonl): every IPv4 and IPv6 address converted to text parses back to the same
  address, both with the library and with the platform's inet_pton; every string inet_pton accepts
  is accepted by the library with the same result.  The result of parsing depends only on the text
  given, and conversion never writes beyond the buffer length it was told.

  Model: RtrModel/IpText.lean (literal renderings of ipv4.c / ipv6.c / ip.c; the model is of the code
  *as repaired* for F17 — `parse6`; the code as found is `parse6Orig`).  `inet_pton` is represented
  by the render grammar (`Render`, `pton4`, `pton6`), validated against the real function on every
  string of every run of tools/ipcheck.py.  An IPv6 address is its list of eight 16-bit words.
-/
import RtrProofs.IpTextIp
import RtrProofs.IpTextDefined

namespace Rtr.C19
open Rtr.IpText

/-- an IPv6 address: eight words below 2^16 (all 2^128 of them) -/
def Addr6 (ws : List Nat) : Prop := ws.length = 8 ∧ ∀ w ∈ ws, w < 65536

/-- `%x` of a 16-bit word is a group of one to four hex digits that the parser's digit loop reads
    back to the same word, stopping at whatever non-digit follows -/
theorem hexWord_roundtrip (w : Nat) (hw : w < 65536) :
    groupOk (hex16 w) = true ∧ groupVal (hex16 w) = w ∧
    ∀ rest, NoHexHead rest → scanHex (hex16 w ++ rest) 0 0 = some (w, rest) := by
  refine ⟨groupOk_hex16 hw, groupVal_hex16 hw, fun rest hr => ?_⟩
  rw [scanHex_groupOk (groupOk_hex16 hw) hr, groupVal_hex16 hw]

/-- all 2^32 IPv4 addresses: `sscanf` reads back what `snprintf` printed -/
theorem fmt4_parse4 (a : Nat) (ha : a < 2 ^ 32) : parse4 (fmt4Str a) = some a := by
  have hq : quadOk (octets a) = true := by
    unfold quadOk octets
    simp only [Bool.and_eq_true]
    refine ⟨⟨⟨?_, ?_⟩, ?_⟩, ?_⟩ <;> exact decide_eq_true (Nat.mod_lt _ (show 0 < 256 by decide))
  have := parse4_quadStr hq noDigitHead_nil
  rw [List.append_nil] at this
  rw [fmt4Str, this]
  simp only [octets]
  congr 1
  omega

/-- the formatter's output is a string of the RFC 4291 text language, denoting the address -/
theorem fmt6_in_language (ws : List Nat) (h : Addr6 ws) :
    ∃ r : Render, r.WF ∧ r.toString = fmt6Str ws ∧ r.value = ws := by
  obtain ⟨hl, hw⟩ := h
  match ws, hl with
  | [w0, w1, w2, w3, w4, w5, w6, w7], _ =>
    have spec := zeroRunB_spec (w0 == 0) (w1 == 0) (w2 == 0) (w3 == 0) (w4 == 0) (w5 == 0) (w6 == 0) (w7 == 0)
    obtain ⟨r, h1, h2, h3, _⟩ := fmt6Body_render w0 w1 w2 w3 w4 w5 w6 w7
      (hw _ (by simp)) (hw _ (by simp)) (hw _ (by simp)) (hw _ (by simp)) (hw _ (by simp)) (hw _ (by simp))
      (hw _ (by simp)) (hw _ (by simp)) _ _ spec.1 spec.2
    exact ⟨r, h1, h2, h3⟩

/-- every string of the language (= every string the model of `inet_pton` accepts) is accepted by
    the library's parser, with the value it denotes -/
theorem parse6_accepts_language (r : Render) (h : r.WF) : parse6 r.toString = .ok r.value :=
  parse6Core_accepts true r h

/-- all 2^128 IPv6 addresses: the parser reads back what the formatter printed -/
theorem fmt6_parse6 (ws : List Nat) (h : Addr6 ws) : parse6 (fmt6Str ws) = .ok ws := by
  obtain ⟨r, hwf, hs, hv⟩ := fmt6_in_language ws h
  rw [← hs, parse6_accepts_language r hwf, hv]

/-- the result of parsing depends only on the text: the (repaired) parser never reads a `words[]`
    slot it has not written, for every input string -/
theorem parse6_defined (s : Str) : parse6 s ≠ .uninit := parse6_defined' s

/-- F17: the parser as found in the snapshot DOES read never-written words: on `"1:2:3"` it returns
    success built from five uninitialised slots (witness; replayed on the implementation by
    corpus/ip/F17_short_no_gap.ops).  The repaired parser rejects that text, as `inet_pton` does;
    on the strings of the language both parsers agree. -/
theorem parse6Orig_undefined :
    parse6Orig "1:2:3".toList = .uninit ∧ parse6 "1:2:3".toList = .reject ∧ pton6 "1:2:3".toList = none ∧
    parse6Orig [] = .uninit ∧
    ∀ r : Render, r.WF → parse6Orig r.toString = parse6 r.toString := by
  refine ⟨by decide, by decide, by decide, by decide, fun r h => ?_⟩
  rw [parse6Orig, parse6, parse6Core_accepts false r h, parse6Core_accepts true r h]

/-- output lengths: IPv6 text is shorter than INET6_ADDRSTRLEN = 46 (at most 39 characters),
    IPv4 text shorter than INET_ADDRSTRLEN = 16 -/
theorem fmt_len :
    (∀ ws, Addr6 ws → (fmt6Str ws).length < 46) ∧ (∀ a, (fmt4Str a).length < 16) := by
  constructor
  · intro ws ⟨hl, hw⟩
    match ws, hl with
    | [w0, w1, w2, w3, w4, w5, w6, w7], _ =>
      have spec := zeroRunB_spec (w0 == 0) (w1 == 0) (w2 == 0) (w3 == 0) (w4 == 0) (w5 == 0) (w6 == 0) (w7 == 0)
      obtain ⟨r, _, _, _, h4⟩ := fmt6Body_render w0 w1 w2 w3 w4 w5 w6 w7
        (hw _ (by simp)) (hw _ (by simp)) (hw _ (by simp)) (hw _ (by simp)) (hw _ (by simp)) (hw _ (by simp))
        (hw _ (by simp)) (hw _ (by simp)) _ _ spec.1 spec.2
      exact Nat.lt_of_le_of_lt h4 (by decide)
  · intro a
    have d1 := dec8_len3 (octets a).1; have d2 := dec8_len3 (octets a).2.1
    have d3 := dec8_len3 (octets a).2.2.1; have d4 := dec8_len3 (octets a).2.2.2
    simp only [fmt4Str, quadStr, List.length_append, List.length_cons]
    omega

/-- no conversion writes beyond the buffer length it was told; the IPv6 conversion either refuses
    (writing nothing) or writes the complete NUL-terminated text; the IPv4 conversion writes a
    NUL-terminated prefix, complete when `len >= 16` -/
theorem fmt_within_buffer (len : Nat) :
    (∀ a, (fmt4 a len).written.length ≤ len ∧ (16 ≤ len → (fmt4 a len).written = fmt4Str a ++ [nul])) ∧
    (∀ ws, Addr6 ws → (fmt6 ws len).written.length ≤ len ∧
      ((fmt6 ws len).rc = 0 → (fmt6 ws len).written = fmt6Str ws ++ [nul])) := by
  constructor
  · intro a
    have hl := fmt_len.2 a
    constructor
    · simp only [fmt4, snprintfWritten]
      split
      · simp
      · simp only [List.length_append, List.length_take, List.length_cons, List.length_nil]; omega
    · intro h16
      simp only [fmt4, snprintfWritten]
      rw [if_neg (by omega), List.take_of_length_le (by omega)]
  · intro ws hws
    have hl := fmt_len.1 ws hws
    unfold fmt6
    split
    · simp
    · simp only [List.length_append, List.length_cons, List.length_nil]
      exact ⟨by omega, fun _ => trivial⟩

/-- every string the model of `inet_pton(AF_INET6, ·)` accepts is accepted by the library's IPv6
    parser with the same result -/
theorem pton6_accepted (s : Str) (v : List Nat) (h : pton6 s = some v) : parse6 s = .ok v := by
  obtain ⟨r, hwf, hs, hv⟩ := pton6_sound h
  rw [← hs, parse6_accepts_language r hwf, hv]

/-- every string the model of `inet_pton(AF_INET, ·)` accepts is accepted by the library's IPv4
    parser with the same result (the converse fails: `sscanf` accepts more, e.g. " +1.2.3.4x") -/
theorem pton4_accepted (s : Str) (a : Nat) (h : pton4 s = some a) : parse4 s = some a := by
  obtain ⟨q, hq, hs, ha⟩ := pton4_sound h
  have := parse4_quadStr hq noDigitHead_nil
  rw [List.append_nil, hs] at this
  rw [this, ha]

/-- the public entry points: `lrtr_ip_addr_to_str` then `lrtr_ip_str_to_addr` is the identity, for
    both families -/
theorem ip_roundtrip :
    (∀ a, a < 2 ^ 32 → ipStrToAddr (fmt4Str a) = .ok (.v4 a)) ∧
    (∀ ws, Addr6 ws → ipStrToAddr (fmt6Str ws) = .ok (.v6 ws)) := by
  constructor
  · intro a ha
    simp [ipStrToAddr, fmt4Str, colon_notin_quadStr]
    have := fmt4_parse4 a ha
    rw [fmt4Str] at this
    rw [this]
  · intro ws hws
    obtain ⟨r, hwf, hs, hv⟩ := fmt6_in_language ws hws
    have hc : ':' ∈ fmt6Str ws := by rw [← hs]; exact colon_in_render hwf
    simp [ipStrToAddr, hc, fmt6_parse6 ws hws]

/-- `lrtr_ip_str_to_addr` accepts whatever (the model of) `inet_pton` accepts, in either family, with
    the same result -/
theorem ip_accepts_pton (s : Str) :
    (∀ a, pton4 s = some a → ipStrToAddr s = .ok (.v4 a)) ∧
    (∀ v, pton6 s = some v → ipStrToAddr s = .ok (.v6 v)) := by
  constructor
  · intro a h
    obtain ⟨q, _, hs, _⟩ := pton4_sound h
    have hc : ':' ∉ s := by rw [← hs]; exact colon_notin_quadStr q
    simp [ipStrToAddr, hc, pton4_accepted s a h]
  · intro v h
    obtain ⟨r, hwf, hs, _⟩ := pton6_sound h
    have hc : ':' ∈ s := by rw [← hs]; exact colon_in_render hwf
    simp [ipStrToAddr, hc, pton6_accepted s v h]

/-- `lrtr_ip_str_cmp` of an address with its own text is true -/
theorem ipStrCmp_fmt :
    (∀ a, a < 2 ^ 32 → ipStrCmp (.v4 a) (fmt4Str a) = some true) ∧
    (∀ ws, Addr6 ws → ipStrCmp (.v6 ws) (fmt6Str ws) = some true) := by
  constructor
  · intro a ha; simp [ipStrCmp, ip_roundtrip.1 a ha]
  · intro ws h; simp [ipStrCmp, ip_roundtrip.2 ws h]

/-! ## non-vacuity: concrete, non-trivial instances of every hypothesis -/

-- an address with two zero runs (the first longest one is compressed) satisfies `Addr6`
example : Addr6 [0x2001, 0xdb8, 0, 0, 1, 0, 0, 1] := by unfold Addr6; decide
example : fmt6Str [0x2001, 0xdb8, 0, 0, 1, 0, 0, 1] = "2001:db8::1:0:0:1".toList := by decide
example : fmt6Str [0, 0, 0, 0, 0, 0xffff, 0xc0a8, 1] = "::ffff:192.168.0.1".toList := by decide
example : fmt6Str [0, 0, 0, 0, 0, 0, 0x102, 0x304] = "::1.2.3.4".toList := by decide
example : fmt6Str [0, 0, 0, 0, 0, 0, 0, 1] = "::1".toList := by decide
example : parse6 "2001:db8::1:0:0:1".toList = .ok [0x2001, 0xdb8, 0, 0, 1, 0, 0, 1] := by decide
-- a well-formed render with upper case, leading zeros, `::` in the middle and a dotted quad
example : (⟨["00Ab".toList, "1".toList], true, ["F".toList], some (10, 0, 255, 1)⟩ : Render).WF := by decide
example : (⟨["00Ab".toList, "1".toList], true, ["F".toList], some (10, 0, 255, 1)⟩ : Render).toString
    = "00Ab:1::F:10.0.255.1".toList := by decide
example : pton6 "00Ab:1::F:10.0.255.1".toList = some [0xab, 1, 0, 0, 0, 0xf, 0xa00, 0xff01] := by decide
example : pton4 "192.168.0.1".toList = some 0xc0a80001 := by decide
-- the IPv4 parser accepts more than inet_pton (sscanf quirks), never less
example : parse4 " +1.-2.3.999x".toList = some 0x01fe03e7 ∧ pton4 " +1.-2.3.999x".toList = none := by decide
-- buffer lengths: truncation and refusal
example : fmt4 0xc0a80001 5 = ⟨0, "192.".toList ++ [nul]⟩ := by decide
example : fmt6 [0, 0, 0, 0, 0, 0, 0, 1] 45 = ⟨-1, []⟩ := by decide
example : fmt6 [0, 0, 0, 0, 0, 0, 0, 1] 46 = ⟨0, "::1".toList ++ [nul]⟩ := by decide
-- the longest output
example : (fmt6Str [0xffff, 0xffff, 0xffff, 0xffff, 0xffff, 0xffff, 0xffff, 0xffff]).length = 39 := by decide

end Rtr.C19
