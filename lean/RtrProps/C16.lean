/-
  C16 — Concurrent readers and writers of the tables are linearizable and race-free.

  Two kinds of theorems.
  * GENERIC, proved once (RtrProofs/Locks*.lean), for any number of threads running any paths:
    `guarded_no_race`, `single_writer_no_race`, `wellLocked_sound`, `writes_only_under_W`,
    `read_section_snapshot`, `reads_linearizable_partial`.
  * GENERATED, re-checked on every run against the lock IR that tools/gen_locks.py extracts from
    the current source (`RtrModel/Generated/Locks.lean`): `api_wellLocked`, `api_writes_guarded`,
    `readers_single_section`, `readers_never_write`, and the end-to-end statements
    `api_no_race`, `api_reads_snapshot` about the system "one thread adds / removes records,
    any number of threads validate / look up / enumerate".

  Model assumptions (trusted base): POSIX rwlock semantics as in `Locks.enabled`/`apply`;
  a data race = two different threads simultaneously about to perform conflicting accesses of
  one location; distinct table parameters denote distinct tables; user callbacks (`update_fp`,
  the `fp` of `pfx_table_for_each_*`) do not touch table state; the extractor's effect table
  for the tommyds entry points.
-/
import RtrProofs.Locks
import RtrProofs.LocksChecker
import RtrModel.Generated.Locks

namespace Rtr.C16
open Rtr.Locks Rtr.Generated.Locks

/-! ## Generic theorems -/

/-- If all accesses of all threads are guarded (reads under R or W of the location's lock,
    writes under W), then in every reachable state of every interleaving no two conflicting
    accesses (same location, at least one write, different threads) are simultaneously enabled. -/
theorem guarded_no_race {store : Loc → Nat} {paths : Nat → List Ev}
    (hg : ∀ i, Guarded true (paths i)) {s : Sys} (hr : Reach store paths s) : ¬ Race s :=
  Rtr.Locks.guarded_no_race hg hr

/-- Variant for one writer thread `w` whose reads need not be guarded (only its writes), all
    other threads strictly guarded and never taking a write lock. -/
theorem single_writer_no_race {store : Loc → Nat} {paths : Nat → List Ev} (w : Nat)
    (hw : Guarded false (paths w)) (hg : ∀ j, j ≠ w → Guarded true (paths j))
    (hro : ∀ j, j ≠ w → countAcq anyW (paths j) = 0)
    {s : Sys} (hr : Reach store paths s) : ¬ Race s :=
  Rtr.Locks.single_writer_no_race w hw hg hro hr

/-- The checker is sound: `wellLocked` ⇒ every complete path through the function body (all
    branches, any number of loop iterations, callees inlined) is guarded and releases every lock. -/
theorem wellLocked_sound {strict : Bool} {T : List Fn} {f : Nat} (hw : wellLocked strict T f = true)
    {fn : Fn} (hf : T[f]? = some fn) {π : List Ev} {o : Out} (hx : Exec T fn.body π o) (hob : o ≠ .brk) :
    Balanced strict π :=
  wellLocked_sound' hw hf hx hob

/-- same for a client program (a thread calling API functions) -/
theorem wellLockedProg_sound {strict : Bool} {T : List Fn} {p : Prog} (hw : wellLockedProg strict T p = true)
    {π : List Ev} {o : Out} (hx : Exec T p π o) (hob : o ≠ .brk) : Balanced strict π :=
  Rtr.Locks.wellLockedProg_sound hw hx hob

/-- The abstract value of a table changes only in steps of the thread that holds its write lock. -/
theorem writes_only_under_W {σ : Nat → Bool} {store : Loc → Nat} {paths : Nat → List Ev}
    (hg : ∀ i, Guarded (σ i) (paths i)) {s s' : Sys} (hr : Reach store paths s) {i : Nat}
    (hf : fire s i = some s') {l : Nat} (hne : abs s' l ≠ abs s l) : s.writer l = some i :=
  abs_changes_only_under_W (inv_reach hg hr) hf hne

/-- A read critical section sees one abstract value: from any state in which thread `j` holds the
    read lock of table `l`, as long as it keeps holding it, `abs l` does not change. -/
theorem read_section_snapshot {σ : Nat → Bool} {store : Loc → Nat} {paths : Nat → List Ev}
    (hg : ∀ i, Guarded (σ i) (paths i)) {s s' : Sys} (hr : Reach store paths s) {j l : Nat}
    (hrun : StepsWhile (fun t => j ∈ t.readers l) s s') : abs s' l = abs s l :=
  Rtr.Locks.read_section_snapshot (inv_reach hg hr) hrun

/-
  FULL STATEMENT (guarded_serialisable), not proved:
    every interleaving of guarded threads is equivalent (same per-thread observations, same final
    store) to one in which the critical sections run one after the other, atomically, in the
    order of their lock acquisitions; hence every API call whose accesses lie in one critical
    section takes effect atomically at its acquisition, an instant between call and return.
  What is proved instead (`reads_linearizable_partial`): the reader half, stated directly on the
  interleaving semantics — every value read inside a read critical section on table `l` is the
  value of the single abstract table state that was current when the section began, and that
  state can only have been produced by complete write critical sections (no thread holds the
  write lock while a reader holds the read lock).  Missing for the full statement:
    (a) the commutation argument that reorders independent steps of different threads (a
        reduction proof over `Steps`);
    (b) the composition with the sequential correctness of each function ("its result is the
        answer for the snapshot it read"), which is the single-threaded correspondence of
        C01/C02/C10, not a concurrency fact;
    (c) writers with several critical sections per call (`pfx_table_src_remove` takes the lock
        once per address family) are atomic per section, not per call.
-/
theorem reads_linearizable_partial {σ : Nat → Bool} {store : Loc → Nat} {paths : Nat → List Ev}
    (hg : ∀ i, Guarded (σ i) (paths i)) {s s' : Sys} (hr : Reach store paths s) {j l : Nat}
    (hrun : StepsWhile (fun t => j ∈ t.readers l) s s') :
    -- (1) no writer inside the section, at its begin or at any later point of it
    (j ∈ s'.readers l → s'.writer l = none) ∧
    -- (2) the table's abstract value is still the one of the section's begin
    abs s' l = abs s l ∧
    -- (3) whatever any thread reads from table `l` now is that snapshot's value
    (∀ k x v, x.tbl = l → observes s' k = some (x, v) → v = abs s l x.part) := by
  have hI := inv_reach hg hr
  refine ⟨?_, Rtr.Locks.read_section_snapshot hI hrun, ?_⟩
  · intro hj
    have hI' := inv_steps hI hrun.steps
    cases hw : s'.writer l with
    | none => rfl
    | some k => have := hI'.excl l k hw; rw [this] at hj; simp at hj
  · intro k x v hx hobs
    exact read_observes_snapshot hI hrun hx hobs

/-! ## Generated obligations (re-checked on every run) -/

/-- API functions that are correct only in the single-writer regime: they read table state
    without the lock.  `spki_table_notify_diff` walks `new_table->list` and `old_table->list`
    unlocked; it is run by the synchronising thread only. -/
def singleWriterOnly : List Nat := [f_spki_table_notify_diff]

/-- Every public table function of the current source, except the single-writer ones, has all
    its accesses guarded on every path, acquires no lock twice, releases only what it holds and
    returns with no lock held.  A moved access or a missing unlock makes this `decide` fail. -/
theorem api_wellLocked : ∀ f ∈ publicFns, f ∉ singleWriterOnly → wellLocked true fns f = true := by
  decide

/-- Every public table function, including the single-writer ones, performs all its *writes*
    under the write lock and is lock-balanced. -/
theorem api_writes_guarded : ∀ f ∈ publicFns, wellLocked false fns f = true := by
  decide

/-- the read API -/
def readerApi : List Nat :=
  [f_pfx_table_validate_r, f_pfx_table_validate, f_pfx_table_for_each_ipv4_record,
   f_pfx_table_for_each_ipv6_record, f_spki_table_get_all, f_spki_table_search_by_ski]

def bodyOf (f : Nat) : Prog := (fns[f]?.map (·.body)).getD (.act (.unknown 0))

/-- a reader call takes a lock at most once: all its reads lie in one critical section, i.e. it
    observes a single snapshot (`read_section_snapshot`) -/
theorem readers_single_section : ∀ f ∈ readerApi, acqBound anyAcq fns fuel (bodyOf f) = some 1 := by
  decide

/-- the single-record update API: each call decides (duplicate? present?) and acts on what it found -/
def recordWriterApi : List Nat :=
  [f_pfx_table_add, f_pfx_table_remove, f_spki_table_add_entry, f_spki_table_remove_entry]

/-- a single-record update takes a lock at most once: its test (is the record there?) and its effect lie in ONE
    critical section, so no other writer can change the table between the two.  This is what makes the sequential
    set semantics of add / remove (C02, C10) and the exactness of the callback log (C09) carry over to several
    writer threads (one per cache); a call that looks under one lock acquisition and updates under another
    passes `api_wellLocked` (every access is guarded) and still loses updates or reports a change twice. -/
theorem record_writers_single_section : ∀ f ∈ recordWriterApi, acqBound anyAcq fns fuel (bodyOf f) = some 1 := by
  decide

/-- a reader call never takes a write lock (hence never writes, by `api_wellLocked`) -/
theorem readers_never_write : ∀ f ∈ readerApi, acqBound anyW fns fuel (bodyOf f) = some 0 := by
  decide

/-! ## The system of the property: one writer thread, any number of reader threads -/

/-- table ids of the system: 0 = the prefix table, 1 = the router-key table -/
def call1 (f : Nat) (t : Nat) : Prog := .act (.call f [t] [] 0)

/-- a reader thread: any sequence of validate / enumerate / key look-ups -/
def readerProg : Prog :=
  .loop (.alt (call1 f_pfx_table_validate_r 0) (.alt (call1 f_pfx_table_validate 0)
        (.alt (call1 f_pfx_table_for_each_ipv4_record 0) (.alt (call1 f_pfx_table_for_each_ipv6_record 0)
        (.alt (call1 f_spki_table_get_all 1) (call1 f_spki_table_search_by_ski 1))))))

/-- the writer thread: any sequence of additions and removals on both tables -/
def writerProg : Prog :=
  .loop (.alt (call1 f_pfx_table_add 0) (.alt (call1 f_pfx_table_remove 0)
        (.alt (call1 f_pfx_table_src_remove 0) (.alt (call1 f_spki_table_add_entry 1)
        (.alt (call1 f_spki_table_remove_entry 1) (call1 f_spki_table_src_remove 1))))))

/-- `π` is the event sequence of a complete run of `p` (a thread that has not finished is
    simply not scheduled to the end: `Reach` contains every intermediate state) -/
def Runs (p : Prog) (π : List Ev) : Prop := ∃ o, Exec fns p π o ∧ o ≠ .brk

theorem readerProg_wellLocked : wellLockedProg true fns readerProg = true := by decide
theorem writerProg_wellLocked : wellLockedProg true fns writerProg = true := by decide

theorem Runs.guarded {p : Prog} (hw : wellLockedProg true fns p = true) {π : List Ev} (h : Runs p π) :
    Guarded true π := by
  obtain ⟨o, hx, ho⟩ := h
  exact (Rtr.Locks.wellLockedProg_sound hw hx ho).guarded

/-- the threads of the system: thread 0 is the writer, every other thread a reader (a thread
    that does nothing runs the empty path, which is a run of `readerProg`) -/
def ApiSystem (paths : Nat → List Ev) : Prop :=
  Runs writerProg (paths 0) ∧ ∀ i, i ≠ 0 → Runs readerProg (paths i)

theorem ApiSystem.guarded {paths : Nat → List Ev} (h : ApiSystem paths) : ∀ i, Guarded true (paths i) := by
  intro i
  by_cases hi : i = 0
  · subst hi; exact Runs.guarded writerProg_wellLocked h.1
  · exact Runs.guarded readerProg_wellLocked (h.2 i hi)

/-- **No execution contains a data race on table state**: for the functions of the current
    source, any number of reader threads, any operation sequence of the writer, any
    interleaving. -/
theorem api_no_race {store : Loc → Nat} {paths : Nat → List Ev} (h : ApiSystem paths)
    {s : Sys} (hr : Reach store paths s) : ¬ Race s :=
  guarded_no_race h.guarded hr

/-- **Every read sees the table contents of one instant between call and return**: while a
    reader is inside its (single, `readers_single_section`) read critical section the table's
    abstract value stays the one of the section's begin, no writer is inside, and every value
    read is that snapshot's. -/
theorem api_reads_snapshot {store : Loc → Nat} {paths : Nat → List Ev} (h : ApiSystem paths)
    {s s' : Sys} (hr : Reach store paths s) {j l : Nat}
    (hrun : StepsWhile (fun t => j ∈ t.readers l) s s') :
    (j ∈ s'.readers l → s'.writer l = none) ∧ abs s' l = abs s l ∧
    (∀ k x v, x.tbl = l → observes s' k = some (x, v) → v = abs s l x.part) :=
  reads_linearizable_partial (σ := fun _ => true) h.guarded hr hrun

/-! ## Non-vacuity -/

/-- all resolutions of the first `n` branch points -/
def choiceSeqs : Nat → List (List Bool)
  | 0 => [[]]
  | n + 1 => (choiceSeqs n).flatMap fun cs => [true :: cs, false :: cs]

/-- does some resolution of the first `n` branch points give a complete run whose events satisfy `good`?
    (a search instead of a hard-wired branch list: the generated IR changes shape with every refactoring of the C code) -/
def hasRun (p : Prog) (n : Nat) (good : List Ev → Bool) : Bool :=
  (choiceSeqs n).any fun cs =>
    match runPath fns 200 p cs with
    | some (π, .norm, _) => good π
    | _ => false

theorem hasRun_sound {p : Prog} {n : Nat} {good : List Ev → Bool} (h : hasRun p n good = true) :
    ∃ π, Runs p π ∧ good π = true := by
  unfold hasRun at h
  obtain ⟨cs, _, hc⟩ := List.any_eq_true.1 h
  split at hc
  · rename_i π _ heq
    exact ⟨π, ⟨.norm, runPath_sound 200 p cs π .norm _ heq, by decide⟩, hc⟩
  · exact absurd hc (by decide)

/-- a concrete run of the reader program through the generated IR: it starts by taking a read lock, reads
    trie nodes inside the read section and ends by releasing the lock -/
example : ∃ π, Runs readerProg π ∧ π.head? = some (.acq .R 0) ∧ Ev.rd ⟨0, .nodes⟩ ∈ π ∧ π.getLast? = some (.rel 0) := by
  obtain ⟨π, h1, h2⟩ := hasRun_sound (p := readerProg) (n := 10)
    (good := fun π => decide (π.head? = some (.acq .R 0) ∧ Ev.rd ⟨0, .nodes⟩ ∈ π ∧ π.getLast? = some (.rel 0))) (by decide +kernel)
  exact ⟨π, h1, of_decide_eq_true h2⟩

/-- a concrete run of the writer program: some path of `pfx_table_add` assigns the IPv4 root -/
example : ∃ π, Runs writerProg π ∧ Ev.wr ⟨0, .ipv4⟩ 0 ∈ π := by
  obtain ⟨π, h1, h2⟩ := hasRun_sound (p := writerProg) (n := 9) (good := fun π => decide (Ev.wr ⟨0, .ipv4⟩ 0 ∈ π)) (by decide +kernel)
  exact ⟨π, h1, of_decide_eq_true h2⟩

/-- hypotheses of `guarded_no_race` are satisfiable with real contention: a writer and a reader
    on the same location; the reader gets in first, the writer is then blocked (not racing) -/
example : ∃ (paths : Nat → List Ev) (s : Sys),
    (∀ i, Guarded true (paths i)) ∧ Reach (fun _ => 0) paths s ∧ 1 ∈ s.readers 0 ∧
    next s 0 = some (.acq .W 0) ∧ fire s 0 = none := by
  let paths : Nat → List Ev := fun i =>
    if i = 0 then [.acq .W 0, .wr ⟨0, .ipv4⟩ 7, .rel 0]
    else if i = 1 then [.acq .R 0, .rd ⟨0, .ipv4⟩, .rel 0] else []
  refine ⟨paths, apply (init (fun _ => 0) paths) 1 (.acq .R 0) [.rd ⟨0, .ipv4⟩, .rel 0], ?_, ?_, ?_, ?_, ?_⟩
  · intro i
    by_cases h0 : i = 0
    · subst h0; simp [paths, Guarded, runHeld, okEv, updHeld, holds, holdsW]
    · by_cases h1 : i = 1
      · subst h1; simp [paths, Guarded, runHeld, okEv, updHeld, holds]
      · simp [paths, h0, h1, Guarded, runHeld]
  · exact .tail (.refl _) ⟨1, rfl⟩
  · simp [apply, upd, init]
  · rfl
  · rfl

end Rtr.C16
