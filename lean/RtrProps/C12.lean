/-
  C12 — Generated BGPsec signatures verify under an independent RFC 8205 implementation.

  The theorems cover the layout of what `rtr_bgpsec_generate_signature` hashes, its error-code
  order, and the decision logic showing that paths built hop by hop from generated signatures
  validate.  ECDSA / SHA-256 / DER are the uninterpreted `sign`, `verify`, `hash` (OpenSSL in the
  implementation; interoperability is what the harness checks with real keys).
-/
import RtrProofs.BgpsecSign

namespace Rtr.C12
open Rtr.Bgpsec Rtr.Rfc8205

/-- **Layout.** For every number of segments, all signature lengths and all NLRI lengths, the bytes
    `align_byte_sequence(SIGNING)` writes are the RFC 8205 §4.2 sequence (Target AS; for each
    earlier hop its Signature Segment followed by the Secure_Path Segment of the next hop; the
    origin's Secure_Path Segment; suite, AFI, SAFI, NLRI).  `d.path` already holds the signer's own
    segment, so it has one more element than `d.sigs`. -/
theorem sign_digest_eq_rfc (d : Data) (h : d.path.length = d.sigs.length + 1) :
    alignBytes .signing d = signDigest d :=
  alignBytes_signing d h

/-- `req_stream_size(SIGNING)` is exactly the number of bytes written -/
theorem sign_stream_size (d : Data) (h : d.path.length = d.sigs.length + 1)
    (hn : d.nlri.bytes.length = nlriB d.nlri.len) (hski : ∀ s ∈ d.sigs, s.ski.length = 20) :
    (alignBytes .signing d).length = reqStreamSize .signing d :=
  alignBytes_length .signing d hn hski (by simp [startSigs]; omega)

section
variable {H SK : Type} (hash : List Nat → H) (loadKey : List Nat → Option SK) (sign : SK → H → List Nat)

/-- when all checks pass, the generated signature is `ECDSA_sign` over the hash of the RFC sequence -/
theorem generate_signs_rfc_digest (d : Data) (key : List Nat) (sk : SK)
    (hp : d.path.length = d.sigs.length + 1) (halg : d.alg = 1) (hafi : d.nlri.afi = 1 ∨ d.nlri.afi = 2)
    (hk : loadKey key = some sk) (hs : 1 ≤ (sign sk (hash (signDigest d))).length) :
    generateSignature hash loadKey sign (some d) (some key) true = (.success, some (sign sk (hash (signDigest d)))) :=
  generateSignature_success hash loadKey sign d key sk hp halg hafi hk hs

/-! ### error codes of `rtr_bgpsec_generate_signature`, in the order they are checked -/

theorem sign_err_null (d : Option Data) (key : Option (List Nat)) (o : Bool) (h : d = none ∨ key = none) :
    (generateSignature hash loadKey sign d key o).1 = .invalidArguments := by
  rcases h with rfl | rfl
  · rfl
  · cases d <;> rfl

/-- `!data->nlri` (repaired argument check) -/
theorem sign_err_null_nlri (d : Option Data) (key : Option (List Nat)) (o : Bool) :
    generateEntry hash loadKey sign d true key o = (.invalidArguments, none) := rfl

/-- `!data->path || *new_signature != NULL` -/
theorem sign_err_arguments (d : Data) (key : List Nat) (o : Bool) (h : d.path = [] ∨ o = false) :
    (generateSignature hash loadKey sign (some d) (some key) o).1 = .invalidArguments := by
  simp only [generateSignature]; rw [if_pos h]

theorem sign_err_suite (d : Data) (key : List Nat) (h0 : d.path ≠ []) (h : d.alg ≠ 1) :
    (generateSignature hash loadKey sign (some d) (some key) true).1 = .unsupportedAlgorithmSuite := by
  simp only [generateSignature]; rw [if_neg (by simp [h0]), if_pos h]

theorem sign_err_afi (d : Data) (key : List Nat) (h0 : d.path ≠ []) (h1 : d.alg = 1)
    (h : d.nlri.afi ≠ 1 ∧ d.nlri.afi ≠ 2) :
    (generateSignature hash loadKey sign (some d) (some key) true).1 = .unsupportedAfi := by
  simp only [generateSignature]; rw [if_neg (by simp [h0]), if_neg (by omega), if_pos h]

theorem sign_err_segment_count (d : Data) (key : List Nat) (h0 : d.path ≠ []) (h1 : d.alg = 1)
    (h2 : d.nlri.afi = 1 ∨ d.nlri.afi = 2) (h : d.path.length ≠ d.sigs.length + 1) :
    (generateSignature hash loadKey sign (some d) (some key) true).1 = .wrongSegmentCount := by
  simp only [generateSignature]; rw [if_neg (by simp [h0]), if_neg (by omega), if_neg (by omega), if_pos h]

/-- unloadable private key (`d2i_ECPrivateKey` / `EC_KEY_check_key` / `ECDSA_size = 0`) -/
theorem sign_err_key (d : Data) (key : List Nat) (h0 : d.path ≠ []) (h1 : d.alg = 1)
    (h2 : d.nlri.afi = 1 ∨ d.nlri.afi = 2) (h3 : d.path.length = d.sigs.length + 1) (h : loadKey key = none) :
    (generateSignature hash loadKey sign (some d) (some key) true).1 = .loadPrivKeyError := by
  simp only [generateSignature]
  rw [if_neg (by simp [h0]), if_neg (by omega), if_neg (by omega), if_neg (by omega)]
  simp only [h]

/-- a signature is returned only together with `SUCCESS` -/
theorem sign_no_output_on_error (d : Option Data) (key : Option (List Nat)) (o : Bool)
    (h : (generateSignature hash loadKey sign d key o).1 ≠ .success) :
    (generateSignature hash loadKey sign d key o).2 = none := by
  cases d with
  | none => rfl
  | some d =>
    cases key with
    | none => rfl
    | some key =>
      simp only [generateSignature] at h ⊢
      by_cases h1 : d.path = [] ∨ o = false
      · rw [if_pos h1]
      rw [if_neg h1] at h ⊢
      by_cases h2 : d.alg ≠ 1
      · rw [if_pos h2]
      rw [if_neg h2] at h ⊢
      by_cases h3 : d.nlri.afi ≠ 1 ∧ d.nlri.afi ≠ 2
      · rw [if_pos h3]
      rw [if_neg h3] at h ⊢
      by_cases h4 : d.path.length ≠ d.sigs.length + 1
      · rw [if_pos h4]
      rw [if_neg h4] at h ⊢
      cases hk : loadKey key with
      | none => rfl
      | some sk =>
        simp only [hk] at h ⊢
        by_cases hl : (sign sk (hash (alignBytes .signing d))).length < 1
        · rw [if_pos hl]
        · rw [if_neg hl] at h; exact absurd rfl h

end

/-- the Signature Segment handed out with SUCCESS holds what `ECDSA_sign` produced over the RFC sequence:
    if `ECDSA_sign` yields well-formed (strict DER) ECDSA-Sig-Values, so does `rtr_bgpsec_generate_signature`;
    and the answer is a function of the call's arguments only (the model has no state: history-independence
    of the implementation is what the correspondence over repeated-input histories establishes). -/
theorem generate_wellformed {H SK : Type} (hash : List Nat → H) (loadKey : List Nat → Option SK) (sign : SK → H → List Nat)
    (wf : List Nat → Bool) (hwf : ∀ sk h, wf (sign sk h) = true)
    (d : Option Data) (key : Option (List Nat)) (o : Bool) (sig : List Nat)
    (h : (generateSignature hash loadKey sign d key o).2 = some sig) : wf sig = true ∧ 1 ≤ sig.length := by
  cases d with
  | none => simp [generateSignature] at h
  | some d =>
    cases key with
    | none => simp [generateSignature] at h
    | some key =>
      simp only [generateSignature] at h
      split at h
      · simp at h
      split at h
      · simp at h
      split at h
      · simp at h
      split at h
      · simp at h
      split at h
      · simp at h
      · split at h
        · simp at h
        · simp only [Option.some.injEq] at h
          subst h
          exact ⟨hwf _ _, by omega⟩

/-! ### paths built hop by hop validate -/

section
variable {H SK : Type} (hash : List Nat → H) (verify : List Nat → H → List Nat → VRes) (sign : SK → H → List Nat)

theorem chained_tail {h : Signer SK × Nat} {t : List (Signer SK × Nat)} (hc : Chained (h :: t)) : Chained t := by
  cases t with
  | nil => trivial
  | cons y ys => obtain ⟨h1, h2⟩ := h; obtain ⟨y1, y2⟩ := y; exact hc.2

theorem chained_drop : ∀ (k : Nat) (hops : List (Signer SK × Nat)), Chained hops → Chained (hops.drop k)
  | 0, _, h => by simpa using h
  | _ + 1, [], _ => by simp [Chained]
  | k + 1, _ :: t, h => by simpa using chained_drop k t (chained_tail h)

/-- **Hop by hop.**  Let a route be originated and then propagated by the speakers `hops` (most recent
    first; each one is the AS its predecessor sent the UPDATE to, and signs with `sign` over the hash
    of rtrlib's SIGNING alignment, i.e. what `rtr_bgpsec_generate_signature` computes).  If every
    speaker's public key is in the table under its SKI — for `m = skiOnly` (the current tree) under
    ANY AS number, for `m = skiAndAs` under the speaker's AS number — possibly next to other keys with
    the same SKI, and `verify pk (hash m) (sign sk (hash m)) = valid` for each pair, then validation
    answers VALID at every stage of the construction (after the origin, after the second hop, …).
    `stop`/`hsig`: for the current loop (`stop = false`) generated signatures must be long enough for
    `NoOverrun` (ECDSA P-256: 8 … 72 octets; the NLRI has at most 16 octets for `nlri_len ≤ 128`);
    the repaired loop (`stop = true`) needs nothing. -/
theorem hop_by_hop_valid (m : KeyMode) (stop : Bool) (T : Table) (base : Data) (hops : List (Signer SK × Nat))
    (halg : base.alg = 1) (hafi : base.nlri.afi = 1 ∨ base.nlri.afi = 2)
    (hch : Chained hops) (hski : ∀ h ∈ hops, h.1.ski.length = 20)
    (hreg : ∀ h ∈ hops, Registered m T h.1 ∧ KeyPair verify sign h.1)
    (hsig : stop = true ∨ ∀ sk h, base.nlri.bytes.length < 13 + (sign sk h).length)
    (k : Nat) (hk : k < hops.length) :
    validate hash verify m stop (buildPath hash sign base (hops.drop k)) T = .valid := by
  have hsub : ∀ h ∈ hops.drop k, h ∈ hops := fun h hh => List.mem_of_mem_drop hh
  have hlen := buildPath_lengths hash sign base (hops.drop k)
  have hfld := buildPath_fields hash sign base (hops.drop k)
  have hdl : (hops.drop k).length ≠ 0 := by simp only [List.length_drop]; omega
  rw [validate_iff_allOk hash verify m stop T _ (buildPath_skis hash sign base _ (fun h hh => hski h (hsub h hh)))]
  · refine ⟨⟨?_, ?_, by omega, by rw [hfld.1]; exact halg, by rw [hfld.2]; exact hafi⟩, ?_⟩
    · intro h; rw [h] at hlen; simp at hlen; omega
    · intro h; rw [h] at hlen; simp at hlen; omega
    · exact buildPath_allOk hash verify sign m T base _ (chained_drop k hops hch) (fun h hh => hreg h (hsub h hh))
  · rcases hsig with hs | hsig
    · exact Or.inl hs
    · refine Or.inr ?_
      intro s hs
      obtain ⟨sk, h, e⟩ := buildPath_last_sig hash sign base _ s hs
      rw [hfld.2, e]; exact hsig sk h


/-- **Hop by hop, with the strict-DER requirement of `validate_signature`.**  If in addition every signature
    `sign` produces is a well-formed (strict DER) ECDSA-Sig-Value (`wf`), the paths built hop by hop are VALID
    for the complete validation function `validateFull` (which answers ERROR for any signature field that is
    not strict DER). -/
theorem hop_by_hop_valid_wf (wf : List Nat → Bool) (m : KeyMode) (stop : Bool) (T : Table) (base : Data)
    (hops : List (Signer SK × Nat))
    (halg : base.alg = 1) (hafi : base.nlri.afi = 1 ∨ base.nlri.afi = 2)
    (hch : Chained hops) (hski : ∀ h ∈ hops, h.1.ski.length = 20)
    (hreg : ∀ h ∈ hops, Registered m T h.1 ∧ KeyPair verify sign h.1)
    (hwf : ∀ sk h, wf (sign sk h) = true)
    (hsig : stop = true ∨ ∀ sk h, base.nlri.bytes.length < 13 + (sign sk h).length)
    (k : Nat) (hk : k < hops.length) :
    validateFull hash verify wf m stop (buildPath hash sign base (hops.drop k)) (fun _ => T) = .valid := by
  have := hop_by_hop_valid hash (validateSignature wf verify) sign m stop T base hops halg hafi hch hski
    (fun h hh => ⟨(hreg h hh).1, fun x => by
      rw [validateSignature_valid_iff]; exact ⟨hwf _ _, (hreg h hh).2 x⟩⟩) hsig k hk
  exact this

end

/-! ### non-vacuity (toy crypto: signature = key ++ hashed octets) -/

def toyHash (m : List Nat) : List Nat := m
def toyVerify (spki : List Nat) (h : List Nat) (sig : List Nat) : VRes := if sig = spki ++ h then .valid else .notValid
def toySign (sk : List Nat) (h : List Nat) : List Nat := sk ++ h
def toyLoad (k : List Nat) : Option (List Nat) := if k.length = 3 then some (k.take 1) else none

def base : Data := { alg := 1, afi := 2, safi := 1, targetAs := 0, nlri := ⟨2, 33, [32, 1, 13, 184, 128]⟩, path := [], sigs := [] }
def origin : Signer (List Nat) := ⟨⟨1, 0, 64496⟩, List.replicate 20 2, [22], [22]⟩
def transit : Signer (List Nat) := ⟨⟨2, 128, 65536⟩, List.replicate 20 1, [11], [11]⟩
def hops : List (Signer (List Nat) × Nat) := [(transit, 65537), (origin, 65536)]
/-- keys filed under AS numbers that are NOT the speakers', plus a second key with the origin's SKI -/
def table : Table := [⟨7, List.replicate 20 2, [99]⟩, ⟨8, List.replicate 20 2, [22]⟩, ⟨9, List.replicate 20 1, [11]⟩]
def tableAs : Table := [⟨64496, List.replicate 20 2, [99]⟩, ⟨64496, List.replicate 20 2, [22]⟩, ⟨65536, List.replicate 20 1, [11]⟩]

example : Chained hops := ⟨rfl, trivial⟩
example : validate toyHash toyVerify .skiOnly false (buildPath toyHash toySign base hops) table = .valid := by decide
example : validate toyHash toyVerify .skiOnly false (buildPath toyHash toySign base (hops.drop 1)) table = .valid := by decide
example : validate toyHash toyVerify .skiAndAs true (buildPath toyHash toySign base hops) tableAs = .valid := by decide
example : validate toyHash toyVerify .skiAndAs true (buildPath toyHash toySign base hops) table = .routerKeyNotFound := by decide
-- hop_by_hop_valid_wf: with the strict-DER requirement switched on (toy: well-formed = at most 200 octets) the built path is
-- VALID, and the same path is an ERROR for a `wf` that refuses the generated signatures
example : validateFull toyHash toyVerify (fun s => s.length ≤ 200) .skiAndAs true (buildPath toyHash toySign base hops) (fun _ => tableAs) = .valid := by decide
example : validateFull toyHash toyVerify (fun s => s.length ≤ 5) .skiAndAs true (buildPath toyHash toySign base hops) (fun _ => tableAs) = .error := by decide
-- sign_digest_eq_rfc on a forwarding step (one earlier signature, IPv6 /33)
example :
    let d := { buildPath toyHash toySign base (hops.drop 1) with path := transit.seg :: (buildPath toyHash toySign base (hops.drop 1)).path, targetAs := 65537 }
    d.path.length = d.sigs.length + 1 ∧ alignBytes .signing d = signDigest d ∧ (alignBytes .signing d).length = 4 + (20 + 2 + 21) + 6 + 6 + 10 := by decide
-- generate: success and each error code is reached
example : (generateSignature toyHash toyLoad toySign (some { base with path := [origin.seg] }) (some [5, 6, 7]) true).1 = .success := by decide
example : (generateSignature toyHash toyLoad toySign (some { base with path := [origin.seg] }) (some [1, 2]) true).1 = .loadPrivKeyError := by decide
example : (generateSignature toyHash toyLoad toySign (some base) (some [1, 2]) true).1 = .invalidArguments := by decide
example : (generateSignature toyHash toyLoad toySign (some { base with path := [origin.seg, origin.seg] }) (some [1, 2]) true).1 = .wrongSegmentCount := by decide

end Rtr.C12
