/-
  C06 — A full reload replaces a cache's data atomically for concurrent readers.

  Model: the synchronising thread runs `reloadProg`, the sequence of table calls of
  `rtr_sync_receive_and_store_pdus` in reset mode, over the lock IR extracted from the current
  source: copy of the live tables into thread-private shadow tables (reads of the live table
  under its read lock), filling of the shadows, then — on success — `rtr_swap_tables` (ONE
  critical section: write lock of the live prefix table, then of the live router-key table, both
  swaps inside, release in reverse order), the two `notify_diff`s; on failure nothing touches the
  live tables.  Reader threads run any sequence of validate / enumerate / key look-ups on the
  live tables.

  Theorems, per table `L` ∈ {live prefix table, live router-key table}:
    `reload_two_states`   every reader critical section on `L` observes `abs L = old` or
                          `abs L = new`, decided by whether the single swap section is still ahead;
    `reload_monotone`     once the swap is over it stays over: never new and afterwards old;
    `stable_answers`      a query whose answer is the same for old and new gets that answer;
    `reload_no_race`      no data race between the reload and the readers.
  Theorems across the two tables (the data set = prefixes AND router keys):
    `cross_table_atomic`      in every reachable state in which the synchronising thread does not
                              hold the prefix table's write lock, both swaps are still ahead or
                              both are done;
    `cross_table_two_states`  outside the combined section the PAIR of tables is (old, old) or
                              (new, new) — never new prefixes with old keys or the reverse;
    `never_new_pfx_then_old_keys`, `never_new_keys_then_old_pfx`
                              a reader that has seen new data in one table never afterwards sees old
                              data in the other;
    `stable_pair_answers`     a query over both tables whose answer is the same under the complete
                              old and the complete new data set gets that answer.
  Generated obligations re-checked each run: the call sequence in packets.c is the modelled one
  (`reload_sequence`); the reload is write-guarded and balanced; it write-locks each live table
  at most once (`reload_single_swap_*`); on EVERY path of the reload the write section of the
  prefix table contains the write acquisition of the router-key table, and the router-key table
  is write-acquired nowhere else (`swap_section_combined`: the automaton `pairδ` accepts every
  path); `rtr_swap_tables` holds BOTH live write locks at every write and assigns all four
  roots / both containers of both tables (`swap_atomic_both`, `swap_writes_both`); the lock-free
  workers `*_swap_locked` are called from translated code only (`unlocked_writers_translated`).

  History: until the repair (known finding "C06/cross-table", now under "fixed") the reload
  called `pfx_table_swap` and `spki_table_swap` one after the other — two critical sections —
  and this file proved the gap (`cross_table_gap`, kept below as a comment).
  Not modelled: the purge path after a failed undo (`rtr_purge_records_after_failed_undo` removes
  this cache's records from the live tables, C03's concern), two concurrently synchronising
  sockets (not quantified by the property).
-/
import RtrProofs.Locks
import RtrProofs.LocksChecker
import RtrProofs.LocksReload
import RtrProofs.LocksPair
import RtrModel.Generated.Locks

namespace Rtr.C06
open Rtr.Locks Rtr.Generated.Locks

/-! ## The reload system -/

/-- table ids -/
def livePfx : Nat := 0
def shadowPfx : Nat := 1
def liveSpki : Nat := 2
def shadowSpki : Nat := 3

def call1 (f : Nat) (t : Nat) : Prog := .act (.call f [t] [] 0)
def call2 (f : Nat) (a b : Nat) : Prog := .act (.call f [a, b] [] 0)

/-- the table ids behind the class names the translator gives to the arguments of a call in
    `rtr_sync_receive_and_store_pdus` -/
def tblId : String → Nat
  | "live_pfx" => livePfx
  | "shadow_pfx" => shadowPfx
  | "live_spki" => liveSpki
  | "shadow_spki" => shadowSpki
  | _ => 99

/-- actual tables of `rtr_swap_tables` at its call in the reload, in the order of its IR table list
    (whatever its C signature is: socket + shadows, or four tables) -/
def swapTables : List Nat := ((reloadIrCalls.lookup "rtr_swap_tables").getD []).map tblId

/-- the combined swap: `rtr_swap_tables(rtr_socket, pfx_shadow_table, spki_shadow_table)` -/
def swapCall : Prog := .act (.call f_rtr_swap_tables swapTables [] 0)

/-- what `rtr_sync_receive_and_store_pdus` does to the tables when `is_resetting` -/
def reloadProg : Prog := Prog.ofList [
  call2 f_pfx_table_copy_except_socket livePfx shadowPfx,
  .alt .ret .skip,                                                      -- copy failed: shadow discarded
  call2 f_spki_table_copy_except_socket liveSpki shadowSpki,
  .alt .ret .skip,
  .loop (.alt (call1 f_pfx_table_add shadowPfx) (call1 f_pfx_table_remove shadowPfx)),        -- rtr_update_pfx_table / undo
  .loop (.alt (call1 f_spki_table_add_entry shadowSpki) (call1 f_spki_table_remove_entry shadowSpki)),
  .alt .ret .skip,                                                      -- an update failed: shadow discarded
  swapCall,
  .alt (call2 f_pfx_table_notify_diff livePfx shadowPfx) .skip,
  .alt (call2 f_spki_table_notify_diff liveSpki shadowSpki) .skip
]

/-- a reader thread on the live tables -/
def readerProg : Prog :=
  .loop (.alt (call1 f_pfx_table_validate_r livePfx) (.alt (call1 f_pfx_table_validate livePfx)
        (.alt (call1 f_pfx_table_for_each_ipv4_record livePfx) (.alt (call1 f_pfx_table_for_each_ipv6_record livePfx)
        (.alt (call1 f_spki_table_get_all liveSpki) (call1 f_spki_table_search_by_ski liveSpki))))))

def Runs (p : Prog) (π : List Ev) : Prop := ∃ o, Exec fns p π o ∧ o ≠ .brk

/-- thread 0 synchronises, every other thread reads (or idles) -/
def ReloadSystem (paths : Nat → List Ev) : Prop :=
  Runs reloadProg (paths 0) ∧ ∀ i, i ≠ 0 → Runs readerProg (paths i)

/-! ## Generated obligations -/

/-- the table calls of `rtr_sync_receive_and_store_pdus` that name a LIVE table, in source order, are the modelled ones
    (calls on the update / shadow tables may be regrouped freely by refactorings):
    in reset mode `update` = `shadow`; the only calls that touch a live table are the two copies
    (read side), the combined swap, the two notify_diffs (read side) — and the purge path
    (`rtr_purge_records_after_failed_undo`: src_remove on both live tables when an undo step of a
    rejected update fails; no swap follows), which is outside this model: it is the failure
    handling judged by C03, and it leaves a third state (this cache's records removed). -/
theorem reload_sequence : reloadCalls.filter (fun c => c.2.contains "live") = [
    ("pfx_table_copy_except_socket", ["live", "update"]),
    ("spki_table_copy_except_socket", ["live", "update"]),
    ("rtr_swap_tables", ["live", "shadow"]),
    ("pfx_table_notify_diff", ["live", "shadow"]),
    ("spki_table_notify_diff", ["live", "shadow"])] ∧
    reloadCalls.any (fun c => c.1 == "rtr_purge_records_after_failed_undo") = true ∧
    -- the one lock-taking function of packets.c, called once, with exactly the four tables of the model
    reloadFns = [f_rtr_swap_tables] ∧ reloadIrCalls.length = 1 ∧
    (fns[f_rtr_swap_tables]?.map (·.ntbl)) = some 4 ∧ swapTables.length = 4 ∧
    (∀ t ∈ [livePfx, shadowPfx, liveSpki, shadowSpki], t ∈ swapTables) := by decide

/-- the lock-free workers (`pfx_table_swap_locked`, `spki_table_swap_locked`) are exactly these two and are called from
    translated code only: every one of their call sites is a `wr` under the eyes of the checker -/
theorem unlocked_writers_translated :
    unlockedWriters = ["pfx_table_swap_locked", "spki_table_swap_locked"] ∧ unlockedWriterCalls = [] := by decide

/-- all writes of the reload are under the write lock of their table, locks balanced
    (strictness off: `spki_table_notify_diff` reads the lists unlocked, see C16) -/
theorem reload_wellLocked : wellLockedProg false fns reloadProg = true := by decide

theorem readers_wellLocked : wellLockedProg true fns readerProg = true := by decide

/-- the reload write-locks the live prefix table at most once on any path (the swap) … -/
theorem reload_single_swap_pfx : acqBound (selL livePfx) fns fuel reloadProg = some 1 := by decide
/-- … and the live router-key table at most once -/
theorem reload_single_swap_spki : acqBound (selL liveSpki) fns fuel reloadProg = some 1 := by decide

/-- readers never take any write lock -/
theorem readers_never_write : acqBound anyW fns fuel readerProg = some 0 := by decide

def bodyOf (f : Nat) : Prog := (fns[f]?.map (·.body)).getD (.act (.unknown 0))

/- Until the repair of C06/cross-table the reload called the public `pfx_table_swap` / `spki_table_swap`, and this file
   demanded of THEM: both write locks at every root assignment, all four roots / both containers assigned, one section
   (`swap_atomic_pfx`, `swap_writes_pfx`, `swap_atomic_spki`, `swap_sections_spki`).  The reload no longer calls them
   (they remain as lock-taking wrappers of the private table API, judged like every API function by C16); the same
   demands are now made of the code the reload does run: `swap_atomic_both`, `swap_writes_both`, `swap_section_combined`. -/

/-- the body of `rtr_swap_tables` at its call in the reload -/
def swapBody : Prog := (bodyOf f_rtr_swap_tables).inst swapTables []

/-- **the two swaps are ONE critical section**: on every path through the reload, the live router-key table is
    write-acquired only inside a write section of the live prefix table, at most once per section, and no write section
    of the live prefix table ends without it (the automaton `pairδ` accepts every path, see RtrProofs/LocksPair.lean) -/
theorem swap_section_combined : acceptsProg (pairδ livePfx liveSpki) fns reloadProg .out = true := by decide

/-- `rtr_swap_tables` holds the write locks of BOTH live tables at each of its writes (and is well locked as it stands:
    the lock-free workers run under the write locks of all four tables) … -/
theorem swap_atomic_both : wellLockedProg true fns (swapBody.requireAtWrites [livePfx, liveSpki]) = true ∧
    wellLockedProg true fns swapBody = true := by decide
/-- … and assigns the four roots and the two containers of both pairs of tables -/
theorem swap_writes_both :
    ∀ x ∈ ([⟨livePfx, .ipv4⟩, ⟨livePfx, .ipv6⟩, ⟨shadowPfx, .ipv4⟩, ⟨shadowPfx, .ipv6⟩,
            ⟨liveSpki, .hashtable⟩, ⟨liveSpki, .list⟩, ⟨shadowSpki, .hashtable⟩, ⟨shadowSpki, .list⟩] : List Loc),
      x ∈ swapBody.writes := by decide

/-- the obligation discriminates: the same two swaps as two critical sections are rejected … -/
example : acceptsProg (pairδ livePfx liveSpki) fns (Prog.ofList [
    .act (.acq .W livePfx 0), .act (.wr ⟨livePfx, .ipv4⟩ 0), .act (.rel livePfx 0),
    .act (.acq .W liveSpki 0), .act (.wr ⟨liveSpki, .list⟩ 0), .act (.rel liveSpki 0)]) .out = false := by decide
/-- … so is a prefix-table section that never takes the router-key lock, … -/
example : acceptsProg (pairδ livePfx liveSpki) fns (Prog.ofList [
    .act (.acq .W livePfx 0), .act (.wr ⟨livePfx, .ipv4⟩ 0), .act (.rel livePfx 0)]) .out = false := by decide
/-- … and one that takes it on some paths only; the nested section is accepted -/
example : acceptsProg (pairδ livePfx liveSpki) fns (Prog.ofList [
    .act (.acq .W livePfx 0), .alt (Prog.ofList [.act (.acq .W liveSpki 0), .act (.rel liveSpki 0)]) .skip,
    .act (.rel livePfx 0)]) .out = false ∧
  acceptsProg (pairδ livePfx liveSpki) fns (Prog.ofList [
    .act (.acq .W livePfx 0), .act (.acq .W liveSpki 0), .act (.wr ⟨liveSpki, .list⟩ 0), .act (.rel liveSpki 0),
    .act (.rel livePfx 0)]) .out = true := by decide

/-! ## Theorems -/

theorem Runs.balanced {strict : Bool} {p : Prog} (hw : wellLockedProg strict fns p = true) {π : List Ev}
    (h : Runs p π) : Balanced strict π := by
  obtain ⟨o, hx, ho⟩ := h
  exact wellLockedProg_sound hw hx ho

theorem Runs.count {p : Prog} {sel : Mode → Nat → Bool} {b : Nat} (hb : acqBound sel fns fuel p = some b)
    {π : List Ev} (h : Runs p π) : countAcq sel π ≤ b := by
  obtain ⟨o, hx, _⟩ := h
  exact acqBound_sound hx fuel b hb

/-- strictness per thread: the synchronising thread is only write-guarded -/
def σ : Nat → Bool := fun i => decide (i ≠ 0)

theorem ReloadSystem.guarded {paths : Nat → List Ev} (h : ReloadSystem paths) : ∀ i, Guarded (σ i) (paths i) := by
  intro i
  by_cases hi : i = 0
  · subst hi; exact (Runs.balanced reload_wellLocked h.1).guarded
  · have : σ i = true := by simp [σ, hi]
    rw [this]; exact (Runs.balanced readers_wellLocked (h.2 i hi)).guarded

theorem countAcq_le_anyW {L : Nat} (π : List Ev) : countAcq (selL L) π ≤ countAcq anyW π := by
  unfold countAcq
  apply List.countP_mono_left
  intro e _ he
  cases e with
  | acq m l => simp only [isAcq, selL, Bool.and_eq_true] at he; simpa [isAcq, anyW] using he.1
  | rel _ => simp [isAcq] at he
  | rd _ => simp [isAcq] at he
  | wr _ _ => simp [isAcq] at he
  | bad => simp [isAcq] at he

theorem readers_no_acqW {paths : Nat → List Ev} (h : ReloadSystem paths) (j : Nat) (hj : j ≠ 0) :
    countAcq anyW (paths j) = 0 := by
  have := Runs.count readers_never_write (h.2 j hj); omega

/-- the live tables of the theorem -/
def IsLive (L : Nat) : Prop := L = livePfx ∨ L = liveSpki

theorem reload_count {paths : Nat → List Ev} (h : ReloadSystem paths) {L : Nat} (hL : IsLive L) :
    countAcq (selL L) (paths 0) ≤ 1 := by
  rcases hL with rfl | rfl
  · exact Runs.count reload_single_swap_pfx h.1
  · exact Runs.count reload_single_swap_spki h.1

/-- the old contents of table `L` (at the start) and the new contents (old overwritten by the
    writes the synchronising thread performs on `L`, all of them inside the swap) -/
def oldAbs (store : Loc → Nat) (L : Nat) : Part → Nat := fun p => store ⟨L, p⟩
def newAbs (store : Loc → Nat) (paths : Nat → List Ev) (L : Nat) : Part → Nat := applyW L (paths 0) (oldAbs store L)

/-- **reload_two_states.**  In every interleaving, in every state in which some reader `j` holds
    the read lock of a live table `L` (i.e. anywhere inside a reader critical section on `L`):
    the synchronising thread is not inside its swap, and the table's abstract value is the old
    one if the swap is still ahead, the new one if it is over.  Never empty, never half loaded. -/
theorem reload_two_states {store : Loc → Nat} {paths : Nat → List Ev} (h : ReloadSystem paths)
    {L : Nat} (hL : IsLive L) {s : Sys} (hr : Reach store paths s) {j : Nat} (hj : j ∈ s.readers L) :
    (swapPending 0 L s ∧ abs s L = oldAbs store L) ∨ (¬ swapPending 0 L s ∧ abs s L = newAbs store paths L) := by
  have hI := inv_reach h.guarded hr
  have hout : (L, Mode.W) ∉ (s.thr 0).held := reader_excludes_writer hI hj
  have hnone : ∀ j, j ≠ 0 → countAcq (selL L) (paths j) = 0 := by
    intro j hj
    have h1 := countAcq_le_anyW (L := L) (paths j)
    have h2 := readers_no_acqW h j hj
    omega
  exact two_states 0 L h.guarded (reload_count h hL) hnone hr hout

/-- **reload_monotone.**  The swap, once over, stays over — with `reload_two_states`: a reader
    section that saw the new value is never followed by one that sees the old value. -/
theorem reload_monotone {L : Nat} {s s' : Sys} (hs : Steps s s') (hdone : ¬ swapPending 0 L s)
    (hle : countAcq (selL L) (s.thr 0).rest ≤ 1) : ¬ swapPending 0 L s' := by
  unfold swapPending at *
  have := pending_antitone (w := 0) (L := L) hs
  omega

/-- never new and afterwards old -/
theorem never_new_then_old {store : Loc → Nat} {paths : Nat → List Ev} (h : ReloadSystem paths)
    {L : Nat} (hL : IsLive L) {s s' : Sys} (hr : Reach store paths s) (hs : Steps s s')
    {j j' : Nat} (_hj : j ∈ s.readers L) (hj' : j' ∈ s'.readers L)
    (hnew : ¬ swapPending 0 L s) : abs s' L = newAbs store paths L := by
  have hr' : Reach store paths s' := by
    unfold Reach at *
    clear hj' hnew
    induction hs with
    | refl => exact hr
    | tail _ hst ih => exact .tail ih hst
  have hle : countAcq (selL L) (s.thr 0).rest ≤ 1 := by
    have := pending_antitone (w := 0) (L := L) hr
    have h1 := reload_count h hL
    simp only [init] at this
    omega
  rcases reload_two_states h hL hr' hj' with ⟨hp, _⟩ | ⟨_, hn⟩
  · exact absurd hp (reload_monotone hs hnew hle)
  · exact hn

/-- **stable_answers.**  A query whose answer is the same under the old and the new data set
    returns that answer at all times. -/
theorem stable_answers {α : Type} (answer : (Part → Nat) → α)
    {store : Loc → Nat} {paths : Nat → List Ev} (h : ReloadSystem paths)
    {L : Nat} (hL : IsLive L) (hsame : answer (oldAbs store L) = answer (newAbs store paths L))
    {s : Sys} (hr : Reach store paths s) {j : Nat} (hj : j ∈ s.readers L) :
    answer (abs s L) = answer (oldAbs store L) := by
  rcases reload_two_states h hL hr hj with ⟨_, ho⟩ | ⟨_, hn⟩
  · rw [ho]
  · rw [hn, hsame]

/-- no data race between the reload and any number of readers -/
theorem reload_no_race {store : Loc → Nat} {paths : Nat → List Ev} (h : ReloadSystem paths)
    {s : Sys} (hr : Reach store paths s) : ¬ Race s := by
  apply single_writer_no_race 0 _ _ _ hr
  · exact (Runs.balanced reload_wellLocked h.1).guarded
  · intro j hj; exact (Runs.balanced readers_wellLocked (h.2 j hj)).guarded
  · intro j hj; exact readers_no_acqW h j hj

/-! ## Across the two tables -/

theorem livePfx_ne_liveSpki : livePfx ≠ liveSpki := by decide

/-- every path of the synchronising thread is accepted by the automaton of the combined section -/
theorem reload_accepts {paths : Nat → List Ev} (h : ReloadSystem paths) :
    runQ (pairδ livePfx liveSpki) .out (paths 0) = some .out := by
  obtain ⟨o, hx, ho⟩ := h.1
  exact acceptsProg_sound (pairδ_wr livePfx liveSpki) swap_section_combined hx ho

/-- **cross_table_atomic.**  In every interleaving, in every state in which the synchronising thread does not hold the
    write lock of the live prefix table (in particular: whenever it holds no lock, and whenever some reader is inside a
    read section of the prefix table): both swaps are still ahead, or both are done.  There is no state "prefixes
    swapped, router keys not yet" outside the combined section. -/
theorem cross_table_atomic {store : Loc → Nat} {paths : Nat → List Ev} (h : ReloadSystem paths)
    {s : Sys} (hr : Reach store paths s) (hout : (livePfx, Mode.W) ∉ (s.thr 0).held) :
    (swapPending 0 livePfx s ∧ swapPending 0 liveSpki s) ∨ (¬ swapPending 0 livePfx s ∧ ¬ swapPending 0 liveSpki s) := by
  have hiff := pair_pending_iff 0 livePfx liveSpki livePfx_ne_liveSpki (reload_accepts h) hr hout
  by_cases hp : swapPending 0 livePfx s
  · exact Or.inl ⟨hp, hiff.mp hp⟩
  · exact Or.inr ⟨hp, fun hk => hp (hiff.mpr hk)⟩

/-- the form asked for: no lock held ⇒ no state with the prefix swap over and the router-key swap ahead -/
theorem cross_table_no_gap {store : Loc → Nat} {paths : Nat → List Ev} (h : ReloadSystem paths)
    {s : Sys} (hr : Reach store paths s) (hnone : (s.thr 0).held = []) :
    ¬ (¬ swapPending 0 livePfx s ∧ swapPending 0 liveSpki s) ∧ ¬ (swapPending 0 livePfx s ∧ ¬ swapPending 0 liveSpki s) := by
  have hout : (livePfx, Mode.W) ∉ (s.thr 0).held := by rw [hnone]; simp
  rcases cross_table_atomic h hr hout with ⟨hp, hk⟩ | ⟨hp, hk⟩
  · exact ⟨fun hx => hx.1 hp, fun hx => hx.2 hk⟩
  · exact ⟨fun hx => hk hx.2, fun hx => hp hx.1⟩

theorem steps_reach {store : Loc → Nat} {paths : Nat → List Ev} {s s' : Sys} (hr : Reach store paths s) (hs : Steps s s') :
    Reach store paths s' := by
  unfold Reach at *
  induction hs with
  | refl => exact hr
  | tail _ hst ih => exact .tail ih hst

theorem reload_budget {store : Loc → Nat} {paths : Nat → List Ev} (h : ReloadSystem paths) {L : Nat} (hL : IsLive L)
    {s : Sys} (hr : Reach store paths s) : countAcq (selL L) (s.thr 0).rest ≤ 1 := by
  have := pending_antitone (w := 0) (L := L) hr
  have h1 := reload_count h hL
  simp only [init] at this
  omega

/-- **cross_table_two_states.**  Outside the combined section (the synchronising thread holds neither live write lock)
    the PAIR of live tables has one of exactly two values: the complete old data set or the complete new one. -/
theorem cross_table_two_states {store : Loc → Nat} {paths : Nat → List Ev} (h : ReloadSystem paths)
    {s : Sys} (hr : Reach store paths s)
    (hp : (livePfx, Mode.W) ∉ (s.thr 0).held) (hk : (liveSpki, Mode.W) ∉ (s.thr 0).held) :
    (abs s livePfx = oldAbs store livePfx ∧ abs s liveSpki = oldAbs store liveSpki) ∨
    (abs s livePfx = newAbs store paths livePfx ∧ abs s liveSpki = newAbs store paths liveSpki) := by
  have hnone : ∀ L j, j ≠ 0 → countAcq (selL L) (paths j) = 0 := by
    intro L j hj
    have h1 := countAcq_le_anyW (L := L) (paths j)
    have h2 := readers_no_acqW h j hj
    omega
  have tp := two_states 0 livePfx h.guarded (reload_count h (Or.inl rfl)) (hnone livePfx) hr hp
  have tk := two_states 0 liveSpki h.guarded (reload_count h (Or.inr rfl)) (hnone liveSpki) hr hk
  rcases cross_table_atomic h hr hp with ⟨pp, pk⟩ | ⟨np, nk⟩
  · rcases tp with ⟨_, ap⟩ | ⟨n, _⟩
    · rcases tk with ⟨_, ak⟩ | ⟨n, _⟩
      · exact Or.inl ⟨ap, ak⟩
      · exact absurd pk n
    · exact absurd pp n
  · rcases tp with ⟨p, _⟩ | ⟨_, ap⟩
    · exact absurd p np
    · rcases tk with ⟨p, _⟩ | ⟨_, ak⟩
      · exact absurd p nk
      · exact Or.inr ⟨ap, ak⟩

/-- **never new prefixes and afterwards old router keys.**  A reader section on the prefix table that saw the new
    prefixes (`¬ swapPending` there, by `reload_two_states`) is never followed by a reader section on the router-key
    table that sees the old keys. -/
theorem never_new_pfx_then_old_keys {store : Loc → Nat} {paths : Nat → List Ev} (h : ReloadSystem paths)
    {s s' : Sys} (hr : Reach store paths s) (hs : Steps s s')
    {j j' : Nat} (hj : j ∈ s.readers livePfx) (hj' : j' ∈ s'.readers liveSpki)
    (hnew : ¬ swapPending 0 livePfx s) : abs s' liveSpki = newAbs store paths liveSpki := by
  have hI := inv_reach h.guarded hr
  have hout : (livePfx, Mode.W) ∉ (s.thr 0).held := reader_excludes_writer hI hj
  have hk : ¬ swapPending 0 liveSpki s := by
    rcases cross_table_atomic h hr hout with ⟨hp, _⟩ | ⟨_, hk⟩
    · exact absurd hp hnew
    · exact hk
  have hk' := reload_monotone hs hk (reload_budget h (Or.inr rfl) hr)
  rcases reload_two_states h (Or.inr rfl) (steps_reach hr hs) hj' with ⟨hp, _⟩ | ⟨_, hn⟩
  · exact absurd hp hk'
  · exact hn

/-- **never new router keys and afterwards old prefixes.** -/
theorem never_new_keys_then_old_pfx {store : Loc → Nat} {paths : Nat → List Ev} (h : ReloadSystem paths)
    {s s' : Sys} (hr : Reach store paths s) (hs : Steps s s')
    {j j' : Nat} (_hj : j ∈ s.readers liveSpki) (hj' : j' ∈ s'.readers livePfx)
    (hnew : ¬ swapPending 0 liveSpki s) : abs s' livePfx = newAbs store paths livePfx := by
  have hr' := steps_reach hr hs
  have hI' := inv_reach h.guarded hr'
  have hout' : (livePfx, Mode.W) ∉ (s'.thr 0).held := reader_excludes_writer hI' hj'
  have hk' := reload_monotone hs hnew (reload_budget h (Or.inr rfl) hr)
  have hp' : ¬ swapPending 0 livePfx s' := by
    rcases cross_table_atomic h hr' hout' with ⟨_, hk⟩ | ⟨hp, _⟩
    · exact absurd hk hk'
    · exact hp
  rcases reload_two_states h (Or.inl rfl) hr' hj' with ⟨hp, _⟩ | ⟨_, hn⟩
  · exact absurd hp hp'
  · exact hn

/-- **stable_pair_answers.**  A query over BOTH tables whose answer is the same under the complete old and the
    complete new data set returns that answer whenever it is evaluated outside the combined section. -/
theorem stable_pair_answers {α : Type} (answer : (Part → Nat) → (Part → Nat) → α)
    {store : Loc → Nat} {paths : Nat → List Ev} (h : ReloadSystem paths)
    (hsame : answer (oldAbs store livePfx) (oldAbs store liveSpki) =
             answer (newAbs store paths livePfx) (newAbs store paths liveSpki))
    {s : Sys} (hr : Reach store paths s)
    (hp : (livePfx, Mode.W) ∉ (s.thr 0).held) (hk : (liveSpki, Mode.W) ∉ (s.thr 0).held) :
    answer (abs s livePfx) (abs s liveSpki) = answer (oldAbs store livePfx) (oldAbs store liveSpki) := by
  rcases cross_table_two_states h hr hp hk with ⟨ap, ak⟩ | ⟨ap, ak⟩
  · rw [ap, ak]
  · rw [ap, ak, hsame]

/-! ## Non-vacuity; what the unrepaired code satisfied -/

/-- is `cs` a resolution of the branch points that takes `runPath` through a complete reload which write-locks each
    live table exactly once? -/
def goodChoices (cs : List Bool) : Bool :=
  match runPath fns 300 reloadProg cs with
  | some (π, .norm, []) => countAcq (selL livePfx) π == 1 && countAcq (selL liveSpki) π == 1
  | _ => false

/-- choices steering `runPath` through a complete successful reload (empty tables, nothing to copy, nothing to add,
    both swaps, no diff): "always the second alternative", as many times as the generated IR has branch points on that
    path - found by search, because that number changes with every refactoring of the C code -/
def sampleChoices : List Bool :=
  (((List.range 80).map fun n => List.replicate n false).find? goodChoices).getD []

def samplePath : List Ev := ((runPath fns 300 reloadProg sampleChoices).map (·.1)).getD []

theorem sampleChoices_good : goodChoices sampleChoices = true := by decide +kernel

theorem samplePath_runs : Runs reloadProg samplePath := by
  have h := sampleChoices_good
  unfold goodChoices at h
  unfold samplePath
  split at h
  · rename_i π heq
    rw [heq]
    exact ⟨.norm, runPath_sound 300 reloadProg sampleChoices π .norm [] heq, by decide⟩
  · exact absurd h (by decide)

/-- the hypotheses are satisfiable, and the sample reload really swaps both tables -/
example : Runs reloadProg samplePath ∧ countAcq (selL livePfx) samplePath = 1 ∧
    countAcq (selL liveSpki) samplePath = 1 ∧ samplePath ≠ [] :=
  ⟨samplePath_runs, by decide +kernel, by decide +kernel, by decide +kernel⟩

def samplePaths : Nat → List Ev := fun i => if i = 0 then samplePath else []

theorem sample_system : ReloadSystem samplePaths := by
  refine ⟨samplePath_runs, ?_⟩
  intro i hi
  have : samplePaths i = [] := by simp [samplePaths, hi]
  rw [this]
  exact ⟨.norm, .loopDone, by decide⟩

instance (w L : Nat) (s : Sys) : Decidable (swapPending w L s) := by unfold swapPending; infer_instance

/-- the sample reload is accepted by the automaton of the combined section (as `reload_accepts` says of every reload) -/
example : runQ (pairδ livePfx liveSpki) .out samplePath = some .out := by decide +kernel

/-- after `k` steps of the synchronising thread: no lock held, prefix swap over, router-key swap ahead -/
def gapAt (k : Nat) : Bool :=
  decide (((fireN (init (fun _ => 0) samplePaths) 0 k).thr 0).held = []) &&
  decide (¬ swapPending 0 livePfx (fireN (init (fun _ => 0) samplePaths) 0 k)) &&
  decide (swapPending 0 liveSpki (fireN (init (fun _ => 0) samplePaths) 0 k))

/-- after `k` steps: no lock held and both swaps over -/
def bothDoneAt (k : Nat) : Bool :=
  decide (((fireN (init (fun _ => 0) samplePaths) 0 k).thr 0).held = []) &&
  decide (¬ swapPending 0 livePfx (fireN (init (fun _ => 0) samplePaths) 0 k)) &&
  decide (¬ swapPending 0 liveSpki (fireN (init (fun _ => 0) samplePaths) 0 k))

/-- inside the combined section: the synchronising thread write-holds the prefix table, router-key swap still ahead
    (the state that the hypothesis of `cross_table_atomic` excludes: it exists, the hypothesis is needed) -/
def insideAt (k : Nat) : Bool :=
  decide ((livePfx, Mode.W) ∈ ((fireN (init (fun _ => 0) samplePaths) 0 k).thr 0).held) &&
  decide (¬ swapPending 0 livePfx (fireN (init (fun _ => 0) samplePaths) 0 k)) &&
  decide (swapPending 0 liveSpki (fireN (init (fun _ => 0) samplePaths) 0 k))

/-- both alternatives of `cross_table_atomic` occur on the sample run with no lock held (start: both ahead; end: both
    done), the excluded combination occurs inside the section only, and on the whole sample run there is NO lock-free
    state with the prefix swap over and the router-key swap ahead -/
theorem sample_states : gapAt 0 = false ∧ bothDoneAt 0 = false ∧ (List.range (samplePath.length + 1)).any bothDoneAt = true ∧
    (List.range (samplePath.length + 1)).any insideAt = true ∧ (List.range (samplePath.length + 1)).any gapAt = false := by
  decide +kernel

example : ∃ (paths : Nat → List Ev) (s : Sys), ReloadSystem paths ∧ Reach (fun _ => 0) paths s ∧ (s.thr 0).held = [] ∧
    ¬ swapPending 0 livePfx s ∧ ¬ swapPending 0 liveSpki s := by
  obtain ⟨k, _, hk⟩ := List.any_eq_true.1 sample_states.2.2.1
  unfold bothDoneAt at hk
  simp only [Bool.and_eq_true, decide_eq_true_eq] at hk
  exact ⟨samplePaths, fireN (init (fun _ => 0) samplePaths) 0 k, sample_system, fireN_steps _ _ _, hk.1.1, hk.1.2, hk.2⟩

/- What the UNREPAIRED code satisfied (until the fix of known finding "C06/cross-table"; `reloadProg` then contained
   `call2 f_pfx_table_swap livePfx shadowPfx, call2 f_spki_table_swap liveSpki shadowSpki` in place of `swapCall`):

     theorem gap_exists : (List.range 120).any gapAt = true := by decide +kernel

     /-- cross_table_gap (the limit of C06 in that code).  There is a reachable state of the reload system in which the
         synchronising thread holds no lock, the prefix-table swap is over and the router-key swap is still ahead.  By
         `reload_two_states` a reader that now validates a route and then looks up a router key gets the NEW prefixes
         and the OLD keys: the two tables are not replaced atomically with respect to each other. -/
     theorem cross_table_gap : ∃ (paths : Nat → List Ev) (s : Sys), ReloadSystem paths ∧
         Reach (fun _ => 0) paths s ∧ (s.thr 0).held = [] ∧
         ¬ swapPending 0 livePfx s ∧ swapPending 0 liveSpki s

   On the repaired code `cross_table_no_gap` proves the negation of its last three conjuncts for EVERY reload system and
   every reachable state; `sample_states` shows it on the sample run.  The schedule that demonstrated the gap on the real
   code (harness/locks_harness.c, mode `xtable`, corpus/locks/C06_cross_table.xops) is now an oracle clause of the check:
   a run in which a reader sees new prefixes with old router keys is a violation. -/

end Rtr.C06
