/-
  C06 — A full reload replaces a cache's data atomically for concurrent readers.

  Model: the synchronising thread runs `reloadProg`, the sequence of table calls of
  `rtr_sync_receive_and_store_pdus` in reset mode, over the lock IR extracted from the current
  source: copy of the live tables into thread-private shadow tables (reads of the live table
  under its read lock), filling of the shadows, then — on success — `pfx_table_swap`,
  `spki_table_swap`, the two `notify_diff`s; on failure nothing touches the live tables.
  Reader threads run any sequence of validate / enumerate / key look-ups on the live tables.

  Theorems (per table `L` ∈ {live prefix table, live router-key table}):
    `reload_two_states`   every reader critical section on `L` observes `abs L = old` or
                          `abs L = new`, decided by whether the single swap section is still ahead;
    `reload_monotone`     once the swap is over it stays over: never new and afterwards old;
    `stable_answers`      a query whose answer is the same for old and new gets that answer;
    `reload_no_race`      no data race between the reload and the readers.
  Generated obligations re-checked each run: the call sequence in packets.c is the modelled one
  (`reload_sequence`); the reload is write-guarded and balanced; it write-locks each live table
  exactly at most once (`reload_single_swap_*`); the swaps hold BOTH write locks at every root
  assignment (`swap_atomic_*`) and assign all four roots / both containers (`swap_writes_*`).

  LIMIT (partial): atomicity is per table.  `pfx_table_swap` and `spki_table_swap` are two
  separate critical sections, so a reader that combines a prefix answer with a router-key answer
  can see the new prefixes with the old keys: `cross_table_gap` exhibits the state in the model,
  harness/locks_harness.c demonstrates it on the real code (known finding "C06/cross-table").
  Not modelled: the purge path after a failed undo (`rtr_purge_records_after_failed_undo` removes
  this cache's records from the live tables, C03's concern), two concurrently synchronising
  sockets (not quantified by the property).
-/
import RtrProofs.Locks
import RtrProofs.LocksChecker
import RtrProofs.LocksReload
import RtrModel.Generated.Locks

namespace Rtr.C06
open Rtr.Locks Rtr.Generated.Locks

/-! ## The reload system -/

/-- table ids -/
def livePfx : Nat := 0
def shadowPfx : Nat := 1
def liveSpki : Nat := 2
def shadowSpki : Nat := 3

def call1 (f : Nat) (t : Nat) : Prog := .act (.call f [t] [] 0)
def call2 (f : Nat) (a b : Nat) : Prog := .act (.call f [a, b] [] 0)

/-- what `rtr_sync_receive_and_store_pdus` does to the tables when `is_resetting` -/
def reloadProg : Prog := Prog.ofList [
  call2 f_pfx_table_copy_except_socket livePfx shadowPfx,
  .alt .ret .skip,                                                      -- copy failed: shadow discarded
  call2 f_spki_table_copy_except_socket liveSpki shadowSpki,
  .alt .ret .skip,
  .loop (.alt (call1 f_pfx_table_add shadowPfx) (call1 f_pfx_table_remove shadowPfx)),        -- rtr_update_pfx_table / undo
  .loop (.alt (call1 f_spki_table_add_entry shadowSpki) (call1 f_spki_table_remove_entry shadowSpki)),
  .alt .ret .skip,                                                      -- an update failed: shadow discarded
  call2 f_pfx_table_swap livePfx shadowPfx,
  call2 f_spki_table_swap liveSpki shadowSpki,
  .alt (call2 f_pfx_table_notify_diff livePfx shadowPfx) .skip,
  .alt (call2 f_spki_table_notify_diff liveSpki shadowSpki) .skip
]

/-- a reader thread on the live tables -/
def readerProg : Prog :=
  .loop (.alt (call1 f_pfx_table_validate_r livePfx) (.alt (call1 f_pfx_table_validate livePfx)
        (.alt (call1 f_pfx_table_for_each_ipv4_record livePfx) (.alt (call1 f_pfx_table_for_each_ipv6_record livePfx)
        (.alt (call1 f_spki_table_get_all liveSpki) (call1 f_spki_table_search_by_ski liveSpki))))))

def Runs (p : Prog) (π : List Ev) : Prop := ∃ o, Exec fns p π o ∧ o ≠ .brk

/-- thread 0 synchronises, every other thread reads (or idles) -/
def ReloadSystem (paths : Nat → List Ev) : Prop :=
  Runs reloadProg (paths 0) ∧ ∀ i, i ≠ 0 → Runs readerProg (paths i)

/-! ## Generated obligations -/

/-- the table calls of `rtr_sync_receive_and_store_pdus` that name a LIVE table, in source order, are the modelled ones
    (calls on the update / shadow tables may be regrouped freely by refactorings):
    in reset mode `update` = `shadow`; the only calls that touch a live table are the two copies
    (read side), the two swaps, the two notify_diffs (read side) — and the purge path
    (`rtr_purge_records_after_failed_undo`: src_remove on both live tables when an undo step of a
    rejected update fails; no swap follows), which is outside this model: it is the failure
    handling judged by C03, and it leaves a third state (this cache's records removed). -/
theorem reload_sequence : reloadCalls.filter (fun c => c.2.contains "live") = [
    ("pfx_table_copy_except_socket", ["live", "update"]),
    ("spki_table_copy_except_socket", ["live", "update"]),
    ("pfx_table_swap", ["live", "shadow"]),
    ("spki_table_swap", ["live", "shadow"]),
    ("pfx_table_notify_diff", ["live", "shadow"]),
    ("spki_table_notify_diff", ["live", "shadow"])] ∧
    reloadCalls.any (fun c => c.1 == "rtr_purge_records_after_failed_undo") = true := by decide

/-- all writes of the reload are under the write lock of their table, locks balanced
    (strictness off: `spki_table_notify_diff` reads the lists unlocked, see C16) -/
theorem reload_wellLocked : wellLockedProg false fns reloadProg = true := by decide

theorem readers_wellLocked : wellLockedProg true fns readerProg = true := by decide

/-- the reload write-locks the live prefix table at most once on any path (the swap) … -/
theorem reload_single_swap_pfx : acqBound (selL livePfx) fns fuel reloadProg = some 1 := by decide
/-- … and the live router-key table at most once -/
theorem reload_single_swap_spki : acqBound (selL liveSpki) fns fuel reloadProg = some 1 := by decide

/-- readers never take any write lock -/
theorem readers_never_write : acqBound anyW fns fuel readerProg = some 0 := by decide

def bodyOf (f : Nat) : Prog := (fns[f]?.map (·.body)).getD (.act (.unknown 0))

/-- `pfx_table_swap` holds the write locks of BOTH tables at each of its root assignments … -/
theorem swap_atomic_pfx : wellLockedProg true fns ((bodyOf f_pfx_table_swap).requireAtWrites [0, 1]) = true := by decide
/-- … and assigns exactly the four roots (in whatever order the C code does it) -/
theorem swap_writes_pfx :
    (∀ x ∈ (bodyOf f_pfx_table_swap).writes, x ∈ ([⟨0, .ipv4⟩, ⟨0, .ipv6⟩, ⟨1, .ipv4⟩, ⟨1, .ipv6⟩] : List Loc)) ∧
    (∀ x ∈ ([⟨0, .ipv4⟩, ⟨0, .ipv6⟩, ⟨1, .ipv4⟩, ⟨1, .ipv6⟩] : List Loc), x ∈ (bodyOf f_pfx_table_swap).writes) := by decide

/-- `spki_table_swap` holds both write locks at every write … -/
theorem swap_atomic_spki : wellLockedProg true fns ((bodyOf f_spki_table_swap).requireAtWrites [0, 1]) = true := by decide
/-- … and each of the two tables is write-locked exactly once in it -/
theorem swap_sections_spki : acqBound (selL 0) fns fuel (bodyOf f_spki_table_swap) = some 1 ∧
    acqBound (selL 1) fns fuel (bodyOf f_spki_table_swap) = some 1 := by decide

/-! ## Theorems -/

theorem Runs.balanced {strict : Bool} {p : Prog} (hw : wellLockedProg strict fns p = true) {π : List Ev}
    (h : Runs p π) : Balanced strict π := by
  obtain ⟨o, hx, ho⟩ := h
  exact wellLockedProg_sound hw hx ho

theorem Runs.count {p : Prog} {sel : Mode → Nat → Bool} {b : Nat} (hb : acqBound sel fns fuel p = some b)
    {π : List Ev} (h : Runs p π) : countAcq sel π ≤ b := by
  obtain ⟨o, hx, _⟩ := h
  exact acqBound_sound hx fuel b hb

/-- strictness per thread: the synchronising thread is only write-guarded -/
def σ : Nat → Bool := fun i => decide (i ≠ 0)

theorem ReloadSystem.guarded {paths : Nat → List Ev} (h : ReloadSystem paths) : ∀ i, Guarded (σ i) (paths i) := by
  intro i
  by_cases hi : i = 0
  · subst hi; exact (Runs.balanced reload_wellLocked h.1).guarded
  · have : σ i = true := by simp [σ, hi]
    rw [this]; exact (Runs.balanced readers_wellLocked (h.2 i hi)).guarded

theorem countAcq_le_anyW {L : Nat} (π : List Ev) : countAcq (selL L) π ≤ countAcq anyW π := by
  unfold countAcq
  apply List.countP_mono_left
  intro e _ he
  cases e with
  | acq m l => simp only [isAcq, selL, Bool.and_eq_true] at he; simpa [isAcq, anyW] using he.1
  | rel _ => simp [isAcq] at he
  | rd _ => simp [isAcq] at he
  | wr _ _ => simp [isAcq] at he
  | bad => simp [isAcq] at he

theorem readers_no_acqW {paths : Nat → List Ev} (h : ReloadSystem paths) (j : Nat) (hj : j ≠ 0) :
    countAcq anyW (paths j) = 0 := by
  have := Runs.count readers_never_write (h.2 j hj); omega

/-- the live tables of the theorem -/
def IsLive (L : Nat) : Prop := L = livePfx ∨ L = liveSpki

theorem reload_count {paths : Nat → List Ev} (h : ReloadSystem paths) {L : Nat} (hL : IsLive L) :
    countAcq (selL L) (paths 0) ≤ 1 := by
  rcases hL with rfl | rfl
  · exact Runs.count reload_single_swap_pfx h.1
  · exact Runs.count reload_single_swap_spki h.1

/-- the old contents of table `L` (at the start) and the new contents (old overwritten by the
    writes the synchronising thread performs on `L`, all of them inside the swap) -/
def oldAbs (store : Loc → Nat) (L : Nat) : Part → Nat := fun p => store ⟨L, p⟩
def newAbs (store : Loc → Nat) (paths : Nat → List Ev) (L : Nat) : Part → Nat := applyW L (paths 0) (oldAbs store L)

/-- **reload_two_states.**  In every interleaving, in every state in which some reader `j` holds
    the read lock of a live table `L` (i.e. anywhere inside a reader critical section on `L`):
    the synchronising thread is not inside its swap, and the table's abstract value is the old
    one if the swap is still ahead, the new one if it is over.  Never empty, never half loaded. -/
theorem reload_two_states {store : Loc → Nat} {paths : Nat → List Ev} (h : ReloadSystem paths)
    {L : Nat} (hL : IsLive L) {s : Sys} (hr : Reach store paths s) {j : Nat} (hj : j ∈ s.readers L) :
    (swapPending 0 L s ∧ abs s L = oldAbs store L) ∨ (¬ swapPending 0 L s ∧ abs s L = newAbs store paths L) := by
  have hI := inv_reach h.guarded hr
  have hout : (L, Mode.W) ∉ (s.thr 0).held := reader_excludes_writer hI hj
  have hnone : ∀ j, j ≠ 0 → countAcq (selL L) (paths j) = 0 := by
    intro j hj
    have h1 := countAcq_le_anyW (L := L) (paths j)
    have h2 := readers_no_acqW h j hj
    omega
  exact two_states 0 L h.guarded (reload_count h hL) hnone hr hout

/-- **reload_monotone.**  The swap, once over, stays over — with `reload_two_states`: a reader
    section that saw the new value is never followed by one that sees the old value. -/
theorem reload_monotone {L : Nat} {s s' : Sys} (hs : Steps s s') (hdone : ¬ swapPending 0 L s)
    (hle : countAcq (selL L) (s.thr 0).rest ≤ 1) : ¬ swapPending 0 L s' := by
  unfold swapPending at *
  have := pending_antitone (w := 0) (L := L) hs
  omega

/-- never new and afterwards old -/
theorem never_new_then_old {store : Loc → Nat} {paths : Nat → List Ev} (h : ReloadSystem paths)
    {L : Nat} (hL : IsLive L) {s s' : Sys} (hr : Reach store paths s) (hs : Steps s s')
    {j j' : Nat} (_hj : j ∈ s.readers L) (hj' : j' ∈ s'.readers L)
    (hnew : ¬ swapPending 0 L s) : abs s' L = newAbs store paths L := by
  have hr' : Reach store paths s' := by
    unfold Reach at *
    clear hj' hnew
    induction hs with
    | refl => exact hr
    | tail _ hst ih => exact .tail ih hst
  have hle : countAcq (selL L) (s.thr 0).rest ≤ 1 := by
    have := pending_antitone (w := 0) (L := L) hr
    have h1 := reload_count h hL
    simp only [init] at this
    omega
  rcases reload_two_states h hL hr' hj' with ⟨hp, _⟩ | ⟨_, hn⟩
  · exact absurd hp (reload_monotone hs hnew hle)
  · exact hn

/-- **stable_answers.**  A query whose answer is the same under the old and the new data set
    returns that answer at all times. -/
theorem stable_answers {α : Type} (answer : (Part → Nat) → α)
    {store : Loc → Nat} {paths : Nat → List Ev} (h : ReloadSystem paths)
    {L : Nat} (hL : IsLive L) (hsame : answer (oldAbs store L) = answer (newAbs store paths L))
    {s : Sys} (hr : Reach store paths s) {j : Nat} (hj : j ∈ s.readers L) :
    answer (abs s L) = answer (oldAbs store L) := by
  rcases reload_two_states h hL hr hj with ⟨_, ho⟩ | ⟨_, hn⟩
  · rw [ho]
  · rw [hn, hsame]

/-- no data race between the reload and any number of readers -/
theorem reload_no_race {store : Loc → Nat} {paths : Nat → List Ev} (h : ReloadSystem paths)
    {s : Sys} (hr : Reach store paths s) : ¬ Race s := by
  apply single_writer_no_race 0 _ _ _ hr
  · exact (Runs.balanced reload_wellLocked h.1).guarded
  · intro j hj; exact (Runs.balanced readers_wellLocked (h.2 j hj)).guarded
  · intro j hj; exact readers_no_acqW h j hj

/-! ## Non-vacuity and the cross-table gap -/

/-- is `cs` a resolution of the branch points that takes `runPath` through a complete reload which write-locks each
    live table exactly once? -/
def goodChoices (cs : List Bool) : Bool :=
  match runPath fns 300 reloadProg cs with
  | some (π, .norm, []) => countAcq (selL livePfx) π == 1 && countAcq (selL liveSpki) π == 1
  | _ => false

/-- choices steering `runPath` through a complete successful reload (empty tables, nothing to copy, nothing to add,
    both swaps, no diff): "always the second alternative", as many times as the generated IR has branch points on that
    path - found by search, because that number changes with every refactoring of the C code -/
def sampleChoices : List Bool :=
  (((List.range 80).map fun n => List.replicate n false).find? goodChoices).getD []

def samplePath : List Ev := ((runPath fns 300 reloadProg sampleChoices).map (·.1)).getD []

theorem sampleChoices_good : goodChoices sampleChoices = true := by decide +kernel

theorem samplePath_runs : Runs reloadProg samplePath := by
  have h := sampleChoices_good
  unfold goodChoices at h
  unfold samplePath
  split at h
  · rename_i π heq
    rw [heq]
    exact ⟨.norm, runPath_sound 300 reloadProg sampleChoices π .norm [] heq, by decide⟩
  · exact absurd h (by decide)

/-- the hypotheses are satisfiable, and the sample reload really swaps both tables -/
example : Runs reloadProg samplePath ∧ countAcq (selL livePfx) samplePath = 1 ∧
    countAcq (selL liveSpki) samplePath = 1 ∧ samplePath ≠ [] :=
  ⟨samplePath_runs, by decide +kernel, by decide +kernel, by decide +kernel⟩

def samplePaths : Nat → List Ev := fun i => if i = 0 then samplePath else []

theorem sample_system : ReloadSystem samplePaths := by
  refine ⟨samplePath_runs, ?_⟩
  intro i hi
  have : samplePaths i = [] := by simp [samplePaths, hi]
  rw [this]
  exact ⟨.norm, .loopDone, by decide⟩

instance (w L : Nat) (s : Sys) : Decidable (swapPending w L s) := by unfold swapPending; infer_instance

/-- after `k` steps of the synchronising thread: no lock held, prefix swap over, router-key swap ahead -/
def gapAt (k : Nat) : Bool :=
  decide (((fireN (init (fun _ => 0) samplePaths) 0 k).thr 0).held = []) &&
  decide (¬ swapPending 0 livePfx (fireN (init (fun _ => 0) samplePaths) 0 k)) &&
  decide (swapPending 0 liveSpki (fireN (init (fun _ => 0) samplePaths) 0 k))

theorem gap_exists : (List.range 120).any gapAt = true := by decide +kernel

/-- **cross_table_gap (the limit of C06 in this code).**  There is a reachable state of the
    reload system in which the synchronising thread holds no lock, the prefix-table swap is over
    and the router-key swap is still ahead.  By `reload_two_states` a reader that now validates a
    route and then looks up a router key gets the NEW prefixes and the OLD keys: the two tables
    are not replaced atomically with respect to each other.  (Demonstrated on the real code by
    harness/locks_harness.c, mode `xtable`; known finding "C06/cross-table".) -/
theorem cross_table_gap : ∃ (paths : Nat → List Ev) (s : Sys), ReloadSystem paths ∧
    Reach (fun _ => 0) paths s ∧ (s.thr 0).held = [] ∧
    ¬ swapPending 0 livePfx s ∧ swapPending 0 liveSpki s := by
  obtain ⟨k, _, hk⟩ := List.any_eq_true.1 gap_exists
  unfold gapAt at hk
  simp only [Bool.and_eq_true, decide_eq_true_eq] at hk
  exact ⟨samplePaths, fireN (init (fun _ => 0) samplePaths) 0 k, sample_system, fireN_steps _ _ _, hk.1.1, hk.1.2, hk.2⟩

end Rtr.C06
