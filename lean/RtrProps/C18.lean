/-
  C18 — Allocation failure is contained; the configured allocator is used consistently.

  "With a user-supplied allocator installed, if any single allocation fails during a prefix-table or
   router-key-table operation or during a synchronisation, the call reports an error without crashing
   and the tables still satisfy their set semantics, with no partial effect of the failed table
   operation.  In failure-free runs every block obtained from the configured allocator is returned to
   that same allocator and nothing remains allocated once the tables are freed."

  Model: RtrModel.Alloc — the existing table models (RtrModel.PfxTable, RtrModel.Hashlin, RtrModel.Spki)
  extended by an allocator oracle `A` (`budget = some k`: the k-th request from now on is refused, all
  others are granted; `budget = none`: nothing is refused) that records every request and release.
  Every operation `op` has a companion `opF : A → … → A × result` passing its allocation sites in the
  order of the C code.  The code modelled is the code with the fixes F15, F16a–F16d (see §6 below for
  the unfixed code).

  Reading of the statement.  A refused request is REQUIRED if the operation cannot complete without the
  block (every malloc, every growing realloc): then the call must report an error and leave the table
  exactly as it was.  Two kinds of request are OPTIONAL: a SHRINKING realloc (the old, larger block
  stays valid) and the allocation of a new hash SEGMENT (growing the linear hash table only shortens
  chains).  The fixed code absorbs their refusal: the call completes with its full effect.  In both
  cases there is no partial effect, and in both cases the table invariant — hence set semantics, by the
  refinement theorems of C02 / C10 — holds afterwards.
-/
import RtrProofs.AllocOps
import RtrProofs.AllocSync
import RtrProofs.AllocStore

namespace Rtr.C18
open Rtr Rtr.Alloc PfxTable SpkiTable

/-! ## 1. the failure-free instance coincides with the existing models -/

theorem reasonReqs_none : ∀ (cs : List NodeC) (a : A) (acc : Nat), a.budget = none → (reasonReqs a acc cs).1 = true := by
  intro cs a acc h
  exact ((reasonReqs_ok cs a acc).pass (not_hits_none h _)).1

theorem growReqs_none (b : Blk) (m cur : Nat) (a : A) (h : a.budget = none) : (growReqs b m cur a).1 = true :=
  ((growReqs_ok b m cur a).pass (not_hits_none h _)).1

/-- **With an allocator that never refuses, every operation under the oracle returns exactly what
    the existing model function returns** (prefix table, hash table, router-key table). -/
theorem failure_free_coincides (a : A) (h : a.budget = none) :
    (∀ T r, (addF a T r).2 = T.add r) ∧
    (∀ T r, (removeF a T r).2 = T.remove r) ∧
    (∀ T s, (srcRemoveF a T s).2 = (T.srcRemove s, .success)) ∧
    (∀ T v6 asn q n, (validateF a T v6 asn q n).2 = (.success, T.validate v6 asn q n)) ∧
    (∀ S D s, (copyExceptF a S D s).2 = PfxTable.copyExcept S D s) ∧
    (∀ T, (freeF a T).2 = T.free) ∧
    (∀ cb, (kinitF a cb).2 = some (SpkiTable.init cb)) ∧
    (∀ T r, (kaddF a T r).2 = T.add r) ∧
    (∀ T r, (kremoveF a T r).2 = T.remove r) ∧
    (∀ T s, (ksrcRemoveF a T s).2 = T.srcRemove s) ∧
    (∀ T asn ski, (kgetAllF a T asn ski).2 = (.success, T.getAll asn ski)) ∧
    (∀ T ski, (ksearchBySkiF a T ski).2 = (.success, T.searchBySki ski)) ∧
    (∀ S D s, SInv D → (kcopyExceptF a S D s).2 = SpkiTable.copyExcept S D s) ∧
    (∀ (hl : Hashlin SpkiRec) d k, (hlInsertF a hl d k).2 = hl.insert d k) := by
  have hins : ∀ (hl : Hashlin SpkiRec) d k, ∀ b : A, b.budget = none → (hlInsertF b hl d k).2 = hl.insert d k := by
    intro hl d k b hb
    rw [hlInsertF_eq, insert_eq]
    exact ((growStepF_ok b (linked hl d k)).pass (not_hits_none hb _)).1
  refine ⟨fun T r => ((addF_ok a T r).pass (not_hits_none h _)).1, fun _ _ => rfl, fun _ _ => rfl, ?_,
    fun S D s => (copyExceptF_none a S D s h).1, fun _ => rfl, fun cb => ((kinitF_ok a cb).1 (not_hits_none h _)).1, ?_,
    fun _ _ => rfl, fun _ _ => rfl, ?_, ?_, fun S D s iv => (kcopyLoopF_none s S.list a D iv h).1, fun hl d k => hins hl d k a h⟩
  · intro T v6 asn q n
    unfold validateF
    simp only [reasonReqs_none _ a 0 h, if_true]
  · intro T r
    have q := malloc_none h .entry 1
    unfold kaddF SpkiTable.add
    simp only [q, Bool.not_true, Bool.false_eq_true, if_false]
    split
    · rfl
    · rw [hins T.ht r (spkiHash r) _ rfl]
  · intro T asn ski
    unfold kgetAllF
    simp only [growReqs_none .result _ 0 a h, if_true]
  · intro T ski
    unfold ksearchBySkiF
    simp only [growReqs_none .result _ 0 a h, if_true]

/-! ## 2. fail_contained: one refused request, error and no effect — or an absorbed optional request -/

/-- the mutating operations of the prefix table -/
inductive POp where
  | add (r : Rec)
  | remove (r : Rec)
  | srcRemove (src : Nat)

def POp.OK : POp → Prop
  | .add r => RecOK r
  | _ => True

/-- the operation under the oracle -/
def prun (a : A) (T : PfxTable) : POp → A × PfxTable × PfxRc
  | .add r => addF a T r
  | .remove r => removeF a T r
  | .srcRemove s => srcRemoveF a T s

/-- the operation of the existing model (RtrModel.PfxTable) -/
def pmodel (T : PfxTable) : POp → PfxTable × PfxRc
  | .add r => T.add r
  | .remove r => T.remove r
  | .srcRemove s => (T.srcRemove s, .success)

/-- number of allocation requests the operation makes in this state when nothing is refused:
    add: 0 (duplicate) / 1 (array of an existing node) / 3 (node, node_data, array);
    remove: 1 if the node keeps other elements (shrinking realloc), else 0;
    remove-by-source: one shrinking realloc per removed element that is not its node's last -/
def preqs (T : PfxTable) : POp → Nat
  | .add r => (addSite r.width (T.root r.v6) r.addr r.len r.elem).reqs
  | .remove r => shrinks (remActs T r)
  | .srcRemove s => shrinks (removeIdActs s T.v4) + shrinks (removeIdActs s T.t6)

/-- `preqs` is what the failure-free run requests -/
theorem preqs_counts (T : PfxTable) (op : POp) : reqs (prun {} T op).1.trace = preqs T op := by
  cases op with
  | add r =>
    have := ((addF_ok {} T r).pass (not_hits_none rfl _)).2.2.2
    simpa [prun, preqs] using this
  | remove r =>
    have := (run_ok (remActs T r) {}).reqs
    simpa [prun, preqs, removeF] using this
  | srcRemove s =>
    have h1 := (run_ok (removeIdActs s T.v4) {}).reqs
    have h2 := (run_ok (removeIdActs s T.t6) (({} : A).run (removeIdActs s T.v4))).reqs
    show reqs ((({} : A).run (removeIdActs s T.v4)).run (removeIdActs s T.t6)).trace = _
    rw [h2, h1]; simp [preqs]

theorem hits_some {k n : Nat} (h : k < n) : ({ budget := some k } : A).hits n := ⟨k, rfl, h⟩

/-- **fail_contained (prefix table).**  For every table, every mutating operation and every k smaller
    than the number of allocation requests of that operation: exactly one request is refused, and
    either the call returns PFX_ERROR and the table is EXACTLY what it was (no partial effect: not a
    single field differs, in particular contents, callback log and trie shape), or the operation is a
    removal — whose only requests are shrinking reallocs — and the result is exactly the result of the
    undisturbed call (table and return code). -/
theorem fail_contained_pfx (T : PfxTable) (op : POp) (k : Nat) (hk : k < preqs T op) :
    refusals (prun { budget := some k } T op).1.trace = 1 ∧
    (((prun { budget := some k } T op).2.2 = .error ∧ (prun { budget := some k } T op).2.1 = T) ∨
     ((∃ r, op = .remove r) ∨ (∃ s, op = .srcRemove s)) ∧ (prun { budget := some k } T op).2 = pmodel T op) := by
  cases op with
  | add r =>
    obtain ⟨h1, _, h3⟩ := (addF_ok { budget := some k } T r).hit (hits_some hk)
    refine ⟨by simpa [prun] using h3, Or.inl ?_⟩
    simp only [prun, h1]; exact ⟨by first | rfl | trivial, by first | rfl | trivial⟩
  | remove r =>
    have h := (run_ok (remActs T r) { budget := some k }).hit (hits_some hk)
    exact ⟨by simpa [prun, removeF] using h.2, Or.inr ⟨Or.inl ⟨r, rfl⟩, rfl⟩⟩
  | srcRemove s =>
    refine ⟨?_, Or.inr ⟨Or.inr ⟨s, rfl⟩, rfl⟩⟩
    have r1 := run_ok (removeIdActs s T.v4) { budget := some k }
    have r2 := run_ok (removeIdActs s T.t6) (({ budget := some k } : A).run (removeIdActs s T.v4))
    show refusals ((({ budget := some k } : A).run (removeIdActs s T.v4)).run (removeIdActs s T.t6)).trace = 1
    by_cases h4 : k < shrinks (removeIdActs s T.v4)
    · obtain ⟨b1, f1⟩ := r1.hit (hits_some h4)
      obtain ⟨_, f2⟩ := r2.pass (not_hits_none b1 _)
      rw [f2, f1]; rfl
    · obtain ⟨b1, f1⟩ := r1.pass (by rintro ⟨k', e, h'⟩; cases e; exact h4 h')
      have hh : (({ budget := some k } : A).run (removeIdActs s T.v4)).hits (shrinks (removeIdActs s T.t6)) := by
        refine ⟨k - shrinks (removeIdActs s T.v4), by rw [b1]; rfl, ?_⟩
        simp only [preqs] at hk; omega
      obtain ⟨_, f2⟩ := r2.hit hh
      rw [f2, f1]; rfl

/-- **fail_contained (queries).**  `pfx_table_validate_r` with a reason array makes one request per
    visited covering node, `spki_table_get_all` / `spki_table_search_by_ski` one per matching key; when
    the k-th is refused the call returns the error code and hands nothing to the caller (the tables
    are not written by these functions at all). -/
theorem fail_contained_queries (k : Nat) :
    (∀ T v6 asn q n, k < (validateR (if v6 then 128 else 32) q n asn (T.root v6)).2.length →
      (validateF { budget := some k } T v6 asn q n).2 = (.error, .notFound, []) ∧
      refusals (validateF { budget := some k } T v6 asn q n).1.trace = 1) ∧
    (∀ T asn ski, k < (T.getAll asn ski).length →
      (kgetAllF { budget := some k } T asn ski).2 = (.error, []) ∧
      refusals (kgetAllF { budget := some k } T asn ski).1.trace = 1) ∧
    (∀ T ski, k < (T.searchBySki ski).length →
      (ksearchBySkiF { budget := some k } T ski).2 = (.error, []) ∧
      refusals (ksearchBySkiF { budget := some k } T ski).1.trace = 1) := by
  refine ⟨fun T v6 asn q n hk => ?_, fun T asn ski hk => ?_, fun T ski hk => ?_⟩
  · obtain ⟨h1, _, h3⟩ := (reasonReqs_ok _ { budget := some k } 0).hit (hits_some hk)
    unfold validateF
    simp only [h1, Bool.false_eq_true, if_false]
    exact ⟨by first | rfl | trivial, by simpa using h3⟩
  · obtain ⟨h1, _, h3⟩ := (growReqs_ok .result _ 0 { budget := some k }).hit (hits_some hk)
    unfold kgetAllF
    simp only [h1, Bool.false_eq_true, if_false]
    exact ⟨by first | rfl | trivial, by simpa using h3⟩
  · obtain ⟨h1, _, h3⟩ := (growReqs_ok .result _ 0 { budget := some k }).hit (hits_some hk)
    unfold ksearchBySkiF
    simp only [h1, Bool.false_eq_true, if_false]
    exact ⟨by first | rfl | trivial, by simpa using h3⟩

/-- the mutating operations of the router-key table -/
inductive KOp where
  | add (r : SpkiRec)
  | remove (r : SpkiRec)
  | srcRemove (src : Nat)

def krun (a : A) (T : SpkiTable) : KOp → A × SpkiTable × SpkiRc
  | .add r => kaddF a T r
  | .remove r => kremoveF a T r
  | .srcRemove s => ksrcRemoveF a T s

def kmodel (T : SpkiTable) : KOp → SpkiTable × SpkiRc
  | .add r => T.add r
  | .remove r => T.remove r
  | .srcRemove s => T.srcRemove s

/-- requests when nothing is refused: only `spki_table_add_entry` allocates — the entry (before the
    duplicate test), and a new hash segment if the table starts growing with this entry -/
def kreqs (T : SpkiTable) : KOp → Nat
  | .add r => kaddReqs T r
  | _ => 0

/-- **fail_contained (router-key table).**  For every table satisfying its invariant and every k
    smaller than the number of requests of the operation: exactly one request is refused; either
    SPKI_ERROR is returned and the table is EXACTLY what it was, or the refused request was the new hash
    segment: then the return code, the list of entries, the callback log are those of the undisturbed
    call and the representation invariant holds (only the hash table has not grown). -/
theorem fail_contained_spki (T : SpkiTable) (iv : SInv T) (op : KOp) (k : Nat) (hk : k < kreqs T op) :
    refusals (krun { budget := some k } T op).1.trace = 1 ∧
    (((krun { budget := some k } T op).2.2 = .error ∧ (krun { budget := some k } T op).2.1 = T) ∨
     ((krun { budget := some k } T op).2.2 = (kmodel T op).2 ∧
      (krun { budget := some k } T op).2.1.list = (kmodel T op).1.list ∧
      (krun { budget := some k } T op).2.1.log = (kmodel T op).1.log ∧
      (krun { budget := some k } T op).2.1.hasCb = (kmodel T op).1.hasCb ∧
      SInv (krun { budget := some k } T op).2.1)) := by
  cases op with
  | remove r => simp [kreqs] at hk
  | srcRemove s => simp [kreqs] at hk
  | add r =>
    have q := kaddF_ok { budget := some k } T r iv
    simp only [kreqs] at hk
    by_cases h1 : k < 1
    · obtain ⟨e, _, f⟩ := q.hit1 (hits_some h1)
      refine ⟨by simpa [krun] using f, Or.inl ?_⟩
      simp only [krun, e]; exact ⟨by first | rfl | trivial, by first | rfl | trivial⟩
    · obtain ⟨e, hr, _, f⟩ := q.hit2 (by rintro ⟨k', e', h'⟩; cases e'; exact h1 h') (hits_some hk)
      obtain ⟨s1, s2, s3, s4⟩ := addNoGrow_spec iv r hr
      refine ⟨by simpa [krun] using f, Or.inr ?_⟩
      simp only [krun, kmodel, e]
      exact ⟨(add_new_spec iv r hr).1.symm, s2, s3, s4, s1⟩

/-- **growing the hash table is optional**: `tommy_hashlin_insert` under the oracle keeps the
    representation invariant of C10 whether or not the new segment is granted, and stores exactly the
    old nodes plus the new one. -/
theorem hashlin_grow_optional {α : Type} [DecidableEq α] (a : A) (h : Hashlin α) (iv : h.Inv) (d : α) (key : Nat) :
    (hlInsertF a h d key).2.Inv ∧
    ∀ x, (hlInsertF a h d key).2.mult x = h.mult x + if x = ⟨key, d⟩ then 1 else 0 := by
  have g := growStepF_ok a (linked h d key)
  rw [hlInsertF_eq]
  by_cases hh : a.hits (segReqs (linked h d key))
  · rw [(g.hit hh).1]; exact linked_spec h iv d key
  · rw [(g.pass hh).1, ← insert_eq]; exact Hashlin.insert_spec h iv d key

/-- **fail_contained**, all tables at once: for every state, every operation and every k smaller than
    the number of allocation requests of that operation the outcome is defined (the model functions are
    total: there is no crash outcome in the fixed code) and is either "error code, table untouched" or
    "optional request absorbed, complete effect" — never a partial effect. -/
theorem fail_contained :
    (∀ (T : PfxTable) (op : POp) (k : Nat), k < preqs T op →
      refusals (prun { budget := some k } T op).1.trace = 1 ∧
      (((prun { budget := some k } T op).2.2 = .error ∧ (prun { budget := some k } T op).2.1 = T) ∨
       ((∃ r, op = .remove r) ∨ (∃ s, op = .srcRemove s)) ∧ (prun { budget := some k } T op).2 = pmodel T op)) ∧
    (∀ (T : SpkiTable), SInv T → ∀ (op : KOp) (k : Nat), k < kreqs T op →
      refusals (krun { budget := some k } T op).1.trace = 1 ∧
      (((krun { budget := some k } T op).2.2 = .error ∧ (krun { budget := some k } T op).2.1 = T) ∨
       ((krun { budget := some k } T op).2.2 = (kmodel T op).2 ∧
        (krun { budget := some k } T op).2.1.list = (kmodel T op).1.list ∧
        (krun { budget := some k } T op).2.1.log = (kmodel T op).1.log ∧
        (krun { budget := some k } T op).2.1.hasCb = (kmodel T op).1.hasCb ∧
        SInv (krun { budget := some k } T op).2.1))) :=
  ⟨fail_contained_pfx, fun T iv op k hk => fail_contained_spki T iv op k hk⟩

/-- **a copy that reports success is complete** (whatever the oracle did on the way): the target of
    `pfx_table_copy_except_socket` into an empty table holds exactly the records of the other sockets,
    the target of `spki_table_copy_except_socket` gained exactly the entries of the other sockets.
    (A copy that reports an error leaves a well-formed, partially filled target: see
    `fail_keeps_invariant`; `rtr_sync` releases it: see `sync_no_leak`.) -/
theorem copy_success_complete (a : A) (src : Nat) :
    (∀ S D, TableWF S → TableWF D → D.recs = [] → (copyExceptF a S D src).2.2 = .success →
      (copyExceptF a S D src).2.1.recs.Perm (S.recs.filter fun r => r.src != src)) ∧
    (∀ S D, SInv D → (kcopyExceptF a S D src).2.2 = .success →
      (kcopyExceptF a S D src).2.1.list = D.list ++ S.list.filter (fun e => e.src != src)) :=
  ⟨fun S D hS hD hE h => copyExceptF_success a S D src hS hD hE h,
   fun S D iv h => kcopyLoopF_success src S.list a D iv h⟩

/-! ## 3. fail_keeps_invariant -/

/-- **fail_keeps_invariant.**  Whatever the oracle does (any budget, any earlier trace), the table an
    operation leaves behind satisfies the well-formedness invariant on which the set-semantics theorems
    of C02 (`TableWF`) and C10 (`SInv`) rest — so every later operation still follows set semantics.
    This includes the partially filled target of a failed copy (which `rtr_sync` then frees). -/
theorem fail_keeps_invariant (a : A) :
    (∀ T op, TableWF T → POp.OK op → TableWF (prun a T op).2.1) ∧
    (∀ S D s, TableWF S → TableWF D → TableWF (copyExceptF a S D s).2.1) ∧
    (∀ T op, SInv T → SInv (krun a T op).2.1) ∧
    (∀ S D s, SInv D → SInv (kcopyExceptF a S D s).2.1) ∧
    (∀ cb T, (kinitF a cb).2 = some T → SInv T) := by
  refine ⟨fun T op h hok => ?_, fun S D s hS hD => (copyExceptF_ok a S D s hS hD).wf, fun T op iv => ?_,
    fun S D s iv => (kcopyLoopF_ok s S.list a D iv).inv, fun cb T h => ?_⟩
  · cases op with
    | add r => exact addF_wf a T r h hok
    | remove r => exact removeF_wf a T r h
    | srcRemove s => exact srcRemoveF_wf a T s h
  · cases op with
    | add r => exact kaddF_sinv a iv r
    | remove r => exact remove_sinv iv r
    | srcRemove s => exact (SpkiTable.srcRemove_spec iv s).2.1
  · unfold kinitF at h
    simp only at h
    split at h
    · cases h; exact SpkiTable.sinv_init cb
    · cases h

/-! ## 4. alloc_count: live blocks as a function of the tables -/

theorem trieBlocks_wf (w : Nat) : ∀ (t : Trie) (d : Nat), WF w t d → trieBlocks t = 3 * t.nodes.length := by
  intro t
  induction t with
  | nil => intro _ _; rfl
  | node c l r ihl ihr =>
    intro d ⟨hc, _, _, wl, wr⟩
    rw [trieBlocks_node, ihl _ wl, ihr _ wr, wt_nonempty hc.2.2.2.1]
    simp [Trie.nodes]; omega

theorem walkR_sub (w : Nat) (q : Addr) (n asn : Nat) : ∀ (t : Trie) (lvl : Nat) (seen : Bool),
    ∀ c ∈ (walkR w q n asn t lvl seen).2, c ∈ t.nodes := by
  intro t
  induction t with
  | nil => intro lvl seen c hc; simp [walkR] at hc
  | node c0 l r ihl ihr =>
    intro lvl seen c hc
    unfold walkR at hc
    simp only [Trie.nodes, List.mem_append, List.mem_cons]
    split at hc
    · split at hc
      · simp at hc; exact Or.inr (Or.inl hc)
      · simp only [List.mem_cons] at hc
        rcases hc with hc | hc
        · exact Or.inr (Or.inl hc)
        · split at hc
          · exact Or.inl (ihl _ _ c hc)
          · exact Or.inr (Or.inr (ihr _ _ c hc))
    · split at hc
      · exact Or.inl (ihl _ _ c hc)
      · exact Or.inr (Or.inr (ihr _ _ c hc))

/-- **alloc_count.**  The number of live blocks of the configured allocator is a function of the
    tables: a well-formed prefix table holds 3 blocks per trie node (node, node_data, element array),
    a router-key table one block per entry plus `bucket_bit − 5` hash segments.  Every operation,
    under ANY behaviour of the oracle (failure-free or with a refused request at any position),
    changes the number of live blocks by exactly the change of that function — in particular a call
    that fails leaves nothing allocated behind.  (Queries: the caller owns one block exactly when a
    non-empty result is returned.) -/
theorem alloc_count (a : A) :
    (∀ T, TableWF T → pfxBlocks T = 3 * (T.v4.nodes.length + T.t6.nodes.length)) ∧
    (∀ T, spkiBlocks T = T.list.length + (T.ht.bucketBit - hashlinBit + 1)) ∧
    (∀ T op, TableWF T → net (prun a T op).1.trace = net a.trace + (pfxBlocks (prun a T op).2.1 - pfxBlocks T : Int)) ∧
    (∀ S D s, TableWF S → TableWF D →
      net (copyExceptF a S D s).1.trace = net a.trace + (pfxBlocks (copyExceptF a S D s).2.1 - pfxBlocks D : Int)) ∧
    (∀ T, net (freeF a T).1.trace = net a.trace - pfxBlocks T ∧ pfxBlocks (freeF a T).2 = 0) ∧
    (∀ T v6 asn q n, TableWF T →
      net (validateF a T v6 asn q n).1.trace = net a.trace +
        (if (validateF a T v6 asn q n).2.1 = .success ∧
            total 0 (validateR (if v6 then 128 else 32) q n asn (T.root v6)).2 ≠ 0 then 1 else 0)) ∧
    (∀ cb, net (kinitF a cb).1.trace = net a.trace + (if (kinitF a cb).2.isSome then 1 else 0)) ∧
    (∀ T op, SInv T → net (krun a T op).1.trace = net a.trace + (spkiBlocks (krun a T op).2.1 - spkiBlocks T : Int)) ∧
    (∀ S D s, SInv D →
      net (kcopyExceptF a S D s).1.trace = net a.trace + (spkiBlocks (kcopyExceptF a S D s).2.1 - spkiBlocks D : Int)) ∧
    (∀ T, net (kfreeF a T).trace = net a.trace - spkiBlocks T) ∧
    (∀ T asn ski, net (kgetAllF a T asn ski).1.trace = net a.trace + (if (kgetAllF a T asn ski).2.2 = [] then 0 else 1)) ∧
    (∀ T ski, net (ksearchBySkiF a T ski).1.trace = net a.trace + (if (ksearchBySkiF a T ski).2.2 = [] then 0 else 1)) := by
  refine ⟨fun T h => ?_, fun _ => rfl, fun T op h => ?_, fun S D s hS hD => (copyExceptF_ok a S D s hS hD).net,
    fun T => ⟨(freeF_net a T).1, (freeF_net a T).2.1⟩, fun T v6 asn q n h => ?_, fun cb => ?_, fun T op iv => ?_,
    fun S D s iv => (kcopyLoopF_ok s S.list a D iv).net, fun T => (kfreeF_ok a T).1, fun T asn ski => ?_, fun T ski => ?_⟩
  · simp only [pfxBlocks, trieBlocks_wf 32 _ 0 h.w4, trieBlocks_wf 128 _ 0 h.w6]; omega
  · cases op with
    | add r => exact (addF_ok a T r).net h
    | remove r => exact removeF_net a T r
    | srcRemove s => exact srcRemoveF_net a T s
  · have hne : ∀ c ∈ (validateR (if v6 then 128 else 32) q n asn (T.root v6)).2, c.data ≠ [] := by
      intro c hc
      have hm := walkR_sub _ q n asn (T.root v6) 0 false c hc
      exact ((All_iff _).1 (WF_nodeOK _ _ 0 (root_WF T v6 h)) c hm).2.2.2.1
    have hn := reasonReqs_net _ a 0 hne
    unfold validateF
    simp only
    generalize (if v6 then 128 else 32) = w at hn ⊢
    by_cases hrq : (reasonReqs a 0 (validateR w q n asn (T.root v6)).2).1 = true
    · simp only [hrq, if_true] at hn ⊢
      rw [hn]
      by_cases ht : total 0 (validateR w q n asn (T.root v6)).2 = 0 <;> simp [ht]
    · simp only [hrq, Bool.false_eq_true, if_false] at hn ⊢
      rw [hn]; simp
  · obtain ⟨h1, h2, _⟩ := kinitF_ok a cb
    by_cases hh : a.hits 1
    · obtain ⟨e, _, _, hn⟩ := h2 hh
      rw [hn, e]; simp
    · obtain ⟨e, _, _, hn⟩ := h1 hh
      rw [hn, e]; simp
  · cases op with
    | add r => exact (kaddF_ok a T r iv).net iv
    | remove r => exact (kremoveF_ok a iv r).1
    | srcRemove s => exact (ksrcRemoveF_ok a iv s).1
  · have hn := growReqs_net .result (T.getAll asn ski).length 0 a
    unfold kgetAllF
    simp only
    split
    · rename_i hok
      simp only [hok, if_true, Nat.zero_add] at hn
      rw [hn]
      cases hl : T.getAll asn ski <;> simp
    · rename_i hok
      simp only [hok] at hn
      rw [hn]; simp
  · have hn := growReqs_net .result (T.searchBySki ski).length 0 a
    unfold ksearchBySkiF
    simp only
    split
    · rename_i hok
      simp only [hok, if_true, Nat.zero_add] at hn
      rw [hn]
      cases hl : T.searchBySki ski <;> simp
    · rename_i hok
      simp only [hok] at hn
      rw [hn]; simp

/-! ## 5. balanced: nothing remains allocated, every release goes through the configured free -/

/-- a history of prefix-table operations, each with its own behaviour of the allocator -/
def phist : List (POp × Option Nat) → A → PfxTable → A × PfxTable
  | [], a, T => (a, T)
  | (op, k) :: rest, a, T => phist rest (prun { a with budget := k } T op).1 (prun { a with budget := k } T op).2.1

/-- a history of router-key-table operations -/
def khist : List (KOp × Option Nat) → A → SpkiTable → A × SpkiTable
  | [], a, T => (a, T)
  | (op, k) :: rest, a, T => khist rest (krun { a with budget := k } T op).1 (krun { a with budget := k } T op).2.1

theorem prun_nolibc (a : A) (T : PfxTable) (op : POp) (h : NoLibc a.trace) : NoLibc (prun a T op).1.trace := by
  cases op with
  | add r => exact (addF_ok a T r).nolibc h
  | remove r => exact (run_ok (remActs T r) a).nolibc h
  | srcRemove s => exact (run_ok _ _).nolibc ((run_ok _ a).nolibc h)

theorem krun_nolibc (a : A) (T : SpkiTable) (iv : SInv T) (op : KOp) (h : NoLibc a.trace) : NoLibc (krun a T op).1.trace := by
  cases op with
  | add r => exact (kaddF_ok a T r iv).nolibc h
  | remove r => exact (run_ok (kremActs T r) a).nolibc h
  | srcRemove s => exact (run_ok _ a).nolibc h

theorem phist_spec : ∀ (ops : List (POp × Option Nat)) (a : A) (T : PfxTable), TableWF T → (∀ x ∈ ops, x.1.OK) →
    TableWF (phist ops a T).2 ∧
    net (phist ops a T).1.trace = net a.trace + (pfxBlocks (phist ops a T).2 - pfxBlocks T : Int) ∧
    (NoLibc a.trace → NoLibc (phist ops a T).1.trace) := by
  intro ops
  induction ops with
  | nil => intro a T h _; exact ⟨h, by simp [phist], fun h => h⟩
  | cons x ops ih =>
    intro a T h hok
    obtain ⟨op, k⟩ := x
    have wf1 := (fail_keeps_invariant { a with budget := k }).1 T op h (hok (op, k) (by simp))
    have n1 := (alloc_count { a with budget := k }).2.2.1 T op h
    obtain ⟨i1, i2, i3⟩ := ih (prun { a with budget := k } T op).1 (prun { a with budget := k } T op).2.1 wf1
      (fun y hy => hok y (List.mem_cons_of_mem _ hy))
    have e : phist ((op, k) :: ops) a T =
        phist ops (prun { a with budget := k } T op).1 (prun { a with budget := k } T op).2.1 := rfl
    rw [e]
    refine ⟨i1, ?_, fun hn => i3 (prun_nolibc _ T op hn)⟩
    rw [i2, n1]
    show net a.trace + _ + _ = _
    omega

theorem khist_spec : ∀ (ops : List (KOp × Option Nat)) (a : A) (T : SpkiTable), SInv T →
    SInv (khist ops a T).2 ∧
    net (khist ops a T).1.trace = net a.trace + (spkiBlocks (khist ops a T).2 - spkiBlocks T : Int) ∧
    (NoLibc a.trace → NoLibc (khist ops a T).1.trace) := by
  intro ops
  induction ops with
  | nil => intro a T h; exact ⟨h, by simp [khist], fun h => h⟩
  | cons x ops ih =>
    intro a T iv
    obtain ⟨op, k⟩ := x
    have iv1 := (fail_keeps_invariant { a with budget := k }).2.2.1 T op iv
    have n1 := (alloc_count { a with budget := k }).2.2.2.2.2.2.2.1 T op iv
    obtain ⟨i1, i2, i3⟩ := ih (krun { a with budget := k } T op).1 (krun { a with budget := k } T op).2.1 iv1
    have e : khist ((op, k) :: ops) a T =
        khist ops (krun { a with budget := k } T op).1 (krun { a with budget := k } T op).2.1 := rfl
    rw [e]
    refine ⟨i1, ?_, fun hn => i3 (krun_nolibc _ T iv op hn)⟩
    rw [i2, n1]
    show net a.trace + _ + _ = _
    omega

/-- **balanced.**  Take any history of operations on a prefix table that starts empty, resp. on a
    router-key table created by `spki_table_init`, with ANY behaviour of the allocator in each
    operation (failure-free — the case the property names — or one refused request anywhere), and
    free the table at the end: the net number of live blocks over the whole trace is 0 — every block
    obtained from the configured allocator has been returned to it, nothing remains allocated — and no
    release in the whole trace goes through libc `free`. -/
theorem balanced :
    (∀ (ops : List (POp × Option Nat)), (∀ x ∈ ops, x.1.OK) →
      net (freeF (phist ops {} {}).1 (phist ops {} {}).2).1.trace = 0 ∧
      NoLibc (freeF (phist ops {} {}).1 (phist ops {} {}).2).1.trace) ∧
    (∀ (cb : Bool) (ops : List (KOp × Option Nat)),
      net (kfreeF (khist ops (kinitF {} cb).1 (SpkiTable.init cb)).1 (khist ops (kinitF {} cb).1 (SpkiTable.init cb)).2).trace = 0 ∧
      NoLibc (kfreeF (khist ops (kinitF {} cb).1 (SpkiTable.init cb)).1 (khist ops (kinitF {} cb).1 (SpkiTable.init cb)).2).trace) := by
  constructor
  · intro ops hok
    obtain ⟨_, h2, h3⟩ := phist_spec ops {} {} ⟨trivial, trivial⟩ hok
    have f := freeF_net (phist ops {} {}).1 (phist ops {} {}).2
    refine ⟨?_, ?_⟩
    · rw [f.1, h2]
      have : pfxBlocks ({} : PfxTable) = 0 := rfl
      rw [this]; simp
    · exact (run_ok _ _).nolibc ((run_ok _ _).nolibc (h3 (by intro e he; simp at he)))
  · intro cb ops
    obtain ⟨k1, _, k3⟩ := kinitF_ok {} cb
    obtain ⟨_, _, _, kn⟩ := k1 (not_hits_none rfl 1)
    obtain ⟨_, h2, h3⟩ := khist_spec ops (kinitF {} cb).1 (SpkiTable.init cb) (SpkiTable.sinv_init cb)
    have f := kfreeF_ok (khist ops (kinitF {} cb).1 (SpkiTable.init cb)).1 (khist ops (kinitF {} cb).1 (SpkiTable.init cb)).2
    refine ⟨?_, f.2.2.2 (h3 (k3 (by intro e he; simp at he)))⟩
    rw [f.1, h2, kn, spkiBlocks_init]
    simp
    omega

/-- **configured_free_only.**  No operation of the (fixed) code ever releases a block through libc
    `free`: if the trace so far is free of such releases, so is the trace after the operation. -/
theorem configured_free_only (a : A) (h : NoLibc a.trace) :
    (∀ T op, NoLibc (prun a T op).1.trace) ∧
    (∀ S D s, TableWF S → TableWF D → NoLibc (copyExceptF a S D s).1.trace) ∧
    (∀ T, NoLibc (freeF a T).1.trace) ∧
    (∀ T v6 asn q n, NoLibc (validateF a T v6 asn q n).1.trace) ∧
    (∀ cb, NoLibc (kinitF a cb).1.trace) ∧
    (∀ T op, SInv T → NoLibc (krun a T op).1.trace) ∧
    (∀ S D s, SInv D → NoLibc (kcopyExceptF a S D s).1.trace) ∧
    (∀ T, NoLibc (kfreeF a T).trace) ∧
    (∀ T asn ski, NoLibc (kgetAllF a T asn ski).1.trace) ∧
    (∀ T ski, NoLibc (ksearchBySkiF a T ski).1.trace) := by
  refine ⟨fun T op => prun_nolibc a T op h, fun S D s hS hD => (copyExceptF_ok a S D s hS hD).nolibc h,
    fun T => (run_ok _ _).nolibc ((run_ok _ a).nolibc h), fun T v6 asn q n => ?_, fun cb => (kinitF_ok a cb).2.2 h,
    fun T op iv => krun_nolibc a T iv op h, fun S D s iv => (kcopyLoopF_ok s S.list a D iv).nolibc h,
    fun T => (kfreeF_ok a T).2.2.2 h, fun T asn ski => ?_, fun T ski => ?_⟩
  · have := (reasonReqs_ok (validateR (if v6 then 128 else 32) q n asn (T.root v6)).2 a 0).nolibc h
    unfold validateF
    simp only
    generalize (if v6 then 128 else 32) = w at this ⊢
    split <;> exact this
  · have := (growReqs_ok .result (T.getAll asn ski).length 0 a).nolibc h
    unfold kgetAllF
    simp only
    split <;> exact this
  · have := (growReqs_ok .result (T.searchBySki ski).length 0 a).nolibc h
    unfold ksearchBySkiF
    simp only
    split <;> exact this

/-! ## 5b. synchronisation (rtr_sync_receive_and_store_pdus) under allocation failure -/

open Rtr.P (lsApplyAll) in
/-- **sync_fail_clean.**  For every behaviour of the allocator (any budget), every pair of well-formed
    tables, incremental update or full reload, and every well-formed answer of the cache (payload PDUs
    of this socket; duplicate announcements and unknown withdrawals allowed):

    * RTR_SUCCESS is returned only when EVERY payload PDU has been applied, in order — to the tables
      (incremental update), resp. to the records of the other sockets (full reload);
    * on RTR_ERROR without purge both tables hold exactly the records they held before (as sets; the
      forward-order undo restored them, or — full reload — the live tables were never touched);
    * on RTR_ERROR with purge exactly this socket's records are gone from both tables
      (`request_session_id` is then set: the next query is a Reset Query).

    This is the disjunction of C03, now including every allocation site of the synchronisation: the PDU
    buffers, the two shadow-table structs, the shadow hash table, every node / array / key entry of the
    copies and of the updates, the re-insertions of the undo. -/
theorem sync_fail_clean (a : A) (P : PfxTable) (K : SpkiTable) (reset : Bool) (items : List Item)
    (hP : TableWF P) (hK : SInv K) (hok : ∀ it ∈ items, it.OK) :
    Outcome P K (if reset then othersOf P K else absS P K)
      (items.filter Item.isP4 ++ items.filter Item.isP6 ++ items.filter Item.isKey) (syncF a P K reset items) := by
  have hops : ∀ it ∈ items.filter Item.isP4 ++ items.filter Item.isP6 ++ items.filter Item.isKey, it.OK := by
    intro it hit
    simp only [List.mem_append, List.mem_filter] at hit
    rcases hit with (h | h) | h <;> exact hok it h.1
  have stop : ∀ (x : A) (base : List (Rec ⊕ SpkiRec)) (ops : List Item),
      Outcome P K base ops (x, P, K, ⟨false, false⟩) := fun x base ops =>
    ⟨fun h => by simp at h, fun _ _ => List.Perm.refl _, fun _ h => by simp at h⟩
  cases reset with
  | true =>
    have e : syncF a P K true items = (if !(storeLoop items a {}).1 then
        (freeBufs (storeLoop items a {}).2.1 (storeLoop items a {}).2.2, P, K, ⟨false, false⟩)
        else syncReset (storeLoop items a {}).2.1 (storeLoop items a {}).2.2 P K
          (items.filter Item.isP4 ++ items.filter Item.isP6 ++ items.filter Item.isKey)) := rfl
    rw [e]
    simp only [if_true]
    split
    · exact stop _ _ _
    · exact syncReset_abs _ _ P K _ hP hK hops
  | false =>
    have e : syncF a P K false items = (if !(storeLoop items a {}).1 then
        (freeBufs (storeLoop items a {}).2.1 (storeLoop items a {}).2.2, P, K, ⟨false, false⟩)
        else syncUpdate (storeLoop items a {}).2.1 (storeLoop items a {}).2.2 P K
          (items.filter Item.isP4 ++ items.filter Item.isP6 ++ items.filter Item.isKey)) := rfl
    rw [e]
    simp only [Bool.false_eq_true, if_false]
    split
    · exact stop _ _ _
    · exact syncUpdate_abs _ _ P K _ hP hK hops

/-- **sync_no_leak.**  Whatever the allocator does during a synchronisation, afterwards both tables are
    well formed, the number of live blocks has changed by exactly the change of the two tables' block
    counts — the PDU buffers, the shadow tables and their contents, the old contents after a swap are
    all released on every path, nothing is released twice (the count would go below the tables') — and no
    release goes through libc `free`. -/
theorem sync_no_leak (a : A) (P : PfxTable) (K : SpkiTable) (reset : Bool) (items : List Item)
    (hP : TableWF P) (hK : SInv K) (hok : ∀ it ∈ items, it.OK) :
    TableWF (syncF a P K reset items).2.1 ∧ SInv (syncF a P K reset items).2.2.1 ∧
    net (syncF a P K reset items).1.trace = net a.trace +
      ((pfxBlocks (syncF a P K reset items).2.1 : Int) - pfxBlocks P) +
      ((spkiBlocks (syncF a P K reset items).2.2.1 : Int) - spkiBlocks K) ∧
    (NoLibc a.trace → NoLibc (syncF a P K reset items).1.trace) := by
  have h := syncF_ok a P K reset items hP hK hok
  refine ⟨h.wf, h.inv, ?_, h.nolibc⟩
  have := h.net
  have hb0 : bufsLive ({} : Bufs) = 0 := rfl
  rw [hb0] at this
  rw [this]; omega

/-! ## 5c. the growing PDU stores: a refused reallocation at any growth step, block by block -/

/-- **store_released_exactly_once.**  The three temporary PDU stores grow by `storeIncr`
    (= `TEMPORARY_PDU_STORE_INCREMENT_VALUE` of the tree under test) elements whenever they are full, by a
    `realloc` that may be refused.  For EVERY behaviour of the allocator and every answer of the cache
    (any number of PDUs of any kind, in any order): the store loop — run to its end or stopped by a refused
    reallocation — followed by the three releases of the `cleanup:` label returns every store block exactly
    once: no release names a block that is not live (no block returned twice, no foreign block; the old
    block of a refused `realloc` is still live and is released by the cleanup, by nobody else), and no
    store block is live afterwards (no leak).  `ledger` follows the blocks of one kind individually — of
    each store kind at most one is live — where `net` (sync_no_leak) only counts. -/
theorem store_released_exactly_once (a : A) (items : List Item) (h : ExactlyOnce a.trace) :
    ExactlyOnce (freeBufs (storeLoop items a {}).2.1 (storeLoop items a {}).2.2).trace :=
  freeBufs_ledger _ _ (storeLoop_ledger items a {} (fun k => by rw [h k]; cases k <;> rfl))

/-- **sync_store_fail_exact.**  `storeReqs items {}` is the number of reallocations the store loop makes
    for the answer `items`: one for the first PDU of a kind and one more whenever `storeIncr` further PDUs
    of that kind have arrived (element storeIncr + 1, 2·storeIncr + 1, … finds its store full).  For every
    answer — of every length — and EVERY failing allocation index k below that number, for every pair of
    tables, incremental update or full reload:

    * the synchronisation reports an error (RTR_ERROR, no purge: the next query is what it was),
    * both tables are EXACTLY what they were (not a single field differs),
    * exactly one request was refused,
    * every block obtained during the call has been returned exactly once — the store whose reallocation
      was refused keeps its old block until the cleanup releases it, once; nothing is released twice,
      nothing remains allocated. -/
theorem sync_store_fail_exact (P : PfxTable) (K : SpkiTable) (reset : Bool) (items : List Item) (k : Nat)
    (hk : k < storeReqs items {}) :
    (syncF { budget := some k } P K reset items).2.2.2 = ⟨false, false⟩ ∧
    (syncF { budget := some k } P K reset items).2.1 = P ∧
    (syncF { budget := some k } P K reset items).2.2.1 = K ∧
    refusals (syncF { budget := some k } P K reset items).1.trace = 1 ∧
    net (syncF { budget := some k } P K reset items).1.trace = 0 ∧
    ExactlyOnce (syncF { budget := some k } P K reset items).1.trace := by
  obtain ⟨h1, h2⟩ := (storeLoop_req items { budget := some k } {}).2 (hits_some hk)
  have e : syncF { budget := some k } P K reset items =
      (freeBufs (storeLoop items { budget := some k } {}).2.1 (storeLoop items { budget := some k } {}).2.2,
        P, K, ⟨false, false⟩) := by
    unfold syncF
    simp [h1]
  rw [e]
  refine ⟨rfl, rfl, rfl, ?_, ?_, store_released_exactly_once _ items (fun k => by cases k <;> rfl)⟩
  · show refusals (freeBufs _ _).trace = 1
    unfold freeBufs
    rw [freeIf_refusals, freeIf_refusals, freeIf_refusals, h2]; rfl
  · show net (freeBufs _ _).trace = 0
    rw [(freeBufs_ok _ _).1, (storeLoop_ok items { budget := some k } {}).1]
    have : bufsLive ({} : Bufs) = 0 := rfl
    rw [this]; simp

/-! ## 6. non-vacuity: concrete states meeting the hypotheses -/

def p1 : Rec := ⟨false, 0x0a000000, 8, 8, 65001, 1⟩
def p2 : Rec := ⟨false, 0x0a000000, 8, 9, 65001, 1⟩
def p3 : Rec := ⟨false, 0x0a000000, 8, 10, 65001, 2⟩
def p4 : Rec := ⟨true, 0x20010db8000000000000000000000000, 32, 48, 65002, 1⟩

/-- one IPv4 node with three elements (two of source 1) -/
def demoP : PfxTable := ((((({} : PfxTable).add p1).1).add p2).1.add p3).1

theorem demoP_v4 : demoP.v4 = .node ⟨0x0a000000, 8, [p1.elem, p2.elem, p3.elem]⟩ .nil .nil := by decide
theorem demoP_t6 : demoP.t6 = .nil := by decide

theorem demoP_acts4 : removeIdActs 1 demoP.v4 = [.shrink .ary 2, .shrink .ary 1] := by
  rw [demoP_v4]
  simp [removeIdActs, delActs, Rec.elem, p1, p2, p3]
  decide

theorem demoP_acts6 : removeIdActs 1 demoP.t6 = [] := by rw [demoP_t6, removeIdActs]

theorem demoP_rid4 : removeId 1 demoP.v4 =
    (.node ⟨0x0a000000, 8, [p3.elem]⟩ .nil .nil, [(0x0a000000, 8, p1.elem), (0x0a000000, 8, p2.elem)]) := by
  rw [demoP_v4]
  simp [removeId, Rec.elem, p1, p2, p3]

theorem demoP_srcRemove : (demoP.srcRemove 1).recs = [p3] := by
  unfold PfxTable.srcRemove
  rw [demoP_rid4]
  simp only
  have e : (({ demoP with v4 := Trie.node ⟨0x0a000000, 8, [p3.elem]⟩ .nil .nil } : PfxTable).notifyAll false
      ([(0x0a000000, 8, p1.elem), (0x0a000000, 8, p2.elem)].map fun (ad, ln, e) => mkRec false ad ln e)).t6 = .nil := by decide
  have r6 : removeId 1 (Trie.nil) = (.nil, []) := by rw [removeId]
  rw [e, r6]
  decide

-- a new prefix passes three sites, a new element on an existing node one, a duplicate none;
-- removing one of several elements passes the shrinking realloc, removing by source two of them
example : preqs demoP (.add p4) = 3 ∧ preqs demoP (.add ⟨false, 0x0a000000, 8, 11, 1, 1⟩) = 1 ∧
    preqs demoP (.add p1) = 0 ∧ preqs demoP (.remove p2) = 1 ∧ preqs demoP (.srcRemove 1) = 2 := by
  refine ⟨by decide, by decide, by decide, by decide, ?_⟩
  simp only [preqs, demoP_acts4, demoP_acts6]
  decide

-- the three refusals of an add, spelled out: error, table untouched, nothing left allocated
example : (prun { budget := some 0 } demoP (.add p4)).2.2 = .error ∧
    (prun { budget := some 1 } demoP (.add p4)).2.2 = .error ∧
    (prun { budget := some 2 } demoP (.add p4)).2.2 = .error ∧
    (prun { budget := some 2 } demoP (.add p4)).1.trace =
      [.malloc .node 1 true, .malloc .ndata 1 true, .realloc .ary 0 1 false, .free .ndata 1, .free .node 1] ∧
    net (prun { budget := some 2 } demoP (.add p4)).1.trace = 0 ∧
    (prun { budget := some 3 } demoP (.add p4)).2.2 = .success := by decide

-- an absorbed shrink: the second shrinking realloc of a removal by source is refused, both records go
example : (prun { budget := some 1 } demoP (.srcRemove 1)).2.1.recs = [p3] ∧
    (prun { budget := some 1 } demoP (.srcRemove 1)).2.2 = .success ∧
    (prun { budget := some 1 } demoP (.srcRemove 1)).1.trace =
      [.realloc .ary 3 2 true, .realloc .ary 2 1 false] := by
  refine ⟨demoP_srcRemove, rfl, ?_⟩
  show ((({ budget := some 1 } : A).run (removeIdActs 1 demoP.v4)).run (removeIdActs 1 demoP.t6)).trace = _
  rw [demoP_acts4, demoP_acts6]
  decide

theorem demoP_wf : TableWF demoP ∧ POp.OK (.add p1) := by
  have k1 : RecOK p1 := ⟨by decide, by decide, hostZero_of_mod _ _ _ (by decide)⟩
  have k2 : RecOK p2 := ⟨by decide, by decide, hostZero_of_mod _ _ _ (by decide)⟩
  have k3 : RecOK p3 := ⟨by decide, by decide, hostZero_of_mod _ _ _ (by decide)⟩
  have w0 : TableWF ({} : PfxTable) := ⟨trivial, trivial⟩
  exact ⟨(add_spec _ p3 (add_spec _ p2 (add_spec _ p1 w0 k1).wf k2).wf k3).wf, k1⟩

def k1 : SpkiRec := ⟨65001, 0xaa, 0xbb, 1⟩
def k2 : SpkiRec := ⟨65001, 0xaa, 0xbb, 2⟩

/-- a router-key table with 32 entries: the 33rd makes `hashlin_grow_step` ask for a segment -/
def demoK : SpkiTable := (List.range 32).foldl (fun T i => (T.add ⟨i, 1, 2, 1⟩).1) (SpkiTable.init true)

theorem foldl_add_sinv : ∀ (l : List Nat) (T : SpkiTable), SInv T →
    SInv (l.foldl (fun T i => (T.add ⟨i, 1, 2, 1⟩).1) T) := by
  intro l
  induction l with
  | nil => intro T h; exact h
  | cons x xs ih => intro T h; exact ih _ (add_sinv h _)

theorem demoK_sinv : SInv demoK := foldl_add_sinv _ _ (SpkiTable.sinv_init true)

example : kreqs demoK (.add k1) = 2 ∧ demoK.list.length = 32 ∧ demoK.ht.bucketBit = 6 := by
  refine ⟨by decide +kernel, by decide +kernel, by decide +kernel⟩

-- the segment is refused: the key is stored, the table has not grown (it grows when nothing is refused)
example : (krun { budget := some 1 } demoK (.add k1)).2.2 = .success ∧
    (krun { budget := some 1 } demoK (.add k1)).2.1.ht.bucketBit = 6 ∧
    (krun { budget := none } demoK (.add k1)).2.1.ht.bucketBit = 7 ∧
    (krun { budget := some 0 } demoK (.add k1)).2.2 = .error := by
  refine ⟨by decide +kernel, by decide +kernel, by decide +kernel, by decide +kernel⟩

-- synchronisations: tables with one record of this socket (source 0) and one of another socket
def o1 : Rec := ⟨false, 0x0a000000, 8, 8, 65001, 0⟩
def o2 : Rec := ⟨false, 0x0b000000, 8, 8, 65001, 0⟩
def x1 : Rec := ⟨false, 0x0c000000, 8, 10, 65001, 2⟩
def syncP : PfxTable := ((({} : PfxTable).add o1).1.add x1).1
def syncK : SpkiTable := ((SpkiTable.init true).add ⟨1, 2, 3, 0⟩).1
/-- announce o2, withdraw o1, announce a router key -/
def answer1 : List Item := [.p4 true o2, .p4 false o1, .key true ⟨5, 6, 7, 0⟩]
/-- withdraw o1, then a duplicate announcement (of a record this socket does not own): the update
    fails and the undo has to re-insert o1 (three allocation requests) -/
def answer2 : List Item := [.p4 false o1, .p4 true ⟨false, 0x0c000000, 8, 10, 65001, 0⟩, .p4 true ⟨false, 0x0c000000, 8, 10, 65001, 0⟩]
def answer3 : List Item := [.p4 true o2, .key true ⟨5, 6, 7, 0⟩]

theorem sync_demo_hyps : TableWF syncP ∧ SInv syncK ∧ (∀ it ∈ answer1, it.OK) ∧ (∀ it ∈ answer2, it.OK) := by
  have k : ∀ (a ml asn src : Nat), a % 2 ^ 24 = 0 → a < 2 ^ 32 → RecOK ⟨false, a, 8, ml, asn, src⟩ :=
    fun a ml asn src h1 h2 => ⟨by show 8 ≤ 32; omega, h2, hostZero_of_mod _ _ _ h1⟩
  have w0 : TableWF ({} : PfxTable) := ⟨trivial, trivial⟩
  refine ⟨(add_spec _ x1 (add_spec _ o1 w0 (k _ _ _ _ (by decide) (by decide))).wf (k _ _ _ _ (by decide) (by decide))).wf,
    add_sinv (SpkiTable.sinv_init true) _, ?_, ?_⟩
  · intro it hit
    simp only [answer1, List.mem_cons, List.not_mem_nil, or_false] at hit
    rcases hit with rfl | rfl | rfl
    · exact ⟨k _ _ _ _ (by decide) (by decide), rfl⟩
    · exact ⟨k _ _ _ _ (by decide) (by decide), rfl⟩
    · rfl
  · intro it hit
    simp only [answer2, List.mem_cons, List.not_mem_nil, or_false] at hit
    rcases hit with rfl | rfl | rfl
    · exact ⟨k _ _ _ _ (by decide) (by decide), rfl⟩
    · exact ⟨k _ _ _ _ (by decide) (by decide), rfl⟩
    · exact ⟨k _ _ _ _ (by decide) (by decide), rfl⟩

-- all three outcomes occur: success (nothing refused), error with the tables as before (first PDU
-- buffer refused; the node of o2 refused), error with purge (the undo's re-insertion refused)
example : (syncF {} syncP syncK false answer1).2.2.2 = ⟨true, false⟩ ∧
    (syncF {} syncP syncK false answer1).2.1.recs = [o2, x1] ∧
    (syncF { budget := some 0 } syncP syncK false answer1).2.2.2 = ⟨false, false⟩ ∧
    (syncF { budget := some 0 } syncP syncK false answer1).2.1.recs = syncP.recs ∧
    (syncF { budget := some 2 } syncP syncK false answer1).2.2.2 = ⟨false, false⟩ ∧
    (syncF { budget := some 2 } syncP syncK false answer1).2.1.recs = syncP.recs := by decide

example : (syncF {} syncP syncK false answer2).2.2.2 = ⟨false, false⟩ ∧
    (syncF { budget := some 4 } syncP syncK false answer2).2.2.2 = ⟨false, true⟩ := by decide

-- a full reload: the records of the other socket survive, this socket's are replaced
example : (syncF {} syncP syncK true answer3).2.2.2 = ⟨true, false⟩ ∧
    (syncF {} syncP syncK true answer3).2.1.recs = [o2, x1] ∧
    (syncF { budget := some 3 } syncP syncK true answer3).2.2.2 = ⟨false, false⟩ := by
  refine ⟨by decide +kernel, by decide +kernel, by decide +kernel⟩

-- an answer with more PDUs of one kind than a store holds: `n` announcements of distinct IPv4 prefixes
def longAnswer (n : Nat) : List Item :=
  (List.range n).map fun i => Item.p4 true ⟨false, 0x0a000000 + 256 * i, 24, 24, 65001, 0⟩

-- storeIncr PDUs fit into the first block; PDU storeIncr + 1 makes the store grow, PDU 2·storeIncr + 1
-- again.  The growth request (k = 1) refused: error, the old block — still live — is released once by
-- the cleanup, the tables are untouched.
example : storeReqs (longAnswer storeIncr) {} = 1 ∧ storeReqs (longAnswer (storeIncr + 1)) {} = 2 ∧
    storeReqs (longAnswer (2 * storeIncr + 1)) {} = 3 ∧
    (syncF { budget := some 1 } syncP syncK false (longAnswer (storeIncr + 1))).1.trace =
      [.realloc .pdu4 0 storeIncr true, .realloc .pdu4 storeIncr (2 * storeIncr) false, .free .pdu4 storeIncr] ∧
    (syncF { budget := some 1 } syncP syncK false (longAnswer (storeIncr + 1))).2.2.2 = ⟨false, false⟩ ∧
    (syncF { budget := some 2 } syncP syncK true (longAnswer (2 * storeIncr + 1))).1.trace =
      [.realloc .pdu4 0 storeIncr true, .realloc .pdu4 storeIncr (2 * storeIncr) true,
       .realloc .pdu4 (2 * storeIncr) (3 * storeIncr) false, .free .pdu4 (2 * storeIncr)] := by
  refine ⟨by decide +kernel, by decide +kernel, by decide +kernel, by decide +kernel, by decide +kernel, by decide +kernel⟩

-- the ledger is not vacuous: a store released by the failing helper AND by the cleanup (one block returned
-- twice) is rejected although a leak elsewhere could hide it from the net count; so is a store never released
example : ledger .pdu4 [.realloc .pdu4 0 100 true, .realloc .pdu4 100 200 false, .free .pdu4 100, .free .pdu4 100] 0 = none ∧
    ledger .pdu4 [.realloc .pdu4 0 100 true, .realloc .pdu4 100 200 false] 0 = some 1 ∧
    ledger .pdu4 [.realloc .pdu4 0 100 true, .realloc .pdu4 100 200 false, .free .pdu4 100] 0 = some 0 := by decide


/-! ## 7. the unfixed code, as kernel-checked witnesses

  Each witness is replayed on the implementation by a file of corpus/alloc/.

  F15  spki_table_free / spki_table_free_without_notify hand the entries to libc `free`.
  F16a hashlin_grow_step uses the refused segment pointer.
  F16b spki_table_init (returns void) cannot report the refused first segment; the next operation
       dereferences the NULL bucket pointer (no model: the function has no outcome to report).
  F16c pfx_table_del_elem reports a refused SHRINKING realloc as an error; pfx_table_src_remove then
       stops in the middle.
  F16d pfx_table_validate_r overwrites the reason pointer with the result of realloc. -/

/-- F15: with the unfixed release path a table with two entries gives back only the hash segment:
    the two entries reach libc `free` and are never returned to the configured allocator -/
theorem F15_unfixed_violates :
    let T := ((SpkiTable.init true).add k1).1.add k2 |>.1
    Ev.libcFree .entry 1 ∈ (kfreeU {} T).trace ∧ ¬ NoLibc (kfreeU {} T).trace ∧
    spkiBlocks T = 3 ∧ net (kfreeU {} T).trace = -1 := by
  intro T
  have h1 : Ev.libcFree .entry 1 ∈ (kfreeU {} T).trace := by decide +kernel
  refine ⟨h1, fun h => h _ h1 .entry 1 rfl, by decide +kernel, by decide +kernel⟩

/-- F16a: a table reached by 32 insertions satisfies the invariant; the 33rd insertion asks for a
    segment, and when it is refused the unfixed grow step has no defined result (NULL is used),
    whereas the fixed one leaves the linked table, which satisfies the invariant -/
theorem F16a_unfixed_crashes :
    let h := (List.range 32).foldl (fun (h : Hashlin Nat) i => h.insert i (5 + 64 * i)) Hashlin.init
    h.Inv ∧ (growStepU { budget := some 0 } (linked h 32 (5 + 64 * 32))).2 = none ∧
    (growStepF { budget := some 0 } (linked h 32 (5 + 64 * 32))).2 = linked h 32 (5 + 64 * 32) ∧
    (linked h 32 (5 + 64 * 32)).Inv := by
  intro h
  have hinv : h.Inv := by
    have : ∀ (l : List Nat) (g : Hashlin Nat), g.Inv → (l.foldl (fun (h : Hashlin Nat) i => h.insert i (5 + 64 * i)) g).Inv := by
      intro l
      induction l with
      | nil => intro g hg; exact hg
      | cons x xs ih => intro g hg; exact ih _ (Hashlin.insert_spec g hg _ _).1
    exact this _ _ Hashlin.init_inv
  have hn : needSeg (linked h 32 (5 + 64 * 32)) = true := by decide +kernel
  refine ⟨hinv, ?_, ?_, (linked_spec h hinv 32 _).1⟩
  · simp [growStepU, hn, A.malloc, A.take]
  · simp [growStepF, hn, A.malloc, A.take]

/-- F16c: the unfixed remove-by-source on the node [p1, p2, p3] (p1, p2 of source 1), second shrinking
    realloc refused: PFX_ERROR is returned, p1 is gone (its removal already notified), p2 is still
    there — neither the old contents nor the complete effect -/
theorem F16c_unfixed_violates :
    (srcRemoveU { budget := some 1 } demoP 1).2.2 = .error ∧
    (srcRemoveU { budget := some 1 } demoP 1).2.1.recs = [p3, p2] ∧
    demoP.recs = [p1, p2, p3] ∧ (demoP.srcRemove 1).recs = [p3] ∧
    (srcRemoveU { budget := some 1 } demoP 1).2.1.log = demoP.log ++ [(false, p1)] := by
  have h : (srcRemoveU { budget := some 1 } demoP 1).2.2 = .error ∧
      (srcRemoveU { budget := some 1 } demoP 1).2.1.recs = [p3, p2] ∧
      (srcRemoveU { budget := some 1 } demoP 1).2.1.log = demoP.log ++ [(false, p1)] := by
    unfold srcRemoveU
    rw [demoP_v4, removeIdU]
    decide
  exact ⟨h.1, h.2.1, by decide, demoP_srcRemove, h.2.2⟩

/-- F16d: two covering nodes, the second realloc of the reason array refused: the unfixed loop
    leaves one block allocated that nobody owns; the fixed one releases it -/
theorem F16d_unfixed_leaks :
    let cs : List NodeC := [⟨0, 0, [⟨1, 0, 1⟩]⟩, ⟨0, 1, [⟨2, 1, 1⟩]⟩]
    (reasonReqsU { budget := some 1 } 0 cs).1 = false ∧ net (reasonReqsU { budget := some 1 } 0 cs).2.trace = 1 ∧
    (reasonReqs { budget := some 1 } 0 cs).1 = false ∧ net (reasonReqs { budget := some 1 } 0 cs).2.trace = 0 := by
  decide

end Rtr.C18
