/-
  C02 — The prefix table is an exact set of records under every operation history.

  Model: RtrModel.PfxTable (`add`, `remove`, `srcRemove`, `recs` = the enumeration order of
  pfx_table_for_each_ipv4_record followed by pfx_table_for_each_ipv6_record).
  Specification: a list of records without duplicates, read up to permutation (a finite set).
  Quantifier: every finite sequence of operations over records whose prefix is well formed for
  its family (length ≤ 32/128, host bits zero); max-length, AS and source are arbitrary.
-/
import RtrProofs.TableSet

namespace Rtr.C02
open Rtr PfxTable

/-! ### the mathematical set -/

def specAdd (s : List Rec) (r : Rec) : List Rec × PfxRc :=
  if r ∈ s then (s, .duplicate) else (r :: s, .success)

def specRemove (s : List Rec) (r : Rec) : List Rec × PfxRc :=
  if r ∈ s then (s.erase r, .success) else (s, .notFound)

def specSrcRemove (s : List Rec) (src : Nat) : List Rec := s.filter fun r => r.src != src

inductive Op where
  | add (r : Rec)
  | remove (r : Rec)
  | srcRemove (src : Nat)

def Op.OK : Op → Prop
  | .add r => RecOK r
  | .remove _ => True
  | .srcRemove _ => True

def stepT (T : PfxTable) : Op → PfxTable × PfxRc
  | .add r => T.add r
  | .remove r => T.remove r
  | .srcRemove s => (T.srcRemove s, .success)

def stepS (s : List Rec) : Op → List Rec × PfxRc
  | .add r => specAdd s r
  | .remove r => specRemove s r
  | .srcRemove x => (specSrcRemove s x, .success)

def runT : List Op → PfxTable → PfxTable × List PfxRc
  | [], T => (T, [])
  | op :: ops, T => let (T', c) := stepT T op; let (T'', cs) := runT ops T'; (T'', c :: cs)

def runS : List Op → List Rec → List Rec × List PfxRc
  | [], s => (s, [])
  | op :: ops, s => let (s', c) := stepS s op; let (s'', cs) := runS ops s'; (s'', c :: cs)

/-! ### per-operation refinement -/

/-- adding a present record reports a duplicate and changes nothing; adding an absent one
    succeeds and the contents gain exactly that record -/
theorem add_refines (T : PfxTable) (r : Rec) (h : TableWF T) (hr : RecOK r) :
    TableWF (T.add r).1 ∧
    (r ∈ T.recs → (T.add r).2 = .duplicate ∧ (T.add r).1 = T) ∧
    (r ∉ T.recs → (T.add r).2 = .success ∧ (T.add r).1.recs.Perm (r :: T.recs)) := by
  have s := add_spec T r h hr
  exact ⟨s.wf, s.dup, fun hn => ⟨(s.ok hn).1, (s.ok hn).2.1⟩⟩

/-- removing an absent record reports not-found and changes nothing; removing a present one
    succeeds and the contents lose exactly that record -/
theorem remove_refines (T : PfxTable) (r : Rec) (h : TableWF T) :
    TableWF (T.remove r).1 ∧
    (r ∉ T.recs → (T.remove r).2 = .notFound ∧ (T.remove r).1 = T) ∧
    (r ∈ T.recs → (T.remove r).2 = .success ∧ T.recs.Perm (r :: (T.remove r).1.recs)) := by
  have s := remove_spec T r h
  exact ⟨s.wf, s.nf, fun hn => ⟨(s.ok hn).1, (s.ok hn).2.1⟩⟩

/-- removing by source deletes exactly that source's records -/
theorem srcRemove_refines (T : PfxTable) (src : Nat) (h : TableWF T) :
    TableWF (T.srcRemove src) ∧ (T.srcRemove src).recs.Perm (T.recs.filter fun r => r.src != src) := by
  have s := srcRemove_spec T src h
  exact ⟨s.wf, s.recs⟩

/-- enumeration yields every stored record exactly once: the enumeration of a well-formed table
    has no repeated record (fields intact: the enumeration *is* the list of stored
    (prefix, length, max-length, AS, source) tuples, `PfxTable.recs`) -/
theorem forEach_enumerates (T : PfxTable) (h : TableWF T) : T.recs.Nodup := by
  unfold PfxTable.recs recs4 recs6
  rw [trieRecs_eq, trieRecs_eq, List.nodup_append]
  refine ⟨?_, ?_, ?_⟩
  · exact List.Pairwise.map _ (fun a b hab e => hab (toRec_inj false a b e)) (WF_elems_nodup 32 _ 0 h.w4)
  · exact List.Pairwise.map _ (fun a b hab e => hab (toRec_inj true a b e)) (WF_elems_nodup 128 _ 0 h.w6)
  · intro a ha b hb e
    subst e
    simp only [List.mem_map] at ha hb
    obtain ⟨x, _, hx⟩ := ha
    obtain ⟨y, _, hy⟩ := hb
    have : (toRec false x).v6 = (toRec true y).v6 := by rw [hx, hy]
    simp [toRec, mkRec] at this

/-! ### histories -/

theorem perm_erase_of_cons {r : Rec} {s t : List Rec} (h : s.Perm (r :: t)) : (s.erase r).Perm t := by
  have := h.erase r
  simpa using this

/-- one step preserves: well-formedness, "contents = the set", equal return codes -/
theorem step_refines (T : PfxTable) (s : List Rec) (op : Op) (h : TableWF T) (hp : T.recs.Perm s) (hop : op.OK) :
    TableWF (stepT T op).1 ∧ (stepT T op).1.recs.Perm (stepS s op).1 ∧ (stepT T op).2 = (stepS s op).2 := by
  cases op with
  | add r =>
    have a := add_spec T r h hop
    simp only [stepT, stepS, specAdd]
    by_cases hin : r ∈ T.recs
    · have hin' : r ∈ s := hp.mem_iff.1 hin
      obtain ⟨h1, h2⟩ := a.dup hin
      simp only [hin', if_true]
      exact ⟨a.wf, by rw [h2]; exact hp, h1⟩
    · have hin' : r ∉ s := fun x => hin (hp.mem_iff.2 x)
      obtain ⟨h1, h2, _⟩ := a.ok hin
      simp only [hin', if_false]
      exact ⟨a.wf, h2.trans (List.Perm.cons r hp), h1⟩
  | remove r =>
    have a := remove_spec T r h
    simp only [stepT, stepS, specRemove]
    by_cases hin : r ∈ T.recs
    · have hin' : r ∈ s := hp.mem_iff.1 hin
      obtain ⟨h1, h2, _⟩ := a.ok hin
      simp only [hin', if_true]
      refine ⟨a.wf, ?_, h1⟩
      exact (perm_erase_of_cons (hp.symm.trans h2)).symm
    · have hin' : r ∉ s := fun x => hin (hp.mem_iff.2 x)
      obtain ⟨h1, h2⟩ := a.nf hin
      simp only [hin', if_false]
      exact ⟨a.wf, by rw [h2]; exact hp, h1⟩
  | srcRemove src =>
    have a := srcRemove_spec T src h
    simp only [stepT, stepS, specSrcRemove]
    exact ⟨a.wf, a.recs.trans (hp.filter _), trivial⟩

/-- **C02**: for every finite history of add / remove / remove-by-source, starting from any
    well-formed table whose contents are the set `s`, the final contents are the set obtained
    by applying the same operations to `s`, every return code is the one the set semantics
    prescribes, and the enumeration has no repeated record. -/
theorem history_refines : ∀ (ops : List Op) (T : PfxTable) (s : List Rec), TableWF T → T.recs.Perm s →
    (∀ op ∈ ops, op.OK) →
    TableWF (runT ops T).1 ∧ (runT ops T).1.recs.Perm (runS ops s).1 ∧ (runT ops T).2 = (runS ops s).2 ∧
      (runT ops T).1.recs.Nodup := by
  intro ops
  induction ops with
  | nil => intro T s h hp _; exact ⟨h, hp, rfl, forEach_enumerates T h⟩
  | cons op ops ih =>
    intro T s h hp hok
    obtain ⟨w1, p1, c1⟩ := step_refines T s op h hp (hok op (by simp))
    obtain ⟨w2, p2, c2, n2⟩ := ih (stepT T op).1 (stepS s op).1 w1 p1 (fun o ho => hok o (List.mem_cons_of_mem _ ho))
    simp only [runT, runS]
    exact ⟨w2, p2, by rw [c1, c2], n2⟩

/-- the empty table (after `pfx_table_init`) is well formed and holds the empty set -/
theorem init_ok : TableWF {} ∧ ({} : PfxTable).recs = [] := ⟨⟨trivial, trivial⟩, rfl⟩

/-! ### non-vacuity: a concrete history with a duplicate, an unknown removal, a pull-up and a
    removal by source, evaluated by the kernel -/

def r1 : Rec := ⟨false, 0x0a000000, 8, 24, 65001, 1⟩
def r2 : Rec := ⟨false, 0x0a010000, 16, 16, 65002, 2⟩
def r3 : Rec := ⟨false, 0x00000000, 0, 0, 0, 1⟩
def r4 : Rec := ⟨true, 0x20010db8000000000000000000000000, 32, 48, 65001, 1⟩

def demo : List Op := [.add r2, .add r1, .add r1, .add r3, .add r4, .remove r4, .remove r4, .add r4, .remove r3]

example : (runT demo {}).2 = [.success, .success, .duplicate, .success, .success, .success, .notFound, .success, .success] := by
  decide

example : (runT demo {}).1.recs = [r2, r1, r4] := by decide

example : (runS demo []).1 = [r4, r1, r2] := by decide

theorem demo_ok : ∀ op ∈ demo ++ [.srcRemove 1], op.OK := by
  have k : ∀ (v6 : Bool) (a n ml asn src : Nat), n ≤ (if v6 then 128 else 32) → a < 2^(if v6 then 128 else 32) →
      a % 2^((if v6 then 128 else 32) - n) = 0 → RecOK ⟨v6, a, n, ml, asn, src⟩ :=
    fun v6 a n ml asn src h1 h2 h3 => ⟨h1, h2, hostZero_of_mod _ _ _ h3⟩
  intro op hop
  simp only [demo, List.cons_append, List.nil_append, List.mem_cons, List.not_mem_nil, or_false] at hop
  rcases hop with rfl | rfl | rfl | rfl | rfl | rfl | rfl | rfl | rfl | rfl <;>
    first | trivial | exact k _ _ _ _ _ _ (by decide) (by decide) (by decide)

/-- the hypotheses of `history_refines` are met by a concrete history that includes a removal
    by source -/
example : (runT (demo ++ [.srcRemove 1]) {}).1.recs.Perm (runS (demo ++ [.srcRemove 1]) []).1 :=
  (history_refines _ {} [] init_ok.1 (by rw [init_ok.2]) demo_ok).2.1

end Rtr.C02
