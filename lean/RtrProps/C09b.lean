/-
  C09 (continued) — the atomic reload reports exactly the net difference.

  RtrProps/C09 proves that the callback stream of a prefix table (ghost field `PfxTable.log`)
  replays to the table's contents after every history of add / remove / remove-by-source and
  after destruction.  This file closes the part left open there: the atomic reload performed by
  `rtr_sync_receive_and_store_pdus` (rtrlib/rtr/packets.c) —

      shadow table without callback
      pfx_table_copy_except_socket(live, shadow, socket)      -- records of the other sources
      pfx_table_add(shadow, r) for the new data set of `socket`
      pfx_table_swap(live, shadow)                            -- roots change places
      pfx_table_notify_diff(live, shadow, socket)             -- callbacks on the live table
      shadow (old roots) dropped without notification

  (model: `Rtr.reload`, built from `PfxTable.copyExcept`, `PfxTable.add`, `PfxTable.swap`,
  `PfxTable.notifyDiff`; helper lemmas in RtrProofs/NotifyDiff).

  * `notifyDiff_net`      — pfx_table_notify_diff leaves the contents alone and appends exactly
                            one "added" per record of the socket held by the new table only, then
                            exactly one "removed" per record of the socket held by the old table only.
  * `notifyDiff_logOK`    — hence: if the log replayed to the old contents and the two tables
                            agree outside the socket, the log now replays to the new contents.
  * `reload_log_replays`  — the whole reload keeps `LogOK`, well-formedness and the callback,
                            every step of it succeeds, and the contents become
                            (old contents without the socket's records) ∪ (new data set).
  * `log_replays_reload`  — `log_replays` for histories whose operations include reloads.
-/
import RtrProofs.NotifyDiff
import RtrProps.C09

namespace Rtr.C09
open Rtr PfxTable

/-! ### pfx_table_notify_diff reports the net difference -/

/-- **C09 (reload), the diff pass.**  For well-formed tables `N` (new roots, callback set) and `O`
    (old roots): `pfx_table_notify_diff(N, O, src)` does not change what `N` holds, and extends
    `N`'s callback stream by `added` ("added" entries) followed by `gone` ("removed" entries),
    where `added` is — up to order — the duplicate-free list of records of `src` that are in `N`
    and not in `O`, and `gone` the duplicate-free list of records of `src` that are in `O` and
    not in `N`.  Nothing else is appended: no entry for another source, none for a record held by
    both, none twice. -/
theorem notifyDiff_net (N O : PfxTable) (src : Nat) (hN : TableWF N) (hO : TableWF O) (hcb : N.hasCb = true) :
    (notifyDiff N O src).1.recs = N.recs ∧
    (notifyDiff N O src).1.v4 = N.v4 ∧ (notifyDiff N O src).1.t6 = N.t6 ∧
    (notifyDiff N O src).1.hasCb = true ∧
    ∃ added gone : List Rec,
      (notifyDiff N O src).1.log = N.log ++ added.map (fun r => (true, r)) ++ gone.map (fun r => (false, r)) ∧
      added.Perm (N.recs.filter fun r => r.src == src && !decide (r ∈ O.recs)) ∧
      gone.Perm (O.recs.filter fun r => r.src == src && !decide (r ∈ N.recs)) ∧
      added.Nodup ∧ gone.Nodup := by
  have s := notifyDiff_spec N O src hN hO
  obtain ⟨gone, g1, g2⟩ := s.log
  rw [hcb, if_pos rfl] at g2
  refine ⟨recs_of_roots _ _ s.v4 s.t6, s.v4, s.t6, by rw [s.cb, hcb], addedBy src N.recs O.recs, gone, g2,
    List.Perm.refl _, g1, (recs_nodup N hN).sublist List.filter_sublist, ?_⟩
  exact g1.nodup_iff.2 ((recs_nodup O hO).sublist List.filter_sublist)

/-- the table that holds the old roots afterwards: still well formed, its (absent) callback never
    invoked, and it has lost exactly the records of `src` that the new table also holds -/
theorem notifyDiff_old (N O : PfxTable) (src : Nat) (hN : TableWF N) (hO : TableWF O) :
    TableWF (notifyDiff N O src).2 ∧ (notifyDiff N O src).2.log = O.log ∧
    (notifyDiff N O src).2.hasCb = O.hasCb ∧
    ∀ x, x ∈ (notifyDiff N O src).2.recs ↔ (x ∈ O.recs ∧ ¬ (x.src = src ∧ x ∈ N.recs)) := by
  have s := notifyDiff_spec N O src hN hO
  exact ⟨s.owf, s.olog, s.ocb, s.omem⟩

/-! ### replaying a net difference -/

/-- adding, one callback each, a duplicate-free list of records none of which is present -/
theorem replay_additions : ∀ (added s : List Rec), added.Nodup → (∀ a ∈ added, a ∉ s) → s.Nodup →
    ∃ s', replay (added.map fun r => (true, r)) s = some s' ∧ (∀ x, x ∈ s' ↔ x ∈ s ∨ x ∈ added) ∧ s'.Nodup := by
  intro added
  induction added with
  | nil => intro s _ _ hs; exact ⟨s, rfl, by simp, hs⟩
  | cons a as ih =>
    intro s ha hnot hs
    rw [List.nodup_cons] at ha
    have hain : a ∉ s := hnot a (by simp)
    have hnot' : ∀ x ∈ as, x ∉ a :: s := by
      intro x hx hin
      rcases List.mem_cons.1 hin with rfl | hin'
      · exact ha.1 hx
      · exact hnot x (List.mem_cons_of_mem _ hx) hin'
    obtain ⟨s', h1, h2, h3⟩ := ih (a :: s) ha.2 hnot' (List.nodup_cons.2 ⟨hain, hs⟩)
    refine ⟨s', by simp [replay, hain, h1], ?_, h3⟩
    intro x
    rw [h2 x, List.mem_cons, List.mem_cons]
    constructor
    · rintro ((h | h) | h)
      · exact Or.inr (Or.inl h)
      · exact Or.inl h
      · exact Or.inr (Or.inr h)
    · rintro (h | h | h)
      · exact Or.inl (Or.inr h)
      · exact Or.inl (Or.inl h)
      · exact Or.inr h

/-- a stream that replays to `s`, extended by additions of absent records and then removals of
    present ones (each at most once), replays to `(s ∪ added) \ gone` -/
theorem replay_net (log0 : List (Bool × Rec)) (s added gone : List Rec)
    (h0 : replay log0 [] = some s) (ns : s.Nodup)
    (na : added.Nodup) (da : ∀ a ∈ added, a ∉ s) (ng : gone.Nodup) (dg : ∀ g ∈ gone, g ∈ s ∨ g ∈ added) :
    ∃ s'', replay (log0 ++ added.map (fun r => (true, r)) ++ gone.map (fun r => (false, r))) [] = some s'' ∧
      (∀ x, x ∈ s'' ↔ ((x ∈ s ∨ x ∈ added) ∧ x ∉ gone)) ∧ s''.Nodup := by
  obtain ⟨s', a1, a2, a3⟩ := replay_additions added s na da ns
  obtain ⟨s'', r1, r2, r3⟩ := replay_removals gone s' ng (fun g hg => (a2 g).2 (dg g hg)) a3
  refine ⟨s'', ?_, ?_, r3⟩
  · rw [replay_append, replay_append, h0]
    simp [a1, r1]
  · intro x
    rw [r2 x, a2 x]

/-- **C09 (reload), the diff pass as a change log.**  If the live table's stream replayed to the
    contents of the old roots, and the new and old roots agree on every record of the other
    sources (which is what copy-except-socket establishes), then after
    `pfx_table_notify_diff` the stream replays — without a spurious or repeated entry — to the
    contents of the new roots. -/
theorem notifyDiff_logOK (N O : PfxTable) (src : Nat) (hN : TableWF N) (hO : TableWF O) (hcb : N.hasCb = true)
    (s : List Rec) (hs : replay N.log [] = some s) (hp : s.Perm O.recs)
    (hagree : ∀ x, x.src ≠ src → (x ∈ N.recs ↔ x ∈ O.recs)) :
    LogOK (notifyDiff N O src).1 := by
  obtain ⟨hrecs, _, _, _, added, gone, hlog, pa, pg, na, ng⟩ := notifyDiff_net N O src hN hO hcb
  have ns : s.Nodup := hp.nodup_iff.2 (recs_nodup O hO)
  have ma : ∀ x, x ∈ added ↔ (x ∈ N.recs ∧ x.src = src ∧ x ∉ O.recs) := by
    intro x; rw [pa.mem_iff, List.mem_filter]; simp
  have mg : ∀ x, x ∈ gone ↔ (x ∈ O.recs ∧ x.src = src ∧ x ∉ N.recs) := by
    intro x; rw [pg.mem_iff, List.mem_filter]; simp
  obtain ⟨s'', h1, h2, h3⟩ := replay_net N.log s added gone hs ns na
    (fun a ha hin => ((ma a).1 ha).2.2 (hp.mem_iff.1 hin)) ng
    (fun g hg => Or.inl (hp.mem_iff.2 ((mg g).1 hg).1))
  refine ⟨s'', by rw [hlog]; exact h1, ?_⟩
  rw [hrecs]
  refine (List.perm_ext_iff_of_nodup h3 (recs_nodup N hN)).2 ?_
  intro x
  rw [h2 x, ma x, mg x, hp.mem_iff]
  by_cases hsx : x.src = src
  · constructor
    · rintro ⟨h | h, hn⟩
      · exact Classical.byContradiction fun hx => hn ⟨h, hsx, hx⟩
      · exact h.1
    · intro hx
      refine ⟨?_, fun hh => hh.2.2 hx⟩
      by_cases ho : x ∈ O.recs
      · exact Or.inl ho
      · exact Or.inr ⟨hx, hsx, ho⟩
  · rw [hagree x hsx]
    constructor
    · rintro ⟨h | h, _⟩
      · exact h
      · exact absurd h.2.1 hsx
    · intro hx
      exact ⟨Or.inl hx, fun hh => hsx hh.2.1⟩

/-! ### the whole reload -/

/-- **C09 (reload).**  Let `L` be a well-formed live table with a callback whose stream is an
    exact change log, and `news` a data set for `src` (well-formed records of that source,
    pairwise distinct).  Then the reload `Rtr.reload L src news`
    (copy-except-socket into a shadow table, add the new records, swap, notify_diff):
    every step succeeds; the live table is again well formed, keeps its callback, holds exactly
    the old records of the other sources together with `news`; and its callback stream — the old
    one extended by the net difference only — is again an exact change log. -/
theorem reload_log_replays (L : PfxTable) (src : Nat) (news : List Rec)
    (h : TableWF L) (hcb : L.hasCb = true) (hl : LogOK L) (hn : NewsOK src news) :
    LogOK (reload L src news) ∧ TableWF (reload L src news) ∧ (reload L src news).hasCb = true ∧
    (reload L src news).recs.Perm ((L.recs.filter fun r => r.src != src) ++ news) ∧
    (reloadFull L src news).2 = true := by
  obtain ⟨s, hs, hp⟩ := hl
  have ns : s.Nodup := hp.nodup_iff.2 (recs_nodup L h)
  have sp := reload_spec L src news h hn
  obtain ⟨added, gone, pa, pg, hlog⟩ := sp.log
  rw [hcb, if_pos rfl] at hlog
  have ma : ∀ x, x ∈ added ↔ (x ∈ news ∧ x ∉ L.recs) := by
    intro x; rw [pa.mem_iff, List.mem_filter]; simp
  have mg : ∀ x, x ∈ gone ↔ (x ∈ L.recs ∧ x.src = src ∧ x ∉ news) := by
    intro x; rw [pg.mem_iff, List.mem_filter]; simp
  have na : added.Nodup := pa.nodup_iff.2 (hn.1.sublist List.filter_sublist)
  have ng : gone.Nodup := pg.nodup_iff.2 ((recs_nodup L h).sublist List.filter_sublist)
  obtain ⟨s'', h1, h2, h3⟩ := replay_net L.log s added gone hs ns na
    (fun a ha hin => ((ma a).1 ha).2 (hp.mem_iff.1 hin)) ng
    (fun g hg => Or.inl (hp.mem_iff.2 ((mg g).1 hg).1))
  refine ⟨⟨s'', ?_, ?_⟩, sp.wf, by rw [← hcb]; exact sp.cb, sp.recs, sp.ok⟩
  · show replay (reloadFull L src news).1.1.log [] = some s''
    rw [hlog]; exact h1
  · refine (List.perm_ext_iff_of_nodup h3 (recs_nodup _ sp.wf)).2 ?_
    intro x
    show x ∈ s'' ↔ x ∈ (reloadFull L src news).1.1.recs
    rw [h2 x, ma x, mg x, hp.mem_iff, sp.recs.mem_iff, List.mem_append, List.mem_filter]
    have hb : (x.src != src) = true ↔ x.src ≠ src := by simp
    rw [hb]
    constructor
    · rintro ⟨hx | hx, hng⟩
      · by_cases hsx : x.src = src
        · exact Or.inr (Classical.byContradiction fun hnn => hng ⟨hx, hsx, hnn⟩)
        · exact Or.inl ⟨hx, hsx⟩
      · exact Or.inr hx.1
    · rintro (hx | hx)
      · exact ⟨Or.inl hx.1, fun hh => hx.2 hh.2.1⟩
      · refine ⟨?_, fun hh => hh.2.2 hx⟩
        by_cases ho : x ∈ L.recs
        · exact Or.inl ho
        · exact Or.inr ⟨hx, ho⟩

/-- the shadow table that ends up with the old roots was created without a callback and never
    reported anything: dropping it (`pfx_table_free_without_notify`) adds nothing to any stream -/
theorem reload_old_silent (L : PfxTable) (src : Nat) (news : List Rec) (h : TableWF L) (hn : NewsOK src news) :
    (reloadFull L src news).1.2.log = [] ∧ (reloadFull L src news).1.2.hasCb = false :=
  (reload_spec L src news h hn).oldlog

/-! ### histories that include reloads -/

/-- the public operations of C02 plus the atomic reload of one source -/
inductive Op' where
  | base (op : C02.Op)
  | reload (src : Nat) (news : List Rec)

def Op'.OK : Op' → Prop
  | .base op => op.OK
  | .reload src news => NewsOK src news

def stepT' (T : PfxTable) : Op' → PfxTable
  | .base op => (C02.stepT T op).1
  | .reload src news => Rtr.reload T src news

/-- the set semantics of a reload: the source's records are replaced by the new data set -/
def stepS' (s : List Rec) : Op' → List Rec
  | .base op => (C02.stepS s op).1
  | .reload src news => (s.filter fun r => r.src != src) ++ news

def runT' : List Op' → PfxTable → PfxTable
  | [], T => T
  | op :: ops, T => runT' ops (stepT' T op)

def runS' : List Op' → List Rec → List Rec
  | [], s => s
  | op :: ops, s => runS' ops (stepS' s op)

theorem step_logOK' (T : PfxTable) (s : List Rec) (op : Op') (h : TableWF T) (hcb : T.hasCb = true) (hl : LogOK T)
    (hp : T.recs.Perm s) (hop : op.OK) :
    TableWF (stepT' T op) ∧ (stepT' T op).hasCb = true ∧ LogOK (stepT' T op) ∧ (stepT' T op).recs.Perm (stepS' s op) := by
  cases op with
  | base op =>
    have a := step_logOK T op h hcb hl hop
    have b := C02.step_refines T s op h hp hop
    exact ⟨b.1, a.2, a.1, b.2.1⟩
  | reload src news =>
    have a := reload_log_replays T src news h hcb hl hop
    exact ⟨a.2.1, a.2.2.1, a.1, a.2.2.2.1.trans (List.Perm.append_right _ (hp.filter _))⟩

/-- **C09, with reloads**: after every finite history of add / remove / remove-by-source /
    atomic reload on a table created with a callback, replaying the callback stream from creation
    meets no spurious entry and reproduces exactly the table's contents; the contents are the
    set obtained by applying the same operations to the specification set. -/
theorem log_replays_reload : ∀ (ops : List Op') (T : PfxTable) (s : List Rec), TableWF T → T.hasCb = true → LogOK T →
    T.recs.Perm s → (∀ op ∈ ops, op.OK) →
    LogOK (runT' ops T) ∧ TableWF (runT' ops T) ∧ (runT' ops T).recs.Perm (runS' ops s) := by
  intro ops
  induction ops with
  | nil => intro T s h _ hl hp _; exact ⟨hl, h, hp⟩
  | cons op ops ih =>
    intro T s h hcb hl hp hok
    obtain ⟨w, c, l, p⟩ := step_logOK' T s op h hcb hl hp (hok op (by simp))
    simp only [runT', runS']
    exact ih _ _ w c l p (fun o ho => hok o (List.mem_cons_of_mem _ ho))

/-! ### non-vacuity -/

def n5 : Rec := ⟨false, 0x0a020000, 16, 20, 65005, 1⟩
def n6 : Rec := ⟨true, 0x20010db8000100000000000000000000, 48, 48, 65006, 1⟩

/-- live table before: two records of source 1 (one per family), one of source 2 -/
def live0 : PfxTable := (C02.runT [.add C02.r2, .add C02.r1, .add C02.r4] {}).1

/-- new data set of source 1: `r1` again, `n5` and `n6` new; `r4` is not announced any more -/
def news1 : List Rec := [C02.r1, n5, n6]

theorem news1_ok : NewsOK 1 news1 := by
  have k : ∀ (v6 : Bool) (a n ml asn src : Nat), n ≤ (if v6 then 128 else 32) → a < 2^(if v6 then 128 else 32) →
      a % 2^((if v6 then 128 else 32) - n) = 0 → RecOK ⟨v6, a, n, ml, asn, src⟩ :=
    fun v6 a n ml asn src h1 h2 h3 => ⟨h1, h2, hostZero_of_mod _ _ _ h3⟩
  refine ⟨by decide, ?_⟩
  intro r hr
  simp only [news1, List.mem_cons, List.not_mem_nil, or_false] at hr
  rcases hr with rfl | rfl | rfl <;> exact ⟨k _ _ _ _ _ _ (by decide) (by decide) (by decide), rfl⟩

theorem live0_ok : TableWF live0 ∧ live0.hasCb = true ∧ LogOK live0 := by
  have ok : ∀ op ∈ [C02.Op.add C02.r2, .add C02.r1, .add C02.r4], op.OK := by
    intro op hop
    exact C02.demo_ok op (by
      simp only [List.mem_cons, List.not_mem_nil, or_false] at hop
      rcases hop with rfl | rfl | rfl <;> simp [C02.demo])
  exact ⟨(C02.history_refines _ {} [] C02.init_ok.1 (by rw [C02.init_ok.2]) ok).1, by decide,
    log_replays _ {} C02.init_ok.1 rfl logOK_init ok⟩

/-- the hypotheses of `reload_log_replays` are met by a concrete reload -/
example : LogOK (reload live0 1 news1) :=
  (reload_log_replays live0 1 news1 live0_ok.1 live0_ok.2.1 live0_ok.2.2 news1_ok).1

/-- the reload, evaluated: only the net difference is reported (`r1` is in both data sets and is
    not mentioned; `r2` belongs to another source and is not mentioned) -/
example : (reload live0 1 news1).log =
    live0.log ++ [(true, n5), (true, n6), (false, C02.r4)] := by decide

example : (reload live0 1 news1).recs = [n5, C02.r2, C02.r1, n6] := by decide

example : replay (reload live0 1 news1).log [] = some [n6, n5, C02.r1, C02.r2] := by decide

example : (reloadFull live0 1 news1).2 = true := by decide

/-- a history mixing public operations and two reloads (the second one withdraws everything) -/
def demo' : List Op' :=
  [.base (.add C02.r2), .base (.add C02.r1), .reload 1 news1, .base (.remove n5), .reload 1 [], .reload 2 [C02.r2]]

example : (runT' demo' {}).log =
    [(true, C02.r2), (true, C02.r1), (true, n5), (true, n6), (false, n5), (false, C02.r1), (false, n6)] := by decide

example : (runT' demo' {}).recs = [C02.r2] := by decide

end Rtr.C09
