/-
  C05 — Queries carry the last completed session and serial; foreign sessions refused.

  Model: `Rtr.P.fsmStep` (one iteration of rtr_fsm_start), `syncG` (rtr_sync), the query builders.
  The query a socket sends next is a function of its session part: `nextQuery ss = none` (Reset
  Query) when `request_session_id` is set, else `some (session_id, serial_number)` (Serial Query);
  `connecting_query` / `established_query` / `reset_query` show that these are exactly the bytes the
  state machine hands to the transport.
  Quantifier: every state of the socket and tables, every transport script — all conversations,
  with session ids and serial numbers as arbitrary naturals below 2^16 / 2^32 (no arithmetic is
  done on them, so wrap-around values are ordinary values).
-/
import RtrProofs.Fsm

namespace Rtr.C05
open Rtr Rtr.P

/-- the bytes of the two queries: version, type, session / zero, length, serial -/
theorem query_bytes (ver sess sn : Nat) :
    serialQueryBytes ver sess sn = [ver % 256, 1] ++ toBE16 sess ++ toBE32 12 ++ toBE32 sn ∧
    resetQueryBytes ver = [ver % 256, 2, 0, 0] ++ toBE32 8 := ⟨rfl, rfl⟩

/-- what the state machine sends after a successful `open`: a Reset Query when a new session is
    requested (in particular for a socket that holds no data: `rtr_init` sets the flag), else a
    Serial Query with the stored session and serial -/
theorem connecting_query (st : St) :
    stepConnecting st =
      (match trOpen (purgeOutdated (clearReceived st)) with
       | (rc, st1) =>
         if rc = -1 then st1.change .errTransport
         else if nextQuery st1.ss = none then st1.change .reset         -- RTR_RESET sends the Reset Query
         else
           match sendPdu st1.c st1.n (serialQueryBytes st1.c.version st1.ss.session st1.ss.serial) with
           | (ok, n) =>
             if ok then ({ st1 with n := n } : St).change .sync
             else (match changeState st1.c n st1.t.own .errTransport with
                   | (c, n) => ({ st1 with c := c, n := n } : St)).change .errFatal) := by
  unfold stepConnecting sendSerialQuery nextQuery
  generalize trOpen (purgeOutdated (clearReceived st)) = r
  obtain ⟨rc, st1⟩ := r
  simp only
  split
  · rfl
  · cases h : st1.ss.reqSession
    · simp only [Bool.false_eq_true, if_false, reduceCtorEq]
      generalize sendPdu st1.c st1.n (serialQueryBytes st1.c.version st1.ss.session st1.ss.serial) = sp
      obtain ⟨ok, n⟩ := sp
      cases ok <;> simp
    · simp

theorem reset_query (st : St) :
    stepReset st =
      (match sendPdu st.c st.n (resetQueryBytes st.c.version) with
       | (ok, n) =>
         if ok then ({ st with n := n } : St).change .sync
         else (match changeState st.c n st.t.own .errTransport with | (c, n) => ({ st with c := c, n := n } : St))) := by
  unfold stepReset sendResetQuery
  generalize sendPdu st.c st.n (resetQueryBytes st.c.version) = sp
  obtain ⟨ok, n⟩ := sp
  cases ok <;> simp

/-- **after End of Data**: a synchronisation that succeeds ends with an End of Data `b.eod` whose
    session equals the Cache Response's and — when a session was established — the established
    one; afterwards the next query is the Serial Query carrying exactly that session and serial. -/
theorem after_eod (fuel : Nat) (st : St) (ht : TblOK st.t) (h : (syncG fuel st).1 = true) :
    ∃ cr b, (syncG fuel st).2.2 = some (cr, b) ∧ be16 cr 2 = be16 b.eod 2 ∧
      (st.ss.reqSession = false → be16 b.eod 2 = st.ss.session) ∧
      nextQuery (syncG fuel st).2.1.ss = some (be16 b.eod 2, be32 b.eod 8) := by
  obtain ⟨cr, b, hg, h1, h2, h3, _, _, _, _, h8, h9, _⟩ := (syncG_spec fuel st ht).success h
  refine ⟨cr, b, hg, by rw [h2, h3], fun hr => by rw [h3, ← h2]; exact h1 hr, ?_⟩
  unfold nextQuery
  rw [h9]; simp only [Bool.false_eq_true, if_false]
  rw [h8, ← h3]

/-- **foreign sessions are refused**: a Cache Response whose session differs from the established
    one, or an End of Data whose session differs from the Cache Response's, cannot end a
    successful synchronisation; the failure leaves the tables as before (same next query) or purged
    with a Reset Query pending — none of the payload stays applied. -/
theorem foreign_session_refused (fuel : Nat) (st : St) (ht : TblOK st.t) :
    ((syncG fuel st).1 = true → ∀ cr b, (syncG fuel st).2.2 = some (cr, b) →
      be16 b.eod 2 = be16 cr 2 ∧ (st.ss.reqSession = false → be16 cr 2 = st.ss.session)) ∧
    ((syncG fuel st).1 = false →
      (TblSame st.t (syncG fuel st).2.1.t ∧ nextQuery (syncG fuel st).2.1.ss = nextQuery st.ss) ∨
      (NoOwn (syncG fuel st).2.1.t ∧ nextQuery (syncG fuel st).2.1.ss = none)) := by
  refine ⟨fun h cr b hg => ?_, fun h => ?_⟩
  · obtain ⟨cr', b', hg', h1, h2, h3, _⟩ := (syncG_spec fuel st ht).success h
    rw [hg] at hg'
    simp only [Option.some.injEq, Prod.mk.injEq] at hg'
    obtain ⟨e1, e2⟩ := hg'
    subst e1; subst e2
    exact ⟨by rw [h3, h2], h1⟩
  · rcases ((syncG_spec fuel st ht).failure h).2 with h1 | ⟨h1, h2⟩
    · exact Or.inl h1
    · exact Or.inr ⟨h1, by simp [nextQuery, h2]⟩

/-- **stable until the next success or reset**: one iteration of the state machine leaves the
    next query as it is, or turns it into a Reset Query, or — the iteration was a successful
    synchronisation — sets it to the session and serial of that End of Data. -/
theorem stable_until (fuel : Nat) (st st' : St) (h : fsmStep fuel st = some st') (ht : TblOK st.t) :
    nextQuery st'.ss = nextQuery st.ss ∨ nextQuery st'.ss = none ∨
    (st.c.state = .sync ∧ (syncG fuel st).1 = true ∧ ∃ cr b, (syncG fuel st).2.2 = some (cr, b) ∧
      be16 cr 2 = be16 b.eod 2 ∧ (st.ss.reqSession = false → be16 cr 2 = st.ss.session) ∧
      nextQuery st'.ss = some (be16 b.eod 2, be32 b.eod 8)) :=
  (fsmStep_ok fuel st st' h).query ht

/-- **reset causes**: a Cache Reset answer (state NO_INCR_UPDATE_AVAIL), a no-data error (state
    NO_DATA_AVAIL), expiry, and stop each make the next query a Reset Query. -/
theorem reset_causes (st : St) :
    nextQuery (stepErrNoIncr st).ss = none ∧ nextQuery (stepErrNoData st).ss = none ∧
    (st.ss.lastUpdate ≠ 0 → st.ss.lastUpdate + st.tm.expire < st.n.now → nextQuery (purgeOutdated st).ss = none) ∧
    nextQuery (stop st).ss = none := by
  have rr : ∀ (s : St), s.ss.reqSession = true → nextQuery (purgeOutdated s).ss = none := by
    intro s hs
    rcases (purgeOutdated_spec s).2.2.2 with ⟨e, _⟩ | ⟨_, _, _, hr, _⟩
    · rw [e]; simp [nextQuery, hs]
    · simp [nextQuery, hr]
  refine ⟨rr _ ?_, rr _ ?_, fun h0 h1 => ?_, ?_⟩
  · show ((requestReset st).change .reset).ss.reqSession = true
    rw [(change_frame _ _).1]; rfl
  · show (doSleep ((requestReset st).change .reset) _).ss.reqSession = true
    show ((requestReset st).change .reset).ss.reqSession = true
    rw [(change_frame _ _).1]; rfl
  · rcases (purgeOutdated_spec st).2.2.2 with ⟨_, hn⟩ | ⟨_, _, _, hr, _⟩
    · exact absurd ⟨h0, h1⟩ hn
    · simp [nextQuery, hr]
  · simp [stop, nextQuery]

/-- `rtr_stop` once the thread has ended is its two parts in sequence -/
theorem stop_split (st : St) : stop st = stopFinish (stopBegin st) := rfl

/-- **stop on a running thread**: `rtr_stop` requests the stop (`stopBegin`), waits for the
    state-machine thread, and only then closes, forgets the session and purges (`stopFinish`).
    Whatever the thread still does in between (`f` — e.g. complete the synchronisation whose End of
    Data it had already received, which stores a session, a serial and a time stamp), afterwards
    the next query is a Reset Query and no time stamp is left. -/
theorem stop_live_reset (st : St) (f : St → St) :
    nextQuery (stopFinish (f (stopBegin st))).ss = none ∧ (stopFinish (f (stopBegin st))).ss.lastUpdate = 0 ∧
    (stopFinish (f (stopBegin st))).c.state = .closed := ⟨rfl, rfl, rfl⟩

/-- **stop/start cycle**: the first iteration of the run that `rtr_start` begins after such a stop
    (the socket is not initialised again) opens the transport and goes to RTR_RESET — the state that
    sends the Reset Query (`reset_query`) — or to the transport-error state if open() fails. -/
theorem restart_sends_reset_query (st : St) (f : St → St) (steps fuel : Nat) :
    fsmStart (steps + 1) fuel (stopFinish (f (stopBegin st))) =
      fsmRun steps fuel
        (if (trOpen (clearReceived (startState (stopFinish (f (stopBegin st)))))).1 = -1
         then (trOpen (clearReceived (startState (stopFinish (f (stopBegin st)))))).2.change .errTransport
         else (trOpen (clearReceived (startState (stopFinish (f (stopBegin st)))))).2.change .reset) := by
  rw [fsmStart_first steps fuel _ (by show SState.closed ≠ SState.shutdown; decide)]
  rw [restart_step _ rfl rfl]

/-! ### non-vacuity -/

/-- a thread that completes its synchronisation after the stop request (session 7, serial 5, time
    stamp 1000 stored): the stop still ends with a Reset Query pending -/
example : nextQuery (stopFinish ((fun s => { s with ss := { s.ss with session := 7, serial := 5, reqSession := false, lastUpdate := 1000 } })
    (stopBegin {}))).ss = none := rfl

example : nextQuery ({} : Sess) = none := rfl   -- a freshly initialised socket asks with a Reset Query
example : nextQuery { session := 7, serial := 5, reqSession := false } = some (7, 5) := rfl
example : serialQueryBytes 1 7 5 = [1, 1, 0, 7, 0, 0, 0, 12, 0, 0, 0, 5] := by decide
example : serialQueryBytes 1 65535 4294967295 = [1, 1, 255, 255, 0, 0, 0, 12, 255, 255, 255, 255] := by decide
example : TblOK ({} : Tbl) := ⟨rfl, List.nodup_nil, List.nodup_nil⟩

end Rtr.C05
