/-
  C04 — (reception part) "how the stream is split into reads does not change the outcome", "PDUs whose
  length field is smaller than a header, larger than the client's maximum, or inconsistent with
  their type, and PDUs of unknown type, are never [handed on]", "always returns".

  Model: `Rtr.P` (RtrModel/Rtr.lean) — `tr_recv_all`'s loop over a scripted transport whose input tape
  is a list of chunks (`rx`), transport faults (`err`/`block`/`intr`/`closed`) and clock advances
  (`dt`); `rtr_receive_pdu`; `rtr_sync_receive_and_store_pdus`; `rtr_sync`; `rtr_wait_for_sync`.

  Theorems (all for every tape, every socket state, no bound):
    `recvAll_chunking`            (a) enough data on a fault-free tape: rc = len, the first len bytes,
                                  the rest of the stream stays — whatever the chunking
    `recvAll_chunking_dt`         the same with clock advances between the chunks
    `recvAll_short_fault/_eof`    (b) too little data, then a fault / the end: that fault's code / -1
    `receivePdu_chunk_independent`(c) same stream, chunked differently ⇒ same result, same socket
                                  fields, environments that are again the same stream, same trace
                                  up to the lines of the individual recv calls
    `syncFirst_/recvAndStore_/syncG_/sync_/waitForSync_chunk_independent`
                                  (d) the lift of (c) to the synchronisation: same return value, same
                                  socket / session / timers / tables / ghost output — in full, for
                                  arbitrary tapes (faults included)
    `bad_length_rejected`         length < 8, > RTR_MAX_PDU_LEN, or PDU failing the size check ⇒
                                  `rtr_receive_pdu` returns RTR_ERROR, never a PDU
    `receivePdu_ok_checked`       on any tape: a PDU handed to the caller passed `rtr_pdu_check_size`,
                                  8 ≤ length field = its length ≤ RTR_MAX_PDU_LEN, and it is the next
                                  bytes of the stream
    `checkSize_spec`              `rtr_pdu_check_size` ⇔ known type ∧ exactly the size the type requires
    `recv_terminates_consumes`    progress: `.ok raw` consumed raw.length ≥ 8 bytes; `.rc` consumed at
                                  least one tape symbol unless the tape was empty / the socket shut down

  "Same stream" is `SameStream`: equal tapes after merging adjacent chunks (`mergeRx`), no empty
  chunk (a successful `tr_recv` delivers ≥ 1 byte — assumption of the transport model, see
  tools/rtrcheck.py), same send script / open script / clock / threading flag.
  Not here: memory safety of the C code itself (sanitizer run of the tie) and the table part
  "never applied to the tables" (C03/C05: only PDUs returned `.ok` reach the tables).
-/
import RtrProofs.Chunking

namespace Rtr.C04
open Rtr.P

/-! ## (a) (b) `tr_recv_all` -/

/-- **(a)** On a fault-free tape holding at least `len` bytes `tr_recv_all(len)` returns `len`, delivers
    exactly the first `len` bytes of the stream, sees no stop request, and leaves a fault-free tape
    holding the rest of the stream; clock, send script, open script are untouched and the trace
    gains only recv lines.  The chunking of the tape does not appear in the result. -/
theorem recvAll_chunking (n : Net) (len : Nat) (timeout : Int) (hff : FaultFree n.tape)
    (hen : len ≤ (tapeBytes n.tape).length) :
    ∃ n', recvAll n len timeout = ((len : Int), (tapeBytes n.tape).take len, n', false) ∧
      FaultFree n'.tape ∧ tapeBytes n'.tape = (tapeBytes n.tape).drop len ∧
      n'.now = n.now ∧ n'.sendQ = n.sendQ ∧ n'.openQ = n.openQ ∧ n'.threaded = n.threaded ∧
      dropRecv n'.trace = dropRecv n.trace := by
  obtain ⟨n', h1, _, h3, h4, h5⟩ := recvAll_chunking_quiet n len timeout hff.quiet hen
  exact ⟨n', h1, (h5 hff).1, h3, (h5 hff).2, h4.sendQ, h4.openQ, h4.threaded, h4.trace⟩

/-- (a) with time passing between the chunks (`dt` only advances the clock) -/
theorem recvAll_chunking_dt (n : Net) (len : Nat) (timeout : Int) (hq : Quiet n.tape)
    (hen : len ≤ (tapeBytes n.tape).length) :
    ∃ n', recvAll n len timeout = ((len : Int), (tapeBytes n.tape).take len, n', false) ∧
      Quiet n'.tape ∧ tapeBytes n'.tape = (tapeBytes n.tape).drop len ∧
      n'.sendQ = n.sendQ ∧ n'.openQ = n.openQ ∧ n'.threaded = n.threaded ∧
      dropRecv n'.trace = dropRecv n.trace := by
  obtain ⟨n', h1, h2, h3, h4, _⟩ := recvAll_chunking_quiet n len timeout hq hen
  exact ⟨n', h1, h2, h3, h4.sendQ, h4.openQ, h4.threaded, h4.trace⟩

/-- **(b)** fewer than `len` bytes (in any chunking, with any clock advances), then a transport fault
    `e`: the result is `e`'s code, the bytes before it are consumed, what follows `e` stays -/
theorem recvAll_short_fault (n : Net) (len : Nat) (timeout : Int) (pre rest : List TapeEv) (e : TapeEv)
    (htape : n.tape = pre ++ e :: rest) (hq : Quiet pre) (hokr : TapeOk rest) (he : e.isFault = true)
    (hlt : (tapeBytes pre).length < len) :
    ∃ n', recvAll n len timeout = (e.code, tapeBytes pre, n', false) ∧ mergeRx n'.tape = mergeRx rest :=  by
  obtain ⟨n', h1, h2, _, _⟩ := P.recvAll_short_fault n len timeout pre rest e htape hq hokr he hlt
  exact ⟨n', h1, (mergeRx_eq_iff _ _).2 h2⟩

/-- (b) fewer than `len` bytes, then the script ends: -1; in a threaded run the stop request is seen -/
theorem recvAll_short_eof (n : Net) (len : Nat) (timeout : Int) (hq : Quiet n.tape)
    (hlt : (tapeBytes n.tape).length < len) :
    ∃ n', recvAll n len timeout = (-1, tapeBytes n.tape, n', n.threaded) ∧ n'.tape = [] := by
  obtain ⟨n', h1, h2, _⟩ := P.recvAll_short_eof n len timeout hq hlt
  exact ⟨n', h1, h2⟩

theorem fault_codes : TapeEv.err.code = -1 ∧ TapeEv.block.code = -2 ∧ TapeEv.intr.code = -3 ∧
    TapeEv.closed.code = -4 := ⟨rfl, rfl, rfl, rfl⟩

/-! ## (c) `rtr_receive_pdu` -/

/-- **(c)** Two environments that hold the same stream chunked differently (and agree on the trace
    up to recv lines): `rtr_receive_pdu` returns the same result and leaves the same socket fields;
    the environments afterwards are again the same stream, with the same trace up to recv lines. -/
theorem receivePdu_chunk_independent {n n' : Net} (hs : SameStream n n') (ht : SameTrace n n')
    (c : Conn) (own : Nat) (timeout : Int) :
    (receivePdu c n own timeout).1 = (receivePdu c n' own timeout).1 ∧
    (receivePdu c n own timeout).2.1 = (receivePdu c n' own timeout).2.1 ∧
    SameStream (receivePdu c n own timeout).2.2 (receivePdu c n' own timeout).2.2 ∧
    SameTrace (receivePdu c n own timeout).2.2 (receivePdu c n' own timeout).2.2 := by
  obtain ⟨h1, h2, h3⟩ := receivePdu_proj ((sim_iff n n').2 ⟨hs, ht⟩) c own timeout
  exact ⟨h1, h2, ((sim_iff _ _).1 h3).1, ((sim_iff _ _).1 h3).2⟩

/-- splitting a chunk anywhere (or merging two adjacent chunks) gives the same stream -/
theorem sameStream_split (n : Net) (pre : List TapeEv) (a b : List Nat) (rest : List TapeEv)
    (ha : a ≠ []) (hb : b ≠ []) (htape : n.tape = pre ++ .rx (a ++ b) :: rest) (hok : TapeOk n.tape) :
    SameStream n { n with tape := pre ++ .rx a :: .rx b :: rest } := by
  have hflat : flat n.tape = flat (pre ++ .rx a :: .rx b :: rest) := by
    rw [htape, flat_append, flat_append, flat_split]
  refine ⟨(mergeRx_eq_iff _ _).2 hflat, hok, ?_, rfl, rfl, rfl, rfl⟩
  rw [htape] at hok
  intro bs hm
  simp only [List.mem_append, List.mem_cons] at hm
  rcases hm with hm | hm | hm | hm
  · exact hok bs (List.mem_append_left _ hm)
  · cases hm; exact ha
  · cases hm; exact hb
  · exact hok bs (List.mem_append_right _ (List.mem_cons_of_mem _ hm))

/-! ## (d) the synchronisation -/

/-- two socket states that differ only in how the unread input is chunked (and in the recv lines
    of the trace) -/
structure SameStreamSt (st st' : St) : Prop where
  c : st.c = st'.c
  ss : st.ss = st'.ss
  tm : st.tm = st'.tm
  t : st.t = st'.t
  stream : SameStream st.n st'.n
  trace : SameTrace st.n st'.n

theorem sameStreamSt_iff (st st' : St) : SameStreamSt st st' ↔ SimSt st st' :=
  ⟨fun h => ⟨h.c, h.ss, h.tm, h.t, (sim_iff _ _).2 ⟨h.stream, h.trace⟩⟩,
   fun h => ⟨h.c, h.ss, h.tm, h.t, ((sim_iff _ _).1 h.n).1, ((sim_iff _ _).1 h.n).2⟩⟩

/-- the first loop of `rtr_sync` (skip Serial Notify, return the first other PDU) -/
theorem syncFirst_chunk_independent (fuel : Nat) {st st' : St} (h : SameStreamSt st st') :
    (syncFirst fuel st).1 = (syncFirst fuel st').1 ∧ SameStreamSt (syncFirst fuel st).2 (syncFirst fuel st').2 := by
  have hs := (sameStreamSt_iff _ _).1 h
  rw [hs.eq_with]
  obtain ⟨h1, h2⟩ := syncFirst_sim fuel st st'.n hs.n
  exact ⟨h1, (sameStreamSt_iff _ _).2 h2⟩

/-- `rtr_sync_receive_and_store_pdus`: same return value, same socket, session, timers, tables,
    same buffered PDUs (ghost), for any buffered prefix/key lists — on arbitrary tapes -/
theorem recvAndStore_chunk_independent (fuel : Nat) {st st' : St} (h : SameStreamSt st st')
    (v4 v6 keys : List (List Nat)) :
    (recvAndStore fuel st v4 v6 keys).1 = (recvAndStore fuel st' v4 v6 keys).1 ∧
    SameStreamSt (recvAndStore fuel st v4 v6 keys).2.1 (recvAndStore fuel st' v4 v6 keys).2.1 ∧
    (recvAndStore fuel st v4 v6 keys).2.2 = (recvAndStore fuel st' v4 v6 keys).2.2 := by
  have hs := (sameStreamSt_iff _ _).1 h
  rw [hs.eq_with]
  obtain ⟨h1, h2, h3⟩ := recvAndStore_sim fuel st st'.n hs.n v4 v6 keys
  exact ⟨h1, (sameStreamSt_iff _ _).2 h2, h3⟩

/-- `rtr_sync` with its ghost output -/
theorem syncG_chunk_independent (fuel : Nat) {st st' : St} (h : SameStreamSt st st') :
    (syncG fuel st).1 = (syncG fuel st').1 ∧ SameStreamSt (syncG fuel st).2.1 (syncG fuel st').2.1 ∧
    (syncG fuel st).2.2 = (syncG fuel st').2.2 := by
  have hs := (sameStreamSt_iff _ _).1 h
  rw [hs.eq_with]
  obtain ⟨h1, h2, h3⟩ := syncG_sim fuel st st'.n hs.n
  exact ⟨h1, (sameStreamSt_iff _ _).2 h2, h3⟩

/-- `rtr_sync`: the return value, the socket and the tables do not depend on the chunking -/
theorem sync_chunk_independent (fuel : Nat) {st st' : St} (h : SameStreamSt st st') :
    (sync fuel st).1 = (sync fuel st').1 ∧ SameStreamSt (sync fuel st).2 (sync fuel st').2 := by
  obtain ⟨h1, h2, _⟩ := syncG_chunk_independent fuel h
  exact ⟨h1, h2⟩

/-- `rtr_wait_for_sync` -/
theorem waitForSync_chunk_independent {st st' : St} (h : SameStreamSt st st') :
    (waitForSync st).1 = (waitForSync st').1 ∧ SameStreamSt (waitForSync st).2 (waitForSync st').2 := by
  have hs := (sameStreamSt_iff _ _).1 h
  rw [hs.eq_with]
  obtain ⟨h1, h2⟩ := waitForSync_sim st st'.n hs.n
  exact ⟨h1, (sameStreamSt_iff _ _).2 h2⟩

/-! ## bad lengths, unknown types -/

/-- **`rtr_pdu_check_size` accepts exactly**: one of the ten known types with exactly the size the
    type (and, for End of Data, the version) requires; Error Report: 16 + encapsulated length +
    text length, the text length being read after the encapsulated PDU.  Sizes from the generated
    layout. -/
theorem checkSize_spec (raw : List Nat) : checkSize raw = true ↔ KnownSize raw := P.checkSize_spec raw

theorem knownSize_types (raw : List Nat) (h : KnownSize raw) :
    typeOf raw ∈ [0, 1, 2, 3, 4, 6, 7, 8, 9, 10] := by
  unfold KnownSize at h
  rcases h with h | h | h | h | h | h | h | h | h | h | h <;> simp [h.1]

/-- the generated sizes, for the record -/
theorem sizes : Gen.sizeof_pdu_serial_notify = 12 ∧ Gen.sizeof_pdu_serial_query = 12 ∧
    Gen.sizeof_pdu_reset_query = 8 ∧ Gen.sizeof_pdu_cache_response = 8 ∧ Gen.sizeof_pdu_ipv4 = 20 ∧
    Gen.sizeof_pdu_ipv6 = 32 ∧ Gen.sizeof_pdu_end_of_data_v0 = 12 ∧ Gen.sizeof_pdu_end_of_data_v1 = 24 ∧
    Gen.sizeof_pdu_header = 8 ∧ Gen.sizeof_pdu_router_key = 123 ∧ Gen.sizeof_pdu_error + 4 = 16 :=
  ⟨rfl, rfl, rfl, rfl, rfl, rfl, rfl, rfl, rfl, rfl, rfl⟩

/-- **A PDU with a bad length is never handed to the caller.**  The stream (fault-free, in any
    chunking, clock advances allowed) starts with 8 bytes whose length field is < 8 or
    > RTR_MAX_PDU_LEN, or the complete PDU is there and fails the size check (length inconsistent
    with the type, unknown type): `rtr_receive_pdu` returns RTR_ERROR. -/
theorem bad_length_rejected (c : Conn) (n : Net) (own : Nat) (timeout : Int) (hq : Quiet n.tape)
    (h8 : 8 ≤ (tapeBytes n.tape).length)
    (hbad : be32 (tapeBytes n.tape) 4 < 8 ∨ be32 (tapeBytes n.tape) 4 > Gen.RTR_MAX_PDU_LEN ∨
      (be32 (tapeBytes n.tape) 4 ≤ (tapeBytes n.tape).length ∧
        ¬ KnownSize ((tapeBytes n.tape).take (be32 (tapeBytes n.tape) 4)))) :
    (receivePdu c n own timeout).1 = .rc (-1) := by
  apply bad_length_rejected_quiet c n own timeout hq h8
  rcases hbad with h | h | ⟨h1, h2⟩
  · exact Or.inl h
  · exact Or.inr (Or.inl h)
  · refine Or.inr (Or.inr ⟨h1, ?_⟩)
    rw [← P.checkSize_spec] at h2
    simpa using h2

/-- **Whatever the tape** (faults, truncation, any chunking): a PDU that `rtr_receive_pdu` hands to
    the caller passed the size check, its length field is its length and lies in
    [8, RTR_MAX_PDU_LEN], its version is the socket's unless it is an Error Report, and it is
    exactly the next bytes of the stream. -/
theorem receivePdu_ok_checked (c : Conn) (n : Net) (own : Nat) (timeout : Int) (hok : TapeOk n.tape)
    (raw : List Nat) (h : (receivePdu c n own timeout).1 = .ok raw) :
    KnownSize raw ∧ 8 ≤ raw.length ∧ raw.length ≤ Gen.RTR_MAX_PDU_LEN ∧ lenOf raw = raw.length ∧
    (verOf raw = (receivePdu c n own timeout).2.1.version ∨ typeOf raw = 10) ∧
    tapeBytes n.tape = raw ++ tapeBytes (receivePdu c n own timeout).2.2.tape := by
  obtain ⟨_, hout⟩ := receivePdu_out c n own timeout hok (receivePdu c n own timeout).1
    (receivePdu c n own timeout).2.1 (receivePdu c n own timeout).2.2 rfl
  rcases hout with ⟨k, hk, _⟩ | ⟨raw', hr, hcs, h8, hmax, hlen, hver, htb, _⟩
  · rw [h] at hk; cases hk
  · rw [h] at hr
    cases hr
    exact ⟨(P.checkSize_spec raw).1 hcs, by omega, by omega, hlen.symm, hver, htb⟩

/-! ## progress -/

/-- number of symbols on the tape: bytes + fault events + clock advances -/
def tapeSize (t : List TapeEv) : Nat := (flat t).length

/-- **Every call of `rtr_receive_pdu` makes progress.**  A call that returns a PDU has consumed
    exactly its `raw.length ≥ 8` bytes from the front of the stream; a call that returns a code
    has consumed at least one tape symbol, unless the tape was already empty or the socket was
    shut down; no call puts anything back.  (This is the fact behind "always returns": the loops of
    `rtr_sync` run at most `tapeSize` + 1 times.) -/
theorem recv_terminates_consumes (c : Conn) (n : Net) (own : Nat) (timeout : Int) (hok : TapeOk n.tape) :
    tapeSize (receivePdu c n own timeout).2.2.tape ≤ tapeSize n.tape ∧
    (∀ raw, (receivePdu c n own timeout).1 = .ok raw →
      8 ≤ raw.length ∧ tapeBytes n.tape = raw ++ tapeBytes (receivePdu c n own timeout).2.2.tape ∧
      tapeSize (receivePdu c n own timeout).2.2.tape + 8 ≤ tapeSize n.tape) ∧
    (∀ k, (receivePdu c n own timeout).1 = .rc k →
      c.state = .shutdown ∨ n.tape = [] ∨
      tapeSize (receivePdu c n own timeout).2.2.tape < tapeSize n.tape) := by
  obtain ⟨hcons, hout⟩ := receivePdu_out c n own timeout hok (receivePdu c n own timeout).1
    (receivePdu c n own timeout).2.1 (receivePdu c n own timeout).2.2 rfl
  refine ⟨hcons.length_le, ?_, ?_⟩
  · intro raw h
    rcases hout with ⟨k, hk, _⟩ | ⟨raw', hr, _, h8, _, hlen, _, htb, _⟩
    · rw [h] at hk; cases hk
    · rw [h] at hr
      cases hr
      refine ⟨by omega, htb, ?_⟩
      obtain ⟨pre, hpre⟩ := hcons
      have hb : symBytes pre = raw := by
        have := htb
        rw [tapeBytes_eq, tapeBytes_eq, hpre, symBytes_append] at this
        exact List.append_cancel_right this
      have hl : raw.length ≤ pre.length := by
        rw [← hb]
        clear hb hpre
        induction pre with
        | nil => simp [symBytes]
        | cons x pre ih => cases x <;> simp [symBytes] <;> omega
      unfold tapeSize
      rw [hpre, List.length_append]
      omega
  · intro k h
    rcases hout with ⟨k', _, hp⟩ | ⟨raw', hr, _⟩
    · exact hp
    · rw [h] at hr; cases hr

/-! ## non-vacuity -/

section Examples

/-- a Serial Notify (12 bytes) followed by the start of another PDU, in three chunks … -/
def tapeA : List TapeEv := [.rx [1, 0, 0, 7, 0], .rx [0, 0, 12, 0, 0], .rx [0, 5, 1, 3]]
/-- … and the same stream byte by byte with one big chunk at the end -/
def tapeB : List TapeEv := [.rx [1], .rx [0], .rx [0, 7], .rx [0, 0, 0, 12, 0, 0, 0, 5, 1, 3]]

def netA : Net := { tape := tapeA }
def netB : Net := { tape := tapeB, trace := ["R 8 60 -> 1 01"] }

example : FaultFree tapeA ∧ 8 ≤ (tapeBytes tapeA).length := by decide

example : SameStream netA netB ∧ SameTrace netA netB ∧ tapeA.length ≠ tapeB.length :=
  ⟨⟨rfl, tapeOk_of_tapeOkB _ rfl, tapeOk_of_tapeOkB _ rfl, rfl, rfl, rfl, rfl⟩, by decide, by decide⟩

/-- both chunkings deliver the Serial Notify -/
example : (receivePdu {} netA 0 60).1 = .ok [1, 0, 0, 7, 0, 0, 0, 12, 0, 0, 0, 5] ∧
    (receivePdu {} netB 0 60).1 = .ok [1, 0, 0, 7, 0, 0, 0, 12, 0, 0, 0, 5] := ⟨by rfl, by rfl⟩

/-- (b): three bytes, a clock advance, then the connection is closed -/
example : ∃ n', recvAll { tape := [.rx [1, 2], .dt 5, .rx [3], .closed, .rx [9]] } 8 60 = (-4, [1, 2, 3], n', false) ∧
    mergeRx n'.tape = mergeRx [.rx [9]] :=
  recvAll_short_fault _ 8 60 [.rx [1, 2], .dt 5, .rx [3]] [.rx [9]] .closed rfl (by decide)
    (tapeOk_of_tapeOkB _ rfl) rfl (by decide)

/-- bad lengths: a header announcing 7 bytes; an IPv4 Prefix PDU announcing 21 bytes (all there);
    an unknown type 5 -/
example : be32 (tapeBytes [.rx [1, 4, 0, 0], .rx [0, 0, 0, 7]]) 4 < 8 := by decide
example : ¬ KnownSize ((tapeBytes [.rx ([1, 4, 0, 0, 0, 0, 0, 21] ++ List.replicate 13 0)]).take 21) := by
  rw [← P.checkSize_spec]; decide
example : ¬ KnownSize [1, 5, 0, 0, 0, 0, 0, 8] := by rw [← P.checkSize_spec]; decide
/-- and a good one: an Error Report with a 8-byte encapsulated PDU and a 3-byte text -/
example : KnownSize ([1, 10, 0, 2, 0, 0, 0, 27, 0, 0, 0, 8] ++ [1, 1, 0, 0, 0, 0, 0, 12] ++ [0, 0, 0, 3, 65, 66, 67]) := by
  rw [← P.checkSize_spec]; decide

end Examples

end Rtr.C04
