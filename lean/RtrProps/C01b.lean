/-
  C01 (continued) — the literal IPv6 bit code computes the abstract bit view.

  RtrProps/C01 closes the gap between `lrtr_get_bits` (mask arithmetic on `uint32_t`, model
  `getBits32`) and the arithmetic bit view of the trie model (`isLeft`, `prefixEq`) for IPv4
  (`bits_link4`, `bits_cover4`).  These two theorems do the same for IPv6: `lrtr_ipv6_get_bits`
  (the four-word cascade with `bits_left`, model `ipv6GetBits`, transcribed from
  rtrlib/lib/ipv6.c) as used by `is_left_child` (one bit at `lvl`) and by the covering test of
  `trie_lookup` (`len` bits from 0), on the address representation `V6.ofNat` (the four
  host-order words `addr[0..3]` of a 128-bit number).

  With them the IPv6 half of the link no longer rests on the `left` / `cov` ops of the pfx
  correspondence alone.
-/
import RtrProofs.BitsLink6

namespace Rtr.C01
open Rtr

/-- `is_left_child(addr, lvl)` as compiled from the C text (IPv6) is the model's `isLeft`, at
    every level — including `lvl ≥ 128`, where the cascade touches no word and answers "left" -/
theorem bits_link6 (a : Nat) (_ha : a < 2^128) (lvl : Nat) :
    isLeftChildC6 (V6.ofNat a) lvl = isLeft 128 a lvl := isLeftChildC6_eq a lvl

/-- the covering test of `trie_lookup` as compiled from the C text (IPv6),
    `lrtr_ip_addr_equal(get_bits(p, 0, len), get_bits(q, 0, len))`, is the model's `prefixEq` -/
theorem bits_cover6 (p q : Nat) (hp : p < 2^128) (hq : q < 2^128) (len : Nat) (h : len ≤ 128) :
    coversC6 (V6.ofNat p) len (V6.ofNat q) = prefixEq 128 p q len := coversC6_eq p q hp hq len h

/-- `V6.ofNat` is the faithful word view of a 128-bit number (so the two theorems above speak
    about every IPv6 address) -/
theorem v6_roundtrip (a : Nat) (ha : a < 2^128) : (V6.ofNat a).toNat = a := by
  simp only [V6.ofNat, V6.toNat, BitVec.toNat_ofNat]
  omega

/-! ### non-vacuity: both sides evaluated on concrete addresses, across word boundaries -/

example : isLeftChildC6 (V6.ofNat 0x20010db8000000000000000100000000) 95 = false := by decide
example : isLeft 128 0x20010db8000000000000000100000000 95 = false := by decide
example : isLeftChildC6 (V6.ofNat 0x20010db8000000000000000100000000) 96 = true := by decide
example : isLeftChildC6 (V6.ofNat (2^128 - 1)) 128 = true := by decide
example : coversC6 (V6.ofNat 0x20010db8000000000000000000000000) 33 (V6.ofNat 0x20010db8700000000000000000000001) = true := by
  decide
example : prefixEq 128 0x20010db8000000000000000000000000 0x20010db8700000000000000000000001 33 = true := by decide
example : coversC6 (V6.ofNat 0x20010db8000000000000000000000000) 34 (V6.ofNat 0x20010db8700000000000000000000001) = false := by
  decide
example : coversC6 (V6.ofNat 5) 128 (V6.ofNat 5) = true ∧ coversC6 (V6.ofNat 5) 128 (V6.ofNat 4) = false := by decide

end Rtr.C01
