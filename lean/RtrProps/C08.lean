/-
  C08 — "After any finite run of faults the client re-converges on the cache's data. … It never loops
  without letting time advance and never remains in an error cycle forever."

  What is decided HERE (by proof, on the model `Rtr.P.fsmStep` of the `while (1)` loop of
  rtr_fsm_start, for all socket states, tables, intervals and all scripted environments):

  * `clock_monotone`            no iteration sets the clock back, lets the script grow or changes the
                                kind of run.
  * `no_zero_time_cycle`        every iteration lets the clock advance, or consumes something of the
                                scripted environment (tape bytes / tape events, a scripted send
                                outcome, a scripted open outcome), or moves strictly down a finite
                                rank of socket states (error states and FAST_RECONNECT 4 >
                                CONNECTING 3 > RESET 2 > SYNC, ESTABLISHED 1 > SHUTDOWN 0).
  * `bounded_zero_time_steps`   hence a run segment in which neither the clock advances nor the
                                environment shrinks has at most `maxRank` = 4 (< maxRank + 1)
                                iterations: there is no busy loop.
  * `steps_bounded`             and `k` consecutive iterations take at least
                                (k − 4) / 5 units of "time elapsed + script consumed".
  * `retry_sleep_advances`      ERROR_TRANSPORT, ERROR_FATAL and ERROR_NO_DATA_AVAIL sleep exactly
                                `retry_interval` seconds.
  * `error_states_reconnect`    no error state is absorbing: ERROR_TRANSPORT / ERROR_FATAL close the
                                transport and go to CONNECTING; ERROR_NO_DATA_AVAIL /
                                ERROR_NO_INCR_UPDATE_AVAIL go to RESET and request a new session (the
                                next query is a Reset Query); FAST_RECONNECT closes and goes to
                                CONNECTING without sleeping.
  * `retry_zero_cycle`          the LIMIT of the first clause: the hypothesis `1 ≤ retry_interval`
                                of `no_zero_time_cycle` is needed.  In interval mode ACCEPT_ANY a
                                cache may set the retry interval to 0 (see C17); then
                                ERROR_TRANSPORT → CONNECTING → (open fails) → ERROR_TRANSPORT is a
                                cycle that takes no time at all; the only thing that shrinks is the
                                script of open outcomes, i.e. with a transport whose `open` keeps
                                failing the thread spins.  (With `retry_interval = 0` the step out of
                                an error state still loses rank, so `no_zero_time_cycle` itself
                                remains true for it; what fails is "time advances in every error
                                cycle".)

  Hypotheses of the progress theorems: a threaded run (`n.threaded = true`, what `fsmStart` sets: the
  end of the script is the stop request of `rtr_stop`, observed in `tr_recv`; in an unthreaded replay
  the exhausted tape is a plain transport error and SYNC → ERROR_TRANSPORT would move *up* the rank
  without consuming anything), `0 < fuel` (the receive loops of `rtr_sync` may run at least once),
  `1 ≤ retry_interval`, and the state is not CLOSED (not a state of the running machine: the C loop
  has no case for it and spins; `fsmStep` returns the state unchanged).

  What is NOT decided here: the convergence clause ("once the cache answers correctly again the
  client reaches ESTABLISHED with the cache's data within refresh + expire + c·retry").  The
  environment of this model is a fixed script (tape, send outcomes, open outcomes), not a reactive
  cache that answers the queries it is sent, so "the cache answers correctly again" is not a
  predicate on it.  That clause is decided by the correspondence runs with a simulated reactive
  cache: tools/rtrgen.py `gen_fsm_case(good_tail=…)` appends the good cache's answers to every fault
  schedule, and the C08 oracle in tools/rtrcheck.py checks on the implementation's output that the
  run ends ESTABLISHED with the cache's records within the time bound.
-/
import RtrProofs.Progress

namespace Rtr.C08
open Rtr.P

/-- **the clock never goes backwards, the script never grows** -/
theorem clock_monotone (fuel : Nat) (st st' : St) (h : fsmStep fuel st = some st') :
    st.n.now ≤ st'.n.now ∧ envSize st'.n ≤ envSize st.n ∧ st'.n.threaded = st.n.threaded :=
  fsmStep_mono fuel st st' h

/-- **no iteration without progress**: the clock advances, or the scripted environment shrinks, or —
    with both unchanged — the socket state moves strictly down the rank -/
theorem no_zero_time_cycle (fuel : Nat) (st st' : St) (h : fsmStep fuel st = some st') (hf : 0 < fuel)
    (hr : 1 ≤ st.tm.retry) (hth : st.n.threaded = true) (hc : st.c.state ≠ .closed) :
    st'.n.now > st.n.now ∨ envSize st'.n < envSize st.n ∨
    (st'.n.now = st.n.now ∧ envSize st'.n = envSize st.n ∧ rank st'.c.state < rank st.c.state) := by
  have m := fsmStep_mono fuel st st' h
  rcases fsmStep_progress fuel st st' h hf hr hth hc with p | p | ⟨p, _, _⟩
  · exact Or.inl p
  · exact Or.inr (Or.inl p)
  · by_cases h1 : st.n.now < st'.n.now
    · exact Or.inl h1
    · by_cases h2 : envSize st'.n < envSize st.n
      · exact Or.inr (Or.inl h2)
      · exact Or.inr (Or.inr ⟨by omega, by omega, p⟩)

/-- … and such a step leads to a state of the running machine with the same intervals, so the
    argument can be repeated -/
theorem zero_time_step_keeps_hypotheses (fuel : Nat) (st st' : St) (h : fsmStep fuel st = some st') (hf : 0 < fuel)
    (hr : 1 ≤ st.tm.retry) (hth : st.n.threaded = true) (hc : st.c.state ≠ .closed)
    (hn : st'.n.now = st.n.now) (he : envSize st'.n = envSize st.n) :
    rank st'.c.state < rank st.c.state ∧ 1 ≤ st'.tm.retry ∧ st'.n.threaded = true ∧ st'.c.state ≠ .closed := by
  have m := fsmStep_mono fuel st st' h
  rcases fsmStep_progress fuel st st' h hf hr hth hc with p | p | ⟨p1, p2, p3⟩
  · omega
  · omega
  · exact ⟨p1, by rw [p3]; exact hr, by rw [m.2.2]; exact hth, p2⟩

/-- **no busy loop**: a run segment during which neither the clock advances nor the environment
    shrinks has at most `rank` of its first state ≤ `maxRank` = 4 iterations -/
theorem bounded_zero_time_steps (fuel k : Nat) (st st' : St) (seg : ZeroSeg fuel k st st') (hf : 0 < fuel)
    (hr : 1 ≤ st.tm.retry) (hth : st.n.threaded = true) (hc : st.c.state ≠ .closed) :
    k ≤ rank st.c.state ∧ k < maxRank + 1 := by
  have h := zeroSeg_rank seg hf hr hth hc
  have := rank_le st.c.state
  omega

/-- `k` consecutive iterations from `st` to `st'`; every state an iteration starts from has a retry
    interval ≥ 1 and is a state of the running machine -/
inductive Run (fuel : Nat) : Nat → St → St → Prop
  | nil (st : St) : Run fuel 0 st st
  | cons {k : Nat} {st st1 st2 : St} : fsmStep fuel st = some st1 → 1 ≤ st.tm.retry → st.c.state ≠ .closed →
      Run fuel k st1 st2 → Run fuel (k + 1) st st2

/-- **every five iterations cost a second or a piece of the script**: `k` iterations take
    at least `(k − maxRank) / (maxRank + 1)` units of time elapsed + environment consumed -/
theorem steps_bounded (fuel k : Nat) (st st' : St) (run : Run fuel k st st') (hf : 0 < fuel)
    (hth : st.n.threaded = true) :
    (k : Int) + rank st'.c.state ≤
      (maxRank + 1) * ((st'.n.now - st.n.now) + ((envSize st.n : Int) - envSize st'.n)) + rank st.c.state := by
  induction run with
  | nil st => simp only [maxRank]; omega
  | @cons k st st1 st2 h hr hc _ ih =>
    have m := fsmStep_mono fuel st st1 h
    have ih := ih (by rw [m.2.2]; exact hth)
    have r0 := rank_le st.c.state
    have r1 := rank_le st1.c.state
    simp only [maxRank] at ih r0 r1 ⊢
    rcases fsmStep_progress fuel st st1 h hf hr hth hc with p | p | ⟨p, _, _⟩ <;> omega

/-- **the error states wait**: from ERROR_TRANSPORT, ERROR_FATAL and ERROR_NO_DATA_AVAIL the iteration
    advances the clock by exactly the retry interval (and the last thing it does is that sleep) -/
theorem retry_sleep_advances (fuel : Nat) (st st' : St) (h : fsmStep fuel st = some st')
    (hs : st.c.state = .errTransport ∨ st.c.state = .errFatal ∨ st.c.state = .errNoData) :
    st'.n.now = st.n.now + st.tm.retry ∧ st'.n.trace.head? = some s!"Z {st.tm.retry}" := by
  rw [fsmStep_eq] at h
  rcases hs with hs | hs | hs <;> rw [hs] at h <;> simp only [Option.some.injEq] at h <;> subst h
  · refine ⟨stepErrClose_now st, ?_⟩
    rw [(stepErrClose_spec st (by rw [hs]; decide) (by rw [hs]; decide)).2.2.2.2]
    rfl
  · refine ⟨stepErrClose_now st, ?_⟩
    rw [(stepErrClose_spec st (by rw [hs]; decide) (by rw [hs]; decide)).2.2.2.2]
    rfl
  · refine ⟨stepErrNoData_now st, ?_⟩
    unfold stepErrNoData
    rw [purgeOutdated_n]
    show some (s!"Z {((requestReset st).change .reset).tm.retry}") = _
    rw [change_tm]
    rfl

/-- **no error state is absorbing** -/
theorem error_states_reconnect (fuel : Nat) (st st' : St) (h : fsmStep fuel st = some st') :
    -- ERROR_TRANSPORT, ERROR_FATAL: close, CONNECTING, sleep
    ((st.c.state = .errTransport ∨ st.c.state = .errFatal) →
      st'.c.state = .connecting ∧ st'.ss = st.ss ∧ st'.t = st.t ∧ st'.tm = st.tm ∧
      st'.n.trace = s!"Z {st.tm.retry}" :: s!"S {SState.connecting.name} {st.n.now} {st.t.own}" :: "C" :: st.n.trace) ∧
    -- ERROR_NO_DATA_AVAIL, ERROR_NO_INCR_UPDATE_AVAIL: RESET with a new session requested
    ((st.c.state = .errNoData ∨ st.c.state = .errNoIncr) →
      st'.c.state = .reset ∧ st'.ss.reqSession = true ∧ st'.ss.serial = 0 ∧ nextQuery st'.ss = none ∧ st'.tm = st.tm) ∧
    -- FAST_RECONNECT: close, CONNECTING, no sleep
    (st.c.state = .fastReconnect →
      st'.c.state = .connecting ∧ st'.n.now = st.n.now ∧ st'.ss = st.ss ∧ st'.t = st.t ∧ st'.tm = st.tm ∧
      st'.n.trace = s!"S {SState.connecting.name} {st.n.now} {st.t.own}" :: "C" :: st.n.trace) := by
  rw [fsmStep_eq] at h
  refine ⟨fun hs => ?_, fun hs => ?_, fun hs => ?_⟩
  · have sp := stepErrClose_spec st (by rcases hs with hs | hs <;> rw [hs] <;> decide)
      (by rcases hs with hs | hs <;> rw [hs] <;> decide)
    have e : st' = stepErrClose st := by
      rcases hs with hs | hs <;> rw [hs] at h <;> simp only [Option.some.injEq] at h <;> exact h.symm
    subst e
    exact ⟨sp.1, sp.2.2.1, sp.2.2.2.1, sp.2.1, by rw [sp.2.2.2.2]⟩
  · rcases hs with hs | hs <;> rw [hs] at h <;> simp only [Option.some.injEq] at h <;> subst h
    · have sp := stepErrNoData_spec st (by rw [hs]; decide)
      exact ⟨sp.1, sp.2.1, sp.2.2.1, by simp [nextQuery, sp.2.1], sp.2.2.2⟩
    · have sp := requestReset_spec st (by rw [hs]; decide)
      exact ⟨sp.1, sp.2.1, sp.2.2.1, by simp [nextQuery, stepErrNoIncr, sp.2.1], sp.2.2.2⟩
  · rw [hs] at h
    simp only [Option.some.injEq] at h
    subst h
    have sp := stepFastReconnect_spec st (by rw [hs]; decide) (by rw [hs]; decide)
    exact ⟨sp.1, by rw [sp.2.2.2.2], sp.2.2.1, sp.2.2.2.1, sp.2.1, by rw [sp.2.2.2.2]⟩

/-- **why `1 ≤ retry_interval` is needed** (limit of the clause "never loops without letting time
    advance"): with a retry interval of 0 — which a cache can set in interval mode ACCEPT_ANY, see
    C17 — and a transport whose `open` fails, two iterations lead from ERROR_TRANSPORT back to
    ERROR_TRANSPORT at the same time, with the same intervals, tape and send outcomes; only the
    script of open outcomes got shorter.  As long as opens fail the thread spins. -/
theorem retry_zero_cycle (fuel : Nat) (st : St) (q : List Int) (hs : st.c.state = .errTransport)
    (h0 : st.tm.retry = 0) (hq : st.n.openQ = -1 :: q) :
    ∃ st1 st2, fsmStep fuel st = some st1 ∧ fsmStep fuel st1 = some st2 ∧
      st2.c.state = .errTransport ∧ st2.n.now = st.n.now ∧ st2.tm = st.tm ∧
      st2.n.tape = st.n.tape ∧ st2.n.sendQ = st.n.sendQ ∧ st2.n.openQ = q := by
  have sp := stepErrClose_spec st (by rw [hs]; decide) (by rw [hs]; decide)
  have hq1 : (stepErrClose st).n.openQ = -1 :: q := by rw [sp.2.2.2.2]; exact hq
  have so := stepConnecting_open_fails (stepErrClose st) q sp.1 hq1
  refine ⟨stepErrClose st, stepConnecting (stepErrClose st), ?_, ?_, so.1, ?_, ?_, ?_, ?_, so.2.2.2.1⟩
  · rw [fsmStep_eq, hs]
  · rw [fsmStep_eq, sp.1]
  · rw [so.2.1, stepErrClose_now, h0]; simp
  · rw [so.2.2.1, sp.2.1]
  · rw [so.2.2.2.2.1, sp.2.2.2.2]
  · rw [so.2.2.2.2.2, sp.2.2.2.2]

/-! ## non-vacuity -/

/-- a threaded socket in ERROR_NO_INCR_UPDATE_AVAIL whose script is exhausted -/
def stNoIncr : St := { c := { state := .errNoIncr }, n := { threaded := true } }
/-- a threaded socket in ERROR_TRANSPORT -/
def stErr : St := { c := { state := .errTransport }, n := { threaded := true } }
/-- … whose cache set the retry interval to 0 and whose next two opens fail -/
def stErr0 : St := { c := { state := .errTransport }, tm := { retry := 0 }, n := { threaded := true, openQ := [-1, -1] } }
/-- a threaded socket in SYNC with a Serial Notify on the tape -/
def stSync : St := { c := { state := .sync }, n := { threaded := true, tape := [.rx [1, 0, 0, 7, 0, 0, 0, 12, 0, 0, 0, 5]] } }

-- the hypotheses of `no_zero_time_cycle` are met, each disjunct occurs
example : 0 < 1 ∧ 1 ≤ stErr.tm.retry ∧ stErr.n.threaded = true ∧ stErr.c.state ≠ .closed := by decide
example : ∃ st', fsmStep 1 stErr = some st' ∧ st'.n.now > stErr.n.now := ⟨_, rfl, by decide⟩
example : ∃ st', fsmStep 1 stSync = some st' ∧ envSize st'.n < envSize stSync.n := ⟨_, rfl, by decide⟩
example : ∃ st', fsmStep 1 stNoIncr = some st' ∧ st'.n.now = stNoIncr.n.now ∧ envSize st'.n = envSize stNoIncr.n ∧
    rank st'.c.state < rank stNoIncr.c.state := ⟨_, rfl, by decide⟩


/-- a threaded socket in FAST_RECONNECT whose script is exhausted -/
def stFast : St := { c := { state := .fastReconnect }, n := { threaded := true } }

-- `bounded_zero_time_steps` is tight: FAST_RECONNECT → CONNECTING → RESET → SYNC → SHUTDOWN are
-- `maxRank` = 4 iterations without time and without consumption (then the thread exits)
example : 0 < 1 ∧ 1 ≤ stFast.tm.retry ∧ stFast.n.threaded = true ∧ stFast.c.state ≠ .closed := by decide
example : ∃ st', ZeroSeg 1 4 stFast st' ∧ st'.c.state = .shutdown ∧ fsmStep 1 st' = none :=
  ⟨_, .cons rfl (by decide) (by decide) (.cons rfl (by decide) (by decide) (.cons rfl (by decide) (by decide)
    (.cons rfl (by decide) (by decide) (.nil _)))), by decide, rfl⟩
example : ∃ st', ZeroSeg 1 3 stNoIncr st' ∧ st'.c.state = .shutdown :=
  ⟨_, .cons rfl (by decide) (by decide) (.cons rfl (by decide) (by decide) (.cons rfl (by decide) (by decide) (.nil _))),
    by decide⟩

-- `steps_bounded`: two iterations from ERROR_TRANSPORT (sleep, then CONNECTING → RESET)
example : ∃ st', Run 1 2 stErr st' ∧ st'.c.state = .reset ∧ st'.n.now = stErr.n.now + 600 :=
  ⟨_, .cons rfl (by decide) (by decide) (.cons rfl (by decide) (by decide) (.nil _)), by decide, by decide⟩

-- `retry_sleep_advances`, `error_states_reconnect`
example : ∃ st', fsmStep 1 stErr = some st' ∧ st'.n.now = stErr.n.now + stErr.tm.retry ∧ st'.c.state = .connecting :=
  ⟨_, rfl, by decide⟩
example : ∃ st', fsmStep 1 stNoIncr = some st' ∧ st'.c.state = .reset ∧ st'.ss.reqSession = true := ⟨_, rfl, by decide⟩
example : ∃ st', fsmStep 1 stFast = some st' ∧ st'.c.state = .connecting ∧ st'.n.now = stFast.n.now := ⟨_, rfl, by decide⟩

-- `retry_zero_cycle`: its hypotheses are met; after the two iterations they are met again
example : stErr0.c.state = .errTransport ∧ stErr0.tm.retry = 0 ∧ stErr0.n.openQ = -1 :: [-1] := by decide
example : ∃ st1 st2, fsmStep 1 stErr0 = some st1 ∧ fsmStep 1 st1 = some st2 ∧ st2.c.state = .errTransport ∧
    st2.n.now = stErr0.n.now ∧ st2.tm.retry = 0 ∧ st2.n.openQ = [-1] := ⟨_, _, rfl, rfl, by decide⟩

-- why `n.threaded = true` is needed: in an unthreaded replay the exhausted tape is a plain transport
-- error; SYNC → ERROR_TRANSPORT takes no time, consumes nothing and moves UP the rank (the next
-- iteration then sleeps)
example : ∃ st', fsmStep 1 { stSync with n := {} } = some st' ∧ st'.n.now = (1000 : Int) ∧ envSize st'.n = 0 ∧
    st'.c.state = .errTransport ∧ rank st'.c.state > rank SState.sync := ⟨_, rfl, by decide⟩

end Rtr.C08
