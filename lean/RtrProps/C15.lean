/-
  C15 — Cache-group failover honours the preference order.

  Model: `RtrModel/Mgr.lean` (rtr_mgr.c with rtr_start / rtr_stop / rtr_change_socket_state, as
  fixed for F13).  Everything below is for an arbitrary number of groups and sockets and for an
  arbitrary finite history of socket state changes (all eleven `rtr_socket_state` values, on any
  socket, in any order — a superset of what the socket threads can produce), add/remove-group,
  start and stop calls: `Reachable` is the inductive closure of a successful `init` under `step`.

  Reading of the statement (fixed here, the oracle of tools/mgrcheck.py uses the same reading):
   * "a group is reported ESTABLISHED" = the group's status *becomes* ESTABLISHED, resp. a status
     callback with ESTABLISHED is issued for a group that was not ESTABLISHED before the operation.
     `set_status` re-issues the unchanged status on every socket state change, so a group that is
     already ESTABLISHED keeps being re-reported as ESTABLISHED while one of its sockets passes
     through states outside {ESTABLISHED, RESET, SYNC}; `rereport_while_unsynced` exhibits this on a
     concrete history (it is what the C code does, recorded as an observation, not counted as a
     violation).
   * "shut down" = `rtr_stop` on every socket; "started" = `rtr_mgr_start_sockets`, i.e. `rtr_start`
     on the sockets in order up to the first failure, status CONNECTING iff none failed.  A failure
     needs a socket that still has a thread, which a CLOSED group never has in histories without an
     injected RTR_SHUTDOWN event (`closed_groups_have_no_thread`).
-/
import RtrModel.Mgr
import RtrProofs.MgrSort
import RtrProofs.MgrCb
import RtrProofs.MgrStep
import RtrProofs.MgrProps
import RtrProofs.MgrFail
import RtrProofs.MgrLen

namespace Rtr.C15

open Rtr.Mgr

/-! ## configuration checks -/

/-- `rtr_mgr_init` (with the F13 fix) fails — returning no configuration — exactly when the group
    array is empty, some group has no socket, or two groups share a preference value; otherwise it
    yields the groups in strictly ascending preference order, all CLOSED. -/
theorem init_rejects (specs : List (Nat × Nat)) :
    (specs = [] → init specs = none) ∧
    ((∃ s ∈ specs, s.2 = 0) → init specs = none) ∧
    (¬ (specs.map (·.1)).Nodup → init specs = none) ∧
    (specs ≠ [] → (∀ s ∈ specs, s.2 ≠ 0) → (specs.map (·.1)).Nodup →
      ∃ gs, init specs = some gs ∧ Sorted gs ∧ (prefs gs).Perm (specs.map (·.1)) ∧
        ∀ g ∈ gs, g.status = .closed) := by
  refine ⟨?_, ?_, ?_, ?_⟩
  · intro h; subst h; rfl
  · rintro ⟨s, hs, h0⟩
    cases h : init specs with
    | none => rfl
    | some gs => exact absurd h0 ((init_nodup_socks h).2.1 s hs)
  · intro hnd
    cases h : init specs with
    | none => rfl
    | some gs => exact absurd (init_nodup_socks h).2.2.1 hnd
  · intro hne hsock hnd
    obtain ⟨gs, h⟩ := init_accepts hne hsock hnd
    have := init_nodup_socks h
    exact ⟨gs, h, this.2.2.2.1, this.2.2.2.2.1, this.2.2.2.2.2.1⟩

example : init [] = none ∧ init [(5, 1), (3, 0)] = none ∧ init [(5, 1), (3, 2), (5, 3)] = none ∧
    (init [(5, 2), (3, 1), (9, 1)]).map prefs = some [3, 5, 9] := by decide

/-- `rtr_mgr_add_group` refuses (RTR_INVALID_PARAM, nothing changes, nothing is started) a
    preference value that is in use, and accepts every other one — provided the call is not refused
    for one of the two other reasons an add can fail for (`failed_add_changes_nothing`): the
    intervals copied from the existing groups' sockets pass `rtr_init`'s range check and no
    allocation is refused. -/
theorem add_rejects_dup (gs : List Group) (p n k : Nat) :
    ((∃ g ∈ gs, g.pref = p) → add gs p n k = (gs, [], -2)) ∧
    ((∀ g ∈ gs, g.pref ≠ p) → ivsOk (pickIvs defaultIvs gs) = true → k ≠ 1 → k ≠ 2 →
      (add gs p n k).2.2 = 0 ∧ (prefs (add gs p n k).1).Perm (p :: prefs gs)) := by
  constructor
  · rintro ⟨g, hg, hp⟩
    apply add_refused
    unfold addRefusal
    rw [if_pos (any_pref_iff.mpr ⟨g, hg, hp⟩)]
  · intro h hiv hk1 hk2
    have hany : ¬ (gs.any (fun g => g.pref == p) = true) := by
      intro hc
      obtain ⟨g, hg, hp⟩ := any_pref_iff.mp hc
      exact h g hg hp
    have hnone : addRefusal gs p k = none := (addRefusal_none_iff gs p k).mpr ⟨hany, hk1, hiv, hk2⟩
    rw [add_accepted hnone n]
    refine ⟨rfl, ?_⟩
    simp only
    rw [startFirstIfClosed_prefs]
    refine (prefs_perm (sortG_perm _)).trans ?_
    have : prefs (gs ++ [mkGroupIv p n (pickIvs defaultIvs gs)]) = prefs gs ++ [p] := by simp [prefs, mkGroupIv]
    rw [this]
    exact List.perm_append_singleton p (prefs gs)

example : add [mkGroup 3 1, mkGroup 5 2] 5 1 = ([mkGroup 3 1, mkGroup 5 2], [], -2) ∧
    prefs (add [mkGroup 3 1, mkGroup 5 2] 4 1).1 = [3, 4, 5] := by decide

/-- A failing `rtr_mgr_add_group` changes nothing and starts nothing, whatever the reason:
    the call fails exactly when the preference is in use, or the allocation of the group is refused
    (`k = 1`), or the intervals it copies from `sockets[0]` of the existing groups (cache-controlled
    in RTR_INTERVAL_MODE_ACCEPT_ANY) are rejected by `rtr_init`, or the allocation of the list node
    is refused (`k = 2`); for a fresh preference and rejected intervals the return code is
    RTR_INVALID_PARAM.  The new group's sockets get the copied intervals when the add succeeds. -/
theorem failed_add_changes_nothing (gs : List Group) (p n k : Nat) :
    ((add gs p n k).2.2 ≠ 0 → (add gs p n k).1 = gs ∧ (add gs p n k).2.1 = []) ∧
    ((add gs p n k).2.2 ≠ 0 ↔
      ((∃ g ∈ gs, g.pref = p) ∨ k = 1 ∨ ivsOk (pickIvs defaultIvs gs) = false ∨ k = 2)) ∧
    ((∀ g ∈ gs, g.pref ≠ p) → ivsOk (pickIvs defaultIvs gs) = false → k ≠ 1 → add gs p n k = (gs, [], -2)) ∧
    ((add gs p n k).2.2 = 0 → ∃ g' ∈ (add gs p n k).1, g'.pref = p ∧ g'.ivs = pickIvs defaultIvs gs ∧
      ivsOk g'.ivs = true) := by
  refine ⟨?_, ?_, ?_, ?_⟩
  · intro hrc
    rcases add_cases gs p n k with ⟨rc, _, h⟩ | ⟨_, _, h⟩
    · rw [h]; exact ⟨rfl, rfl⟩
    · rw [h] at hrc; exact absurd rfl hrc
  · rw [Ne, add_rc_zero_iff, addRefusal_none_iff]
    constructor
    · intro h
      by_cases h1 : gs.any (fun g => g.pref == p) = true
      · exact Or.inl (any_pref_iff.mp h1)
      · by_cases h2 : k = 1
        · exact Or.inr (Or.inl h2)
        · by_cases h4 : k = 2
          · exact Or.inr (Or.inr (Or.inr h4))
          · cases h3 : ivsOk (pickIvs defaultIvs gs) with
            | false => exact Or.inr (Or.inr (Or.inl rfl))
            | true => exact absurd ⟨h1, h2, h3, h4⟩ h
    · rintro (h | h | h | h) ⟨h1, h2, h3, h4⟩
      · exact h1 (any_pref_iff.mpr h)
      · exact h2 h
      · rw [h] at h3; cases h3
      · exact h4 h
  · intro hfresh hiv hk
    apply add_refused
    have hany : ¬ (gs.any (fun g => g.pref == p) = true) := by
      intro hc
      obtain ⟨g, hg, hp⟩ := any_pref_iff.mp hc
      exact hfresh g hg hp
    unfold addRefusal
    rw [if_neg hany, if_neg hk, if_pos hiv]
  · intro hrc
    have hnone := (add_rc_zero_iff gs p n k).mp hrc
    have hiv := ((addRefusal_none_iff gs p k).mp hnone).2.2.1
    rw [add_accepted hnone n]
    have hm : mkGroupIv p n (pickIvs defaultIvs gs) ∈ sortG (gs ++ [mkGroupIv p n (pickIvs defaultIvs gs)]) :=
      mem_sortG.mpr (List.mem_append_right _ List.mem_cons_self)
    cases hl : sortG (gs ++ [mkGroupIv p n (pickIvs defaultIvs gs)]) with
    | nil => rw [hl] at hm; cases hm
    | cons b t =>
      rw [hl] at hm
      simp only [startFirstIfClosed]
      rcases List.mem_cons.mp hm with hb | ht
      · subst hb
        split
        · exact ⟨_, List.mem_cons_self, by simp [Group.startSockets, mkGroupIv], by simp [Group.startSockets, mkGroupIv], by
            simpa [Group.startSockets, mkGroupIv] using hiv⟩
        · exact ⟨_, List.mem_cons_self, rfl, rfl, hiv⟩
      · split
        · exact ⟨_, List.mem_cons_of_mem _ ht, rfl, rfl, hiv⟩
        · exact ⟨_, List.mem_cons_of_mem _ ht, rfl, rfl, hiv⟩

/-- an End of Data with refresh 200000 (> RTR_REFRESH_MAX) on group 3's first socket makes the next
    add fail with RTR_INVALID_PARAM and no effect; with refresh 0 ("not set") the defaults are used
    and the add succeeds; an add with a refused allocation fails with RTR_ERROR -/
example :
    (init [(3, 1)]).map (fun gs => step (run gs [.setiv 3 200000 7200 600]) (.add 5 1))
      = (init [(3, 1)]).map (fun gs => (run gs [.setiv 3 200000 7200 600], [], -2)) ∧
    (init [(3, 1)]).map (fun gs => (step (run gs [.setiv 3 0 7200 600]) (.add 5 1)).2.2) = some 0 ∧
    (init [(3, 1)]).map (fun gs => step gs (.add 5 1 1)) = (init [(3, 1)]).map (fun gs => (gs, [], -1)) ∧
    (init [(3, 1)]).map (fun gs => step gs (.add 5 1 2)) = (init [(3, 1)]).map (fun gs => (gs, [], -1)) := by
  decide

/-- the last remaining group cannot be removed (RTR_ERROR, nothing changes), and no reachable
    configuration is empty -/
theorem last_group_kept :
    (∀ (gs : List Group) (p : Nat), gs.length = 1 → remove gs p = (gs, [], -1)) ∧
    (∀ gs, Reachable gs → gs ≠ []) := by
  constructor
  · intro gs p h
    unfold remove
    rw [if_pos h]
  · intro gs h
    exact h.inv.2

example : remove [mkGroup 3 1] 3 = ([mkGroup 3 1], [], -1) ∧ prefs (remove [mkGroup 3 1, mkGroup 5 1] 3).1 = [5] := by
  decide

/-- The same over histories, *including* adds that fail for any reason and cache-controlled interval
    changes: after every history of socket events, add_group calls (accepted, duplicate, refused
    allocation, intervals rejected by `rtr_init`), `setiv`, remove_group, start and stop
      * at least one group is left,
      * if exactly one is left, every further `remove_group` returns RTR_ERROR without any effect —
        so the history extended by it ends in the same configuration,
      * `rtr_mgr_get_first_group` has a group to return. -/
theorem last_group_never_removed {specs : List (Nat × Nat)} {gs0 : List Group} (h : init specs = some gs0)
    (ops : List Op) :
    run gs0 ops ≠ [] ∧
    (∀ p, (run gs0 ops).length = 1 →
      step (run gs0 ops) (.remove p) = (run gs0 ops, [], -1) ∧ run gs0 (ops ++ [.remove p]) = run gs0 ops) ∧
    (firstGroup (run gs0 ops)).isSome = true := by
  have hne := (reachable_run (Reachable.init h) ops).inv.2
  refine ⟨hne, ?_, ?_⟩
  · intro p hl
    have hr : step (run gs0 ops) (.remove p) = (run gs0 ops, [], -1) := last_group_kept.1 _ p hl
    refine ⟨hr, ?_⟩
    rw [run_append]
    simp only [run, hr]
  · cases hl : run gs0 ops with
    | nil => exact absurd hl hne
    | cons b t => rfl

/-- `rtr_mgr_remove_group` guards the last group by the counter `config->len`; the counter as the C
    code is meant to maintain it (`len++` on a successful add, `len--` on a successful remove,
    nothing else — in particular not on a failed add) equals the length of the group list after
    every operation, so the guard `len == 1` and "one group is left" are the same test. -/
theorem len_bookkeeping (gs : List Group) (o : Op) :
    (step gs o).1.length = lenAfter gs.length o (step gs o).2.2 := step_length gs o

/-- End of Data with an out-of-range refresh interval (ACCEPT_ANY) on the least preferable group (the
    last one in list order is the one whose non-zero intervals `rtr_mgr_add_group` ends up with);
    one add with a fresh preference succeeds before, two adds fail after it (RTR_INVALID_PARAM from
    `rtr_init`, nothing changes); the removals go down to one group and the next removal — of the
    last group — is refused, twice; the group is still there. -/
example :
    (init [(3, 1), (5, 1)]).map (fun gs =>
      let ops := [Op.start, .add 7 1, .setiv 7 200000 7200 600, .add 9 1, .add 11 2, .remove 5, .remove 3]
      (prefs (run gs ops), (step (run gs ops) (.add 9 1)).2.2, step (run gs ops) (.remove 7) == (run gs ops, [], -1),
       prefs (run gs (ops ++ [.remove 7, .remove 7])))) = some ([7], -2, true, [7]) := by decide

/-- after every operation of every history the group list is in strictly ascending preference
    order; `rtr_mgr_get_first_group` is the group with the smallest preference value and
    `rtr_mgr_for_each_group` enumerates in that order -/
theorem sorted_inv {gs : List Group} (h : Reachable gs) :
    Sorted gs ∧ forEachGroup gs = gs ∧ ∃ b, firstGroup gs = some b ∧ ∀ g ∈ gs, b.pref ≤ g.pref := by
  obtain ⟨hs, hn⟩ := h.inv
  refine ⟨hs, rfl, ?_⟩
  cases gs with
  | nil => exact absurd rfl hn
  | cons b t =>
    refine ⟨b, rfl, ?_⟩
    intro g hg
    rcases List.mem_cons.mp hg with rfl | hg
    · exact Nat.le_refl _
    · exact Nat.le_of_lt ((List.pairwise_cons.mp hs).1 g hg)

/-- the same, spelled out over histories -/
theorem sorted_inv_run {specs : List (Nat × Nat)} {gs0 : List Group} (h : init specs = some gs0) (ops : List Op) :
    Sorted (run gs0 ops) := (reachable_run (Reachable.init h) ops).inv.1

example : (init [(9, 1), (3, 1)]).map (fun gs => prefs (run gs [.add 5 2, .start, .add 1 1, .remove 3, .stop]))
    = some [1, 5, 9] := by decide

/-! ## ESTABLISHED only when synced -/

/-- A group that is ESTABLISHED after an operation either already was ESTABLISHED before it, or the
    operation is an RTR_ESTABLISHED event of one of its sockets and in the resulting configuration
    every socket of the group has `last_update != 0` and is in ESTABLISHED / RESET / SYNC.
    Likewise every ESTABLISHED status callback issued by an operation is either for a group that
    already was ESTABLISHED, or for the event's own group, which then is synced in the result. -/
theorem established_only_if_synced (gs : List Group) (o : Op) :
    (∀ g' ∈ (step gs o).1, g'.status = .established →
      (∃ g ∈ gs, g.pref = g'.pref ∧ g.status = .established) ∨
      (g'.isSynced = true ∧ ∃ i sy, o = .ev g'.pref i .established sy)) ∧
    (∀ q x, Ev.status q .established x ∈ (step gs o).2.1 →
      (∃ g ∈ gs, g.pref = q ∧ g.status = .established) ∨
      ((∃ i sy, o = .ev q i .established sy) ∧
        ∀ g' ∈ (step gs o).1, g'.pref = q → g'.status = .established ∧ g'.isSynced = true)) :=
  ⟨fun _ hg' he => step_est o hg' he, fun _ _ hl => step_log_est o hl⟩

/-- a history on which group 3 becomes ESTABLISHED (both sockets synced), and one on which the
    second socket is not synced and the group stays CONNECTING -/
example :
    ((init [(3, 2)]).map fun gs => (run gs [.start, .ev 3 0 .established true, .ev 3 1 .established true]).map (·.status))
      = some [.established] ∧
    ((init [(3, 2)]).map fun gs => (run gs [.start, .ev 3 0 .established true, .ev 3 1 .established false]).map (·.status))
      = some [.connecting] := by decide

/-- Observation (behaviour of the C code, see the header): an ESTABLISHED group is re-reported as
    ESTABLISHED by the status callback while its only socket is in RTR_FAST_RECONNECT. -/
theorem rereport_while_unsynced :
    ∃ gs0, init [(3, 1)] = some gs0 ∧
      let ops := [Op.start, .ev 3 0 .sync true, .ev 3 0 .established true]
      let gs := run gs0 ops
      let r := step gs (.ev 3 0 .fastReconnect true)
      Ev.status 3 .established (some (3, 0)) ∈ r.2.1 ∧ ∀ g ∈ r.1, g.isSynced = false := by
  refine ⟨_, rfl, ?_⟩
  decide

/-! ## failover -/

/-- Whenever a socket event makes its group (preference `p`) ESTABLISHED, then afterwards every
    group with a larger preference value is CLOSED, and for every such group that was not CLOSED
    before, `rtr_stop` was called on each of its sockets and a CLOSED status callback (carrying the
    establishing socket) was issued.  (Holds for any configuration.) -/
theorem established_closes_less_preferred {gs : List Group} {p i : Nat} {st : SockState} {sy : Bool}
    {gs' : List Group} {l : List Ev} (h : event gs p i st sy = some (gs', l))
    (hpre : ∀ g ∈ gs, g.pref = p → g.status ≠ .established)
    (hpost : ∃ g' ∈ gs', g'.pref = p ∧ g'.status = .established) :
    (∀ g' ∈ gs', p < g'.pref → g'.status = .closed) ∧
    (∀ g ∈ gs, p < g.pref → g.status ≠ .closed →
      Ev.status g.pref .closed (some (p, i)) ∈ l ∧ ∀ j, j < g.socks.length → Ev.stop g.pref j ∈ l) := by
  obtain ⟨g, s, _, _, _, _, hr⟩ := event_becomes_est h hpre hpost
  cases hr
  refine ⟨fun g' hg' hp => be_post_gt hg' hp, ?_⟩
  intro g0 hg0 hp hs
  exact be_emits (evList_of_ne hg0 (by omega)) hp hs

/-- groups 5 (ESTABLISHED) and 9 (CONNECTING) are closed when group 3 recovers from ERROR -/
example :
    (init [(3, 1), (5, 1), (9, 1)]).map (fun gs =>
      (run gs [.start, .ev 3 0 .errFatal false, .ev 5 0 .established true, .ev 5 0 .errTransport true,
               .ev 3 0 .connecting false, .ev 3 0 .established true]).map (fun g => (g.pref, g.status)))
      = some [(3, .established), (5, .closed), (9, .closed)] := by decide

/-- Every `rtr_stop` issued while the manager handles a socket event of group `p` targets a group
    with a strictly larger preference value, and is issued because group `p` — not ESTABLISHED
    before — has just become ESTABLISHED with all its sockets synced.  No other event stops
    anything; `add_group` and `start` never stop a socket and `remove_group p` stops only sockets
    of the group being removed. -/
theorem never_closed_for_worse {gs : List Group} (hr : Reachable gs) :
    (∀ p i st sy gs' l, event gs p i st sy = some (gs', l) → ∀ q j, Ev.stop q j ∈ l →
      p < q ∧ st = .established ∧ (∀ g ∈ gs, g.pref = p → g.status ≠ .established) ∧
      (∀ g' ∈ gs', g'.pref = p → g'.status = .established ∧ g'.isSynced = true)) ∧
    (∀ p n k q j, Ev.stop q j ∉ (add gs p n k).2.1) ∧
    (∀ q j, Ev.stop q j ∉ (start gs).2.1) ∧
    (∀ p q j, Ev.stop q j ∈ (remove gs p).2.1 → q = p) := by
  have hs := hr.inv.1
  refine ⟨?_, ?_, ?_, ?_⟩
  · intro p i st sy gs' l h q j hl
    obtain ⟨g, s, hg, _, hst, hgs, hsync, hr'⟩ := event_stop_be h hl
    cases hr'
    have hgm := findG_some hg
    refine ⟨?_, hst, ?_, ?_⟩
    · rcases be_log hl with he | ⟨g0, _, hp, _, ⟨j', he, _⟩ | ⟨_, he⟩ | ⟨_, he⟩⟩
      · cases he
      · cases he; exact hp
      · cases he
      · cases he
    · intro g0 hg0 hp0
      have := hs.unique hg0 hgm.1 (hp0.trans hgm.2.symm)
      subst this
      rcases hgs with h1 | h1 <;> rw [h1] <;> decide
    · intro g' hg' hp'
      obtain ⟨g0, hg0, hg0p, rfl⟩ := be_post_eq hg' hp'
      have := evList_unique (gs := gs) (p := p) (g2 := evGroup g i s st sy) (by rw [evGroup_pref]; exact hgm.2)
        g0 hg0 (by rw [hg0p, evGroup_pref]; exact hgm.2.symm)
      subst this
      exact ⟨rfl, hsync⟩
  · intro p n k q j hl
    obtain ⟨_, _, _, he⟩ := add_log hl
    cases he
  · intro q j hl
    obtain ⟨_, _, _, he⟩ := start_log hl
    cases he
  · intro p q j hl
    rcases remove_log hl with ⟨_, _, _, he⟩ | ⟨_, _, _, _, ⟨_, he, _⟩ | ⟨_, he⟩ | ⟨_, he⟩⟩
    · cases he
    · cases he; rfl
    · cases he
    · cases he

/-- the stops of the previous example's last step: sockets of groups 5 and 9 only -/
example :
    (init [(3, 1), (5, 1), (9, 1)]).map (fun gs =>
      let gs1 := run gs [.start, .ev 3 0 .errFatal false, .ev 5 0 .established true, .ev 5 0 .errTransport true,
               .ev 3 0 .connecting false]
      (step gs1 (.ev 3 0 .established true)).2.1.filter (fun e => match e with | .stop .. => true | _ => false))
      = some [.stop 5 0, .stop 9 0] := by decide

/-- Whenever a socket of group `p` really changes to one of the error states (ERROR_FATAL,
    ERROR_TRANSPORT, ERROR_NO_DATA_AVAIL) the group is reported ERROR, and if no other group is
    ESTABLISHED then:
     * the most preferable group `q` that is CLOSED (other than `p`) is handed to
       `rtr_mgr_start_sockets`: the rest of the log is exactly its `rtr_start` calls, `q` is replaced
       by the started group, every other group except `p` is untouched; if no socket of `q` has a
       thread, every socket of `q` is started successfully and `q` becomes CONNECTING;
     * if no other group is CLOSED nothing is started.
    If some other group is ESTABLISHED nothing is started either. -/
theorem error_starts_best_closed {gs : List Group} (hr : Reachable gs) {p i : Nat} {st : SockState} {sy : Bool}
    {gs' : List Group} {l : List Ev} (h : event gs p i st sy = some (gs', l)) (hst : st.isError = true)
    {g : Group} {s : Sock} (hg : g ∈ gs) (hp : g.pref = p) (hsock : g.socks[i]? = some s)
    (hch : s.state ≠ st) (hnsd : s.state ≠ .shutdown) :
    (∀ g' ∈ gs', g'.pref = p → g'.status = .error) ∧
    ((∀ c ∈ gs, c.pref ≠ p → c.status ≠ .established) →
      (∀ q ∈ gs, q.pref ≠ p → q.status = .closed →
        (∀ c ∈ gs, c.pref ≠ p → c.status = .closed → q.pref ≤ c.pref) →
          l = Ev.status p .error (some (p, i)) :: q.startSockets.2.1 ∧
          q.startSockets.1 ∈ gs' ∧
          (∀ c ∈ gs, c.pref ≠ p → c.pref ≠ q.pref → c ∈ gs') ∧
          ((∀ x ∈ q.socks, x.thread = false) →
            q.startSockets.1.status = .connecting ∧ (∀ x ∈ q.startSockets.1.socks, x.thread = true) ∧
            ∀ j, j < q.socks.length → Ev.start q.pref j true ∈ l)) ∧
      ((∀ c ∈ gs, c.pref ≠ p → c.status ≠ .closed) → l = [Ev.status p .error (some (p, i))])) ∧
    ((∃ c ∈ gs, c.pref ≠ p ∧ c.status = .established) → l = [Ev.status p .error (some (p, i))]) := by
  have hs := hr.inv.1
  have hcb := event_error_cb h hst hs hg hp hsock hch hnsd
  -- abbreviations: gs2 = list seen by the callback, gs1 = after set_status(ERROR)
  have hg2p : (evGroup g i s st sy).pref = p := by rw [evGroup_pref]; exact hp
  have hs1 : Sorted (setStatus (modG gs p fun _ => evGroup g i s st sy) p .error) :=
    sorted_of_prefs_eq (by rw [prefs_setStatus]; exact prefs_modG (fun x hx => by rw [hg2p, hx])) hs
  -- membership in gs1 for groups other than p
  have hmem1 : ∀ c, c.pref ≠ p → (c ∈ setStatus (modG gs p fun _ => evGroup g i s st sy) p .error ↔ c ∈ gs) := by
    intro c hc
    constructor
    · intro hm
      rcases mem_setStatus hm with ⟨h1, _⟩ | ⟨g0, _, hg0p, rfl⟩
      · rcases mem_evList h1 with ⟨h2, _⟩ | ⟨rfl, _⟩
        · exact h2
        · exact absurd hg2p hc
      · exact absurd hg0p hc
    · intro hm
      exact mem_modG_of_ne (mem_modG_of_ne hm hc) hc
  have hp1 : ∀ c ∈ setStatus (modG gs p fun _ => evGroup g i s st sy) p .error, c.pref = p → c.status = .error := by
    intro c hm hcp
    rcases mem_setStatus hm with ⟨_, hne⟩ | ⟨g0, _, _, rfl⟩
    · exact absurd hcp hne
    · rfl
  have hl_cb : (cbError (modG gs p fun _ => evGroup g i s st sy) (evGroup g i s st sy) i) = (gs', l) := hcb.symm
  refine ⟨?_, ?_, ?_⟩
  · intro g' hg' hp'
    have hg'' : g' ∈ (cbError (modG gs p fun _ => evGroup g i s st sy) (evGroup g i s st sy) i).1 := by
      rw [hl_cb]; exact hg'
    rcases cbError_mem hg'' with ⟨_, hne⟩ | ⟨g0, _, _, rfl⟩ | ⟨q, _, hq1, _, rfl⟩
    · rw [hg2p] at hne; exact absurd hp' hne
    · rfl
    · rw [hg2p] at hq1; exact absurd hp' hq1
  · intro hnoest
    have hse : someEstablished (setStatus (modG gs p fun _ => evGroup g i s st sy) p .error) = false := by
      apply someEstablished_false
      intro c hc
      by_cases hcp : c.pref = p
      · rw [hp1 c hc hcp]; decide
      · exact hnoest c ((hmem1 c hcp).mp hc) hcp
    have hcb' : (gs', l) = ((startBest p (setStatus (modG gs p fun _ => evGroup g i s st sy) p .error)).1,
        Ev.status p .error (some (p, i)) :: (startBest p (setStatus (modG gs p fun _ => evGroup g i s st sy) p .error)).2) := by
      rw [hcb]
      unfold cbError
      simp only [hg2p, hse]
      rfl
    cases hcb'
    constructor
    · intro q hq hqp hqc hmin
      have hq1 := (hmem1 q hqp).mpr hq
      have hmin1 : ∀ c ∈ setStatus (modG gs p fun _ => evGroup g i s st sy) p .error,
          c.pref ≠ p → c.status = .closed → q.pref ≤ c.pref :=
        fun c hc hcp hcc => hmin c ((hmem1 c hcp).mp hc) hcp hcc
      obtain ⟨k1, k2, k3, _⟩ := startBest_spec hs1 hq1 hqp hqc hmin1
      refine ⟨by rw [k1], k2, ?_, ?_⟩
      · intro c hc hcp hcq
        exact k3 c ((hmem1 c hcp).mpr hc) (by intro e; subst e; exact hcq rfl)
      · intro hthr
        have := startSocks_ok (pref := q.pref) (i := 0) hthr
        refine ⟨startSockets_closed_connecting hthr, this.2.1, ?_⟩
        intro j hj
        apply List.mem_cons_of_mem
        rw [k1]
        have := this.2.2 j hj
        rw [Nat.zero_add] at this
        exact this
    · intro hnocl
      rw [startBest_none]
      intro c hc ⟨hcp, hcc⟩
      exact hnocl c ((hmem1 c hcp).mp hc) hcp hcc
  · rintro ⟨c, hc, hcp, hce⟩
    have hse : someEstablished (setStatus (modG gs p fun _ => evGroup g i s st sy) p .error) = true :=
      someEstablished_true ((hmem1 c hcp).mpr hc) hce
    have : (gs', l) = (setStatus (modG gs p fun _ => evGroup g i s st sy) p .error,
        [Ev.status p .error (some (p, i))]) := by
      rw [hcb]
      unfold cbError
      simp only [hg2p, hse]
      rfl
    cases this
    rfl

/-- group 3 fails while 5 is CONNECTING-then-ERROR and 9 still CLOSED: 9 is the group started -/
example :
    (init [(3, 1), (5, 2), (9, 1)]).map (fun gs =>
      let gs1 := run gs [.start, .ev 3 0 .errTransport false]
      ((step gs1 (.ev 5 1 .errNoData false)).2.1, (step gs1 (.ev 5 1 .errNoData false)).1.map (fun g => (g.pref, g.status))))
      = some ([.status 5 .error (some (5, 1)), .start 9 0 true],
              [(3, .error), (5, .error), (9, .connecting)]) := by decide

/-- In every history that contains no injected RTR_SHUTDOWN event (the library itself enters that
    state only inside `rtr_stop`), no socket of a CLOSED group has a thread — so the group chosen
    by `error_starts_best_closed` is always started completely and becomes CONNECTING. -/
theorem closed_groups_have_no_thread {specs : List (Nat × Nat)} {gs0 : List Group} (h : init specs = some gs0)
    (ops : List Op) (hno : ∀ o ∈ ops, ∀ p i sy, o ≠ .ev p i .shutdown sy) :
    ClosedThreadless (run gs0 ops) := by
  have h0 : ClosedThreadless gs0 := fun g hg _ => (init_nodup_socks h).2.2.2.2.2.2 g hg
  have hr0 : Reachable gs0 := Reachable.init h
  clear h
  induction ops generalizing gs0 with
  | nil => exact h0
  | cons o os ih =>
    exact ih (fun o' ho' => hno o' (List.mem_cons_of_mem _ ho'))
      (step_ct hr0.inv.1 h0 o (hno o List.mem_cons_self)) (Reachable.step o hr0)

/-- with an injected RTR_SHUTDOWN the invariant can fail: the thread stays recorded while the group
    is reported CLOSED, and the next failover's `rtr_start` on that socket fails -/
example :
    (init [(3, 1), (5, 1)]).map (fun gs =>
      (step (run gs [.start, .ev 3 0 .shutdown false, .add 1 1]) (.ev 1 0 .errFatal false)).2.1)
      = some [.status 1 .error (some (1, 0)), .start 3 0 false] := by decide

end Rtr.C15
