/-
  C07 — Data that can no longer be refreshed expires; stopping a socket removes its data.

  Model: `Rtr.P.fsmStep` (one iteration of rtr_fsm_start, incl. rtr_purge_outdated_records before
  every open() and after the no-data / no-incremental errors), `syncG` (rtr_sync), `stop`
  (rtr_stop after the thread has ended), over the abstract tables justified by C02/C10; the clock is
  the monotone `now` of the transport script (`dt:n` entries, sleeps, timeouts).
  `ss.lastUpdate` is `rtr_socket.last_update`: `last_update_written` shows it is exactly "time of
  the last successful synchronisation, 0 after a purge", for every history.
  Quantifier: every state of socket and tables that satisfies the invariant (a freshly initialised
  socket does), every transport script (all fault patterns, all lengths of unreachability), every
  interval setting (`tm.expire` is an arbitrary integer).
-/
import RtrProofs.Expiry

namespace Rtr.C07
open Rtr Rtr.P

/-- **the time stamp means what the property says**: one iteration of the state machine either
    leaves `last_update` alone (and the socket's records are the same set, or gone), or clears it
    together with a purge of the socket's records and a pending Reset Query, or — the iteration
    was a successful `rtr_sync` — sets it to the time at which that synchronisation completed.
    In particular a failed or interrupted reload does not touch it (F7). -/
theorem last_update_written (fuel : Nat) (st st' : St) (h : fsmStep fuel st = some st') (ht : TblOK st.t) :
    (st'.ss.lastUpdate = st.ss.lastUpdate ∧ (TblSame st.t st'.t ∨ NoOwn st'.t)) ∨
    (st'.ss.lastUpdate = 0 ∧ NoOwn st'.t ∧ st'.ss.reqSession = true) ∨
    (st.c.state = .sync ∧ (syncG fuel st).1 = true ∧ st'.ss.lastUpdate = (syncG fuel st).2.1.n.now) :=
  (fsmStep_lu fuel st st' h).lu ht

/-- **invariant over all histories**: in every state reachable from one that satisfies it, a socket
    that has records in the tables has a non-zero time stamp, a socket without a time stamp will
    ask with a Reset Query, and the clock is positive. -/
theorem invariant (fuel : Nat) {st st' : St} (h : Reach fuel st st') (ht : TblOK st.t) (hi : Inv7 st) : Inv7 st' :=
  reach_inv7 fuel h ht hi

/-- a freshly initialised socket (rtr_init: no time stamp, session requested) on tables that hold
    nothing of it satisfies the invariant whenever the clock reads a positive value -/
theorem invariant_init (st : St) (_h0 : st.ss.lastUpdate = 0) (hr : st.ss.reqSession = true) (hn : NoOwn st.t)
    (hc : 0 < st.n.now) : Inv7 st :=
  ⟨fun h => absurd hn h, fun _ => hr, hc⟩

/-- the state in which `rtr_fsm_start` calls the transport's open(): after the purge check -/
def atOpen (st : St) : St := purgeOutdated (clearReceived st)

/-- **expiry at (re)connection**: in the connecting state, when more than `expire_interval` has
    passed since the last successful synchronisation (`last_update + expire < now`; with no such
    synchronisation the invariant already says there is nothing to remove), then at the moment the
    transport's open() is called the tables hold no record of this socket, the records of other
    sockets are untouched, and — if open() succeeds — the next state is RTR_RESET, which sends a
    Reset Query (`C05.reset_query`). -/
theorem expiry_at_open (st : St) (ht : TblOK st.t) (hi : Inv7 st)
    (hexp : st.ss.lastUpdate + st.tm.expire < st.n.now) :
    NoOwn (atOpen st).t ∧ OthersSame st.t (atOpen st).t ∧ TblOK (atOpen st).t ∧ (atOpen st).ss.reqSession = true ∧
    stepConnecting st =
      (if (trOpen (atOpen st)).1 = -1 then (trOpen (atOpen st)).2.change .errTransport
       else (trOpen (atOpen st)).2.change .reset) ∧
    (trOpen (atOpen st)).2.t = (atOpen st).t := by
  have key : NoOwn (atOpen st).t ∧ OthersSame st.t (atOpen st).t ∧ TblOK (atOpen st).t ∧ (atOpen st).ss.reqSession = true := by
    unfold atOpen
    rcases (purgeOutdated_spec (clearReceived st)).2.2.2 with ⟨e, hn⟩ | ⟨_, _, htb, hr, _, _⟩
    · -- no purge: then the time stamp is 0, so by the invariant nothing is there
      have h0 : st.ss.lastUpdate = 0 := by
        have hn' : ¬ (st.ss.lastUpdate ≠ 0 ∧ st.ss.lastUpdate + st.tm.expire < st.n.now) := hn
        exact Decidable.byContradiction fun h => hn' ⟨h, hexp⟩
      rw [e]
      exact ⟨Classical.byContradiction fun h => hi.1 h h0, OthersSame.refl _, ht, hi.2.1 h0⟩
    · rw [htb]
      have pn := purge_noOwn (clearReceived st).t
      exact ⟨pn.1, pn.2.1, pn.2.2 ht, hr⟩
  refine ⟨key.1, key.2.1, key.2.2.1, key.2.2.2, ?_, (trOpen_frame (atOpen st)).2.1⟩
  have e : stepConnecting st = (match trOpen (atOpen st) with
      | (rc, st) => if rc = -1 then st.change .errTransport else if st.ss.reqSession then st.change .reset
          else match sendSerialQuery st with | (ok, st) => if ok then st.change .sync else st.change .errFatal) := rfl
  rw [e]
  have o := trOpen_frame (atOpen st)
  generalize trOpen (atOpen st) = ro at o
  obtain ⟨rc, st2⟩ := ro
  simp only at o ⊢
  have : st2.ss.reqSession = true := by rw [o.1]; exact key.2.2.2
  rw [this]; simp

/-- the same purge runs after a no-data / no-incremental-update answer -/
theorem expiry_after_error (st : St) (hl : st.ss.lastUpdate ≠ 0) (hexp : st.ss.lastUpdate + st.tm.expire < st.n.now) :
    NoOwn (purgeOutdated st).t ∧ OthersSame st.t (purgeOutdated st).t ∧ (purgeOutdated st).ss.reqSession = true := by
  rcases (purgeOutdated_spec st).2.2.2 with ⟨_, hn⟩ | ⟨_, _, htb, hr, _, _⟩
  · exact absurd ⟨hl, hexp⟩ hn
  · rw [htb]; exact ⟨(purge_noOwn st.t).1, (purge_noOwn st.t).2.1, hr⟩

/-- **stop**: after `rtr_stop` none of the socket's records remain, records of other sockets are
    untouched, the time stamp is cleared and a later start begins with a Reset Query. -/
theorem stop_clears (st : St) :
    NoOwn (stop st).t ∧ OthersSame st.t (stop st).t ∧ (TblOK st.t → TblOK (stop st).t) ∧
    (stop st).ss.lastUpdate = 0 ∧ (stop st).ss.reqSession = true ∧ (stop st).c.state = .closed := by
  have e : (stop st).t = st.t.purge := by
    show (trClose (st.change .shutdown)).t.purge = _
    have : (trClose (st.change .shutdown)).t = st.t := (change_frame st .shutdown).2.1
    rw [this]
  rw [e]
  exact ⟨(purge_noOwn st.t).1, (purge_noOwn st.t).2.1, (purge_noOwn st.t).2.2, rfl, rfl, rfl⟩

/-- **stop on a running thread** (`rtr_stop` = stop request, the thread's remaining work `f`, then
    close / reset / purge): none of the socket's records remain — including those the thread applied
    after the stop request — and the purge leaves the records of other sockets as the thread left them. -/
theorem stop_live_clears (st : St) (f : St → St) :
    NoOwn (stopFinish (f (stopBegin st))).t ∧ OthersSame (f (stopBegin st)).t (stopFinish (f (stopBegin st))).t ∧
    (TblOK (f (stopBegin st)).t → TblOK (stopFinish (f (stopBegin st))).t) := by
  rw [stopFinish_tbl]
  exact ⟨(purge_noOwn _).1, (purge_noOwn _).2.1, (purge_noOwn _).2.2⟩

/-- **other sockets**: along every history the records of other sockets are untouched -/
theorem others_untouched (fuel : Nat) {st st' : St} (h : Reach fuel st st') (ht : TblOK st.t) :
    OthersSame st.t st'.t ∧ TblOK st'.t :=
  ⟨(reach_inv fuel h ht).2.2, (reach_inv fuel h ht).2.1⟩

/-! ### non-vacuity -/

/-- a freshly initialised socket at clock 1 satisfies the invariant -/
example : Inv7 { n := { now := 1 } } :=
  invariant_init _ rfl rfl ⟨(fun _ h => nomatch h), (fun _ h => nomatch h)⟩ (by decide)

def r1 : Rec := { v6 := false, addr := 0x0a000000, len := 8, maxLen := 8, asn := 1, src := 0 }
def sExpired : St := { ss := { lastUpdate := 10, reqSession := false }, tm := { expire := 7200 }, n := { now := 7211 }, t := { pt := [r1] } }
def sFresh : St := { ss := { lastUpdate := 10, reqSession := false }, tm := { expire := 7200 }, n := { now := 7210 }, t := { pt := [r1] } }

/-- an expired socket with a record: the purge removes it -/
example : (purgeOutdated sExpired).t.pt = [] := by decide
/-- not yet expired (exactly `expire` seconds): kept -/
example : (purgeOutdated sFresh).t.pt = [r1] := by decide

end Rtr.C07
