/-
  C14 (part a) — "Every byte sequence handed to the transport is a sequence of complete RTR PDUs of
  the negotiated version whose length field equals the bytes sent and does not exceed the client's
  own maximum PDU size, however the transport splits the writes. … [an Error Report carries] a text
  length consistent with the PDU length … (except in reply to an Error Report)".

  Model: `Rtr.P` (RtrModel/Rtr.lean): `serialQueryBytes`, `resetQueryBytes`, `errorPduBytes` are the
  byte strings `rtr_send_serial_query`, `rtr_send_reset_query`, `rtr_send_error_pdu` hand to
  `rtr_send_pdu` (after its conversion to network byte order, see RtrProofs/PduConv.lean for the
  conversion itself); `sendAll` is the loop of `tr_send_all` over a scripted transport whose send
  script decides per call: everything / the first k bytes / error / would-block.

  Theorems:
    `serialQuery_wf`, `resetQuery_wf`, `errorPdu_wf`   the PDUs built are `WellFormedPdu` of the socket's version
    `serialQuery_fields`, `resetQuery_fields`          their fields; they pass `rtr_pdu_check_size`
    `errorPdu_fields`      type 10, code, encapsulated length = |enc|, bytes [12, 12+|enc|) = enc, text
                           length field = |text|, text, 16 + |enc| + |text| = length, passes the size check
    `sendAll_chunking`     no failing write: `tr_send_all` returns the length and the concatenation of
                           what the individual `tr_send` calls accepted is the buffer — stated on the trace:
                           the new lines are `W <offered> -> <k> <hex of the k bytes>` of the ghost calls
    `sendAll_prefix`       with failures: what was accepted is a prefix of the buffer; the result is
                           negative iff a call failed
    `no_reply_to_error`    nothing is sent in reply to an Error Report
    `sendErrorPdu_sends`   otherwise exactly `errorPduBytes` of the socket's version goes to `tr_send_all`
-/
import RtrProofs.SentPdus

namespace Rtr.C14
open Rtr.P

theorem serialQuery_wf (ver sess sn : Nat) : WellFormedPdu ver (serialQueryBytes ver sess sn) :=
  P.serialQuery_wf ver sess sn

theorem serialQuery_fields (ver sess sn : Nat) (hs : sess < 65536) (hn : sn < 4294967296) :
    typeOf (serialQueryBytes ver sess sn) = 1 ∧ be16 (serialQueryBytes ver sess sn) 2 = sess ∧
    (serialQueryBytes ver sess sn).length = 12 ∧ be32 (serialQueryBytes ver sess sn) 8 = sn ∧
    (ver < 256 → verOf (serialQueryBytes ver sess sn) = ver) ∧
    checkSize (serialQueryBytes ver sess sn) = true := P.serialQuery_fields ver sess sn hs hn

theorem resetQuery_wf (ver : Nat) : WellFormedPdu ver (resetQueryBytes ver) := P.resetQuery_wf ver

theorem resetQuery_fields (ver : Nat) :
    typeOf (resetQueryBytes ver) = 2 ∧ be16 (resetQueryBytes ver) 2 = 0 ∧ (resetQueryBytes ver).length = 8 ∧
    (ver < 256 → verOf (resetQueryBytes ver) = ver) ∧ checkSize (resetQueryBytes ver) = true :=
  P.resetQuery_fields ver

/-- an Error Report that fits the client's maximum is well formed -/
theorem errorPdu_wf (ver : Nat) (enc : List Nat) (code : Nat) (text : List Nat)
    (h : enc.length + text.length + 16 ≤ Gen.RTR_MAX_PDU_LEN) :
    WellFormedPdu ver (errorPduBytes ver enc code text) := P.errorPdu_wf ver enc code text h

theorem errorPdu_fields (ver : Nat) (enc : List Nat) (code : Nat) (text : List Nat)
    (h : enc.length + text.length + 16 ≤ Gen.RTR_MAX_PDU_LEN) :
    typeOf (errorPduBytes ver enc code text) = 10 ∧
    (code < 65536 → be16 (errorPduBytes ver enc code text) 2 = code) ∧
    be32 (errorPduBytes ver enc code text) 8 = enc.length ∧
    ((errorPduBytes ver enc code text).drop 12).take enc.length = enc ∧
    be32 (errorPduBytes ver enc code text) (12 + enc.length) = text.length ∧
    (errorPduBytes ver enc code text).drop (16 + enc.length) = text ∧
    (errorPduBytes ver enc code text).length = 16 + enc.length + text.length ∧
    checkSize (errorPduBytes ver enc code text) = true := P.errorPdu_fields ver enc code text h

/-- the queries the state machine sends are these byte strings, of the socket's current version -/
theorem queries_sent (st : St) :
    (sendSerialQuery st).1 = (sendPdu st.c st.n (serialQueryBytes st.c.version st.ss.session st.ss.serial)).1 ∧
    (sendResetQuery st).1 = (sendPdu st.c st.n (resetQueryBytes st.c.version)).1 := by
  unfold sendSerialQuery sendResetQuery
  constructor
  · rcases sendPdu st.c st.n (serialQueryBytes st.c.version st.ss.session st.ss.serial) with ⟨ok, n⟩
    cases ok <;> rfl
  · rcases sendPdu st.c st.n (resetQueryBytes st.c.version) with ⟨ok, n⟩
    cases ok <;> rfl

/-- **`tr_send_all` with partial writes.**  Whatever the sequence of complete / partial write
    outcomes in the send script (no failures): the result is `bytes.length`; the trace gains exactly
    the lines `W <offered> -> <k> <hex chunk>` of the calls made, all successful, and the chunks
    accepted, concatenated in order, are `bytes`; the send script loses one entry per call and
    nothing else changes. -/
theorem sendAll_chunking (n : Net) (bytes : List Nat) (hq : NoFail n.sendQ) :
    ∃ calls : List SendCall,
      sendAll n bytes = ((bytes.length : Int),
        { n with sendQ := n.sendQ.drop calls.length, trace := (calls.map SendCall.line).reverse ++ n.trace }) ∧
      (∀ c ∈ calls, c.isOk = true) ∧ accepted calls = bytes := by
  refine ⟨sendCalls (bytes.length + 1) n.sendQ bytes, ?_, ?_, ?_⟩
  · unfold sendAll
    rw [sendAllLoop_calls]
    have := (sendCalls_all (bytes.length + 1) n.sendQ bytes 0 hq (Nat.lt_succ_self _)).2.1
    rw [this, Nat.zero_add]
  · exact (sendCalls_all (bytes.length + 1) n.sendQ bytes 0 hq (Nat.lt_succ_self _)).2.2
  · exact (sendCalls_all (bytes.length + 1) n.sendQ bytes 0 hq (Nat.lt_succ_self _)).1

/-- **With failures** (`err` / `block` anywhere in the send script): the chunks accepted before
    form a prefix of `bytes`; the result is negative exactly when a call failed. -/
theorem sendAll_prefix (n : Net) (bytes : List Nat) :
    ∃ calls : List SendCall,
      sendAll n bytes = (callsRc calls 0,
        { n with sendQ := n.sendQ.drop calls.length, trace := (calls.map SendCall.line).reverse ++ n.trace }) ∧
      accepted calls <+: bytes ∧ (callsRc calls 0 < 0 ↔ ∃ c ∈ calls, c.isOk = false) := by
  refine ⟨sendCalls (bytes.length + 1) n.sendQ bytes, ?_, accepted_prefix _ _ _, callsRc_neg_iff _ _⟩
  unfold sendAll
  rw [sendAllLoop_calls]

theorem no_reply_to_error (c : Conn) (n : Net) (enc : List Nat) (code : Nat) (text : List Nat)
    (h2 : 2 ≤ enc.length) (h10 : enc.getD 1 0 = 10) : sendErrorPdu c n enc code text = (true, n) :=
  P.no_reply_to_error c n enc code text h2 h10

theorem sendErrorPdu_sends (c : Conn) (n : Net) (enc : List Nat) (code : Nat) (text : List Nat)
    (h : ¬ (2 ≤ enc.length ∧ enc.getD 1 0 = 10)) :
    sendErrorPdu c n enc code text = sendPdu c n (errorPduBytes c.version enc code text) :=
  P.sendErrorPdu_sends c n enc code text h

/-- **`tr_send_all` when the write calls take time** (a congested link: each call may block for any
    time before it accepts part of the data or fails; the loop hands the transport the time left
    until its deadline, negative once the deadline has passed, and never gives up by itself).
    Whatever the script of outcomes and durations: a return value ≥ 0 — what `rtr_send_pdu` takes
    for success — means that every byte of the PDU was accepted by the transport, in order, and the
    value is the length; a negative value means a call failed and what was accepted before is a
    proper prefix. -/
theorem sendAll_deadline_complete (q : List SendStep) (now : Int) (bytes : List Nat) (timeout : Int)
    (h : 0 ≤ (sendAllT q now bytes timeout).rc) :
    (sendAllT q now bytes timeout).handed = bytes ∧ (sendAllT q now bytes timeout).rc = (bytes.length : Int) := by
  have := (P.sendAllTLoop_spec (now + timeout) (bytes.length + 1) q now bytes 0 [] [] (Nat.lt_succ_self _)).1 h
  simpa [sendAllT] using this

theorem sendAll_deadline_failure (q : List SendStep) (now : Int) (bytes : List Nat) (timeout : Int)
    (h : (sendAllT q now bytes timeout).rc < 0) :
    ∃ k, k < bytes.length ∧ (sendAllT q now bytes timeout).handed = bytes.take k := by
  have := (P.sendAllTLoop_spec (now + timeout) (bytes.length + 1) q now bytes 0 [] [] (Nat.lt_succ_self _)).2 h
  simpa [sendAllT] using this

/-- when no time passes inside the write calls this loop returns what `sendAll` (the loop inside the
    protocol model, theorems above) returns on the same outcomes -/
theorem sendAll_deadline_conservative (n : Net) (bytes : List Nat) (timeout : Int) :
    (sendAllT (P.stepsOf n.sendQ) n.now bytes timeout).rc = (sendAll n bytes).1 :=
  P.sendAllT_conservative n bytes timeout

/-! ## non-vacuity -/

section Examples

/-- a Serial Query on a stalled link: the first write takes 61 s (one more than the 60 s the call was
    given) and accepts 5 bytes; the loop goes on (time left: -1) and the PDU is handed over completely -/
example : (sendAllT [⟨61, .part 5⟩] 1000 (serialQueryBytes 1 48879 5) 60).rc = 12 ∧
    (sendAllT [⟨61, .part 5⟩] 1000 (serialQueryBytes 1 48879 5) 60).now = 1061 ∧
    (sendAllT [⟨61, .part 5⟩] 1000 (serialQueryBytes 1 48879 5) 60).lines =
      ["V 12 60 -> 5 0101beef00", "V 7 -1 -> 7 00000c00000005"] := by decide

/-- an Error Report echoing an 8-byte header with a 3-byte text -/
example : errorPduBytes 1 [1, 4, 0, 0, 0, 0, 0, 21] 0 [65, 66, 0] =
    [1, 10, 0, 0, 0, 0, 0, 27, 0, 0, 0, 8, 1, 4, 0, 0, 0, 0, 0, 21, 0, 0, 0, 3, 65, 66, 0] := by decide

example : [1, 4, 0, 0, 0, 0, 0, 21].length + [65, 66, 0].length + 16 ≤ Gen.RTR_MAX_PDU_LEN := by decide

/-- a Reset Query written in three pieces: 3 bytes, 1 byte (a `part 0` still moves one byte), the rest -/
example : ¬ NoFail [.part 3, .part 0, .all, .err] ∧ NoFail [.part 3, .part 0, .all] := by decide

example : (sendAll { sendQ := [.part 3, .part 0, .all] } (resetQueryBytes 1)).1 = 8 ∧
    (sendAll { sendQ := [.part 3, .part 0, .all] } (resetQueryBytes 1)).2.trace =
      ["W 4 -> 4 00000008", "W 5 -> 1 00", "W 8 -> 3 010200"] := by decide

/-- a failing write after 3 bytes: -1, and the 3 bytes are a prefix -/
example : (sendAll { sendQ := [.part 3, .err] } (resetQueryBytes 1)).1 = -1 := by decide

/-- an Error Report is not answered: enc = the header of an Error Report -/
example : sendErrorPdu {} {} [1, 10, 0, 2, 0, 0, 0, 16] 0 [] = (true, {}) :=
  no_reply_to_error _ _ _ _ _ (by decide) (by decide)

end Examples

end Rtr.C14
