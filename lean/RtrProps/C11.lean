/-
  C11 — A BGPsec path is VALID only if every hop's signature verifies under its AS's key.

  Model: RtrModel.Bgpsec (byte-level `align_byte_sequence`, `req_stream_size`, the offset loop of
  `rtr_bgpsec_validate_as_path`, key selection, error-code order) over uninterpreted `hash`/`verify`.
  Spec:  Rtr.Rfc8205.digest (RFC 8205 §4.2, written as a recursion over the path).

  `KeyMode.skiAndAs` + `stop = true` is the repaired code: a router key counts only if it is registered
  for the segment's SKI AND for the AS of the corresponding Secure_Path segment, and the validation
  loop ends with the Signature Segment list.  `KeyMode.skiOnly` + `stop = false` is the tree as it
  stands: finding F10 (signature "C11/key-as-mismatch") — the full-strength statement is refuted on a
  concrete witness (`decision_fails_skiOnly`), the SKI-only part is kept as `decision_partial` — and
  the loop-overrun finding (`loop_overrun_current`, signature "C11/loop-overrun").
-/
import RtrProofs.Bgpsec

namespace Rtr.C11
open Rtr.Bgpsec Rtr.Rfc8205

/-- **Layout.** For every path length, all signature lengths and all NLRI lengths, and for every hop
    `i`: the bytes that iteration `i` of the validation loop hashes — the suffix of the stream written
    by `align_byte_sequence(VALIDATION)` at `offset_i = Σ_{k<i} next_offset_k` — are exactly the RFC 8205
    §4.2 sequence for Signature Segment `i`.  This includes the pun that the last four bytes of
    Secure_Path Segment `i` double as the Target AS Number of hop `i+1`. -/
theorem align_eq_rfc (d : Data) (hlen : d.path.length = d.sigs.length)
    (hski : ∀ s ∈ d.sigs, s.ski.length = 20) (i : Nat) (hi : i < d.sigs.length) :
    (alignBytes .validation d).drop (offsetAt d.sigs i) = digest d i :=
  align_drop_eq_digest d hlen hski i hi

/-- `req_stream_size` is exactly the number of bytes `align_byte_sequence` writes (no overflow of the
    stream buffer, no trailing zero bytes hashed), for both alignment types. -/
theorem align_length (ty : AlignType) (d : Data) (hn : d.nlri.bytes.length = nlriB d.nlri.len)
    (hski : ∀ s ∈ d.sigs, s.ski.length = 20) (hl : (startSigs ty d.sigs).length ≤ d.path.length) :
    (alignBytes ty d).length = reqStreamSize ty d :=
  alignBytes_length ty d hn hski hl

section
variable {H : Type} (hash : List Nat → H) (verify : List Nat → H → List Nat → VRes)

/-- **Decision, full strength** (repaired key selection, repaired loop bound).  The answer is VALID
    exactly when the pre-checks pass and, for every Signature Segment `i`, some router key registered
    for the segment's SKI and for the AS number of Secure_Path Segment `i` verifies the signature over
    the RFC 8205 §4.2 sequence of hop `i`.  Only hypothesis: SKIs are 20 octets (`uint8_t ski[20]`). -/
theorem decision (d : Data) (T : Table) (hski : ∀ s ∈ d.sigs, s.ski.length = 20) :
    validate hash verify .skiAndAs true d T = .valid ↔
      Supported d ∧ ∀ i s p, d.sigs[i]? = some s → d.path[i]? = some p →
        ∃ k ∈ T, k.ski = s.ski ∧ k.asn = p.asn ∧ verify k.spki (hash (digest d i)) s.sig = .valid := by
  rw [validate_iff_allOk hash verify .skiAndAs true T d hski (Or.inl rfl)]
  apply and_congr_right
  intro hsup
  rw [allOk_iff_forall hash verify .skiAndAs T d d.path d.sigs d.targetAs hsup.2.2.1]
  simp only [KeyVerifies, keyOk, Bool.and_eq_true, decide_eq_true_eq, digest, targetAt, and_assoc]

/-- **Decision of the current tree** (`_partial`: SKI-only key selection, loop bounded by the stream
    offset).  MISSING w.r.t. the property: (1) `k.asn = p.asn` — the key need not be registered for the
    AS of the Secure_Path segment (F10); (2) the hypothesis `NoOverrun` (RtrProofs.Bgpsec): the loop
    stops after the last segment only if the last signature is longer than `nlri octets - 13`, which
    holds for `nlri_len ≤ 128` and any ≥ 4-octet signature, but not in general (`loop_overrun_current`). -/
theorem decision_partial (d : Data) (T : Table) (hski : ∀ s ∈ d.sigs, s.ski.length = 20) (hover : NoOverrun d) :
    validate hash verify .skiOnly false d T = .valid ↔
      Supported d ∧ ∀ i s p, d.sigs[i]? = some s → d.path[i]? = some p →
        ∃ k ∈ T, k.ski = s.ski ∧ verify k.spki (hash (digest d i)) s.sig = .valid := by
  rw [validate_iff_allOk hash verify .skiOnly false T d hski (Or.inr hover)]
  apply and_congr_right
  intro hsup
  rw [allOk_iff_forall hash verify .skiOnly T d d.path d.sigs d.targetAs hsup.2.2.1]
  simp only [KeyVerifies, keyOk, decide_eq_true_eq, digest, targetAt]

/-- the same for any combination of key selection and loop bound (used by C12) -/
theorem decision_general (m : KeyMode) (stop : Bool) (d : Data) (T : Table) (hski : ∀ s ∈ d.sigs, s.ski.length = 20)
    (hover : stop = true ∨ NoOverrun d) :
    validate hash verify m stop d T = .valid ↔
      Supported d ∧ ∀ i s p, d.sigs[i]? = some s → d.path[i]? = some p →
        ∃ k ∈ T, keyOk m s.ski p.asn k = true ∧ verify k.spki (hash (digest d i)) s.sig = .valid := by
  rw [validate_iff_allOk hash verify m stop T d hski hover]
  apply and_congr_right
  intro hsup
  rw [allOk_iff_forall hash verify m T d d.path d.sigs d.targetAs hsup.2.2.1]
  simp only [KeyVerifies, digest, targetAt]

end

/-! ### the key table changes while a path is being validated; signature fields must be strict DER

The SPKI table is shared with the RTR threads and every lookup of `rtr_bgpsec_validate_as_path` takes the
table's read lock on its own, so one call sees a sequence of table snapshots `V 0, V 1, …` (`View`): lookups
`0 … n-1` are made by `check_router_keys`, lookup `n + i` by iteration `i` of the validation loop
(`n` = number of segments).  `wf sig` = "the octets of the signature field are exactly the DER encoding of an
ECDSA-Sig-Value" (what `ECDSA_verify` demands before it checks anything), `verify` the ECDSA check proper. -/

section lookups
variable {H : Type} (hash : List Nat → H) (verify : List Nat → H → List Nat → VRes) (wf : List Nat → Bool)

/-- **Decision with independent lookups, any key selection / loop bound.** -/
theorem decision_lookups_general (m : KeyMode) (stop : Bool) (d : Data) (V : View) (hski : ∀ s ∈ d.sigs, s.ski.length = 20)
    (hover : stop = true ∨ NoOverrun d) :
    validateFull hash verify wf m stop d V = .valid ↔
      Supported d ∧
      (∀ i s p, d.sigs[i]? = some s → d.path[i]? = some p → ∃ k ∈ V i, keyOk m s.ski p.asn k = true) ∧
      (∀ i s p, d.sigs[i]? = some s → d.path[i]? = some p →
        wf s.sig = true ∧ ∃ k ∈ V (d.sigs.length + i), keyOk m s.ski p.asn k = true ∧
          verify k.spki (hash (digest d i)) s.sig = .valid) := by
  unfold validateFull
  rw [validateV_iff hash (validateSignature wf verify) m stop V d hski hover]
  apply and_congr_right
  intro hsup
  rw [checkRouterKeysV_success_iff m V d.sigs d.path 0 hsup.2.2.1,
    allOkV_iff_forall hash (validateSignature wf verify) m V d d.path d.sigs d.sigs.length d.targetAs hsup.2.2.1]
  apply and_congr
  · constructor
    · intro h i s p hs hp
      have := h i s p hs hp
      rw [Nat.zero_add] at this
      obtain ⟨k, hk⟩ := List.exists_mem_of_ne_nil _ this
      simp only [keysFor, List.mem_filter] at hk
      exact ⟨k, hk.1, hk.2⟩
    · intro h i s p hs hp
      obtain ⟨k, hk, hok⟩ := h i s p hs hp
      rw [Nat.zero_add]
      intro he
      have : k ∈ keysFor m (V i) s.ski p.asn := by simp [keysFor, List.mem_filter, hk, hok]
      rw [he] at this; simp at this
  · constructor
    · intro h i s p hs hp
      obtain ⟨k, hk, hok, hv⟩ := h i s p hs hp
      rw [validateSignature_valid_iff] at hv
      exact ⟨hv.1, k, hk, hok, by simpa [digest, targetAt] using hv.2⟩
    · intro h i s p hs hp
      obtain ⟨hw, k, hk, hok, hv⟩ := h i s p hs hp
      refine ⟨k, hk, hok, ?_⟩
      rw [validateSignature_valid_iff]
      exact ⟨hw, by simpa [digest, targetAt] using hv⟩

/-- **Decision with independent lookups, full strength** (the tree as repaired: keys count only under the
    segment's AS, the loop ends with the Signature Segment list).  VALID exactly when the pre-checks pass,
    every lookup of `check_router_keys` found a key of the segment's SKI and AS, and for every hop `i` the
    signature field is strict DER and verifies, over the RFC 8205 §4.2 sequence of hop `i`, under a key of
    the hop's SKI and AS that was RETURNED BY THE LOOKUP OF THAT HOP'S OWN LOOP ITERATION — not by the
    pre-check, not by another hop's lookup, not by an earlier state of the table. -/
theorem decision_lookups (d : Data) (V : View) (hski : ∀ s ∈ d.sigs, s.ski.length = 20) :
    validateFull hash verify wf .skiAndAs true d V = .valid ↔
      Supported d ∧
      (∀ i s p, d.sigs[i]? = some s → d.path[i]? = some p → ∃ k ∈ V i, k.ski = s.ski ∧ k.asn = p.asn) ∧
      (∀ i s p, d.sigs[i]? = some s → d.path[i]? = some p →
        wf s.sig = true ∧ ∃ k ∈ V (d.sigs.length + i), k.ski = s.ski ∧ k.asn = p.asn ∧
          verify k.spki (hash (digest d i)) s.sig = .valid) := by
  rw [decision_lookups_general hash verify wf .skiAndAs true d V hski (Or.inl rfl)]
  simp only [keyOk, Bool.and_eq_true, decide_eq_true_eq, and_assoc]

/-- VALID ⇒ every hop's signature field is a strict DER ECDSA-Sig-Value and verifies under a key of the hop's
    SKI and AS that is among the keys `spki_table_search_by_ski` returned in that hop's iteration. -/
theorem valid_needs_own_lookup (d : Data) (V : View) (hski : ∀ s ∈ d.sigs, s.ski.length = 20)
    (h : validateFull hash verify wf .skiAndAs true d V = .valid) (i : Nat) (s : SigSeg) (p : PathSeg)
    (hs : d.sigs[i]? = some s) (hp : d.path[i]? = some p) :
    wf s.sig = true ∧ ∃ k ∈ searchBySki (V (d.sigs.length + i)) s.ski, k.asn = p.asn ∧
      verify k.spki (hash (digest d i)) s.sig = .valid := by
  obtain ⟨hw, k, hk, hski', hasn, hv⟩ := ((decision_lookups hash verify wf d V hski).mp h).2.2 i s p hs hp
  exact ⟨hw, k, by simp [searchBySki, List.mem_filter, hk, hski'], hasn, hv⟩

/-- **A hop whose own lookup returned no key is never VALID** — whatever `check_router_keys` saw a moment
    earlier, whatever the other hops do (any key selection; any loop bound that terminates, `hover`). -/
theorem empty_lookup_never_valid (m : KeyMode) (stop : Bool) (d : Data) (V : View)
    (hski : ∀ s ∈ d.sigs, s.ski.length = 20) (hover : stop = true ∨ NoOverrun d)
    (i : Nat) (s : SigSeg) (hs : d.sigs[i]? = some s) (hempty : searchBySki (V (d.sigs.length + i)) s.ski = []) :
    validateFull hash verify wf m stop d V ≠ .valid := by
  intro h
  have h' := (decision_lookups_general hash verify wf m stop d V hski hover).mp h
  have hlen := h'.1.2.2.1
  have hi : i < d.path.length := by
    have := (List.getElem?_eq_some_iff.mp hs).1
    omega
  obtain ⟨_, k, hk, hok, _⟩ := h'.2.2 i s d.path[i] hs (List.getElem?_eq_getElem hi)
  exact search_ne_nil_of_keyOk m _ s.ski _ k hk hok hempty

/-- the same for the tree as repaired, without side condition -/
theorem empty_lookup_never_valid_repaired (d : Data) (V : View) (hski : ∀ s ∈ d.sigs, s.ski.length = 20)
    (i : Nat) (s : SigSeg) (hs : d.sigs[i]? = some s) (hempty : searchBySki (V (d.sigs.length + i)) s.ski = []) :
    validateFull hash verify wf .skiAndAs true d V ≠ .valid :=
  empty_lookup_never_valid hash verify wf .skiAndAs true d V hski (Or.inl rfl) i s hs hempty

/-- a signature field that is not strict DER is never VALID, whatever `verify` would say about it -/
theorem malformed_signature_never_valid (m : KeyMode) (stop : Bool) (d : Data) (V : View)
    (hski : ∀ s ∈ d.sigs, s.ski.length = 20) (hover : stop = true ∨ NoOverrun d)
    (s : SigSeg) (hs : s ∈ d.sigs) (hbad : wf s.sig = false) :
    validateFull hash verify wf m stop d V ≠ .valid := by
  intro h
  have h' := (decision_lookups_general hash verify wf m stop d V hski hover).mp h
  obtain ⟨i, hi, rfl⟩ := List.getElem_of_mem hs
  have hp : i < d.path.length := by have := h'.1.2.2.1; omega
  have := (h'.2.2 i d.sigs[i] d.path[i] (List.getElem?_eq_getElem hi) (List.getElem?_eq_getElem hp)).1
  rw [hbad] at this; cases this

/-- one fixed table is the special case of a constant view: `decision` is `decision_lookups` there -/
theorem decision_wf (d : Data) (T : Table) (hski : ∀ s ∈ d.sigs, s.ski.length = 20) :
    validateFull hash verify wf .skiAndAs true d (fun _ => T) = .valid ↔
      Supported d ∧ ∀ i s p, d.sigs[i]? = some s → d.path[i]? = some p →
        wf s.sig = true ∧ ∃ k ∈ T, k.ski = s.ski ∧ k.asn = p.asn ∧ verify k.spki (hash (digest d i)) s.sig = .valid := by
  rw [decision_lookups hash verify wf d (fun _ => T) hski]
  apply and_congr_right
  intro _
  constructor
  · exact fun h => h.2
  · intro h
    refine ⟨fun i s p hs hp => ?_, h⟩
    obtain ⟨_, k, hk, a, b, _⟩ := h i s p hs hp
    exact ⟨k, hk, a, b⟩

end lookups

/-! ### F10: the full-strength statement is false for SKI-only key selection

Toy crypto for the witness: a "signature" is the key followed by the hashed octets.  The path is
the shape of the RFC 8208 example (AS 64496 → AS 65536 → validator 65537, 192.0.2.0/24); the two
router keys are filed under AS 11111 and 22222. -/

def toyHash (m : List Nat) : List Nat := m
def toyVerify (spki : List Nat) (h : List Nat) (sig : List Nat) : VRes := if sig = spki ++ h then .valid else .notValid
def toySign (sk : List Nat) (h : List Nat) : List Nat := sk ++ h

def ski1 : List Nat := List.replicate 20 1
def ski2 : List Nat := List.replicate 20 2

/-- origin AS 64496 signs towards 65536 -/
def w1 : Data :=
  { alg := 1, afi := 1, safi := 1, targetAs := 65536, nlri := ⟨1, 24, [192, 0, 2]⟩,
    path := [⟨1, 0, 64496⟩], sigs := [] }
def wsig2 : List Nat := toySign [22] (toyHash (alignBytes .signing w1))
/-- AS 65536 signs towards 65537 -/
def w2 : Data :=
  { w1 with targetAs := 65537, path := [⟨1, 0, 65536⟩, ⟨1, 0, 64496⟩], sigs := [⟨ski2, wsig2⟩] }
def wsig1 : List Nat := toySign [11] (toyHash (alignBytes .signing w2))
/-- what the validator AS 65537 receives -/
def witness : Data := { w2 with sigs := [⟨ski1, wsig1⟩, ⟨ski2, wsig2⟩] }

def keysRight : Table := [⟨65536, ski1, [11]⟩, ⟨64496, ski2, [22]⟩]
def keysWrongAs : Table := [⟨11111, ski1, [11]⟩, ⟨22222, ski2, [22]⟩]

/-- with the keys under other AS numbers the SKI-only code still answers VALID … -/
theorem witness_valid_skiOnly : validate toyHash toyVerify .skiOnly false witness keysWrongAs = .valid := by decide

/-- … so the property's statement does not hold for it: -/
theorem decision_fails_skiOnly :
    ¬ (∀ (d : Data) (T : Table), (∀ s ∈ d.sigs, s.ski.length = 20) → NoOverrun d →
        (validate toyHash toyVerify .skiOnly false d T = .valid ↔
          Supported d ∧ ∀ i s p, d.sigs[i]? = some s → d.path[i]? = some p →
            ∃ k ∈ T, k.ski = s.ski ∧ k.asn = p.asn ∧ toyVerify k.spki (toyHash (digest d i)) s.sig = .valid)) := by
  intro h
  have h' := (h witness keysWrongAs (by decide) (by decide)).mp witness_valid_skiOnly
  obtain ⟨k, hk, _, hasn, _⟩ := h'.2 0 ⟨ski1, wsig1⟩ ⟨1, 0, 65536⟩ (by decide) (by decide)
  simp only [keysWrongAs, List.mem_cons, List.not_mem_nil, or_false] at hk
  rcases hk with rfl | rfl <;> simp at hasn

/-- the repaired selection refuses the same input (not VALID, and with the specific code) -/
theorem witness_refused_skiAndAs : validate toyHash toyVerify .skiAndAs true witness keysWrongAs = .routerKeyNotFound := by decide

/-! ### the loop bound of the current tree

Toy crypto in which a short signature verifies: one hop, `nlri_len = 255` (32 octets, never checked
against the AFI), a 3-octet signature.  After the only segment has verified, `offset = 3 + 28 = 31`
is still `≤ stream size = 47`, the loop runs again with `tmp_sig == NULL`. -/

def toyVerifyShort (spki : List Nat) (_ : List Nat) (sig : List Nat) : VRes := if sig = spki then .valid else .notValid
def overrunData : Data :=
  { alg := 1, afi := 1, safi := 1, targetAs := 65537, nlri := ⟨1, 255, List.replicate 32 170⟩,
    path := [⟨1, 0, 64500⟩], sigs := [⟨ski1, [7, 7, 7]⟩] }
def overrunKeys : Table := [⟨64500, ski1, [7, 7, 7]⟩]

/-- the current loop dereferences NULL although every hop verifies under a key of its AS … -/
theorem loop_overrun_current : validate toyHash toyVerifyShort .skiOnly false overrunData overrunKeys = .fault := by decide
/-- … the repaired loop answers VALID -/
theorem loop_overrun_repaired : validate toyHash toyVerifyShort .skiAndAs true overrunData overrunKeys = .valid := by decide

/-! ### every signed field is determined by the hashed octets -/

/-- **Injectivity.**  Two paths with the same number of segments whose RFC sequences for hop `i`
    are equal agree on every field signed at hop `i`: the Target AS, every Secure_Path Segment from
    `i` on (pCount, flags, AS), every Signature Segment after `i` (SKI, length, signature), the
    algorithm suite, AFI, SAFI, NLRI length and NLRI octets.  Signature lengths and the NLRI length
    need not be assumed equal, they are part of what is recovered. -/
theorem digest_injective (d d' : Data) (w : WfData d) (w' : WfData d')
    (hl : d.path.length = d.sigs.length) (hl' : d'.path.length = d'.sigs.length)
    (hn : d.path.length = d'.path.length) (i : Nat) (hi : i < d.path.length)
    (h : digest d i = digest d' i) :
    targetAt d i = targetAt d' i ∧ d.path.drop i = d'.path.drop i ∧ d.sigs.drop (i + 1) = d'.sigs.drop (i + 1) ∧
      d.alg = d'.alg ∧ d.afi = d'.afi ∧ d.safi = d'.safi ∧ d.nlri.len = d'.nlri.len ∧ d.nlri.bytes = d'.nlri.bytes := by
  unfold digest at h
  exact digestOf_inj w w' (targetAt_lt d w i) (targetAt_lt d' w' i)
    (by simp only [List.length_drop]; omega) (by simp only [List.length_drop]; omega)
    (by simp only [List.length_drop]; omega)
    (fun p hp => w.path p (List.mem_of_mem_drop hp)) (fun p hp => w'.path p (List.mem_of_mem_drop hp))
    (fun s hs => w.sigs s (List.mem_of_mem_drop hs)) (fun s hs => w'.sigs s (List.mem_of_mem_drop hs)) h

/-- Contrapositive: changing any signed field (any single bit of it) changes the hashed octets of
    hop `i`.  (From "different octets" to "the signature no longer verifies" is the assumption on
    SHA-256 / ECDSA.) -/
theorem digest_changes (d d' : Data) (w : WfData d) (w' : WfData d')
    (hl : d.path.length = d.sigs.length) (hl' : d'.path.length = d'.sigs.length)
    (hn : d.path.length = d'.path.length) (i : Nat) (hi : i < d.path.length)
    (hdiff : targetAt d i ≠ targetAt d' i ∨ d.path.drop i ≠ d'.path.drop i ∨ d.sigs.drop (i + 1) ≠ d'.sigs.drop (i + 1) ∨
      d.alg ≠ d'.alg ∨ d.afi ≠ d'.afi ∨ d.safi ≠ d'.safi ∨ d.nlri.len ≠ d'.nlri.len ∨ d.nlri.bytes ≠ d'.nlri.bytes) :
    digest d i ≠ digest d' i := by
  intro h
  obtain ⟨a, b, c, e, f, g, k, l⟩ := digest_injective d d' w w' hl hl' hn i hi h
  rcases hdiff with x | x | x | x | x | x | x | x <;> contradiction

/-! ### error codes, in the order the entry point checks them -/

section
variable {H : Type} (hash : List Nat → H) (verify : List Nat → H → List Nat → VRes) (m : KeyMode) (stop : Bool)

/-- `!data || !table` -/
theorem err_null (d : Option Data) (T : Option Table) (h : d = none ∨ T = none) :
    validateArgs hash verify m stop d T = .invalidArguments := by
  rcases h with rfl | rfl
  · rfl
  · cases d <;> rfl

/-- `!data->nlri` (repaired argument check) -/
theorem err_null_nlri (d : Option Data) (T : Option Table) :
    validateEntry hash verify m stop d true T = .invalidArguments := rfl

/-- `!data->path || !data->sigs` (this and the following error theorems: for EVERY sequence of table
    snapshots `V`; one fixed table `T` is `V = fun _ => T`, i.e. `validate hash verify m stop d T`) -/
theorem err_arguments (d : Data) (V : View) (h : d.path = [] ∨ d.sigs = []) :
    validateV hash verify m stop d V = .invalidArguments := by
  unfold validateV; rw [if_pos h]

theorem err_segment_count (d : Data) (V : View) (h0 : ¬ (d.path = [] ∨ d.sigs = []))
    (h : d.path.length ≠ d.sigs.length) : validateV hash verify m stop d V = .wrongSegmentCount := by
  unfold validateV; rw [if_neg h0, if_pos h]

theorem err_suite (d : Data) (V : View) (h0 : ¬ (d.path = [] ∨ d.sigs = []))
    (h1 : d.path.length = d.sigs.length) (h : d.alg ≠ 1) :
    validateV hash verify m stop d V = .unsupportedAlgorithmSuite := by
  unfold validateV; rw [if_neg h0, if_neg (by omega), if_pos h]

theorem err_afi (d : Data) (V : View) (h0 : ¬ (d.path = [] ∨ d.sigs = []))
    (h1 : d.path.length = d.sigs.length) (h2 : d.alg = 1) (h : d.nlri.afi ≠ 1 ∧ d.nlri.afi ≠ 2) :
    validateV hash verify m stop d V = .unsupportedAfi := by
  unfold validateV; rw [if_neg h0, if_neg (by omega), if_neg (by omega), if_pos h]

/-- a Signature Segment for which the lookup of `check_router_keys` (lookup number `i`) finds no key that
    counts (`skiOnly`: none with that SKI; `skiAndAs`: none with that SKI under the AS of the Secure_Path
    segment) → `ROUTER_KEY_NOT_FOUND` -/
theorem err_missing_key (d : Data) (V : View) (hsup : Supported d) (i : Nat) (s : SigSeg) (p : PathSeg)
    (hs : d.sigs[i]? = some s) (hp : d.path[i]? = some p) (hk : keysFor m (V i) s.ski p.asn = []) :
    validateV hash verify m stop d V = .routerKeyNotFound := by
  obtain ⟨a, b, c, e, f⟩ := hsup
  unfold validateV
  rw [if_neg (by simp [a, b]), if_neg (by omega), if_neg (by omega), if_neg (by omega),
    checkRouterKeysV_missing m V d.sigs d.path 0 i s p hs hp (by simpa using hk)]

/-- whenever one of the pre-checks fails the answer is not VALID -/
theorem never_valid_unless_supported (d : Data) (V : View) (h : ¬ Supported d) :
    validateV hash verify m stop d V ≠ .valid := by
  unfold Supported at h
  unfold validateV
  by_cases h1 : d.path = [] ∨ d.sigs = []
  · rw [if_pos h1]; intro x; cases x
  by_cases h2 : d.path.length ≠ d.sigs.length
  · rw [if_neg h1, if_pos h2]; intro x; cases x
  by_cases h3 : d.alg ≠ 1
  · rw [if_neg h1, if_neg h2, if_pos h3]; intro x; cases x
  by_cases h4 : d.nlri.afi ≠ 1 ∧ d.nlri.afi ≠ 2
  · rw [if_neg h1, if_neg h2, if_neg h3, if_pos h4]; intro x; cases x
  exact absurd ⟨fun x => h1 (Or.inl x), fun x => h1 (Or.inr x), by omega, by omega, by omega⟩ h

end

/-! ### non-vacuity -/

-- the witness path meets every hypothesis of `decision`, and validates with the keys under the right AS
example : (∀ s ∈ witness.sigs, s.ski.length = 20) ∧ NoOverrun witness ∧ Supported witness := by decide
example : validate toyHash toyVerify .skiAndAs true witness keysRight = .valid := by decide
example : validate toyHash toyVerify .skiOnly false witness keysRight = .valid := by decide
-- align_eq_rfc at hop 1 of the witness: offset 29 + 2·… is non-trivial
example : offsetAt witness.sigs 1 = wsig2.length + 28 ∧ (alignBytes .validation witness).drop (offsetAt witness.sigs 1) = digest witness 1 := by decide
-- the hop-1 sequence is the RFC 8208 origin sequence: target 65536, (1,0,64496), suite 1, AFI 1, SAFI 1, /24 192.0.2
example : digest witness 1 = [0, 1, 0, 0, 1, 0, 0, 0, 251, 240, 1, 0, 1, 1, 24, 192, 0, 2] := by decide
-- digest_injective: hypotheses satisfiable, and a one-bit change of pCount of the origin changes hop 0's octets
example : WfData witness := by
  constructor <;> decide
example : digest witness 0 ≠ digest { witness with path := [⟨1, 0, 65536⟩, ⟨0, 0, 64496⟩] } 0 := by decide
-- independent lookups: the witness validates while the table stays as it is …
def toyWf (sig : List Nat) : Bool := sig.length ≤ 200
example : validateFull toyHash toyVerify toyWf .skiAndAs true witness (fun _ => keysRight) = .valid := by decide
-- … a key withdrawn after `check_router_keys` (lookups 0, 1) and before the lookup of loop iteration 1
-- (lookup 3) is answered with `RTR_BGPSEC_SUCCESS` (= 0, not VALID: `hash_byte_sequence`'s status) …
example : validateFull toyHash toyVerify toyWf .skiAndAs true witness (fun k => if k < 3 then keysRight else keysRight.take 1) = .success := by decide
example : searchBySki ((fun k => if k < 3 then keysRight else keysRight.take 1) (witness.sigs.length + 1)) ski2 = [] := by decide
-- … replaced by the same key under another AS: NOT_VALID; a key that arrives after the pre-check is too late
example : validateFull toyHash toyVerify toyWf .skiAndAs true witness (fun k => if k < 2 then keysRight else keysWrongAs) = .notValid := by decide
example : validateFull toyHash toyVerify toyWf .skiAndAs true witness (fun k => if k < 1 then keysWrongAs else keysRight) = .routerKeyNotFound := by decide
-- … while a key missing only at a lookup that does not ask for it (lookup 1 asks for ski2) does not disturb
example : validateFull toyHash toyVerify toyWf .skiAndAs true witness (fun k => if k = 1 then keysRight.drop 1 else keysRight) = .valid := by decide
-- a signature field that is not well-formed is an ERROR although `verify` accepts it
example : validateFull toyHash toyVerify (fun sig => sig.length ≤ 30) .skiAndAs true witness (fun _ => keysRight) = .error := by decide
example : toyVerify [11] (toyHash (digest witness 0)) wsig1 = .valid ∧ wsig1.length > 30 := by decide
-- error codes reached
example : validate toyHash toyVerify .skiOnly false { witness with sigs := witness.sigs.drop 1 } keysRight = .wrongSegmentCount := by decide
example : validate toyHash toyVerify .skiOnly false { witness with alg := 2 } keysRight = .unsupportedAlgorithmSuite := by decide
example : validate toyHash toyVerify .skiOnly false { witness with nlri := ⟨3, 24, [192, 0, 2]⟩ } keysRight = .unsupportedAfi := by decide
example : validate toyHash toyVerify .skiOnly false witness (keysRight.drop 1) = .routerKeyNotFound := by decide

end Rtr.C11
