/-
  C01 — Route-origin validation agrees with RFC 6811 for every table and every query.

  Model: `PfxTable.validate` (pfx_table_validate_r: trie_lookup + descent loop, as `walkR`).
  Specification: RFC 6811 stated over the flat list of records of the table (`covers`,
  `matches` below), with no reference to the trie.
  Quantifier: every table reachable by any finite history of add / remove / remove-by-source of
  records with well-formed prefixes (C02.history_refines gives `TableWF` for all of them), both
  address families, every query (AS, prefix < 2^w, length).
-/
import RtrProofs.TableSet
import RtrProofs.BitsLink
import RtrProps.C02

namespace Rtr.C01
open Rtr PfxTable

def width (v6 : Bool) : Nat := if v6 then 128 else 32

/-- RFC 6811: the record covers the route (same family, record length ≤ route length, equal
    leading bits) -/
def covers (v6 : Bool) (q : Addr) (n : Nat) (r : Rec) : Prop :=
  r.v6 = v6 ∧ r.len ≤ n ∧ ∀ i, i < r.len → bitAt (width v6) r.addr i = bitAt (width v6) q i

/-- RFC 6811: the record matches the route's origin (non-zero equal AS, route length ≤ max-length) -/
def matchesR (asn n : Nat) (r : Rec) : Prop := r.asn ≠ 0 ∧ r.asn = asn ∧ n ≤ r.maxLen

theorem elemMatches_iff (d : List Elem) (asn n : Nat) :
    elemMatches d asn n = true ↔ ∃ e ∈ d, e.asn ≠ 0 ∧ e.asn = asn ∧ n ≤ e.maxLen := by
  unfold elemMatches
  rw [List.any_eq_true]
  constructor
  · rintro ⟨e, he, h⟩; exact ⟨e, he, by simpa [and_assoc] using h⟩
  · rintro ⟨e, he, h⟩; exact ⟨e, he, by simpa [and_assoc] using h⟩

theorem mem_root_recs (T : PfxTable) (v6 : Bool) (r : Rec) :
    (r ∈ T.recs ∧ r.v6 = v6) ↔ ∃ c ∈ (T.root v6).nodes, ∃ e ∈ c.data, r = mkRec v6 c.addr c.len e := by
  constructor
  · rintro ⟨h, hv⟩
    have := (mem_recs T r).1 h
    rw [hv, mem_elems_iff] at this
    obtain ⟨c, hc, h1, h2, h3⟩ := this
    refine ⟨c, hc, r.elem, h3, ?_⟩
    cases r; simp_all [mkRec, Rec.elem]
  · rintro ⟨c, hc, e, he, rfl⟩
    refine ⟨(mem_recs T _).2 ?_, rfl⟩
    simp only [mkRec, Rec.elem]
    rw [mem_elems_iff]
    exact ⟨c, hc, rfl, rfl, by cases e; exact he⟩

theorem covers_mkRec (v6 : Bool) (q : Addr) (n : Nat) (c : NodeC) (e : Elem) :
    covers v6 q n (mkRec v6 c.addr c.len e) ↔ Covers (width v6) c q n := by
  simp [covers, mkRec, Covers]

theorem matches_mkRec (v6 : Bool) (asn n : Nat) (c : NodeC) (e : Elem) :
    matchesR asn n (mkRec v6 c.addr c.len e) ↔ (e.asn ≠ 0 ∧ e.asn = asn ∧ n ≤ e.maxLen) := by
  simp [matchesR, mkRec]

theorem root_width_WF (T : PfxTable) (v6 : Bool) (h : TableWF T) : WF (width v6) (T.root v6) 0 := root_WF T v6 h

theorem anyCover_iff (T : PfxTable) (v6 : Bool) (q : Addr) (n : Nat) (h : TableWF T) (hq : q < 2 ^ width v6) :
    anyCover (width v6) q n (T.root v6).nodes = true ↔ ∃ r ∈ T.recs, covers v6 q n r := by
  have ok := (All_iff _).1 (WF_nodeOK _ _ 0 (root_width_WF T v6 h))
  unfold anyCover
  rw [List.any_eq_true]
  constructor
  · rintro ⟨c, hc, hcov⟩
    have cv := (covB_iff _ q n c (ok c hc) hq).1 hcov
    obtain ⟨e, he⟩ := List.exists_mem_of_ne_nil _ (ok c hc).2.2.2.1
    have := (mem_root_recs T v6 (mkRec v6 c.addr c.len e)).2 ⟨c, hc, e, he, rfl⟩
    exact ⟨_, this.1, (covers_mkRec v6 q n c e).2 cv⟩
  · rintro ⟨r, hr, hcov⟩
    obtain ⟨c, hc, e, he, rfl⟩ := (mem_root_recs T v6 r).1 ⟨hr, hcov.1⟩
    exact ⟨c, hc, (covB_iff _ q n c (ok c hc) hq).2 ((covers_mkRec v6 q n c e).1 hcov)⟩

theorem anyMatch_iff (T : PfxTable) (v6 : Bool) (q : Addr) (n asn : Nat) (h : TableWF T) (hq : q < 2 ^ width v6) :
    anyMatch (width v6) q n asn (T.root v6).nodes = true ↔ ∃ r ∈ T.recs, covers v6 q n r ∧ matchesR asn n r := by
  have ok := (All_iff _).1 (WF_nodeOK _ _ 0 (root_width_WF T v6 h))
  unfold anyMatch
  rw [List.any_eq_true]
  constructor
  · rintro ⟨c, hc, hcm⟩
    rw [Bool.and_eq_true] at hcm
    have cv := (covB_iff _ q n c (ok c hc) hq).1 hcm.1
    obtain ⟨e, he, hm⟩ := (elemMatches_iff _ _ _).1 hcm.2
    have := (mem_root_recs T v6 (mkRec v6 c.addr c.len e)).2 ⟨c, hc, e, he, rfl⟩
    exact ⟨_, this.1, (covers_mkRec v6 q n c e).2 cv, (matches_mkRec v6 asn n c e).2 hm⟩
  · rintro ⟨r, hr, hcov, hm⟩
    obtain ⟨c, hc, e, he, rfl⟩ := (mem_root_recs T v6 r).1 ⟨hr, hcov.1⟩
    refine ⟨c, hc, ?_⟩
    rw [Bool.and_eq_true]
    exact ⟨(covB_iff _ q n c (ok c hc) hq).2 ((covers_mkRec v6 q n c e).1 hcov),
      (elemMatches_iff _ _ _).2 ⟨e, he, (matches_mkRec v6 asn n c e).1 hm⟩⟩

theorem validate_fst (T : PfxTable) (v6 : Bool) (asn : Nat) (q : Addr) (n : Nat) :
    (T.validate v6 asn q n).1 = (validateR (width v6) q n asn (T.root v6)).1 := by
  unfold PfxTable.validate width
  simp only
  split <;> simp_all

/-- **C01, state** (for one address family on its own trie): the walk from the root of a
    well-formed trie answers RFC 6811 over all stored nodes. -/
theorem validate_state (w : Nat) (q : Addr) (n asn : Nat) (t : Trie) (hq : q < 2^w) (h : WF w t 0) :
    (validateR w q n asn t).1 = specState w q n asn false t.nodes :=
  (validateR_spec w q n asn t hq h).state

/-- **C01, state** at the level of the table and of plain records: VALID exactly when some
    record covers the route with the same non-zero AS and a sufficient max-length, INVALID
    exactly when some record covers but none matches, NOT FOUND otherwise. -/
theorem validate_state_table (T : PfxTable) (v6 : Bool) (asn : Nat) (q : Addr) (n : Nat)
    (h : TableWF T) (hq : q < 2 ^ width v6) :
    ((T.validate v6 asn q n).1 = .valid ↔ ∃ r ∈ T.recs, covers v6 q n r ∧ matchesR asn n r) ∧
    ((T.validate v6 asn q n).1 = .invalid ↔
      (∃ r ∈ T.recs, covers v6 q n r) ∧ ¬ ∃ r ∈ T.recs, covers v6 q n r ∧ matchesR asn n r) ∧
    ((T.validate v6 asn q n).1 = .notFound ↔ ¬ ∃ r ∈ T.recs, covers v6 q n r) := by
  rw [validate_fst, validate_state (width v6) q n asn (T.root v6) hq (root_width_WF T v6 h)]
  have hc := anyCover_iff T v6 q n h hq
  have hm := anyMatch_iff T v6 q n asn h hq
  have imp : (∃ r ∈ T.recs, covers v6 q n r ∧ matchesR asn n r) → ∃ r ∈ T.recs, covers v6 q n r :=
    fun ⟨r, hr, h1, _⟩ => ⟨r, hr, h1⟩
  unfold specState
  by_cases M : ∃ r ∈ T.recs, covers v6 q n r ∧ matchesR asn n r
  · have e1 : anyMatch (width v6) q n asn (T.root v6).nodes = true := hm.2 M
    have C := imp M
    simp only [e1, if_true]
    exact ⟨⟨fun _ => M, fun _ => by simp⟩, ⟨(fun h => nomatch h), fun h => absurd M h.2⟩, ⟨(fun h => nomatch h), fun h => absurd C h⟩⟩
  · have e1 : anyMatch (width v6) q n asn (T.root v6).nodes = false := by
      cases h' : anyMatch (width v6) q n asn (T.root v6).nodes
      · rfl
      · exact absurd (hm.1 h') M
    by_cases C : ∃ r ∈ T.recs, covers v6 q n r
    · have e2 : anyCover (width v6) q n (T.root v6).nodes = true := hc.2 C
      simp only [e1, e2, Bool.false_eq_true, if_false, Bool.or_true, if_true]
      exact ⟨⟨(fun h => nomatch h), fun h => absurd h M⟩, ⟨fun _ => ⟨C, M⟩, fun _ => by simp⟩, ⟨(fun h => nomatch h), fun h => absurd C h⟩⟩
    · have e2 : anyCover (width v6) q n (T.root v6).nodes = false := by
        cases h' : anyCover (width v6) q n (T.root v6).nodes
        · rfl
        · exact absurd (hc.1 h') C
      simp only [e1, e2, Bool.false_eq_true, if_false, Bool.or_false]
      exact ⟨⟨(fun h => nomatch h), fun h => absurd h M⟩, ⟨(fun h => nomatch h), fun h => absurd h.1 C⟩, ⟨fun _ => C, fun _ => by simp⟩⟩

/-! ### reasons -/

def recOfNodes (v6 : Bool) (ns : List NodeC) : List Rec := ns.flatMap fun c => c.data.map fun e => mkRec v6 c.addr c.len e

theorem validate_snd (T : PfxTable) (v6 : Bool) (asn : Nat) (q : Addr) (n : Nat) :
    (T.validate v6 asn q n).2 =
      (if (validateR (width v6) q n asn (T.root v6)).1 = .notFound then []
       else recOfNodes v6 (validateR (width v6) q n asn (T.root v6)).2) := by
  unfold PfxTable.validate width recOfNodes
  simp only
  split <;> simp_all

theorem mem_recOfNodes (v6 : Bool) (ns : List NodeC) (r : Rec) :
    r ∈ recOfNodes v6 ns ↔ ∃ c ∈ ns, ∃ e ∈ c.data, r = mkRec v6 c.addr c.len e := by
  simp only [recOfNodes, List.mem_flatMap, List.mem_map]
  constructor
  · rintro ⟨c, hc, e, he, rfl⟩; exact ⟨c, hc, e, he, rfl⟩
  · rintro ⟨c, hc, e, he, rfl⟩; exact ⟨c, hc, e, he, rfl⟩

/-- the records of the covering nodes are the covering records of the enumeration -/
theorem recOfNodes_filter (v6 : Bool) (w : Nat) (q : Addr) (n : Nat) (ns : List NodeC) :
    recOfNodes v6 (ns.filter (covB w q n)) =
      (recOfNodes v6 ns).filter (fun r => decide (r.len ≤ n) && prefixEq w r.addr q r.len) := by
  induction ns with
  | nil => rfl
  | cons c cs ih =>
    simp only [recOfNodes, List.filter_cons, List.flatMap_cons, List.filter_append] at ih ⊢
    have hc : (c.data.map fun e => mkRec v6 c.addr c.len e).filter (fun r => decide (r.len ≤ n) && prefixEq w r.addr q r.len) =
        if covB w q n c then (c.data.map fun e => mkRec v6 c.addr c.len e) else [] := by
      rw [List.filter_map]
      split
      · rename_i hcb
        congr 1
        rw [List.filter_eq_self]
        intro e _; simpa [covB, mkRec] using hcb
      · rename_i hcb
        have : c.data.filter ((fun r => decide (r.len ≤ n) && prefixEq w r.addr q r.len) ∘ fun e => mkRec v6 c.addr c.len e) = [] := by
          rw [List.filter_eq_nil_iff]
          intro e _; simpa [covB, mkRec] using hcb
        rw [this]; rfl
    rw [hc]
    split <;> simp [ih]

/-- **C01, reasons**: NOT FOUND yields none; INVALID yields exactly the covering records (each
    once); VALID yields only covering records of the table, among them a matching one. -/
theorem validate_reasons (T : PfxTable) (v6 : Bool) (asn : Nat) (q : Addr) (n : Nat)
    (h : TableWF T) (hq : q < 2 ^ width v6) :
    ((T.validate v6 asn q n).1 = .notFound → (T.validate v6 asn q n).2 = []) ∧
    ((T.validate v6 asn q n).1 = .invalid →
      (∀ r, r ∈ (T.validate v6 asn q n).2 ↔ r ∈ T.recs ∧ covers v6 q n r) ∧ (T.validate v6 asn q n).2.Nodup) ∧
    ((T.validate v6 asn q n).1 = .valid →
      (∀ r ∈ (T.validate v6 asn q n).2, r ∈ T.recs ∧ covers v6 q n r) ∧
      ∃ r ∈ (T.validate v6 asn q n).2, matchesR asn n r) := by
  have wk := validateR_spec (width v6) q n asn (T.root v6) hq (root_width_WF T v6 h)
  have ok := (All_iff _).1 (WF_nodeOK _ _ 0 (root_width_WF T v6 h))
  rw [validate_fst, validate_snd]
  -- a record of a covering node of the root's trie is a covering record of the table, and conversely
  have key : ∀ r, r ∈ recOfNodes v6 ((T.root v6).nodes.filter (covB (width v6) q n)) ↔ r ∈ T.recs ∧ covers v6 q n r := by
    intro r
    rw [mem_recOfNodes]
    constructor
    · rintro ⟨c, hc, e, he, rfl⟩
      rw [List.mem_filter] at hc
      have := (mem_root_recs T v6 (mkRec v6 c.addr c.len e)).2 ⟨c, hc.1, e, he, rfl⟩
      exact ⟨this.1, (covers_mkRec v6 q n c e).2 ((covB_iff _ q n c (ok c hc.1) hq).1 hc.2)⟩
    · rintro ⟨hr, hcov⟩
      obtain ⟨c, hc, e, he, rfl⟩ := (mem_root_recs T v6 r).1 ⟨hr, hcov.1⟩
      exact ⟨c, List.mem_filter.2 ⟨hc, (covB_iff _ q n c (ok c hc) hq).2 ((covers_mkRec v6 q n c e).1 hcov)⟩, e, he, rfl⟩
  refine ⟨fun hs => by simp [hs], fun hs => ?_, fun hs => ?_⟩
  · have hp := wk.invalid hs
    have hp' : (recOfNodes v6 (validateR (width v6) q n asn (T.root v6)).2).Perm
        (recOfNodes v6 ((T.root v6).nodes.filter (covB (width v6) q n))) := List.Perm.flatMap_right _ hp
    simp only [hs, reduceCtorEq, if_false]
    refine ⟨fun r => by rw [hp'.mem_iff]; exact key r, ?_⟩
    rw [hp'.nodup_iff, recOfNodes_filter]
    apply List.Pairwise.filter
    have : recOfNodes v6 (T.root v6).nodes = trieRecs v6 (T.root v6) := rfl
    rw [this]
    have nd := C02.forEach_enumerates T h
    unfold PfxTable.recs recs4 recs6 at nd
    rw [List.nodup_append] at nd
    cases v6
    · exact nd.1
    · exact nd.2.1
  · obtain ⟨h1, c, hc, hm⟩ := wk.valid hs
    simp only [hs, reduceCtorEq, if_false]
    refine ⟨fun r hr => ?_, ?_⟩
    · obtain ⟨c', hc', e, he, rfl⟩ := (mem_recOfNodes v6 _ r).1 hr
      exact (key _).1 ((mem_recOfNodes v6 _ _).2 ⟨c', h1 c' hc', e, he, rfl⟩)
    · obtain ⟨e, he, hme⟩ := (elemMatches_iff _ _ _).1 hm
      exact ⟨mkRec v6 c.addr c.len e, (mem_recOfNodes v6 _ _).2 ⟨c, hc, e, he, rfl⟩, (matches_mkRec v6 asn n c e).2 hme⟩

/-! ### reachable tables are well formed; depth ≤ length -/

/-- every table reached from the empty one by any finite history of well-formed operations is
    well formed (path property, heap property on lengths, unique keys, non-empty duplicate-free
    payloads) -/
theorem wf_reachable (ops : List C02.Op) (hok : ∀ op ∈ ops, op.OK) : TableWF (C02.runT ops {}).1 :=
  (C02.history_refines ops {} [] C02.init_ok.1 (by rw [C02.init_ok.2]) hok).1

/-- a node at depth `d` of a well-formed trie has `d ≤ len` (so no lookup descends below depth
    32 / 128, and `trie_lookup`'s `lvl` never exceeds the width) — what upstream issues #99/#152 broke -/
theorem depth_le_len (T : PfxTable) (h : TableWF T) : DepthOK T.v4 0 ∧ DepthOK T.t6 0 :=
  ⟨depthOK_root 32 _ h.w4, depthOK_root 128 _ h.w6⟩

/-! ### definedness of every bit extraction the validation walk requests -/

/-- the (from, number) arguments of the `lrtr_ip_addr_get_bits` calls made by the walk: two
    calls `(0, node.len)` per visited node (node prefix and query), one call `(lvl, 1)` when it
    descends -/
def walkCalls (w : Nat) (q : Addr) (n asn : Nat) : Trie → Nat → List (Nat × Nat)
  | .nil, _ => []
  | .node c l r, lvl =>
    if c.len ≤ n ∧ prefixEq w c.addr q c.len ∧ elemMatches c.data asn n then [(0, c.len), (0, c.len)]
    else [(0, c.len), (0, c.len), (lvl, 1)] ++
      (if isLeft w q lvl then walkCalls w q n asn l (lvl+1) else walkCalls w q n asn r (lvl+1))

/-- what the C code needs from its arguments (after the F1/F2 repair): at most `w` bits are
    requested, and a request that starts inside the address stays inside it -/
def CallOK (w : Nat) (c : Nat × Nat) : Prop := c.2 ≤ w ∧ (c.1 < w → c.1 + c.2 ≤ w)

theorem validate_defined (w : Nat) (hw : 0 < w) (q : Addr) (n asn : Nat) : ∀ (t : Trie) (d : Nat), WF w t d →
    ∀ c ∈ walkCalls w q n asn t d, CallOK w c := by
  intro t
  induction t with
  | nil => intro d _ c hc; simp [walkCalls] at hc
  | node c0 l r ihl ihr =>
    intro d ⟨hc0, _, _, wl, wr⟩ c hc
    have base : CallOK w (0, c0.len) := ⟨hc0.1, fun _ => by simpa using hc0.1⟩
    unfold walkCalls at hc
    split at hc
    · simp only [List.mem_cons, List.not_mem_nil, or_false] at hc
      rcases hc with rfl | rfl <;> exact base
    · simp only [List.cons_append, List.nil_append, List.mem_cons] at hc
      rcases hc with rfl | rfl | rfl | hc
      · exact base
      · exact base
      · exact ⟨hw, fun h => h⟩
      · split at hc
        · exact ihl (d+1) wl c hc
        · exact ihr (d+1) wr c hc

/-! ### the literal IPv4 bit code computes the abstract bit view

The trie model is written against `isLeft` / `prefixEq` (arithmetic on `Nat`).  The C code calls
`lrtr_get_bits` (mask arithmetic on `uint32_t`, model `getBits32`).  These two theorems close the
gap for IPv4; `bits_link6` / `bits_cover6` in RtrProps/C01b.lean close it for IPv6
(`lrtr_ipv6_get_bits`, the four-word cascade `ipv6GetBits`).  The ops `left` / `cov` of the pfx
protocol additionally compare the C function, the literal Lean function and the abstract one on
boundary and random inputs. -/

theorem bits_link4 (a : Nat) (lvl : Nat) :
    isLeftChildC4 (BitVec.ofNat 32 a) lvl = isLeft 32 a lvl := isLeftChildC4_eq a lvl

theorem bits_cover4 (p q : Nat) (hp : p < 2^32) (hq : q < 2^32) (len : Nat) (h : len ≤ 32) :
    coversC4 (BitVec.ofNat 32 p) len (BitVec.ofNat 32 q) = prefixEq 32 p q len := coversC4_eq p q hp hq len h

/-! ### non-vacuity -/

def t1 : Rec := ⟨false, 0x0a000000, 8, 24, 65001, 1⟩
def t2 : Rec := ⟨false, 0x0a010000, 16, 16, 65002, 2⟩
def t3 : Rec := ⟨false, 0x00000000, 0, 0, 0, 1⟩
def demoT : PfxTable := (C02.runT [.add t2, .add t1, .add t3] {}).1

example : (demoT.validate false 65001 0x0a010000 16).1 = .valid := by decide
example : (demoT.validate false 65003 0x0a010000 16).1 = .invalid := by decide
example : ((demoT.validate false 65003 0x0a010000 16).2.map (·.asn)) = [0, 65001, 65002] := by decide
example : (demoT.validate true 65003 0 0).1 = .notFound := by decide

end Rtr.C01
