/-
  C08c — convergence over more than one exchange (continuation of RtrProps/C08b.lean, which proves the
  single good exchange).  Model: `Rtr.P` (RtrModel/Rtr.lean), one iteration of rtr_fsm_start =
  `fsmStep`; a run of `k` iterations = `CvRun fuel k st st'` (deterministic, `C08b.run_deterministic`).

  THE ENVIRONMENT is a script; a reactive cache is expressed by what the script holds.  The
  connection is one tape: in the cases (B), (C) the socket does not close the connection between the
  refusal and the next query, so the next answer follows on the same tape — as on the wire.  In
  (D) the socket closes and reconnects; the model has no per-connection flush, so what follows the
  refused Cache Response on the tape is what the cache sends on the NEXT connection.

  (A) `established_polls`, `established_polls_and_updates`: the wait in ESTABLISHED
      (rtr_wait_for_sync).  (i) a well-formed Serial Notify of the socket's version at the head of
      the tape — the model, like the C code, looks at the PDU type only, not at its session or
      serial — or (ii) a timeout of the transport (`block`: the refresh timer) makes the socket send
      a Serial Query with its stored session and serial (C05 `established_query`) and go to SYNC:
      (i) at once, (ii) exactly at the deadline `max now (last_update + refresh_interval)`
      (`poll_deadline`; cf. C17 `poll_deadline` for the interval model).  With the good incremental
      answer on the tape the next iteration ends ESTABLISHED with the updated data.  2 iterations,
      no time after the wait.
  (B) `converges_after_cache_reset`: SYNC (either query sent), the cache answers Cache Reset, then
      — to the Reset Query that follows — the whole data set: SYNC → ERROR_NO_INCR_UPDATE_AVAIL →
      RESET → SYNC → ESTABLISHED, k = 4 iterations, no sleep; the socket's old records are replaced
      by the cache's data set, other sockets' records untouched.
  (C) `converges_after_no_data`: SYNC, Error Report "No Data Available" (code 2; any version,
      encapsulated PDU, text), then the data set: SYNC → ERROR_NO_DATA_AVAIL → (sleep) RESET → SYNC →
      ESTABLISHED, k = 4, time = exactly one retry interval.
  (D) `session_change_refused`: a Cache Response with another session id in answer to a Serial
      Query: an Error Report is sent, ERROR_FATAL; session part and tables are unchanged — nothing
      is purged — so by C05 the next query is again the Serial Query with the OLD session and serial
      (unless the data expires before the socket has reconnected).
      `converges_after_session_change`: the good cache (of the new session) answers that query
      with Cache Reset, then the data set: SYNC → ERROR_FATAL → (sleep) CONNECTING → SYNC →
      ERROR_NO_INCR_UPDATE_AVAIL → RESET → SYNC → ESTABLISHED: three exchanges, k = 7 iterations,
      time = exactly one retry interval.  `converges_after_session_change_expired`: if the data has
      expired when the socket connects, the next query is a Reset Query: two exchanges, k ≤ 5, one
      retry interval.
  (E) `converges_eventually`: a reactive cache as a function `CvmCache.reply` from the query to the
      answer (Reset Query ↦ whole data set; Serial Query with the cache's session and a serial it
      still knows ↦ increment; any other Serial Query ↦ Cache Reset); the tape holds the cache's
      replies to the queries the socket sends (`CvmCache.script`).  From each of the seven states of
      the recovery path: ESTABLISHED with exactly the cache's data after at most 2 exchanges,
      6 iterations, 1 retry interval (the true constants: the worst case is ERROR_TRANSPORT /
      ERROR_FATAL / FAST_RECONNECT with a Serial Query the cache cannot serve).
      `established_converges_eventually`: the same for the steady state: from ESTABLISHED, when the
      wait ends, at most 2 exchanges, 5 iterations, no time after the wait.

  STILL OPEN.  * A cache that answers a query with "No Data Available" an unbounded number of
  times (each round costs one retry interval by (C) — the bound of C08 then has the form
  c·retry with c = number of refusals; not stated as an induction).  * Version negotiation by Error
  Report (code 4, FAST_RECONNECT) followed by a good exchange: the first step is C13, the rest is
  C08b from FAST_RECONNECT; not composed here.  * Serial Notify PDUs or clock advances *inside* an
  answer.  * In (ii) other events before the timeout (`intr`, unexpected PDUs: C17).
-/
import RtrProofs.ConvergeMultiCache
import RtrProps.C08b

namespace Rtr.C08c
open Rtr Rtr.P
open Rtr.C08b (goodResetAnswer goodSerialAnswer)

/-! ## (A) the wait in ESTABLISHED -/

/-- the deadline of the wait: the timeout handed to rtr_receive_pdu is
    `max 0 (last_update + refresh_interval − now)`, so a wait in which nothing arrives ends at
    `max now (last_update + refresh_interval)` — one refresh interval after the last
    synchronisation, at once if that moment has passed -/
theorem poll_deadline (st : St) :
    waitTimeout st = max 0 (st.ss.lastUpdate + st.tm.refresh - st.n.now) ∧
    cvmDeadline st = st.n.now + waitTimeout st ∧ cvmDeadline st = max st.n.now (st.ss.lastUpdate + st.tm.refresh) ∧
    st.n.now ≤ cvmDeadline st := by
  unfold waitTimeout cvmDeadline
  refine ⟨?_, ?_, rfl, ?_⟩
  · split <;> omega
  · split <;> omega
  · omega

/-- what ends the wait at time `w`, leaving `bytes` on the tape: (i) a Serial Notify (any session,
    any serial) of the socket's version at the head of a fault-free tape, `w` = now; or (ii) a
    timeout of the transport, `w` = the deadline -/
def PollTrigger (st : St) (bytes : List Nat) (w : Int) : Prop :=
  (∃ sess sn, FaultFree st.n.tape ∧ tapeBytes st.n.tape = cvmSerialNotify st.c.version sess sn ++ bytes ∧ w = st.n.now) ∨
  (∃ tp, st.n.tape = .block :: tp ∧ FaultFree tp ∧ tapeBytes tp = bytes ∧ w = cvmDeadline st)

/-- **ESTABLISHED polls**: Serial Query, SYNC, at time `w`; nothing else changes -/
theorem established_polls (fuel : Nat) (st : St) (bytes : List Nat) (w : Int) (hs : st.c.state = .established)
    (hq : NoFail st.n.sendQ) (trig : PollTrigger st bytes w) :
    ∃ st1, fsmStep fuel st = some st1 ∧ st1.c.state = .sync ∧ st1.n.now = w ∧ st.n.now ≤ w ∧
      st1.ss = st.ss ∧ st1.t = st.t ∧ st1.tm = st.tm ∧ st1.c.version = st.c.version ∧
      nextQuery st1.ss = nextQuery st.ss ∧ FaultFree st1.n.tape ∧ tapeBytes st1.n.tape = bytes := by
  rcases trig with ⟨sess, sn, hff, hb, rfl⟩ | ⟨tp, htp, hff, hb, rfl⟩
  · obtain ⟨st1, h1, p⟩ := cvm_established_notify fuel st sess sn bytes hs hq ⟨hff, hb⟩
    exact ⟨st1, h1, p.state, p.now, Int.le_refl _, p.ss, p.t, p.tm, p.ver, by rw [p.ss], p.tape.ff, p.tape.eq⟩
  · obtain ⟨st1, h1, p⟩ := cvm_established_timeout fuel st tp bytes hs hq htp hff hb
    exact ⟨st1, h1, p.state, p.now, (poll_deadline st).2.2.2, p.ss, p.t, p.tm, p.ver, by rw [p.ss], p.tape.ff, p.tape.eq⟩

/-- **ESTABLISHED polls and updates**: the socket has a session (`reqSession = false`, no reload
    pending); the wait ends at `w`; the tape then holds the good incremental answer for the socket's
    session (a consistent list of announcements / withdrawals, see C08b `sync_complete_serial`).
    After 2 iterations the socket is ESTABLISHED again; the tables are the old ones plus the
    announced minus the withdrawn records; serial as in the End of Data; update time = `w` = the
    current time. -/
theorem established_polls_and_updates (fuel : Nat) (st : St) (serial : Nat) (iv : CvIvals) (items : List CvItem)
    (rest : List Nat) (w : Int)
    (hs : st.c.state = .established) (hr : st.ss.reqSession = false) (hres : st.ss.isResetting = false)
    (hv : st.c.version ≤ 1) (hq : NoFail st.n.sendQ) (ht : TblOK st.t)
    (hsess : st.ss.session < 65536) (hserial : serial < 4294967296) (hok : ∀ i ∈ items, i.OK)
    (hnp : ((cvPfxOps items).map Prod.snd).Nodup) (hnk : ((cvKeyOps items).map Prod.snd).Nodup)
    (hcp : ∀ op ∈ cvPfxOps items, (op.1 = true ↔ op.2 ∉ st.t.pt))
    (hck : ∀ op ∈ cvKeyOps items, (op.1 = true ↔ op.2 ∉ st.t.kt))
    (trig : PollTrigger st (goodSerialAnswer st.c.version st.ss.session serial iv items ++ rest) w)
    (hfuel : items.length < fuel) :
    ∃ st1 st', fsmStep fuel st = some st1 ∧ st1.c.state = .sync ∧ st1.n.now = w ∧
      fsmStep fuel st1 = some st' ∧ CvRun fuel 2 st st' ∧ st'.c.state = .established ∧
      (∀ x, x ∈ st'.t.pt ↔ ((true, x) ∈ cvPfxOps items ∨ (x ∈ st.t.pt ∧ (false, x) ∉ cvPfxOps items))) ∧
      (∀ x, x ∈ st'.t.kt ↔ ((true, x) ∈ cvKeyOps items ∨ (x ∈ st.t.kt ∧ (false, x) ∉ cvKeyOps items))) ∧
      TblOK st'.t ∧ st'.ss.session = st.ss.session ∧ st'.ss.serial = serial ∧ st'.ss.reqSession = false ∧
      st'.ss.lastUpdate = w ∧ st'.n.now = w ∧ st.n.now ≤ w ∧
      st'.tm = applyEodIntervals st.tm (cvEndOfData st.c.version st.ss.session serial iv) ∧
      FaultFree st'.n.tape ∧ tapeBytes st'.n.tape = rest := by
  have hw : st.n.now ≤ w := by
    rcases trig with ⟨_, _, _, _, rfl⟩ | ⟨_, _, _, _, rfl⟩
    · exact Int.le_refl _
    · exact (poll_deadline st).2.2.2
  have hp : ∃ st1, fsmStep fuel st = some st1 ∧
      CvmPolled st st1 w (cvAnswer st.c.version st.ss.session serial iv items ++ rest) := by
    rcases trig with ⟨sess, sn, hff, hb, rfl⟩ | ⟨tp, htp, hff, hb, rfl⟩
    · exact cvm_established_notify fuel st sess sn _ hs hq ⟨hff, hb⟩
    · exact cvm_established_timeout fuel st tp _ hs hq htp hff hb
  obtain ⟨st1, h1, p⟩ := hp
  obtain ⟨st', h2, u⟩ := cvm_polled_update fuel st st1 w serial iv items rest p hr hres hv ht hsess hserial hok hnp hnk hcp hck hfuel
  have hss := u.ss
  exact ⟨st1, st', h1, p.state, p.now, h2, .cons h1 (.one h2), u.state, u.pt, u.kt, u.tblok, by rw [hss], by rw [hss], by rw [hss],
    by rw [hss], u.now, hw, u.tm, u.tape.ff, u.tape.eq⟩

/-! ## the outcome of a reload -/

/-- the socket is ESTABLISHED with exactly the data set `recs`, `keys`, `d` seconds after `st` -/
structure Reloaded (st st' : St) (ver sess serial : Nat) (iv : CvIvals) (recs : List Rec) (keys : List KeyRec) (d : Nat)
    (rest : List Nat) : Prop where
  state : st'.c.state = .established
  own_pfx : ∀ x : Rec, x.src = 0 → (x ∈ st'.t.pt ↔ x ∈ recs)
  own_keys : ∀ x : KeyRec, x.src = 0 → (x ∈ st'.t.kt ↔ x ∈ keys)
  others : OthersSame st.t st'.t
  tblok : TblOK st'.t
  session_eq : st'.ss.session = sess
  serial_eq : st'.ss.serial = serial
  no_request : st'.ss.reqSession = false
  update_time : st'.ss.lastUpdate = st'.n.now
  intervals : st'.tm = applyEodIntervals st.tm (cvEndOfData ver sess serial iv)
  version : st'.c.version = ver
  time : st'.n.now = st.n.now + d
  fault_free : FaultFree st'.n.tape
  bytes : tapeBytes st'.n.tape = rest
  send_ok : NoFail st.n.sendQ → NoFail st'.n.sendQ

theorem reloaded_of_done {st st' : St} {ver sess serial : Nat} {iv : CvIvals} {recs : List Rec} {keys : List KeyRec} {d : Nat}
    {rest : List Nat} (done : CvDone st st' ver sess serial iv d rest)
    (hrok : ∀ r ∈ recs, cvRecOK r) (hkok : ∀ k ∈ keys, cvKeyOK k)
    (mp : ∀ x, x ∈ st'.t.pt ↔ (x ∈ recs ∨ (x ∈ st.t.pt ∧ x.src ≠ 0)))
    (mk : ∀ x, x ∈ st'.t.kt ↔ (x ∈ keys ∨ (x ∈ st.t.kt ∧ x.src ≠ 0))) :
    Reloaded st st' ver sess serial iv recs keys d rest := by
  have hss := done.ss
  refine ⟨done.state, fun x hx => ?_, fun x hx => ?_, ⟨fun x hx => ?_, fun x hx => ?_⟩, done.tblok, by rw [hss], by rw [hss],
    by rw [hss], by rw [hss, done.now], done.tm, done.version, done.now, done.tape.ff, done.tape.eq, done.send⟩
  · rw [mp x]; simp [hx]
  · rw [mk x]; simp [hx]
  · rw [mp x]
    have : x ∉ recs := fun h => hx (hrok x h).1
    simp [hx, this]
  · rw [mk x]
    have : x ∉ keys := fun h => hx (hkok x h).1
    simp [hx, this]

/-! ## (B) Cache Reset -/

/-- **convergence after a Cache Reset.**  The socket is in SYNC (a query has been sent; typically a
    Serial Query, `reqSession = false`, data present — but nothing of this is needed); the tape
    holds a Cache Reset PDU of the socket's version and then the good answer to the Reset Query the
    socket is going to send.  State sequence SYNC → ERROR_NO_INCR_UPDATE_AVAIL → RESET → SYNC →
    ESTABLISHED: `k = 4` iterations, no time passes (`d = 0`); afterwards the socket's own records
    are exactly the cache's data set (the old ones replaced), other sockets' records untouched. -/
theorem converges_after_cache_reset (fuel : Nat) (st : St) (sess serial : Nat) (iv : CvIvals) (recs : List Rec)
    (keys : List KeyRec) (rest : List Nat) (hs : st.c.state = .sync) (hq : NoFail st.n.sendQ) (hv : st.c.version ≤ 1)
    (ht : TblOK st.t) (hi : st.ss.lastUpdate = 0 → NoOwn st.t) (hsess : sess < 65536) (hserial : serial < 4294967296)
    (hrok : ∀ r ∈ recs, cvRecOK r) (hkok : ∀ k ∈ keys, cvKeyOK k) (hrn : recs.Nodup) (hkn : keys.Nodup)
    (hff : FaultFree st.n.tape)
    (hb : tapeBytes st.n.tape = cvmCacheReset st.c.version ++ (goodResetAnswer st.c.version sess serial iv recs keys ++ rest))
    (hfuel : recs.length + keys.length < fuel) :
    ∃ s1 s2 s3 st', fsmStep fuel st = some s1 ∧ s1.c.state = .errNoIncr ∧ fsmStep fuel s1 = some s2 ∧ s2.c.state = .reset ∧
      fsmStep fuel s2 = some s3 ∧ s3.c.state = .sync ∧ fsmStep fuel s3 = some st' ∧ CvRun fuel 4 st st' ∧
      Reloaded st st' st.c.version sess serial iv recs keys 0 rest := by
  obtain ⟨st', hpath, hdone, mp, mk⟩ := cvm_converges_cache_reset fuel st sess serial iv recs keys rest hs hq hv ht hi hsess hserial
    hrok hkok hrn hkn ⟨hff, hb⟩ hfuel
  obtain ⟨s1, s2, s3, h1, e1, h2, e2, h3, e3, h4⟩ := hpath.steps
  exact ⟨s1, s2, s3, st', h1, e1, h2, e2, h3, e3, h4, hpath.run, reloaded_of_done hdone hrok hkok mp mk⟩

/-! ## (C) "No Data Available" -/

/-- **convergence after "No Data Available".**  The socket is in SYNC; the tape holds an Error Report
    with code 2 (of any version `ever`, with any encapsulated PDU `enc` and text within the maximum
    PDU length) and then the good answer to the Reset Query.  SYNC → ERROR_NO_DATA_AVAIL → (sleep
    `retry_interval`) RESET → SYNC → ESTABLISHED: `k = 4`, the time that passes is exactly one retry
    interval. -/
theorem converges_after_no_data (fuel : Nat) (st : St) (ever : Nat) (enc text : List Nat) (sess serial : Nat) (iv : CvIvals)
    (recs : List Rec) (keys : List KeyRec) (rest : List Nat) (hs : st.c.state = .sync) (hq : NoFail st.n.sendQ)
    (hv : st.c.version ≤ 1) (hsz : enc.length + text.length + 16 ≤ Gen.RTR_MAX_PDU_LEN)
    (ht : TblOK st.t) (hi : st.ss.lastUpdate = 0 → NoOwn st.t) (hsess : sess < 65536) (hserial : serial < 4294967296)
    (hrok : ∀ r ∈ recs, cvRecOK r) (hkok : ∀ k ∈ keys, cvKeyOK k) (hrn : recs.Nodup) (hkn : keys.Nodup)
    (hff : FaultFree st.n.tape)
    (hb : tapeBytes st.n.tape = errorPduBytes ever enc 2 text ++ (goodResetAnswer st.c.version sess serial iv recs keys ++ rest))
    (hfuel : recs.length + keys.length < fuel) :
    ∃ s1 s2 s3 st', fsmStep fuel st = some s1 ∧ s1.c.state = .errNoData ∧ fsmStep fuel s1 = some s2 ∧ s2.c.state = .reset ∧
      fsmStep fuel s2 = some s3 ∧ s3.c.state = .sync ∧ fsmStep fuel s3 = some st' ∧ CvRun fuel 4 st st' ∧
      Reloaded st st' st.c.version sess serial iv recs keys st.tm.retry rest := by
  obtain ⟨st', hpath, hdone, mp, mk⟩ := cvm_converges_no_data fuel st ever enc text sess serial iv recs keys rest hs hq hv hsz ht hi
    hsess hserial hrok hkok hrn hkn ⟨hff, hb⟩ hfuel
  obtain ⟨s1, s2, s3, h1, e1, h2, e2, h3, e3, h4⟩ := hpath.steps
  exact ⟨s1, s2, s3, st', h1, e1, h2, e2, h3, e3, h4, hpath.run, reloaded_of_done hdone hrok hkok mp mk⟩

/-! ## (D) session change -/

/-- **a Cache Response of another session is refused**: the socket is in SYNC having sent a Serial
    Query; the Cache Response carries `sess' ≠` the stored session.  An Error Report is sent (whatever
    the outcome of the send), the state is ERROR_FATAL; session part, tables, intervals, clock are
    unchanged, nothing is purged: the next query (C05 `nextQuery`) is the same Serial Query. -/
theorem session_change_refused (fuel : Nat) (st : St) (sess' : Nat) (rest : List Nat) (hf : 0 < fuel)
    (hs : st.c.state = .sync) (hr : st.ss.reqSession = false) (hne : st.ss.session ≠ sess') (hs16 : sess' < 65536)
    (hff : FaultFree st.n.tape) (hb : tapeBytes st.n.tape = cvCacheResponse st.c.version sess' ++ rest) :
    ∃ st1, fsmStep fuel st = some st1 ∧ st1.c.state = .errFatal ∧ st1.ss = st.ss ∧ st1.t = st.t ∧ st1.tm = st.tm ∧
      st1.n.now = st.n.now ∧ nextQuery st1.ss = some (st.ss.session, st.ss.serial) ∧
      FaultFree st1.n.tape ∧ tapeBytes st1.n.tape = rest := by
  obtain ⟨st1, h1, nx⟩ := cvm_step_wrongSession fuel st sess' rest hf hs hr hne hs16 ⟨hff, hb⟩
  refine ⟨st1, h1, nx.state, nx.ss, nx.t, nx.tm, nx.now, ?_, nx.tape.ff, nx.tape.eq⟩
  rw [nx.ss]; unfold nextQuery; rw [hr]; rfl

/-- **convergence after a session change.**  The socket is in SYNC having sent a Serial Query with its
    session; the cache has a new session `sess`.  The tape holds: the Cache Response of the new
    session (refused); then — on the next connection — the Cache Reset with which the cache
    answers the Serial Query of the old session; then the good answer to the Reset Query.  The data
    has not expired when the socket reconnects.  Three exchanges, `k = 7` iterations (SYNC →
    ERROR_FATAL → CONNECTING → SYNC → ERROR_NO_INCR_UPDATE_AVAIL → RESET → SYNC → ESTABLISHED), time =
    exactly one retry interval. -/
theorem converges_after_session_change (fuel : Nat) (st : St) (sess serial : Nat) (iv : CvIvals) (recs : List Rec)
    (keys : List KeyRec) (rest : List Nat) (hs : st.c.state = .sync) (hr : st.ss.reqSession = false)
    (hne : st.ss.session ≠ sess) (ho : CvOpenOK st.n.openQ) (hq : NoFail st.n.sendQ) (hv : st.c.version ≤ 1)
    (hx : ¬ cvExpired st (st.n.now + st.tm.retry))
    (ht : TblOK st.t) (hi : st.ss.lastUpdate = 0 → NoOwn st.t) (hsess : sess < 65536) (hserial : serial < 4294967296)
    (hrok : ∀ r ∈ recs, cvRecOK r) (hkok : ∀ k ∈ keys, cvKeyOK k) (hrn : recs.Nodup) (hkn : keys.Nodup)
    (hff : FaultFree st.n.tape)
    (hb : tapeBytes st.n.tape = cvCacheResponse st.c.version sess ++ (cvmCacheReset st.c.version ++
      (goodResetAnswer st.c.version sess serial iv recs keys ++ rest)))
    (hfuel : recs.length + keys.length < fuel) :
    ∃ st', CvRun fuel 7 st st' ∧ Reloaded st st' st.c.version sess serial iv recs keys st.tm.retry rest := by
  obtain ⟨st', hrun, hdone, mp, mk⟩ := cvm_converges_session_change fuel st sess serial iv recs keys rest hs hr hne ho hq hv hx ht hi
    hsess hserial hrok hkok hrn hkn ⟨hff, hb⟩ hfuel
  exact ⟨st', hrun, reloaded_of_done hdone hrok hkok mp mk⟩

/-- … and when the data expires before the socket has reconnected (`rtr_purge_outdated_records` in
    CONNECTING), the next query is a Reset Query and the cache answers it directly: two exchanges,
    `k ≤ 5`, one retry interval -/
theorem converges_after_session_change_expired (fuel : Nat) (st : St) (sess serial : Nat) (iv : CvIvals) (recs : List Rec)
    (keys : List KeyRec) (rest : List Nat) (hs : st.c.state = .sync) (hr : st.ss.reqSession = false)
    (hne : st.ss.session ≠ sess) (ho : CvOpenOK st.n.openQ) (hq : NoFail st.n.sendQ) (hv : st.c.version ≤ 1)
    (hx : cvExpired st (st.n.now + st.tm.retry))
    (ht : TblOK st.t) (hi : st.ss.lastUpdate = 0 → NoOwn st.t) (hsess : sess < 65536) (hserial : serial < 4294967296)
    (hrok : ∀ r ∈ recs, cvRecOK r) (hkok : ∀ k ∈ keys, cvKeyOK k) (hrn : recs.Nodup) (hkn : keys.Nodup)
    (hff : FaultFree st.n.tape)
    (hb : tapeBytes st.n.tape = cvCacheResponse st.c.version sess ++ (goodResetAnswer st.c.version sess serial iv recs keys ++ rest))
    (hfuel : recs.length + keys.length < fuel) :
    ∃ k st', k ≤ 5 ∧ CvRun fuel k st st' ∧ Reloaded st st' st.c.version sess serial iv recs keys st.tm.retry rest := by
  obtain ⟨k, st', hk, hrun, hdone, mp, mk⟩ := cvm_converges_session_change_expired fuel st sess serial iv recs keys rest hs hr hne ho hq
    hv hx ht hi hsess hserial hrok hkok hrn hkn ⟨hff, hb⟩ hfuel
  exact ⟨k, st', hk, hrun, reloaded_of_done hdone hrok hkok mp mk⟩

/-! ## (E) a reactive cache -/

/-- **convergence on a reactive cache.**  `C : CvmCache` is the cache (version, session, serial,
    intervals, data set, the increments it still knows); `C.reply` is its answer as a function of
    the query; `q` is the query the socket sends first — a Reset Query (`cvSendsReset st`) or the
    Serial Query with its stored session and serial (`cvSendsSerial st`); the tape holds
    `C.script q`: the reply to `q` and, if that is a Cache Reset, the reply to the Reset Query that
    follows.  The cache speaks the socket's version; the increment it serves, if any, fits the
    socket's tables (`CvmIncOK`: the socket holds what the cache had at that serial).  From each of
    ERROR_TRANSPORT, ERROR_FATAL, ERROR_NO_DATA_AVAIL, ERROR_NO_INCR_UPDATE_AVAIL, FAST_RECONNECT,
    CONNECTING, RESET the socket is ESTABLISHED with exactly the cache's data set, session and
    serial after at most 2 exchanges, `k ≤ 6` iterations and at most one retry interval. -/
theorem converges_eventually (fuel : Nat) (st : St) (C : CvmCache) (q : Option (Nat × Nat)) (rest : List Nat)
    (hq : (cvSendsReset st ∧ q = none) ∨ (cvSendsSerial st ∧ q = some (st.ss.session, st.ss.serial)))
    (hver : C.ver = st.c.version) (hv : C.ver ≤ 1) (hres : st.ss.reqSession = false → st.ss.isResetting = false)
    (ho : CvOpenOK st.n.openQ) (hs : NoFail st.n.sendQ)
    (ht : TblOK st.t) (hi : st.ss.lastUpdate = 0 → NoOwn st.t)
    (hsess : C.sess < 65536) (hserial : C.serial < 4294967296)
    (hrok : ∀ r ∈ C.recs, cvRecOK r) (hkok : ∀ k ∈ C.keys, cvKeyOK k) (hrn : C.recs.Nodup) (hkn : C.keys.Nodup)
    (hinc : ∀ items, C.incr (st.ss.session, st.ss.serial) = some items → CvmIncOK st C items ∧ items.length < fuel)
    (hff : FaultFree st.n.tape) (hb : tapeBytes st.n.tape = C.script q ++ rest)
    (hfuel : C.recs.length + C.keys.length < fuel) :
    CvmConverged fuel 6 st C rest :=
  cvm_converges_eventually fuel st C q rest hq hver hv hres ho hs ht hi hsess hserial hrok hkok hrn hkn hinc ⟨hff, hb⟩ hfuel

/-- **the steady state against a reactive cache**: from ESTABLISHED, when the wait ends at `w` (Serial
    Notify or refresh timer), the cache's reply to the Serial Query follows on the tape: the socket
    is ESTABLISHED again with exactly the cache's data after at most 2 exchanges, `k ≤ 5` iterations
    (2 if the increment is served, 5 after a Cache Reset), at time `w`. -/
theorem established_converges_eventually (fuel : Nat) (st : St) (C : CvmCache) (rest : List Nat) (w : Int)
    (hs : st.c.state = .established) (hr : st.ss.reqSession = false) (hres : st.ss.isResetting = false)
    (hver : C.ver = st.c.version) (hv : C.ver ≤ 1) (hq : NoFail st.n.sendQ)
    (ht : TblOK st.t) (hi : st.ss.lastUpdate = 0 → NoOwn st.t)
    (hsess : C.sess < 65536) (hserial : C.serial < 4294967296)
    (hrok : ∀ r ∈ C.recs, cvRecOK r) (hkok : ∀ k ∈ C.keys, cvKeyOK k) (hrn : C.recs.Nodup) (hkn : C.keys.Nodup)
    (hinc : ∀ items, C.incr (st.ss.session, st.ss.serial) = some items → CvmIncOK st C items ∧ items.length < fuel)
    (trig : PollTrigger st (C.script (some (st.ss.session, st.ss.serial)) ++ rest) w)
    (hfuel : C.recs.length + C.keys.length < fuel) :
    CvmConvergedAt fuel 5 st C w rest := by
  have hp : ∃ st1, fsmStep fuel st = some st1 ∧
      CvmPolled st st1 w (C.script (some (st.ss.session, st.ss.serial)) ++ rest) := by
    rcases trig with ⟨sess, sn, hff, hb, rfl⟩ | ⟨tp, htp, hff, hb, rfl⟩
    · exact cvm_established_notify fuel st sess sn _ hs hq ⟨hff, hb⟩
    · exact cvm_established_timeout fuel st tp _ hs hq htp hff hb
  obtain ⟨st1, h1, p⟩ := hp
  exact cvm_established_reactive fuel st st1 w C rest h1 p hr hres hver hv hq ht hi hsess hserial hrok hkok hrn hkn hinc hfuel

/-! ## non-vacuity (data of RtrProps/C08b.lean: exR4, exR6, exKey of this socket, exOther of another one) -/

open Rtr.C08b (exR4 exR6 exR4b exKey exOther exIv exItems exFatal exFatal' exErr)

/-- a socket in ESTABLISHED holding the cache's data of session 77, serial 5, synchronised at 900 -/
def exEst : St :=
  { c := { state := .established, version := 1, hasReceived := true },
    ss := { session := 77, serial := 5, reqSession := false, lastUpdate := 900 },
    t := { pt := [exR6, exR4, exOther], kt := [exKey] },
    n := { threaded := true } }
/-- the increment to serial 6 (withdraw 10/8 and the key, announce 10.128/9), 115 bytes -/
def exIncr : List Nat := goodSerialAnswer 1 77 6 exIv exItems
/-- (i) a Serial Notify, then the increment, in chunks that ignore the PDU boundaries -/
def exEstN : St :=
  { exEst with n := { exEst.n with tape := [.rx (cvmSerialNotify 1 77 6 ++ exIncr.take 3), .rx (exIncr.drop 3)] } }
/-- (ii) the refresh timer expires, then the increment -/
def exEstT : St := { exEst with n := { exEst.n with tape := [.block, .rx exIncr] } }

-- `poll_deadline`: now = 1000, last update 900, refresh 3600: the wait is 3500 s, the deadline 4500
example : waitTimeout exEstT = 3500 ∧ cvmDeadline exEstT = 4500 := by decide
example : cvmDeadline exEstT = exEstT.n.now + waitTimeout exEstT := (poll_deadline exEstT).2.1

-- `established_polls`, `established_polls_and_updates` (i): hypotheses instantiated, result evaluated
example : ∃ st1, fsmStep 10 exEstN = some st1 ∧ st1.c.state = .sync ∧ st1.n.now = 1000 :=
  have ⟨st1, h1, h2, h3, _⟩ := established_polls 10 exEstN (exIncr ++ []) 1000 rfl (by decide)
    (Or.inl ⟨77, 6, by decide, by decide +kernel, rfl⟩)
  ⟨st1, h1, h2, h3⟩
example : ∃ st1 st', fsmStep 10 exEstN = some st1 ∧ st1.c.state = .sync ∧ fsmStep 10 st1 = some st' ∧
    st'.c.state = .established ∧ st'.ss.serial = 6 ∧ st'.n.now = 1000 :=
  have ⟨st1, st', h1, h2, _, h4, _, h6, _, _, _, _, h11, _, _, h14, _⟩ :=
    established_polls_and_updates 10 exEstN 6 exIv exItems [] 1000 rfl rfl rfl (by decide) (by decide)
      ⟨rfl, by decide, by decide⟩ (by decide) (by decide) (by decide) (by decide +kernel) (by decide +kernel)
      (by decide +kernel) (by decide +kernel) (Or.inl ⟨77, 6, by decide, by decide +kernel, rfl⟩) (by decide)
  ⟨st1, st', h1, h2, h4, h6, h11, h14⟩
example : (cvIter 10 2 exEstN).map (fun s => (s.c.state, s.t.pt, s.t.kt, s.ss.serial)) =
    some (.established, [exR4b, exR6, exOther], [], 6) := by decide +kernel
example : (cvIter 10 2 exEstN).map (fun s => (s.ss.lastUpdate, s.n.now)) = some (1000, 1000) := by decide +kernel
-- (ii): the Serial Query is sent at the deadline 4500
example : ∃ st1 st', fsmStep 10 exEstT = some st1 ∧ st1.c.state = .sync ∧ st1.n.now = 4500 ∧ fsmStep 10 st1 = some st' ∧
    st'.c.state = .established ∧ st'.ss.lastUpdate = 4500 :=
  have ⟨st1, st', h1, h2, h3, h4, _, h6, _, _, _, _, _, _, h13, _⟩ :=
    established_polls_and_updates 10 exEstT 6 exIv exItems [] 4500 rfl rfl rfl (by decide) (by decide)
      ⟨rfl, by decide, by decide⟩ (by decide) (by decide) (by decide) (by decide +kernel) (by decide +kernel)
      (by decide +kernel) (by decide +kernel) (Or.inr ⟨[.rx exIncr], rfl, by decide, by decide +kernel, by decide⟩) (by decide)
  ⟨st1, st', h1, h2, h3, h4, h6, h13⟩
example : (cvIter 10 2 exEstT).map (fun s => (s.c.state, s.t.pt, s.ss.serial, s.ss.lastUpdate, s.n.now)) =
    some (.established, [exR4b, exR6, exOther], 6, 4500, 4500) := by decide +kernel

/-- the cache has restarted: session 88, serial 1, one prefix, no key -/
def exNew : Rec := ⟨false, 0x0d000000, 8, 24, 65020, 0⟩
def exReload : List Nat := goodResetAnswer 1 88 1 exIv [exNew] []
/-- the socket in SYNC, Serial Query (77, 5) sent -/
def exSyncS : St := { exEst with c := { exEst.c with state := .sync } }

-- (B) `converges_after_cache_reset`
def exB : St := { exSyncS with n := { exSyncS.n with tape := [.rx (cvmCacheReset 1 ++ exReload.take 40), .rx (exReload.drop 40)] } }
example : ∃ st', CvRun 10 4 exB st' ∧ Reloaded exB st' 1 88 1 exIv [exNew] [] 0 [] :=
  have ⟨_, _, _, st', _, _, _, _, _, _, _, h8, h9⟩ :=
    converges_after_cache_reset 10 exB 88 1 exIv [exNew] [] [] rfl (by decide) (by decide) ⟨rfl, by decide, by decide⟩
      (fun h => absurd h (by decide)) (by decide) (by decide) (by decide) (by decide) (by decide) (by decide)
      (by decide) (by decide +kernel) (by decide)
  ⟨st', h8, h9⟩
example : (List.range 5).map (fun k => (cvIter 10 k exB).map (·.c.state)) =
    [some .sync, some .errNoIncr, some .reset, some .sync, some .established] := by decide +kernel
example : (cvIter 10 4 exB).map (fun s => (s.t.pt, s.t.kt, s.ss.session, s.ss.serial, s.n.now)) =
    some ([exNew, exOther], [], 88, 1, 1000) := by decide +kernel

-- (C) `converges_after_no_data`: the Error Report echoes the Serial Query and carries a text
def exErrRep : List Nat := errorPduBytes 1 (serialQueryBytes 1 77 5) 2 [78, 111, 32, 100, 97, 116, 97]
def exC : St := { exSyncS with n := { exSyncS.n with tape := [.rx (exErrRep ++ exReload)] } }
example : ∃ st', CvRun 10 4 exC st' ∧ Reloaded exC st' 1 88 1 exIv [exNew] [] exC.tm.retry [] :=
  have ⟨_, _, _, st', _, _, _, _, _, _, _, h8, h9⟩ :=
    converges_after_no_data 10 exC 1 (serialQueryBytes 1 77 5) [78, 111, 32, 100, 97, 116, 97] 88 1 exIv [exNew] [] [] rfl
      (by decide) (by decide) (by decide) ⟨rfl, by decide, by decide⟩
      (fun h => absurd h (by decide)) (by decide) (by decide) (by decide) (by decide) (by decide) (by decide)
      (by decide) (by decide +kernel) (by decide)
  ⟨st', h8, h9⟩
example : (List.range 5).map (fun k => (cvIter 10 k exC).map (fun s => (s.c.state, s.n.now))) =
    [some (.sync, 1000), some (.errNoData, 1000), some (.reset, 1600), some (.sync, 1600), some (.established, 1600)] := by
  decide +kernel

-- (D) `session_change_refused`, `converges_after_session_change`
def exD : St :=
  { exSyncS with n := { exSyncS.n with tape := [.rx (cvCacheResponse 1 88), .rx (cvmCacheReset 1 ++ exReload)] } }
example : ∃ st1, fsmStep 10 exD = some st1 ∧ st1.c.state = .errFatal ∧ nextQuery st1.ss = some (77, 5) :=
  have ⟨st1, h1, h2, _, _, _, _, h7, _⟩ := session_change_refused 10 exD 88 (cvmCacheReset 1 ++ exReload) (by decide) rfl rfl
    (by decide) (by decide) (by decide) (by decide +kernel)
  ⟨st1, h1, h2, h7⟩
example : ∃ st', CvRun 10 7 exD st' ∧ Reloaded exD st' 1 88 1 exIv [exNew] [] exD.tm.retry [] :=
  converges_after_session_change 10 exD 88 1 exIv [exNew] [] [] rfl rfl (by decide) (by decide) (by decide) (by decide)
    (fun h => absurd h.2 (by decide)) ⟨rfl, by decide, by decide⟩ (fun h => absurd h (by decide)) (by decide) (by decide)
    (by decide) (by decide) (by decide) (by decide) (by decide) (by decide +kernel) (by decide)
example : (List.range 8).map (fun k => (cvIter 10 k exD).map (·.c.state)) =
    [some .sync, some .errFatal, some .connecting, some .sync, some .errNoIncr, some .reset, some .sync, some .established] := by
  decide +kernel
example : (cvIter 10 7 exD).map (fun s => (s.t.pt, s.ss.session, s.ss.serial, s.n.now)) =
    some ([exNew, exOther], 88, 1, 1600) := by decide +kernel
-- `converges_after_session_change_expired`: data of time -6000 expires (7200 s) at 1200, before the reconnect at 1600
def exDx : St :=
  { exSyncS with ss := { exSyncS.ss with lastUpdate := -6000 },
                 n := { exSyncS.n with tape := [.rx (cvCacheResponse 1 88), .rx exReload] } }
example : ∃ k st', k ≤ 5 ∧ CvRun 10 k exDx st' ∧ Reloaded exDx st' 1 88 1 exIv [exNew] [] exDx.tm.retry [] :=
  converges_after_session_change_expired 10 exDx 88 1 exIv [exNew] [] [] rfl rfl (by decide) (by decide) (by decide) (by decide)
    ⟨by decide, by decide⟩ ⟨rfl, by decide, by decide⟩ (fun h => absurd h (by decide)) (by decide) (by decide)
    (by decide) (by decide) (by decide) (by decide) (by decide) (by decide +kernel) (by decide)
example : (cvIter 10 5 exDx).map (fun s => (s.c.state, s.t.pt, s.ss.session, s.n.now)) =
    some (.established, [exNew, exOther], 88, 1600) := by decide +kernel

-- (E) `converges_eventually`: the cache of session 77 at serial 6 that still knows serial 5
def exCache : CvmCache :=
  { ver := 1, sess := 77, serial := 6, iv := exIv, recs := [exR6, exR4b], keys := [],
    diff := fun n => if n = 5 then some exItems else none }
example : exCache.reply none = goodResetAnswer 1 77 6 exIv [exR6, exR4b] [] ∧
    exCache.reply (some (77, 5)) = goodSerialAnswer 1 77 6 exIv exItems ∧
    exCache.reply (some (77, 3)) = cvmCacheReset 1 ∧ exCache.reply (some (12, 5)) = cvmCacheReset 1 := ⟨rfl, rfl, rfl, rfl⟩
-- the socket in ERROR_FATAL at serial 5 (C08b `exFatal'`): the increment is served — one exchange
example : CvmConverged 10 6 exFatal' exCache [] :=
  converges_eventually 10 exFatal' exCache (some (77, 5)) []
    (Or.inr ⟨show exFatal'.ss.reqSession = false ∧ ¬ cvExpired exFatal' _ from ⟨rfl, fun h => absurd h.2 (by decide)⟩, rfl⟩)
    rfl (by decide) (fun _ => rfl) (by decide) (by decide) ⟨rfl, by decide, by decide⟩ (fun h => absurd h (by decide))
    (by decide) (by decide) (by decide) (by decide) (by decide) (by decide)
    (fun items h => by
      have e : some exItems = some items := h
      cases e
      exact ⟨⟨by decide, by decide +kernel, by decide +kernel, by decide +kernel, by decide +kernel, by decide +kernel,
        by decide +kernel, by decide +kernel, by decide +kernel, by decide +kernel, by decide +kernel⟩, by decide⟩)
    (by decide) (by decide +kernel) (by decide)
example : (cvIter 10 3 exFatal').map (fun s => (s.c.state, s.t.pt, s.t.kt, s.ss.serial)) =
    some (.established, [exR4b, exR6, exOther], [], 6) := by decide +kernel
-- the same socket at serial 3, which the cache no longer knows: Cache Reset, then the reload — two exchanges, 6 iterations
def exFatalOld : St :=
  { exFatal with ss := { exFatal.ss with serial := 3 },
                 n := { exFatal.n with tape := [.rx (exCache.script (some (77, 3)))] } }
example : CvmConverged 10 6 exFatalOld exCache [] :=
  converges_eventually 10 exFatalOld exCache (some (77, 3)) []
    (Or.inr ⟨show exFatalOld.ss.reqSession = false ∧ ¬ cvExpired exFatalOld _ from ⟨rfl, fun h => absurd h.2 (by decide)⟩, rfl⟩)
    rfl (by decide) (fun _ => rfl) (by decide) (by decide) ⟨rfl, by decide, by decide⟩ (fun h => absurd h (by decide))
    (by decide) (by decide) (by decide) (by decide) (by decide) (by decide)
    (fun items h => by
      have e : (none : Option (List CvItem)) = some items := h
      cases e)
    (by decide) (by decide +kernel) (by decide)
example : (List.range 7).map (fun k => (cvIter 10 k exFatalOld).map (·.c.state)) =
    [some .errFatal, some .connecting, some .sync, some .errNoIncr, some .reset, some .sync, some .established] := by
  decide +kernel
example : (cvIter 10 6 exFatalOld).map (fun s => (s.t.pt, s.t.kt, s.ss.session, s.ss.serial, s.n.now)) =
    some ([exR6, exR4b, exOther], [], 77, 6, 1600) := by decide +kernel
-- a socket that sends a Reset Query (C08b `exErr`: ERROR_TRANSPORT, new session requested)
def exErrC : St := { exErr with n := { exErr.n with tape := [.rx (exCache.script none)] } }
example : CvmConverged 10 6 exErrC exCache [] :=
  converges_eventually 10 exErrC exCache none []
    (Or.inl ⟨show exErrC.ss.reqSession = true ∨ _ from Or.inl rfl, rfl⟩)
    rfl (by decide) (fun h => absurd h (by decide)) (by decide) (by decide) ⟨rfl, by decide, by decide⟩
    (fun h => absurd h (by decide)) (by decide) (by decide) (by decide) (by decide) (by decide) (by decide)
    (fun items h => by
      have e : (none : Option (List CvItem)) = some items := h
      cases e)
    (by decide) (by decide +kernel) (by decide)

-- `established_converges_eventually`: the steady state; the increment is served (2 iterations) …
example : CvmConvergedAt 10 5 exEstN exCache 1000 [] :=
  established_converges_eventually 10 exEstN exCache [] 1000 rfl rfl rfl rfl (by decide) (by decide)
    ⟨rfl, by decide, by decide⟩ (fun h => absurd h (by decide)) (by decide) (by decide) (by decide) (by decide) (by decide)
    (by decide)
    (fun items h => by
      have e : some exItems = some items := h
      cases e
      exact ⟨⟨by decide, by decide +kernel, by decide +kernel, by decide +kernel, by decide +kernel, by decide +kernel,
        by decide +kernel, by decide +kernel, by decide +kernel, by decide +kernel, by decide +kernel⟩, by decide⟩)
    (Or.inl ⟨77, 6, by decide, by decide +kernel, rfl⟩) (by decide)
-- … or, for a socket at serial 3, refused and reloaded (5 iterations), after the refresh timer
def exEstOld : St :=
  { exEst with ss := { exEst.ss with serial := 3 },
               n := { exEst.n with tape := [.block, .rx (exCache.script (some (77, 3)))] } }
example : CvmConvergedAt 10 5 exEstOld exCache 4500 [] :=
  established_converges_eventually 10 exEstOld exCache [] 4500 rfl rfl rfl rfl (by decide) (by decide)
    ⟨rfl, by decide, by decide⟩ (fun h => absurd h (by decide)) (by decide) (by decide) (by decide) (by decide) (by decide)
    (by decide)
    (fun items h => by
      have e : (none : Option (List CvItem)) = some items := h
      cases e)
    (Or.inr ⟨[.rx (exCache.script (some (77, 3)))], rfl, by decide, by decide +kernel, by decide⟩) (by decide)
example : (List.range 6).map (fun k => (cvIter 10 k exEstOld).map (fun s => (s.c.state, s.n.now))) =
    [some (.established, 1000), some (.sync, 4500), some (.errNoIncr, 4500), some (.reset, 4500), some (.sync, 4500),
     some (.established, 4500)] := by decide +kernel

end Rtr.C08c
