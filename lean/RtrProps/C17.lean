/-
  C17 -- Timer values stay within protocol bounds whatever the cache sends.

  "Initialisation rejects refresh, retry or expire intervals outside the RFC 8210 ranges.  After
   any End of Data, the socket's three intervals are exactly what the configured interval mode
   prescribes (unchanged, as sent, clamped to the range, or as sent only if inside the range), so
   that in every mode except accept-any they lie within the ranges; version-0 exchanges never
   change them.  While established, the client polls the cache as soon as a Serial Notify arrives
   and otherwise no later than the refresh interval after the last synchronisation."

  All statements quantify over ALL 32-bit values (`UInt32`), all sockets and all mode integers;
  nothing is sampled.  The range constants and enumerator values are the regenerated ones
  (`Rtr.Gen.*`); `constants_are_rfc8210` ties them to the fixed literals of `Rtr.Rfc8210`.
-/
import RtrModel.Intervals
import RtrModel.Rfc8210
import RtrProofs.Intervals

namespace Rtr.C17
open Rtr.Intervals

/-! ### the code's constants are the specification's -/

/-- the interval ranges and defaults declared by the current tree are those of RFC 8210 -/
theorem constants_are_rfc8210 :
    Gen.RTR_REFRESH_MIN = Rfc8210.refreshMin ∧ Gen.RTR_REFRESH_MAX = Rfc8210.refreshMax ∧
    Gen.RTR_RETRY_MIN = Rfc8210.retryMin ∧ Gen.RTR_RETRY_MAX = Rfc8210.retryMax ∧
    Gen.RTR_EXPIRATION_MIN = Rfc8210.expireMin ∧ Gen.RTR_EXPIRATION_MAX = Rfc8210.expireMax ∧
    Gen.RTR_REFRESH_DEFAULT = Rfc8210.refreshDefault ∧ Gen.RTR_RETRY_DEFAULT = Rfc8210.retryDefault ∧
    Gen.RTR_EXPIRATION_DEFAULT = Rfc8210.expireDefault := by decide

/-- the bounds as the code's local variables hold them (`uint16_t minimum`, `uint32_t maximum`) are
    the RFC values: nothing is lost in the narrowing assignment -/
theorem bounds_are_rfc8210 :
    (u16 Gen.RTR_REFRESH_MIN).toNat = Rfc8210.refreshMin ∧ (u32 Gen.RTR_REFRESH_MAX).toNat = Rfc8210.refreshMax ∧
    (u16 Gen.RTR_RETRY_MIN).toNat = Rfc8210.retryMin ∧ (u32 Gen.RTR_RETRY_MAX).toNat = Rfc8210.retryMax ∧
    (u16 Gen.RTR_EXPIRATION_MIN).toNat = Rfc8210.expireMin ∧ (u32 Gen.RTR_EXPIRATION_MAX).toNat = Rfc8210.expireMax ∧
    (u32 Gen.RTR_REFRESH_MIN).toNat = Rfc8210.refreshMin ∧ (u32 Gen.RTR_RETRY_MIN).toNat = Rfc8210.retryMin ∧
    (u32 Gen.RTR_EXPIRATION_MIN).toNat = Rfc8210.expireMin := by decide

/-- the interval modes are the four of the public API; protocol versions are 0 and 1 and 1 is the
    newest the client speaks (so "version ≥ 1" and "version = 1" coincide) -/
theorem modes_and_versions :
    Gen.intervalModes = Rfc8210.intervalModes ∧
    Gen.RTR_PROTOCOL_VERSION_0 = Rfc8210.version0 ∧ Gen.RTR_PROTOCOL_VERSION_1 = Rfc8210.version1 ∧
    Gen.RTR_PROTOCOL_MIN_SUPPORTED_VERSION = Rfc8210.version0 ∧
    Gen.RTR_PROTOCOL_MAX_SUPPORTED_VERSION = Rfc8210.version1 := by decide

/-- "within the RFC 8210 ranges" -/
def InRange (refresh expire retry : Nat) : Prop :=
  (Rfc8210.refreshMin ≤ refresh ∧ refresh ≤ Rfc8210.refreshMax) ∧
  (Rfc8210.expireMin ≤ expire ∧ expire ≤ Rfc8210.expireMax) ∧
  (Rfc8210.retryMin ≤ retry ∧ retry ≤ Rfc8210.retryMax)

def _root_.Rtr.Intervals.Sock.InRange (s : Sock) : Prop := C17.InRange s.refresh.toNat s.expire.toNat s.retry.toNat

instance (a b c : Nat) : Decidable (InRange a b c) := by unfold InRange; infer_instance
instance (s : Sock) : Decidable (Sock.InRange s) := by unfold Sock.InRange; infer_instance

/-! ### initialisation -/

theorem initOk_iff (refresh expire retry : UInt32) :
    initOk refresh expire retry = true ↔ InRange refresh.toNat expire.toNat retry.toNat := by
  have hb := bounds_are_rfc8210
  unfold initOk InRange
  simp only [range_inside_iff, UInt32.le_iff_toNat_le, decide_eq_true_eq, hb.2.1, hb.2.2.2.1,
    hb.2.2.2.2.2.1, hb.2.2.2.2.2.2.1, hb.2.2.2.2.2.2.2.1, hb.2.2.2.2.2.2.2.2]

/-- `rtr_init` succeeds exactly for intervals inside the RFC 8210 ranges, returns
    RTR_INVALID_PARAM for every other combination of 32-bit values, and on success stores exactly
    what it was given -/
theorem init_rejects_out_of_range (refresh expire retry : UInt32) (mode : Int) :
    (InRange refresh.toNat expire.toNat retry.toNat →
        rtrInit refresh expire retry mode =
          (Gen.RTR_SUCCESS, some { refresh := refresh, expire := expire, retry := retry, ivMode := mode })) ∧
    (¬ InRange refresh.toNat expire.toNat retry.toNat →
        rtrInit refresh expire retry mode = (Gen.RTR_INVALID_PARAM, none)) := by
  unfold rtrInit
  constructor
  · intro h
    rw [if_pos ((initOk_iff _ _ _).mpr h)]
  · intro h
    rw [if_neg (fun c => h ((initOk_iff _ _ _).mp c))]

/-- `rtr_mgr_init` (well-formed groups): out-of-range intervals are refused with
    RTR_INVALID_PARAM; otherwise every socket starts in range with mode DEFAULT_MIN_MAX -/
theorem mgr_init_rejects_out_of_range (groupSizes : List Nat) (refresh expire retry : UInt32)
    (hg : groupSizes ≠ []) (hs : ∀ n ∈ groupSizes, n ≠ 0) :
    (¬ InRange refresh.toNat expire.toNat retry.toNat →
        mgrInit groupSizes refresh expire retry = (Gen.RTR_INVALID_PARAM, [])) ∧
    (InRange refresh.toNat expire.toNat retry.toNat →
        (mgrInit groupSizes refresh expire retry).1 = Gen.RTR_SUCCESS ∧
        ∀ s ∈ (mgrInit groupSizes refresh expire retry).2,
          s.InRange ∧ s.ivMode = Gen.RTR_INTERVAL_MODE_DEFAULT_MIN_MAX ∧
          s.refresh = refresh ∧ s.expire = expire ∧ s.retry = retry) := by
  have hany : groupSizes.any (· = 0) = false := by
    rw [List.any_eq_false]
    intro n hn
    simpa using hs n hn
  have hcond : ¬ (groupSizes = [] ∨ groupSizes.any (· = 0) = true) := by
    rw [hany]; simp [hg]
  unfold mgrInit
  rw [if_neg hcond]
  have hi := init_rejects_out_of_range refresh expire retry Gen.RTR_INTERVAL_MODE_DEFAULT_MIN_MAX
  constructor
  · intro h
    rw [hi.2 h]
  · intro h
    rw [hi.1 h]
    refine ⟨rfl, ?_⟩
    intro s hs'
    have := List.eq_of_mem_replicate hs'
    subst this
    exact ⟨h, rfl, rfl, rfl, rfl⟩

/-! ### End of Data -/

/-- **eod_intervals.**  For each of the four modes and ALL 32-bit values `e r y` sent in a
    version-1 End of Data, each interval of the socket afterwards is exactly what the mode
    prescribes (unchanged / as sent / clamped / as sent only if inside the range), processing
    continues, and nothing else in the socket changes. -/
theorem eod_intervals (m : Mode) (s : Sock) (e r y : UInt32) (hm : s.ivMode = m.code) :
    let s' := (eodIntervals s Gen.RTR_PROTOCOL_VERSION_1 e r y).1
    (eodIntervals s Gen.RTR_PROTOCOL_VERSION_1 e r y).2 = true ∧
    s'.expire.toNat = prescribed m Rfc8210.expireMin Rfc8210.expireMax s.expire.toNat e.toNat ∧
    s'.refresh.toNat = prescribed m Rfc8210.refreshMin Rfc8210.refreshMax s.refresh.toNat r.toNat ∧
    s'.retry.toNat = prescribed m Rfc8210.retryMin Rfc8210.retryMax s.retry.toNat y.toNat ∧
    s'.ivMode = s.ivMode ∧ s'.version = s.version ∧ s'.lastUpdate = s.lastUpdate ∧
    s'.hasReceivedPdus = s.hasReceivedPdus := by
  have hb := bounds_are_rfc8210
  rw [eodIntervals_eq]
  cases m
  · -- IGNORE_ANY
    have : ¬ (Gen.RTR_PROTOCOL_VERSION_1 = Gen.RTR_PROTOCOL_VERSION_1 ∧ s.ivMode ≠ Gen.RTR_INTERVAL_MODE_IGNORE_ANY) := by
      rw [hm]; simp [Mode.code]
    rw [if_neg this]
    simp [prescribed]
  all_goals
    have hc : (Gen.RTR_PROTOCOL_VERSION_1 = Gen.RTR_PROTOCOL_VERSION_1 ∧ s.ivMode ≠ Gen.RTR_INTERVAL_MODE_IGNORE_ANY) := by
      rw [hm]; exact ⟨rfl, by decide⟩
    rw [if_pos hc]
    simp only [optVal_toNat, hm, hb.1, hb.2.1, hb.2.2.1, hb.2.2.2.1, hb.2.2.2.2.1, hb.2.2.2.2.2.1, prescribed, Mode.code]
    refine ⟨trivial, ?_, ?_, ?_, trivial, trivial, trivial, trivial⟩
  -- ACCEPT_ANY
  · simp
  · simp
  · simp
  -- DEFAULT_MIN_MAX
  all_goals
    have h1 : ¬ (Gen.RTR_INTERVAL_MODE_DEFAULT_MIN_MAX = Gen.RTR_INTERVAL_MODE_ACCEPT_ANY) := by decide
    have h2 : ¬ (Gen.RTR_INTERVAL_MODE_IGNORE_ON_FAILURE = Gen.RTR_INTERVAL_MODE_ACCEPT_ANY) := by decide
    have h3 : ¬ (Gen.RTR_INTERVAL_MODE_IGNORE_ON_FAILURE = Gen.RTR_INTERVAL_MODE_DEFAULT_MIN_MAX) := by decide
    simp only [h1, h2, h3, or_false, if_true, if_false]
    repeat' split
    all_goals omega

/-- **in_range_unless_accept_any.**  For every mode integer other than ACCEPT_ANY (declared or
    not), every protocol version and all 32-bit values sent: a socket whose intervals are in range
    (as `rtr_init` guarantees) still has all three in range after End of Data. -/
theorem in_range_unless_accept_any (s : Sock) (ver : Nat) (e r y : UInt32)
    (hs : s.InRange) (hm : s.ivMode ≠ Gen.RTR_INTERVAL_MODE_ACCEPT_ANY) :
    (eodIntervals s ver e r y).1.InRange := by
  have hb := bounds_are_rfc8210
  rw [eodIntervals_eq]
  split
  · unfold Sock.InRange InRange at hs ⊢
    obtain ⟨h1, h2, h3⟩ := hs
    have a := optVal_in_range s.ivMode r (u16 Gen.RTR_REFRESH_MIN) (u32 Gen.RTR_REFRESH_MAX) s.refresh hm
      (by rw [hb.1, hb.2.1]; decide) (by rw [hb.1, hb.2.1]; exact h1)
    have b := optVal_in_range s.ivMode e (u16 Gen.RTR_EXPIRATION_MIN) (u32 Gen.RTR_EXPIRATION_MAX) s.expire hm
      (by rw [hb.2.2.2.2.1, hb.2.2.2.2.2.1]; decide) (by rw [hb.2.2.2.2.1, hb.2.2.2.2.2.1]; exact h2)
    have c := optVal_in_range s.ivMode y (u16 Gen.RTR_RETRY_MIN) (u32 Gen.RTR_RETRY_MAX) s.retry hm
      (by rw [hb.2.2.1, hb.2.2.2.1]; decide) (by rw [hb.2.2.1, hb.2.2.2.1]; exact h3)
    rw [hb.1, hb.2.1] at a
    rw [hb.2.2.2.2.1, hb.2.2.2.2.2.1] at b
    rw [hb.2.2.1, hb.2.2.2.1] at c
    exact ⟨a, b, c⟩
  · exact hs

theorem eodIntervals_mode (s : Sock) (ver : Nat) (e r y : UInt32) :
    (eodIntervals s ver e r y).1.ivMode = s.ivMode := by
  rw [eodIntervals_eq]
  split <;> rfl

/-- **whatever the cache sends, for the whole life of the socket**: starting in range (as `rtr_init`
    leaves it), after any sequence of End-of-Data PDUs (any versions, any 32-bit values) and mode
    changes that never configure ACCEPT_ANY, the three timers are in range. -/
theorem history_in_range (h : List HEv) :
    ∀ (s : Sock), s.InRange → s.ivMode ≠ Gen.RTR_INTERVAL_MODE_ACCEPT_ANY →
      (∀ ev ∈ h, ev ≠ .setMode Gen.RTR_INTERVAL_MODE_ACCEPT_ANY) →
      (runHistory s h).InRange ∧ (runHistory s h).ivMode ≠ Gen.RTR_INTERVAL_MODE_ACCEPT_ANY := by
  induction h with
  | nil => intro s hs hm _; exact ⟨hs, hm⟩
  | cons ev rest ih =>
    intro s hs hm hno
    have hrest : ∀ ev' ∈ rest, ev' ≠ .setMode Gen.RTR_INTERVAL_MODE_ACCEPT_ANY :=
      fun ev' h' => hno ev' (List.mem_cons_of_mem _ h')
    have hev := hno ev (List.mem_cons_self ..)
    unfold runHistory
    rw [List.foldl_cons]
    cases ev with
    | eod ver e r y =>
      exact ih _ (in_range_unless_accept_any s ver e r y hs hm) (by show (eodIntervals s ver e r y).1.ivMode ≠ _; rw [eodIntervals_mode]; exact hm) hrest
    | setMode o =>
      have ho : o ≠ Gen.RTR_INTERVAL_MODE_ACCEPT_ANY := fun c => hev (by rw [c])
      refine ih _ ?_ ?_ hrest
      · show (setIntervalMode s o).InRange
        unfold setIntervalMode
        split
        · exact hs
        · exact hs
      · show (setIntervalMode s o).ivMode ≠ _
        unfold setIntervalMode
        split
        · exact ho
        · exact hm

/-- the exception is real: in ACCEPT_ANY mode a cache can push the refresh interval to 0 and the
    expire interval to 2^32-1 -/
theorem accept_any_leaves_range :
    let s : Sock := { refresh := 3600, expire := 7200, retry := 600, ivMode := Gen.RTR_INTERVAL_MODE_ACCEPT_ANY }
    let s' := (eodIntervals s 1 4294967295 0 0).1
    s.InRange ∧ s'.refresh = 0 ∧ s'.expire = 4294967295 ∧ ¬ s'.InRange := by decide

/-- **v0_never_changes.**  A version-0 End of Data leaves the socket exactly as it was, in every
    mode and for all values; so does a whole version-0 synchronisation as far as the timers go. -/
theorem v0_never_changes (s : Sock) (e r y : UInt32) :
    eodIntervals s Gen.RTR_PROTOCOL_VERSION_0 e r y = (s, true) := by
  rw [eodIntervals_eq]
  have : ¬ (Gen.RTR_PROTOCOL_VERSION_0 = Gen.RTR_PROTOCOL_VERSION_1 ∧ s.ivMode ≠ Gen.RTR_INTERVAL_MODE_IGNORE_ANY) := by
    intro h; exact absurd h.1 (by decide)
  rw [if_neg this]

theorem receiveVersion_timers (s : Sock) (ver : Nat) :
    (receiveVersion s ver).1.refresh = s.refresh ∧ (receiveVersion s ver).1.expire = s.expire ∧
    (receiveVersion s ver).1.retry = s.retry ∧ (receiveVersion s ver).1.ivMode = s.ivMode := by
  unfold receiveVersion
  simp only
  split
  · split <;> exact ⟨rfl, rfl, rfl, rfl⟩
  · exact ⟨rfl, rfl, rfl, rfl⟩

/-- a whole synchronisation (Cache Response, End of Data) changes the timers only through the
    End-of-Data interval handling -/
theorem sync_timers (s : Sock) (ver : Nat) (e r y : UInt32) (now : Int) :
    let s' := (syncCrEod s ver e r y now).1
    (s'.refresh = s.refresh ∧ s'.expire = s.expire ∧ s'.retry = s.retry) ∨
    (∃ s2, s2.refresh = s.refresh ∧ s2.expire = s.expire ∧ s2.retry = s.retry ∧ s2.ivMode = s.ivMode ∧
      s'.refresh = (eodIntervals s2 ver e r y).1.refresh ∧ s'.expire = (eodIntervals s2 ver e r y).1.expire ∧
      s'.retry = (eodIntervals s2 ver e r y).1.retry) := by
  have h1 := receiveVersion_timers s ver
  have h2 := receiveVersion_timers (receiveVersion s ver).1 ver
  unfold syncCrEod
  simp only
  split
  · left; exact ⟨h1.1, h1.2.1, h1.2.2.1⟩
  · split
    · left; exact ⟨h2.1.trans h1.1, h2.2.1.trans h1.2.1, h2.2.2.1.trans h1.2.2.1⟩
    · right
      refine ⟨(receiveVersion (receiveVersion s ver).1 ver).1, h2.1.trans h1.1, h2.2.1.trans h1.2.1,
        h2.2.2.1.trans h1.2.2.1, h2.2.2.2.trans h1.2.2.2, ?_⟩
      split <;> exact ⟨rfl, rfl, rfl⟩

/-- version-0 synchronisations never change the timers -/
theorem sync_v0_never_changes (s : Sock) (e r y : UInt32) (now : Int) :
    let s' := (syncCrEod s Gen.RTR_PROTOCOL_VERSION_0 e r y now).1
    s'.refresh = s.refresh ∧ s'.expire = s.expire ∧ s'.retry = s.retry := by
  rcases sync_timers s Gen.RTR_PROTOCOL_VERSION_0 e r y now with h | ⟨s2, a, b, c, _, d, e', f⟩
  · exact h
  · rw [v0_never_changes] at d e' f
    exact ⟨d.trans a, e'.trans b, f.trans c⟩

/-- after any synchronisation, in any mode but ACCEPT_ANY, the timers are in range -/
theorem sync_in_range (s : Sock) (ver : Nat) (e r y : UInt32) (now : Int)
    (hs : s.InRange) (hm : s.ivMode ≠ Gen.RTR_INTERVAL_MODE_ACCEPT_ANY) :
    (syncCrEod s ver e r y now).1.InRange := by
  rcases sync_timers s ver e r y now with ⟨a, b, c⟩ | ⟨s2, a, b, c, m, d, e', f⟩
  · unfold Sock.InRange at hs ⊢
    rw [a, b, c]; exact hs
  · have h2 : s2.InRange := by
      unfold Sock.InRange at hs ⊢
      rw [a, b, c]; exact hs
    have := in_range_unless_accept_any s2 ver e r y h2 (by rw [m]; exact hm)
    unfold Sock.InRange at this ⊢
    rw [d, e', f]; exact this

/-! ### polling while established -/

/-- **poll_deadline.**  The timeout handed to the transport receive function is
    `max 0 (last_update + refresh_interval − now)`: the wait ends no later than one refresh
    interval after the last synchronisation (at once if that moment has passed). -/
theorem poll_deadline (s : Sock) (now : Int) :
    waitTimeout s now = max 0 (s.lastUpdate + (s.refresh.toNat : Int) - now) ∧
    now + waitTimeout s now = max now (s.lastUpdate + (s.refresh.toNat : Int)) := by
  unfold waitTimeout
  simp only
  split <;> omega

/-- with in-range timers the client never sleeps longer than the RFC 8210 maximum (one day) past
    the last synchronisation -/
theorem poll_deadline_bounded (s : Sock) (now : Int) (hs : s.InRange) (hn : s.lastUpdate ≤ now) :
    0 ≤ waitTimeout s now ∧ waitTimeout s now ≤ (Rfc8210.refreshMax : Int) := by
  have := (poll_deadline s now).1
  have h := hs.1.2
  have : (s.refresh.toNat : Int) ≤ (Rfc8210.refreshMax : Int) := by exact_mod_cast h
  omega

/-- a Serial Notify, or the expiry of the wait, is answered by a Serial Query at once; nothing else
    triggers a query -/
theorem notify_polls_immediately :
    establishedStep .serialNotify = .sendSerialQuery ∧ establishedStep .timeout = .sendSerialQuery ∧
    establishedStep .otherPdu = .waitAgain ∧ establishedStep .intr = .waitAgain ∧
    establishedStep .error = .leave := by decide

/-- in a run of the state machine against a scripted cache: when a Serial Notify arrives (or the
    wait expires) the very next transport action is the Serial Query, sent at the moment of arrival -/
theorem notify_then_query (ver : Nat) (s : Sock) (now : Int) (ev : Ev) (rest : List Ev)
    (h : ev.ev = .serialNotify ∨ ev.ev = .timeout) (hf : ev.frags = []) :
    ∃ tl, fsmEstablished ver s now (ev :: rest) =
      .wait (waitTimeout s now) now :: .send 1 (arrival ev now (waitTimeout s now)) :: tl := by
  have hs : establishedStep ev.ev = .sendSerialQuery := by
    rcases h with h | h <;> rw [h] <;> decide
  unfold fsmEstablished
  simp only [hs, hf, ne_eq, not_true_eq_false, if_false]
  split
  · exact ⟨_, rfl⟩
  · exact ⟨_, rfl⟩

/-- in every such run, for every script, whatever follows a wait happens within the timeout that
    wait was given -- i.e. no later than `last_update + refresh_interval` (or at once) -/
theorem trace_polls_within_timeout (ver : Nat) (s : Sock) (now : Int) (evs : List Ev) :
    pollsOk (fsmEstablished ver s now evs) = true :=
  fsmEstablished_pollsOk ver evs s now

/-! ### PDUs that arrive in pieces (tr_recv_all's loop)

    The wait of `rtr_wait_for_sync` is a `tr_recv_all` for the PDU header with the timeout of
    `poll_deadline`, followed (once the header is complete) by a `tr_recv_all` for the rest of the
    PDU with RTR_RECV_TIMEOUT.  A cache can deliver the PDU byte by byte at times of its choosing. -/

/-- the slack the client grants a cache for the remainder of a PDU whose header has arrived -/
theorem recv_slack : Gen.RTR_RECV_TIMEOUT = 60 := by decide

/-- **frag_poll_deadline.**  Whatever fragments the cache sends and whenever it sends them, for
    every socket and clock reading: EVERY timeout handed to the transport receive function while
    the header is incomplete is non-negative and equals the time left until
    `max now (last_update + refresh_interval)` (so a fragment arriving in the last second, or at the
    deadline itself, never buys the cache more time); every timeout for the rest of the PDU is
    within `0 … RTR_RECV_TIMEOUT`; `rtr_wait_for_sync` returns (and the state machine sends its
    Serial Query) no later than the deadline if the header did not arrive completely, and no later
    than deadline + RTR_RECV_TIMEOUT otherwise. -/
theorem frag_poll_deadline (s : Sock) (now : Int) (body : Nat) (fr : List Frag) :
    let p := waitPdu s now body fr
    let deadline := max now (s.lastUpdate + (s.refresh.toNat : Int))
    (∀ c ∈ p.hcalls, 0 ≤ c.timeout ∧ c.now + c.timeout = deadline ∧ now ≤ c.now) ∧
    (∀ c ∈ p.bcalls, 0 ≤ c.timeout ∧ c.timeout ≤ 60 ∧ now ≤ c.now) ∧
    now ≤ p.now ∧ p.now ≤ deadline + 60 ∧ (p.bcalls = [] → p.now ≤ deadline) := by
  have h := receivePdu_spec body (waitTimeout s now) now fr (waitTimeout_nonneg s now)
  have hd := (poll_deadline s now).2
  have hs : ((Gen.RTR_RECV_TIMEOUT : Nat) : Int) = 60 := by rw [recv_slack]; rfl
  rw [hs, hd] at h
  exact h

/-- in a run of the state machine: a Serial Notify that arrives in fragments (followed by silence)
    is answered by the Serial Query the moment `rtr_wait_for_sync` returns, which is no later than
    `max now (last_update + refresh_interval) + RTR_RECV_TIMEOUT`; the trace shows every transport
    receive call of the wait -/
theorem frag_then_query (ver : Nat) (s : Sock) (now : Int) (ev : Ev) (rest : List Ev) (hf : ev.frags ≠ []) :
    let p := waitPdu s now notifyBody ev.frags
    (∃ tl, fsmEstablished ver s now (ev :: rest) =
      .wait (waitTimeout s now) now :: callItems (p.hcalls ++ p.bcalls) ++ .send 1 p.now :: tl) ∧
    p.now ≤ max now (s.lastUpdate + (s.refresh.toNat : Int)) + 60 := by
  refine ⟨?_, (frag_poll_deadline s now notifyBody ev.frags).2.2.2.1⟩
  unfold fsmEstablished
  simp only [hf, ne_eq, not_false_eq_true, if_true]
  split
  · exact ⟨_, rfl⟩
  · exact ⟨[], rfl⟩

/-! ### non-vacuity -/

example : (rtrInit 3600 7200 600 2).1 = Gen.RTR_SUCCESS := by decide
example : (rtrInit 0 7200 600 2).1 = Gen.RTR_INVALID_PARAM ∧ (rtrInit 3600 599 600 2).1 = Gen.RTR_INVALID_PARAM ∧
    (rtrInit 3600 7200 7201 2).1 = Gen.RTR_INVALID_PARAM := by decide
example : let s : Sock := { refresh := 3600, expire := 7200, retry := 600, ivMode := 2 }
    (eodIntervals s 1 4294967295 0 7201).1 = { s with expire := 172800, refresh := 1, retry := 7200 } := by decide
example : let s : Sock := { refresh := 3600, expire := 7200, retry := 600, ivMode := 3 }
    (eodIntervals s 1 599 86400 1).1 = { s with refresh := 86400, retry := 1 } := by decide
example : waitTimeout { refresh := 3600, expire := 7200, retry := 600, ivMode := 2, lastUpdate := 1000 } 1500 = 3100 := by decide
example : waitTimeout { refresh := 3600, expire := 7200, retry := 600, ivMode := 2, lastUpdate := 1000 } 9000 = 0 := by decide

example : fsmTrace { refresh := 3600, expire := 7200, retry := 600, ivMode := 2 } 1 100 7200 10 600
    [⟨.serialNotify, 4, 7200, 20, 600, []⟩, ⟨.otherPdu, 5, 0, 0, 0, []⟩, ⟨.timeout, 0, 7200, 20, 600, []⟩] =
    [.send 2 100, .wait 10 100, .send 1 104, .wait 20 104, .wait 15 109, .send 1 124, .wait 20 124] := by decide

/-- one byte of a header in the very last second of the refresh interval, then silence: the second
    transport call gets timeout 0 and the wait ends at the deadline -/
example : waitPdu { refresh := 100, expire := 7200, retry := 600, ivMode := 0, lastUpdate := 1000 } 1000 4 [⟨100, 1⟩] =
    ⟨[⟨8, 100, 1000⟩, ⟨7, 0, 1100⟩], [], 1100, false⟩ := by decide +kernel
/-- header byte by byte, complete exactly at the deadline; the rest within RTR_RECV_TIMEOUT -/
example : waitPdu { refresh := 10, expire := 7200, retry := 600, ivMode := 0, lastUpdate := 1000 } 1003 4
      [⟨6, 7⟩, ⟨1, 1⟩, ⟨60, 4⟩] =
    ⟨[⟨8, 7, 1003⟩, ⟨1, 1, 1009⟩], [⟨4, 60, 1010⟩], 1070, true⟩ := by decide +kernel
example : fsmTrace { refresh := 3600, expire := 7200, retry := 600, ivMode := 2 } 1 100 7200 10 600
    [⟨.serialNotify, 0, 7200, 20, 600, [⟨9, 3⟩, ⟨1, 9⟩]⟩] =
    [.send 2 100, .wait 10 100, .recv 8 10 100, .recv 5 1 109, .recv 4 60 110, .send 1 110, .wait 20 110] := by decide

end Rtr.C17
