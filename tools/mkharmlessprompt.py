#!/usr/bin/env python3
"""Prompts for behaviour-preserving changes (false-alarm probes): tools/mkharmlessprompt.py <tag> <ID> [<ID>...]"""
import json, os, subprocess, sys
HERE = os.path.dirname(os.path.dirname(os.path.abspath(__file__)))
tag, ids = sys.argv[1], sys.argv[2:]
wt = "/tmp/harmless_%s" % tag
props = {json.loads(l)["id"]: json.loads(l) for l in open(os.path.join(HERE, "properties.jsonl"))}
txt = """You are helping to test a verification tool for FALSE ALARMS. You work ONLY inside the git worktree {wt} (a checkout of the C library "rtrlib", a client library for the RPKI-RTR protocol: prefix-origin validation trie, router-key hash table, BGPsec path validation, cache-group manager). Do not read, list or modify anything under /verif or /repo, and do not look at other /tmp directories; everything you need is in {wt}. Never run `git commit`.

Build and test the library like this (takes well under a minute):
  cmake -G Ninja -B {wt}/_build -S {wt} -DCMAKE_BUILD_TYPE=RelWithDebInfo -DUNIT_TESTING=ON >/dev/null && cmake --build {wt}/_build >/dev/null && ctest --test-dir {wt}/_build -E "test_live_validation|test_dynamic_groups"
(the two excluded tests need network access; all others must pass).

Produce EIGHT independent, realistic, BEHAVIOUR-PRESERVING changes to the library sources (files under rtrlib/ or third-party/) in the code that the properties listed below are about — the kind of commit a maintainer makes every week and that must NOT change any observable behaviour relevant to these properties: e.g. extracting a helper function, inlining one, renaming locals or static functions, reordering independent statements, replacing a loop form (for/while, index/pointer), rewriting a condition into an equivalent one, replacing a hand-written expression by an equivalent one (shift vs. multiply, ternary vs. if), changing an internal buffer growth strategy that is not observable, adding/removing debug messages, adding defensive checks that can never fire, reordering static functions or switch cases, changing comments/whitespace around annotated code, adding a field to a private struct, using a different but equivalent libc call. {extra}Vary the kind of change and the files; at least two of the eight must be structural (new helper function / moved code between functions), and at least two must touch locking code or the state machine or the PDU parser. Each must compile without new warnings and keep the whole test suite passing. They must keep ALL the properties below true (also for inputs and interleavings the tests do not exercise) — think carefully: a change that alters behaviour in some corner is useless for this purpose.

For each change i = 1..8 deliver in {wt}/out/H{tag}_<i>/ :
  patch.diff — `git -C {wt} diff -- rtrlib third-party` with ONLY that change applied (produce the changes independently: finish one, save its diff, `git -C {wt} checkout -- rtrlib third-party`, then the next),
  meta.json  — {{"kind": "<what sort of refactoring>", "files_changed": [...], "why_behaviour_preserving": "...", "verified": "what you ran and saw"}}.
Restore the worktree sources at the end (`git -C {wt} checkout -- rtrlib third-party`), leaving only {wt}/out and {wt}/_build.

The properties (the code they are about is where your changes should go):

""".format(wt=wt, tag=tag, extra=os.environ.get("HARMLESS_EXTRA", ""))
for i in ids:
    p = props[i]
    txt += "PROPERTY %s: %s\n%s\n(code: %s)\n\n" % (i, p["title"], p["statement"], ", ".join(p["anchors"]["files"]))
txt += "Your final message: one line per change (kind, files, why it preserves behaviour) and the paths of the delivered files.\n"
out = os.path.join(HERE, "build", "harmless_prompt_%s.txt" % tag)
open(out, "w").write(txt)
if not os.path.isdir(wt):
    subprocess.run(["git", "-C", "/repo", "worktree", "add", "--detach", wt, "HEAD"], check=True, stdout=subprocess.DEVNULL, stderr=subprocess.DEVNULL)
print(out, wt)
