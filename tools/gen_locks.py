#!/usr/bin/env python3
"""Translator: C source of the table modules -> lock IR (lean/RtrModel/Generated/Locks.lean).

    clang-14 -fsyntax-only -Xclang -ast-dump=json   over
        rtrlib/pfx/trie/trie-pfx.c, rtrlib/pfx/trie/trie.c, rtrlib/spki/hashtable/ht-spkitable.c
    (+ rtrlib/rtr/packets.c for the order of table calls in rtr_sync_receive_and_store_pdus)

Extraction rules (DESIGN.md §5-C16)
  * Locks and locations are named after the table *parameter* the access goes through; a table is
    a parameter of type `struct pfx_table *` / `struct spki_table *` (or, in a callback, a field of
    that type of the struct behind the `void *data` parameter: pseudo parameter `data.<field>`).
  * `T->ipv4|ipv6|hashtable|list` is `rd`, or `wr` when assigned / passed by address to a
    mutating callee.  Pointers loaded from these slots point into `T.nodes` / `T.entries`; a
    dereference of such a pointer is an access of that part (flow-insensitive points-to per
    function: a local variable carries the union of the regions ever assigned to it).
    `update_fp`, `cmp_fp` are configuration, not table state.  `T->lock` only in lock calls.
  * A function is an *IR function* if it contains a pthread_rwlock call or calls an IR function;
    it is translated with its control flow (`if`/`?:`/`&&`/`||` -> alt, loops -> loop, return,
    break).  Every other function of the three files is a *flat helper*: it is summarised by the
    set of its accesses per pointer parameter (fixpoint over recursion) and contributes
    `many [accesses]` (any number, any order) at each call site.
  * The tommyds / libc entry points used get the fixed effect table EXTERN below (trusted).
  * Calls of IR functions become `call f tmap cbs`; a static function passed as function-pointer
    argument is bound as callback together with the tables found in the local struct passed as
    the accompanying `void *` argument.
  * A callback that branches on a boolean field of its data struct (`args->added`) is specialised
    per call site when that field is a compile-time constant of the caller's local struct at the
    call (straight-line code only; fields a callback writes through its pointer are never used):
    variant functions `cb[field=v]`.
  * From rtrlib/rtr/packets.c exactly the functions that themselves contain a pthread_rwlock call are translated
    as IR functions too (`rtr_swap_tables`: the combined critical section of a full reload: write locks of both
    live tables, the two `*_swap_locked` workers inside).  There a table is a table parameter or, through a
    `struct rtr_socket *` parameter s, the pseudo parameter `s.pfx_table` / `s.spki_table`.
  * A non-static flat helper that WRITES table state without taking the lock (`pfx_table_swap_locked`,
    `spki_table_swap_locked`) contributes its writes at each translated call site, where the checker demands the
    write lock of the table; calls of such a helper from code that is not translated are listed in
    `unlockedWriterCalls` (C06 demands the empty list).
  * Anything not recognised becomes `unknown`, which the checker rejects.
The output is rewritten only when its content changes.
"""
import json
import os
import re
import subprocess
import sys

HERE = os.path.dirname(os.path.abspath(__file__))
VERIF = os.path.dirname(HERE)
REPO = os.environ.get("VERIF_REPO", "/repo")
OUT = os.path.join(VERIF, "lean", "RtrModel", "Generated", "Locks.lean")
INFO = os.path.join(VERIF, "build", "locks_ir.json")

FILES = ["rtrlib/pfx/trie/trie.c", "rtrlib/pfx/trie/trie-pfx.c", "rtrlib/spki/hashtable/ht-spkitable.c"]
RELOAD_FILE = "rtrlib/rtr/packets.c"
RELOAD_FN = "rtr_sync_receive_and_store_pdus"
NAMESPACE = "Rtr.Generated.Locks"

SOCKET_RE = re.compile(r"^(const )?struct rtr_socket \*( const)?$")
TABLE_RE = re.compile(r"^(const )?struct (pfx_table|spki_table) \*( const)?$")
PARTS = ["ipv4", "ipv6", "nodes", "hashtable", "list", "entries"]
SLOT_FIELDS = {"ipv4": "ipv4", "ipv6": "ipv6", "hashtable": "hashtable", "list": "list"}
LOADS = {"ipv4": "nodes", "ipv6": "nodes", "nodes": "nodes", "hashtable": "entries", "list": "entries",
         "entries": "entries"}
CONFIG_FIELDS = {"update_fp", "cmp_fp"}

# effect table of external functions: per argument index a string of
#   r/w = direct read/write of the pointee, R/W = deep (pointee and everything reachable from it)
# 'ret': index of the argument whose (deep) region the result points into, or None
EXTERN = {
    "tommy_hashlin_init": ({0: "w"}, None), "tommy_hashlin_done": ({0: "W"}, None),
    "tommy_hashlin_search": ({0: "R"}, 0), "tommy_hashlin_bucket": ({0: "R"}, 0),
    "tommy_hashlin_insert": ({0: "RW"}, None), "tommy_hashlin_remove": ({0: "RW"}, 0),
    "tommy_hashlin_remove_existing": ({0: "RW"}, 0),
    "tommy_list_init": ({0: "w"}, None), "tommy_list_head": ({0: "r"}, 0),
    "tommy_list_insert_tail": ({0: "RW"}, None), "tommy_list_remove_existing": ({0: "RW"}, 0),
    "tommy_list_foreach": ({0: "RW"}, None), "tommy_inthash_u32": ({}, None),
    "lrtr_malloc": ({}, None), "lrtr_realloc": ({0: "rw"}, 0), "lrtr_free": ({0: "w"}, None), "free": ({0: "w"}, None),
    "memcpy": ({0: "w", 1: "r"}, None), "memcmp": ({0: "r", 1: "r"}, None), "memset": ({0: "w"}, None),
    "lrtr_ip_addr_is_zero": ({}, None), "lrtr_ip_addr_equal": ({}, None), "lrtr_ip_addr_get_bits": ({0: "r"}, None),
    "__assert_fail": ({}, None),
}
LOCK_CALLS = {"pthread_rwlock_rdlock": "R", "pthread_rwlock_wrlock": "W", "pthread_rwlock_unlock": "U"}
LIFECYCLE_CALLS = {"pthread_rwlock_init", "pthread_rwlock_destroy"}


# ------------------------------------------------------------------------------------------
# AST loading
# ------------------------------------------------------------------------------------------

def include_flags():
    gen = os.path.join(VERIF, "build", "gen")
    os.makedirs(os.path.join(gen, "rtrlib"), exist_ok=True)
    cfg = os.path.join(gen, "rtrlib", "config.h")
    if not os.path.exists(cfg):
        with open(cfg, "w") as f:
            f.write("#ifndef RTR_CONFIG_H\n#define RTR_CONFIG_H\n#define RTRLIB_BGPSEC_ENABLED\n#endif\n")
    return ["-I" + REPO, "-I" + os.path.join(REPO, "third-party"), "-I" + gen]


_AST_CACHE = {}


def load_ast(rel):
    key = (REPO, rel)
    if key not in _AST_CACHE:
        _AST_CACHE.clear()       # one big AST (packets.c) at a time
        _AST_CACHE[key] = load_ast_uncached(rel)
    return _AST_CACHE[key]


def load_ast_uncached(rel):
    src = os.path.join(REPO, rel)
    cmd = ["clang-14", "-fsyntax-only", "-Xclang", "-ast-dump=json", "-std=gnu99", "-w", "-D_GNU_SOURCE", "-UNDEBUG"] + \
        include_flags() + [src]
    r = subprocess.run(cmd, stdout=subprocess.PIPE, stderr=subprocess.PIPE)
    if r.returncode != 0:
        raise SystemExit("gen_locks: clang failed on %s:\n%s" % (rel, r.stderr.decode()[-2000:]))
    tu = json.loads(r.stdout)
    annotate_lines(tu)
    return tu


def annotate_lines(tu):
    """clang omits file/line when unchanged from the previously printed location: resolve them."""
    state = {"file": None, "line": 0}

    def visit_loc(d):
        # order of printing: spellingLoc, expansionLoc, or the plain fields
        if "spellingLoc" in d or "expansionLoc" in d:
            for k in ("spellingLoc", "expansionLoc"):
                if k in d:
                    visit_loc(d[k])
            d["_line"] = d.get("expansionLoc", d.get("spellingLoc"))["_line"]
            d["_file"] = d.get("expansionLoc", d.get("spellingLoc"))["_file"]
            return
        if "file" in d:
            state["file"] = d["file"]
        if "line" in d:
            state["line"] = d["line"]
        d["_line"] = state["line"]
        d["_file"] = state["file"]

    def walk(n):
        if not isinstance(n, dict):
            return
        if "loc" in n and isinstance(n["loc"], dict):
            visit_loc(n["loc"])
        if "range" in n:
            visit_loc(n["range"]["begin"])
            visit_loc(n["range"]["end"])
        for c in n.get("inner", []):
            walk(c)
    walk(tu)


def line_of(n):
    try:
        return n["range"]["begin"]["_line"]
    except KeyError:
        return 0


def file_of(n):
    try:
        return n["loc"]["_file"]
    except KeyError:
        return None


def qtype(n):
    return n.get("type", {}).get("qualType", "")


def is_table_type(t):
    return bool(TABLE_RE.match(t))


def is_fnptr_param(n):
    t = n.get("type", {})
    return "(*)" in t.get("qualType", "") or "(*)" in t.get("desugaredQualType", "")


# ------------------------------------------------------------------------------------------
# IR construction
# ------------------------------------------------------------------------------------------

class Builder:
    def __init__(self):
        self.stack = [[]]

    def emit(self, node):
        self.stack[-1].append(node)

    def push(self):
        self.stack.append([])

    def pop(self):
        return seq(self.stack.pop())


def seq(items):
    items = [x for x in items if x != ("skip",)]
    flat = []
    for x in items:
        if x[0] == "seq":
            flat.extend(x[1])
        else:
            flat.append(x)
    if not flat:
        return ("skip",)
    if len(flat) == 1:
        return flat[0]
    return ("seq", flat)


def alt(p, q):
    if p == ("skip",) and q == ("skip",):
        return ("skip",)
    return ("alt", p, q)


class Summary:
    """effects of a flat helper"""

    def __init__(self):
        self.acc = set()     # ('rd'|'wr', ('T', tblparam_index, part) | ('P', param_index))
        self.cbs = set()     # indices of function-pointer parameters that get called
        self.ret = set()     # regions of the result in terms of the helper's parameters
        self.unknown = set()  # lines with unrecognised code
        self.ext = False     # invokes a configuration callback (update_fp)

    def key(self):
        return (frozenset(self.acc), frozenset(self.cbs), frozenset(self.ret), frozenset(self.unknown), self.ext)


class Ctx:
    """all functions of the translated files"""

    def __init__(self):
        self.defs = {}        # name -> FunctionDecl node with body
        self.file = {}        # name -> rel file
        self.static = set()
        self.records = {}     # 'struct x' -> [field names]
        self.summaries = {}   # flat helper name -> Summary
        self.ir_fns = []      # ordered names of IR functions
        self.fn_tables = {}   # IR fn name -> list of table param names (incl. pseudo)
        self.fn_cbparams = {}  # IR fn name -> list of fn-pointer param names
        self.lifecycle = set()
        self.progs = {}
        self.trs = {}
        self.cb_spec_fields = {}      # callback name -> boolean fields of its data struct it branches on
        self.cb_written_fields = set()  # fields some callback writes through its data pointer
        self.variant_of = {}          # variant name -> (base name, spec)
        self.reload_ir = []           # functions of RELOAD_FILE that contain a lock call (translated as IR functions)
        self.unlocked_writers = []    # non-static flat helpers that write table state without taking the lock
        self.unlocked_writer_calls = []   # (file, caller, callee): calls of those from code that is not translated

    def variant(self, g, spec):
        vname = "%s[%s]" % (g, ",".join("%s=%d" % kv for kv in sorted(spec.items())))
        if vname not in self.fn_tables:
            self.defs[vname] = self.defs[g]
            self.file[vname] = self.file[g]
            self.static.add(vname)
            tr = FnTranslator(self, vname, False, spec)
            self.progs[vname] = tr.run()
            self.trs[vname] = tr
            self.fn_tables[vname] = list(tr.tables)
            self.fn_cbparams[vname] = list(tr.fnparams)
            self.variant_of[vname] = (g, dict(spec))
            self.ir_fns.append(vname)
        return vname


def strip_casts(e):
    while e.get("kind") in ("ImplicitCastExpr", "ParenExpr", "CStyleCastExpr") and e.get("inner"):
        e = e["inner"][0]
    return e


class FnTranslator:
    def __init__(self, ctx, name, flat, spec=None):
        self.ctx = ctx
        self.name = name
        self.flat = flat
        self.spec = spec or {}
        self.consts = {}
        self.poison = set()
        self.spec_fields = set()
        self.cb_written = set()
        self.decl = ctx.defs[name]
        self.params = [c for c in self.decl.get("inner", []) if c.get("kind") == "ParmVarDecl"]
        self.body = [c for c in self.decl.get("inner", []) if c.get("kind") == "CompoundStmt"][0]
        self.tables = [p["name"] for p in self.params if is_table_type(qtype(p))]
        self.fnparams = [p["name"] for p in self.params if is_fnptr_param(p)]
        self.pidx = {p["name"]: i for i, p in enumerate(self.params)}
        self.taint = {}        # var name -> set(regions)
        self.ftaint = {}       # (var, field) -> set(regions)
        self.b = None
        self.summary = None
        self.lifecycle = False
        self.calls_ir = set()
        # forward `goto L` to a label that is a top-level statement of the function body (the "goto unlock / goto cleanup"
        # idiom): translated exactly, by duplicating the code from the label to the end of the function at the goto and
        # returning (tail duplication).  label decl id -> index of the LabelStmt in the top-level statement list
        self.top = self.body.get("inner", [])
        self.labels = {}
        for i, st_ in enumerate(self.top):
            if st_.get("kind") == "LabelStmt" and st_.get("declId"):
                self.labels[st_["declId"]] = i
        self.top_pos = 0          # index of the top-level statement being translated
        self.goto_depth = 0       # nesting of tail duplications in progress

    # ---- regions -------------------------------------------------------------------------
    def param_regions(self, p):
        n = p["name"]
        t = qtype(p)
        if is_table_type(t):
            return {("tbl", n)}
        if is_fnptr_param(p):
            return {("fnparam", n)}
        if t.replace("const ", "").strip() in ("void *",):
            return {("cbdata", n)}
        if SOCKET_RE.match(t) and not self.flat:
            # s->pfx_table / s->spki_table: pseudo table parameters `s.pfx_table`, `s.spki_table`
            return {("cbdata", n)}
        if self.flat and "*" in t:
            return {("param", self.pidx[n])}
        return set()

    def table_index(self, t):
        if t not in self.tables:
            self.tables.append(t)
        return self.tables.index(t)

    def region_loc(self, reg):
        """the location a direct dereference of a pointer with this region touches"""
        if reg[0] == "slot":
            return ("T", reg[1], reg[2])
        if reg[0] == "mem":
            return ("T", reg[1], reg[2])
        if reg[0] == "param":
            return ("P", reg[1])
        return None

    def load_region(self, reg):
        """region of a pointer loaded from a location of this region"""
        if reg[0] in ("slot", "mem"):
            return ("mem", reg[1], LOADS[reg[2]])
        if reg[0] == "param":
            return reg
        return None

    def emit_acc(self, kind, loc, line):
        if loc[0] == "T":
            self.b.emit(("act", kind, (self.table_index(loc[1]), loc[2]), line))
        elif loc[0] == "P":
            if self.flat:
                self.b.emit(("act", kind, loc, line))
            else:
                self.unknown(line, "access through untracked pointer parameter")

    def unknown(self, line, why=""):
        self.b.emit(("act", "unknown", why, line))

    def effect(self, regs, eff, line):
        for reg in sorted(regs):
            loc = self.region_loc(reg)
            if loc is None:
                if reg[0] == "tbl":
                    self.unknown(line, "table pointer passed to a function that dereferences it opaquely")
                continue
            deep = []
            if "R" in eff or "W" in eff:
                lr = self.load_region(reg)
                if lr is not None and self.region_loc(lr) != loc:
                    deep.append(self.region_loc(lr))
            if "r" in eff or "R" in eff:
                self.emit_acc("rd", loc, line)
                for d in deep:
                    self.emit_acc("rd", d, line)
            if "w" in eff or "W" in eff:
                self.emit_acc("wr", loc, line)
                for d in deep:
                    self.emit_acc("wr", d, line)

    # ---- lvalues -------------------------------------------------------------------------
    def lval(self, e):
        """returns dict(kind=..., ...)"""
        k = e.get("kind")
        line = line_of(e)
        if k in ("ParenExpr",):
            return self.lval(e["inner"][0])
        if k == "DeclRefExpr":
            rd = e.get("referencedDecl", {})
            if rd.get("kind") in ("VarDecl", "ParmVarDecl"):
                return {"kind": "var", "name": rd.get("id", rd["name"])}
            return {"kind": "private"}
        if k == "MemberExpr":
            field = e.get("name")
            base = e["inner"][0]
            if e.get("isArrow"):
                regs = self.rval(base)
                return self.deref(regs, field, line, qtype(e))
            lv = self.lval(base)
            if lv["kind"] == "var":
                return {"kind": "sfield", "var": lv["name"], "field": field}
            return lv
        if k == "ArraySubscriptExpr":
            regs = self.rval(e["inner"][0])
            self.rval(e["inner"][1])
            return self.deref(regs, None, line, qtype(e))
        if k == "UnaryOperator" and e.get("opcode") == "*":
            regs = self.rval(e["inner"][0])
            return self.deref(regs, None, line, qtype(e))
        if k == "UnaryOperator" and e.get("opcode") == "__extension__":
            return self.lval(e["inner"][0])
        if k in ("ImplicitCastExpr", "CStyleCastExpr") and e.get("valueCategory") == "lvalue":
            return self.lval(e["inner"][0])
        if k in ("StringLiteral", "PredefinedExpr", "CompoundLiteralExpr"):
            return {"kind": "private"}
        self.unknown(line, "lvalue " + str(k))
        return {"kind": "private"}

    def deref(self, regs, field, line, ty):
        locs = set()
        loads = set()
        kind = "private"
        for reg in regs:
            if reg[0] == "tbl":
                if field in SLOT_FIELDS:
                    locs.add(("T", reg[1], SLOT_FIELDS[field]))
                    loads.add(("slot", reg[1], SLOT_FIELDS[field]))
                    kind = "shared"
                elif field == "lock":
                    return {"kind": "lock", "tbl": reg[1]}
                elif field in CONFIG_FIELDS:
                    return {"kind": "cfg"}
                else:
                    self.unknown(line, "table field %s" % field)
            elif reg[0] in ("slot", "mem", "param"):
                locs.add(self.region_loc(reg))
                loads.add(reg)
                kind = "shared"
            elif reg[0] == "cbdata":
                if field is not None and is_table_type(ty):
                    return {"kind": "pseudo", "tbl": "%s.%s" % (reg[1], field)}
                # other fields of the callback argument struct: private data of the caller
                if field is not None:
                    return {"kind": "cbfield", "field": field}
            elif reg[0] == "local":
                if field is not None:
                    return {"kind": "sfield", "var": reg[1], "field": field}
        if kind == "shared":
            return {"kind": "shared", "locs": locs, "regs": loads}
        return {"kind": "private"}

    def load(self, lv, line, ty=""):
        """value read from an lvalue: emits the read, returns the regions of the value"""
        k = lv["kind"]
        if k == "var":
            return set(self.taint.get(lv["name"], set()))
        if k == "sfield":
            return set(self.ftaint.get((lv["var"], lv["field"]), set()))
        if k == "shared":
            out = set()
            for loc in sorted(lv["locs"]):
                self.emit_acc("rd", loc, line)
            for reg in lv["regs"]:
                lr = self.load_region(reg)
                if lr is not None:
                    out.add(lr)
            return out
        if k == "pseudo":
            return {("tbl", lv["tbl"])}
        return set()

    def set_const(self, key, expr):
        v = None
        if expr is not None:
            e = strip_casts(expr)
            if e.get("kind") == "IntegerLiteral":
                try:
                    v = int(e.get("value"))
                except (TypeError, ValueError):
                    v = None
        if len(self.b.stack) > 1 or v is None:
            self.poison.add(key)
            self.consts.pop(key, None)
        elif key not in self.poison:
            self.consts[key] = v

    def store(self, lv, regs, line, expr=None):
        k = lv["kind"]
        if k == "var":
            self.taint.setdefault(lv["name"], set()).update(regs)
        elif k == "cbfield":
            self.cb_written.add(lv["field"])
        elif k == "sfield":
            self.ftaint.setdefault((lv["var"], lv["field"]), set()).update(regs)
            self.set_const((lv["var"], lv["field"]), expr)
        elif k == "shared":
            for loc in sorted(lv["locs"]):
                self.emit_acc("wr", loc, line)
        elif k == "lock":
            self.unknown(line, "assignment to lock")

    def addr(self, lv, line):
        k = lv["kind"]
        if k == "var":
            return {("local", lv["name"])}
        if k == "sfield":
            return {("local", lv["var"])}
        if k == "shared":
            return set(lv["regs"])
        if k == "lock":
            return {("lock", lv["tbl"])}
        return set()

    # ---- rvalues -------------------------------------------------------------------------
    def rval(self, e):
        if not e:
            return set()
        k = e.get("kind")
        line = line_of(e)
        if k in ("IntegerLiteral", "CharacterLiteral", "StringLiteral", "FloatingLiteral", "UnaryExprOrTypeTraitExpr",
                 "PredefinedExpr", "ImplicitValueInitExpr", "OffsetOfExpr"):
            return set()
        if k in ("ParenExpr", "ConstantExpr"):
            return self.rval(e["inner"][0])
        if k == "DeclRefExpr":
            rd = e.get("referencedDecl", {})
            if rd.get("kind") == "FunctionDecl":
                return {("fn", rd["name"])}
            if rd.get("kind") == "EnumConstantDecl":
                return set()
            # array-typed or struct lvalue used as a value
            return self.load(self.lval(e), line)
        if k in ("ImplicitCastExpr", "CStyleCastExpr"):
            ck = e.get("castKind")
            sub = e["inner"][0]
            if ck == "LValueToRValue":
                return self.load(self.lval(sub), line, qtype(e))
            if ck == "ArrayToPointerDecay":
                return self.addr(self.lval(sub), line)
            if ck == "FunctionToPointerDecay":
                return self.rval(sub)
            if e.get("valueCategory") == "lvalue":
                return self.load(self.lval(sub), line)
            return self.rval(sub)
        if k == "UnaryOperator":
            op = e.get("opcode")
            sub = e["inner"][0]
            if op == "&":
                return self.addr(self.lval(sub), line)
            if op in ("++", "--"):
                lv = self.lval(sub)
                regs = self.load(lv, line)
                self.store(lv, regs, line)
                return regs
            if op == "*":
                return self.load(self.lval(e), line)
            return self.rval(sub)
        if k == "BinaryOperator":
            op = e.get("opcode")
            lhs, rhs = e["inner"]
            if op == "=":
                regs = self.rval(rhs)
                lv = self.lval(lhs)
                self.store(lv, regs, line, rhs)
                return regs
            if op == ",":
                self.rval(lhs)
                return self.rval(rhs)
            if op in ("&&", "||"):
                self.rval(lhs)
                self.b.push()
                self.rval(rhs)
                self.b.emit(alt(self.b.pop(), ("skip",)))
                return set()
            a = self.rval(lhs)
            b = self.rval(rhs)
            if op in ("+", "-"):
                return a | b
            return set()
        if k == "CompoundAssignOperator":
            lhs, rhs = e["inner"]
            self.rval(rhs)
            lv = self.lval(lhs)
            regs = self.load(lv, line)
            self.store(lv, regs, line)
            return regs
        if k == "ConditionalOperator":
            c, a, b = e["inner"]
            self.rval(c)
            self.b.push()
            ra = self.rval(a)
            pa = self.b.pop()
            self.b.push()
            rb = self.rval(b)
            pb = self.b.pop()
            self.b.emit(alt(pa, pb))
            return ra | rb
        if k == "StmtExpr":
            self.stmt(e["inner"][0])
            return set()
        if k == "InitListExpr":
            for c in e.get("inner", []):
                self.rval(c)
            return set()
        if k == "CallExpr":
            return self.call(e)
        if k in ("MemberExpr", "ArraySubscriptExpr"):
            return self.load(self.lval(e), line)
        self.unknown(line, "expression " + str(k))
        return set()

    # ---- calls ---------------------------------------------------------------------------
    def callee_name(self, e):
        c = e["inner"][0]
        while c.get("kind") in ("ImplicitCastExpr", "ParenExpr"):
            c = c["inner"][0]
        if c.get("kind") == "DeclRefExpr" and c.get("referencedDecl", {}).get("kind") == "FunctionDecl":
            return c["referencedDecl"]["name"], None
        return None, c

    def call(self, e):
        line = line_of(e)
        name, cexpr = self.callee_name(e)
        args = e["inner"][1:]
        if name is None:
            # call through a pointer
            fregs = self.rval(cexpr)
            argregs = [self.rval(a) for a in args]
            done = False
            for reg in fregs:
                if reg[0] == "fnparam":
                    if self.flat:
                        self.summary.cbs.add(self.pidx[reg[1]])
                    self.b.emit(("act", "cb", self.fnparams.index(reg[1]), line))
                    done = True
            if not done:
                # configuration callback (update_fp): user code, assumed not to touch table state
                self.b.emit(("act", "ext", "callback", line))
            return set()
        if name in LOCK_CALLS:
            regs = self.rval(args[0])
            locks = [r for r in regs if r[0] == "lock"]
            if len(locks) != 1 or len(regs) != 1:
                self.unknown(line, "lock call on an unrecognised lock")
                return set()
            t = self.table_index(locks[0][1])
            m = LOCK_CALLS[name]
            if m == "U":
                self.b.emit(("act", "rel", t, line))
            else:
                self.b.emit(("act", "acq", (m, t), line))
            return set()
        if name in LIFECYCLE_CALLS:
            self.rval(args[0])
            self.lifecycle = True
            self.b.emit(("act", "ext", name, line))
            return set()
        if name in self.ctx.defs and name not in self.ctx.summaries and not self.flat_candidate(name):
            return self.call_ir(name, args, line)
        if name in self.ctx.defs:
            return self.call_helper(name, args, line)
        if name in EXTERN:
            eff, ret = EXTERN[name]
            argregs = [self.rval(a) for a in args]
            self.b.push()
            for i, s in sorted(eff.items()):
                if i < len(argregs):
                    self.effect(argregs[i], s, line)
            self.emit_many(self.b.pop(), line)
            if ret is not None and ret < len(argregs):
                out = set()
                for reg in argregs[ret]:
                    lr = reg if name == "lrtr_realloc" else self.load_region(reg)
                    if lr is not None:
                        out.add(lr)
                return out
            return set()
        for a in args:
            self.rval(a)
        self.unknown(line, "call of unknown function %s" % name)
        return set()

    def flat_candidate(self, name):
        return name not in self.ctx.ir_set

    def emit_many(self, prog, line):
        acts = []

        def collect(p):
            if p[0] == "act":
                acts.append(p)
            elif p[0] == "seq":
                for x in p[1]:
                    collect(x)
            elif p[0] == "alt":
                collect(p[1])
                collect(p[2])
            elif p[0] == "loop":
                collect(p[1])
            elif p[0] == "many":
                acts.extend(p[1])
        collect(prog)
        uniq = []
        seen = set()
        for a in acts:
            if a[1] == "ext":
                continue
            key = (a[1], a[2])
            if key not in seen:
                seen.add(key)
                uniq.append(("act", a[1], a[2], line))
        if uniq:
            self.b.emit(("many", uniq))

    def call_helper(self, name, args, line):
        summ = self.ctx.summaries.get(name) or Summary()
        callee = self.ctx.defs[name]
        cparams = [c for c in callee.get("inner", []) if c.get("kind") == "ParmVarDecl"]
        ctables = [p["name"] for p in cparams if is_table_type(qtype(p))]
        argregs = [self.rval(a) for a in args]
        self.b.push()
        for (kind, loc) in sorted(summ.acc):
            if loc[0] == "T":
                # access through the helper's table parameter number loc[1]
                pname = ctables[loc[1]] if isinstance(loc[1], int) else loc[1]
                pi = [i for i, p in enumerate(cparams) if p["name"] == pname]
                regs = argregs[pi[0]] if pi and pi[0] < len(argregs) else set()
                tb = [r for r in regs if r[0] == "tbl"]
                if len(tb) != 1:
                    self.unknown(line, "helper %s: table argument not a table parameter" % name)
                    continue
                self.emit_acc(kind, ("T", tb[0][1], loc[2]), line)
            else:
                regs = argregs[loc[1]] if loc[1] < len(argregs) else set()
                self.effect_direct_deep(regs, kind, line)
        for ci in sorted(summ.cbs):
            regs = argregs[ci] if ci < len(argregs) else set()
            ok = False
            for reg in regs:
                if reg[0] == "fnparam":
                    if self.flat:
                        self.summary.cbs.add(self.pidx[reg[1]])
                    self.b.emit(("act", "cb", self.fnparams.index(reg[1]), line))
                    ok = True
            if not ok:
                self.unknown(line, "helper %s invokes a callback argument that is not a parameter" % name)
        for ln in sorted(summ.unknown):
            self.unknown(ln, "in helper %s" % name)
        self.emit_many(self.b.pop(), line)
        if summ.ext:
            self.b.emit(("act", "ext", "user callback (in %s)" % name, line))
        out = set()
        for r in summ.ret:
            if r[0] == "param":
                for reg in (argregs[r[1]] if r[1] < len(argregs) else set()):
                    lr = self.load_region(reg) if reg[0] == "slot" else reg
                    if lr is not None and lr[0] in ("mem", "param", "slot"):
                        out.add(lr)
            elif r[0] == "mem":
                # memory of the helper's table parameter
                pi = [i for i, p in enumerate(cparams) if p["name"] == r[1]]
                regs = argregs[pi[0]] if pi and pi[0] < len(argregs) else set()
                for reg in regs:
                    if reg[0] == "tbl":
                        out.add(("mem", reg[1], r[2]))
        return out

    def effect_direct_deep(self, regs, kind, line):
        """a helper's access through a pointer parameter: the pointee and what is reachable from it"""
        for reg in sorted(regs):
            loc = self.region_loc(reg)
            if loc is None:
                if reg[0] == "tbl":
                    self.unknown(line, "table pointer passed through an untyped pointer parameter")
                continue
            self.emit_acc(kind, loc, line)
            lr = self.load_region(reg)
            if lr is not None and self.region_loc(lr) != loc:
                self.emit_acc(kind, self.region_loc(lr), line)

    def call_ir(self, name, args, line):
        if self.flat:
            self.unknown(line, "flat helper calls IR function %s" % name)
            return set()
        self.calls_ir.add(name)
        callee = self.ctx.defs[name]
        cparams = [c for c in callee.get("inner", []) if c.get("kind") == "ParmVarDecl"]
        argregs = [self.rval(a) for a in args]
        ctabs = self.ctx.fn_tables.get(name)
        ccbs = self.ctx.fn_cbparams.get(name)
        if ctabs is None:
            self.unknown(line, "call of %s before its translation" % name)
            return set()
        tmap = []
        for t in ctabs:
            pi = [i for i, p in enumerate(cparams) if p["name"] == t]
            if not pi:
                self.unknown(line, "callee %s has pseudo table %s" % (name, t))
                return set()
            regs = argregs[pi[0]] if pi[0] < len(argregs) else set()
            tb = [r for r in regs if r[0] == "tbl"]
            if len(tb) != 1 or len(regs) != 1:
                self.unknown(line, "argument %d of %s is not a table parameter" % (pi[0], name))
                return set()
            tmap.append(self.table_index(tb[0][1]))
        cbs = []
        for cbp in ccbs:
            pi = [i for i, p in enumerate(cparams) if p["name"] == cbp][0]
            regs = argregs[pi] if pi < len(argregs) else set()
            fns = [r for r in regs if r[0] == "fn"]
            if len(fns) == 1 and len(regs) == 1:
                g = fns[0][1]
                if g not in self.ctx.fn_tables:
                    self.unknown(line, "callback %s is not a translated function" % g)
                    return set()
                locals0 = [r for rs in argregs for r in rs if r[0] == "local"]
                if len(locals0) == 1:
                    spec = {}
                    for fld in sorted(self.ctx.cb_spec_fields.get(g, ())):
                        key = (locals0[0][1], fld)
                        if fld in self.ctx.cb_written_fields or key in self.poison:
                            continue
                        if self.consts.get(key) is not None:
                            spec[fld] = self.consts[key]
                    if spec:
                        g = self.ctx.variant(g, spec)
                # tables of the callback: pseudo parameters data.<field> resolved through the local struct
                # passed as the accompanying void* argument
                locals_ = [r for rs in argregs for r in rs if r[0] == "local"]
                gt = []
                for t in self.ctx.fn_tables[g]:
                    if "." not in t or len(locals_) != 1:
                        self.unknown(line, "cannot bind table %s of callback %s" % (t, g))
                        return set()
                    fld = t.split(".", 1)[1]
                    fr = self.ftaint.get((locals_[0][1], fld), set())
                    tb = [r for r in fr if r[0] == "tbl"]
                    if len(tb) != 1 or len(fr) != 1:
                        if self.final:
                            self.unknown(line, "field %s of %s does not hold a table parameter" % (fld, locals_[0][1]))
                            return set()
                        gt.append(0)
                        continue
                    gt.append(self.table_index(tb[0][1]))
                cbs.append((g, gt))
            elif any(r[0] == "fnparam" for r in regs):
                self.unknown(line, "forwarding of a callback parameter to %s" % name)
                return set()
            else:
                cbs.append(None)
        self.b.emit(("act", "call", (name, tmap, cbs), line))
        return set()

    def cond_value(self, e):
        """value of a branch condition under the specialisation of this callback variant, or None"""
        e = strip_casts(e)
        k = e.get("kind")
        if k == "BinaryOperator" and e.get("opcode") in ("&&", "||"):
            a = self.cond_value(e["inner"][0])
            b = self.cond_value(e["inner"][1])
            if e["opcode"] == "&&":
                if a is False or b is False:
                    return False
                return True if (a is True and b is True) else None
            if a is True or b is True:
                return True
            return False if (a is False and b is False) else None
        if k == "UnaryOperator" and e.get("opcode") == "!":
            v = self.cond_value(e["inner"][0])
            return None if v is None else (not v)
        if k == "MemberExpr" and e.get("isArrow"):
            base = strip_casts(e["inner"][0])
            if base.get("kind") == "DeclRefExpr":
                rd = base.get("referencedDecl", {})
                regs = self.taint.get(rd.get("id", rd.get("name")), set())
                if any(r[0] == "cbdata" for r in regs):
                    self.spec_fields.add(e.get("name"))
                    if e.get("name") in self.spec:
                        return bool(self.spec[e.get("name")])
        return None

    # ---- statements ----------------------------------------------------------------------
    def stmt(self, s):
        if not s:
            return
        k = s.get("kind")
        line = line_of(s)
        inner = s.get("inner", [])
        if k == "CompoundStmt":
            if s is self.body and self.goto_depth == 0:
                for i, c in enumerate(inner):
                    self.top_pos = i
                    self.stmt(c)
            else:
                for c in inner:
                    self.stmt(c)
        elif k == "LabelStmt" and s.get("declId") in self.labels and any(s is t for t in self.top):
            # reached by falling through: the label itself does nothing
            for c in inner:
                self.stmt(c)
        elif k == "GotoStmt" and s.get("targetLabelDeclId") in self.labels and self.labels[s["targetLabelDeclId"]] > self.top_pos \
                and self.goto_depth < 4:
            # forward jump: run the rest of the function from the label, then leave the function
            tgt = self.labels[s["targetLabelDeclId"]]
            saved = self.top_pos
            self.goto_depth += 1
            for i in range(tgt, len(self.top)):
                self.top_pos = i
                self.stmt(self.top[i])
            self.goto_depth -= 1
            self.top_pos = saved
            self.b.emit(("ret",))
        elif k == "DeclStmt":
            for d in inner:
                if d.get("kind") == "VarDecl":
                    init = [c for c in d.get("inner", []) if c.get("kind") not in (None,) and "Attr" not in c.get("kind", "")]
                    if init:
                        ie = init[0]
                        if ie.get("kind") == "InitListExpr":
                            self.init_list(d, ie)
                        else:
                            regs = self.rval(ie)
                            self.taint.setdefault(d.get("id", d["name"]), set()).update(regs)
                elif d.get("kind") in ("RecordDecl", "TypedefDecl", "EnumDecl"):
                    pass
                else:
                    self.unknown(line, "declaration " + str(d.get("kind")))
        elif k == "IfStmt":
            cond = inner[0]
            cv = self.cond_value(cond)
            self.rval(cond)
            self.b.push()
            self.stmt(inner[1])
            pt = self.b.pop()
            self.b.push()
            if len(inner) > 2:
                self.stmt(inner[2])
            pe = self.b.pop()
            if cv is True:
                self.b.emit(pt)
            elif cv is False:
                self.b.emit(pe)
            else:
                self.b.emit(alt(pt, pe))
        elif k == "WhileStmt":
            cond, body = inner[0], inner[-1]
            self.b.push()
            self.rval(cond)
            pc = self.b.pop()
            self.b.push()
            self.stmt(body)
            pb = self.b.pop()
            self.b.emit(pc)
            self.b.emit(("loop", seq([pb, pc])))
        elif k == "DoStmt":
            body, cond = inner[0], inner[1]
            self.b.push()
            self.stmt(body)
            pb = self.b.pop()
            self.b.push()
            self.rval(cond)
            pc = self.b.pop()
            self.b.emit(("loop", seq([pb, pc])))
        elif k == "ForStmt":
            init, _cv, cond, inc, body = (inner + [{}] * 5)[:5]
            self.stmt(init)
            self.b.push()
            self.rval(cond)
            pc = self.b.pop()
            self.b.push()
            self.stmt(body)
            pb = self.b.pop()
            self.b.push()
            self.rval(inc)
            pi = self.b.pop()
            self.b.emit(pc)
            self.b.emit(("loop", seq([pb, pi, pc])))
        elif k == "ReturnStmt":
            if inner:
                regs = self.rval(inner[0])
                if self.flat:
                    for r in regs:
                        if r[0] == "param":
                            self.summary.ret.add(r)
                        elif r[0] in ("mem", "slot"):
                            self.summary.ret.add(("mem", r[1], LOADS[r[2]] if r[0] == "slot" else r[2]))
            self.b.emit(("ret",))
        elif k == "BreakStmt":
            self.b.emit(("brk",))
        elif k == "NullStmt":
            pass
        elif k in ("GotoStmt", "LabelStmt", "ContinueStmt", "SwitchStmt", "CaseStmt", "DefaultStmt"):
            if self.flat:
                for c in inner:
                    self.stmt(c)
            else:
                self.unknown(line, "statement " + k)
                for c in inner:
                    self.stmt(c)
        elif k is None:
            pass
        else:
            # expression statement
            self.rval(s)

    def init_list(self, d, ie):
        ty = qtype(d)
        fields = self.ctx.records.get(ty.replace("const ", "").strip())
        vals = ie.get("inner", [])
        for i, c in enumerate(vals):
            regs = self.rval(c)
            if fields and i < len(fields):
                self.ftaint.setdefault((d.get("id", d["name"]), fields[i]), set()).update(regs)
                self.set_const((d.get("id", d["name"]), fields[i]), c)

    # ---- driver --------------------------------------------------------------------------
    def run(self):
        prev = None
        prog = None
        for it in range(6):
            self.final = it >= 1
            self.b = Builder()
            self.summary = Summary()
            self.calls_helper = set()
            self.consts = {}
            self.poison = set()
            ntab = list(self.tables)
            for p in self.params:
                self.taint.setdefault(p.get("id", p["name"]), set()).update(self.param_regions(p))
            self.stmt(self.body)
            prog = seq(self.b.stack[0])
            snap = (json.dumps(prog, sort_keys=True, default=list), sorted((k, sorted(v)) for k, v in self.taint.items()),
                    sorted((k, sorted(v)) for k, v in self.ftaint.items()), list(self.tables))
            if snap == prev and it >= 1:
                break
            prev = snap
        self.prog = prog
        if self.flat:
            self.collect_summary(prog)
        return prog

    def collect_summary(self, p):
        if p[0] == "act":
            if p[1] in ("rd", "wr"):
                loc = p[2]
                if isinstance(loc, tuple) and loc and loc[0] == "P":
                    self.summary.acc.add((p[1], loc))
                else:
                    self.summary.acc.add((p[1], ("T", self.tables[loc[0]], loc[1])))
            elif p[1] == "unknown":
                self.summary.unknown.add(p[3])
            elif p[1] == "ext":
                self.summary.ext = True
        elif p[0] == "seq":
            for x in p[1]:
                self.collect_summary(x)
        elif p[0] == "alt":
            self.collect_summary(p[1])
            self.collect_summary(p[2])
        elif p[0] == "loop":
            self.collect_summary(p[1])
        elif p[0] == "many":
            for a in p[1]:
                self.collect_summary(a)


# ------------------------------------------------------------------------------------------
# whole-program driver
# ------------------------------------------------------------------------------------------

def contains_call(node, names):
    if not isinstance(node, dict):
        return False
    if node.get("kind") == "DeclRefExpr" and node.get("referencedDecl", {}).get("kind") == "FunctionDecl" and \
            node["referencedDecl"].get("name") in names:
        return True
    return any(contains_call(c, names) for c in node.get("inner", []))


def extract():
    ctx = Ctx()
    order = []
    for rel in FILES:
        tu = load_ast(rel)
        main = os.path.join(REPO, rel)
        for n in tu.get("inner", []):
            if n.get("kind") == "RecordDecl" and n.get("name") and n.get("completeDefinition"):
                ctx.records["struct " + n["name"]] = [c.get("name", "") for c in n.get("inner", []) if c.get("kind") == "FieldDecl"]
            if n.get("kind") != "FunctionDecl":
                continue
            if n.get("storageClass") == "static":
                ctx.static.add(n["name"])
            has_body = any(c.get("kind") == "CompoundStmt" for c in n.get("inner", []))
            if not has_body or file_of(n) != main:
                continue
            ctx.defs[n["name"]] = n
            ctx.file[n["name"]] = rel
            order.append(n["name"])
    lockish = set(LOCK_CALLS) | LIFECYCLE_CALLS
    # the synchronisation code: exactly the functions that themselves call a lock function (the combined swap section)
    rtu = load_ast(RELOAD_FILE)
    rmain = os.path.join(REPO, RELOAD_FILE)
    reload_decls = {}
    for n in rtu.get("inner", []):
        if n.get("kind") != "FunctionDecl" or file_of(n) != rmain:
            continue
        if not any(c.get("kind") == "CompoundStmt" for c in n.get("inner", [])):
            continue
        reload_decls[n["name"]] = n
        if n["name"] not in ctx.defs and contains_call(n, lockish):
            if n.get("storageClass") == "static":
                ctx.static.add(n["name"])
            ctx.defs[n["name"]] = n
            ctx.file[n["name"]] = RELOAD_FILE
            ctx.reload_ir.append(n["name"])
            order.append(n["name"])
    # IR functions: contain a lock call, or call an IR function
    ir = set()
    changed = True
    while changed:
        changed = False
        for name in order:
            if name not in ir and contains_call(ctx.defs[name], lockish | ir):
                ir.add(name)
                changed = True
    ctx.ir_set = ir
    flat = [n for n in order if n not in ir]
    # flat helper summaries: fixpoint
    for n in flat:
        ctx.summaries[n] = Summary()
    for _ in range(8):
        changed = False
        for n in flat:
            tr = FnTranslator(ctx, n, True)
            tr.run()
            if tr.summary.key() != ctx.summaries[n].key():
                ctx.summaries[n] = tr.summary
                changed = True
        if not changed:
            break
    # IR functions in dependency order (callees first)
    done = []
    remaining = [n for n in order if n in ir]
    guard = 0
    while remaining and guard < 50:
        guard += 1
        for n in list(remaining):
            deps = {m for m in ir if m != n and contains_call(ctx.defs[n], {m})}
            if deps <= set(done):
                tr = FnTranslator(ctx, n, False)
                ctx.progs[n] = tr.run()
                ctx.trs[n] = tr
                ctx.fn_tables[n] = list(tr.tables)
                ctx.fn_cbparams[n] = list(tr.fnparams)
                ctx.cb_spec_fields[n] = set(tr.spec_fields)
                ctx.cb_written_fields |= tr.cb_written
                ctx.ir_fns.append(n)
                done.append(n)
                remaining.remove(n)
    if remaining:
        raise SystemExit("gen_locks: recursive IR functions: %r" % remaining)
    # callbacks of flat helpers may write fields too
    # lifecycle closure
    for n in ctx.ir_fns:
        if ctx.trs[n].lifecycle:
            ctx.lifecycle.add(n)
    changed = True
    while changed:
        changed = False
        for n in ctx.ir_fns:
            if n not in ctx.lifecycle and ctx.trs[n].calls_ir & ctx.lifecycle:
                ctx.lifecycle.add(n)
                changed = True
    # stable order: source order, variants right after their base function
    base_order = {n: i for i, n in enumerate(order)}
    ctx.ir_fns.sort(key=lambda n: (base_order.get(ctx.variant_of.get(n, (n,))[0], 0), n))
    # lock-free writers: exported helpers that write table state and leave the locking to the caller.  At translated
    # call sites the checker demands the write lock; every other call site is reported.
    ctx.unlocked_writers = sorted(n for n in flat if n not in ctx.static and
                                  any(k == "wr" and loc[0] == "T" for (k, loc) in ctx.summaries[n].acc))
    if ctx.unlocked_writers:
        names = set(ctx.unlocked_writers)
        for fname, decl in sorted(reload_decls.items()):
            if fname not in ir and contains_call(decl, names):
                for w in ctx.unlocked_writers:
                    if contains_call(decl, {w}):
                        ctx.unlocked_writer_calls.append((RELOAD_FILE, fname, w))
        pat = re.compile(r"\b(%s)\s*\(" % "|".join(re.escape(w) for w in ctx.unlocked_writers))
        skip = set(FILES) | {RELOAD_FILE}
        for root, _dirs, files in sorted(os.walk(os.path.join(REPO, "rtrlib"))):
            for fn in sorted(files):
                rel = os.path.relpath(os.path.join(root, fn), REPO)
                if not fn.endswith(".c") or rel in skip:
                    continue
                try:
                    text = open(os.path.join(root, fn), errors="replace").read()
                except OSError:
                    continue
                for m in sorted(set(pat.findall(text))):
                    ctx.unlocked_writer_calls.append((rel, "?", m))
    return ctx


def reload_calls(ctx=None):
    """table calls of RELOAD_FN in source order: (name, classes of the table arguments, line).  A call of a translated
    function of RELOAD_FILE (ctx.reload_ir) is listed with the sorted set of classes of ITS tables; ctx.reload_ir_calls gets
    (name, class_kind per table of the callee in IR order), e.g. ["shadow_pfx", "shadow_spki", "live_pfx", "live_spki"]."""
    tu = load_ast(RELOAD_FILE)
    reload_ir = set(ctx.reload_ir) if ctx is not None else set()
    if ctx is not None:
        ctx.reload_ir_calls = []
    fn = None
    for n in tu.get("inner", []):
        if n.get("kind") == "FunctionDecl" and n.get("name") == RELOAD_FN and \
                any(c.get("kind") == "CompoundStmt" for c in n.get("inner", [])):
            fn = n
    if fn is None:
        return None
    pat = re.compile(r"^(pfx|spki)_table_|^rtr_(undo_)?update_(pfx|spki)_table$|^rtr_purge_")
    out = []

    def classify(a):
        while a.get("kind") in ("ImplicitCastExpr", "ParenExpr", "CStyleCastExpr"):
            a = a["inner"][0]
        if a.get("kind") == "MemberExpr" and a.get("name") in ("pfx_table", "spki_table"):
            return "live"
        if a.get("kind") == "DeclRefExpr":
            nm = a.get("referencedDecl", {}).get("name", "")
            if nm.endswith("_shadow_table"):
                return "shadow"
            if nm.endswith("_update_table"):
                return "update"
        return None

    def is_own_socket(a):
        """the socket parameter of RELOAD_FN itself (its tables are the live tables)"""
        while a.get("kind") in ("ImplicitCastExpr", "ParenExpr", "CStyleCastExpr"):
            a = a["inner"][0]
        rd = a.get("referencedDecl", {}) if a.get("kind") == "DeclRefExpr" else {}
        return rd.get("kind") == "ParmVarDecl" and bool(SOCKET_RE.match(rd.get("type", {}).get("qualType", "")))

    def ir_call_classes(g, args):
        cparams = [c for c in ctx.defs[g].get("inner", []) if c.get("kind") == "ParmVarDecl"]
        res = []
        for t in ctx.fn_tables.get(g, []):
            base, _, field = t.partition(".")
            pi = [i for i, p in enumerate(cparams) if p["name"] == base]
            arg = args[pi[0]] if pi and pi[0] < len(args) else None
            if arg is None:
                res.append("?")
            elif field:
                kind = {"pfx_table": "pfx", "spki_table": "spki"}.get(field, "?")
                res.append(("live_" if is_own_socket(arg) else "?_") + kind)
            else:
                m = TABLE_RE.match(qtype(cparams[pi[0]]))
                kind = {"pfx_table": "pfx", "spki_table": "spki"}.get(m.group(2) if m else "", "?")
                res.append("%s_%s" % (classify(arg) or "?", kind))
        return res

    def walk(n):
        if not isinstance(n, dict):
            return
        if n.get("kind") == "CallExpr":
            c = n["inner"][0]
            while c.get("kind") in ("ImplicitCastExpr", "ParenExpr"):
                c = c["inner"][0]
            nm = c.get("referencedDecl", {}).get("name") if c.get("kind") == "DeclRefExpr" else None
            if nm and nm in reload_ir:
                per_table = ir_call_classes(nm, n["inner"][1:])
                ctx.reload_ir_calls.append((nm, per_table))
                out.append((nm, sorted({x.split("_")[0] for x in per_table}), line_of(n)))
            elif nm and pat.match(nm):
                cls = [classify(a) for a in n["inner"][1:]]
                out.append((nm, [c for c in cls if c], line_of(n)))
        for c in n.get("inner", []):
            walk(c)
    walk(fn)
    return out


# ------------------------------------------------------------------------------------------
# Lean output
# ------------------------------------------------------------------------------------------

def lean_ident(name):
    return re.sub(r"[^A-Za-z0-9_]", "_", name)


def emit_lean(ctx, rcalls):
    progs = ctx.progs
    idx = {n: i for i, n in enumerate(ctx.ir_fns)}
    L = []
    L.append("/-")
    L.append("  GENERATED by tools/gen_locks.py — do not edit.")
    L.append("  Lock IR of " + ", ".join(FILES) + " (clang-14 JSON AST), see DESIGN.md §5-C16.")
    L.append("-/")
    L.append("import RtrModel.Locks")
    L.append("")
    L.append("namespace " + NAMESPACE)
    L.append("open Rtr.Locks")
    L.append("")
    for n in ctx.ir_fns:
        L.append("def f_%s : Nat := %d" % (lean_ident(n), idx[n]))
    L.append("")

    def act(a, tabs):
        kind, arg, line = a[1], a[2], a[3]
        if kind == "acq":
            return "(.act (.acq .%s %d %d))" % (arg[0], arg[1], line), "acq %s %s" % (arg[0], tabs[arg[1]])
        if kind == "rel":
            return "(.act (.rel %d %d))" % (arg, line), "rel %s" % tabs[arg]
        if kind in ("rd", "wr"):
            if arg and arg[0] == "P":
                return "(.act (.unknown %d))" % line, "access through pointer parameter"
            return "(.act (.%s ⟨%d, .%s⟩ %d))" % (kind, arg[0], arg[1], line), "%s %s.%s" % (kind, tabs[arg[0]], arg[1])
        if kind == "call":
            name, tmap, cbs = arg
            cb_s = []
            for c in cbs:
                if c is None:
                    cb_s.append("none")
                else:
                    cb_s.append("some ⟨%d, [%s]⟩" % (idx[c[0]], ", ".join(str(x) for x in c[1])))
            return "(.act (.call %d [%s] [%s] %d))" % (idx[name], ", ".join(str(x) for x in tmap), ", ".join(cb_s), line), \
                "call %s(%s)%s" % (name, ", ".join(tabs[x] for x in tmap),
                                   "".join(" cb=%s(%s)" % (c[0], ", ".join(tabs[x] for x in c[1])) for c in cbs if c))
        if kind == "cb":
            return "(.act (.cb %d %d))" % (arg, line), "invoke callback parameter #%d" % arg
        if kind == "ext":
            return "(.act (.ext %d))" % line, "external: %s" % arg
        return "(.act (.unknown %d))" % line, "UNKNOWN: %s" % arg

    def bare_act(a):
        s, _ = act(a, ["t%d" % i for i in range(64)])
        return s[len("(.act "):-1]

    def render(p, tabs, ind):
        pad = "  " * ind
        if p[0] == "skip":
            return [pad + ".skip"]
        if p[0] == "ret":
            return [pad + ".ret"]
        if p[0] == "brk":
            return [pad + ".brk"]
        if p[0] == "act":
            s, c = act(p, tabs)
            return [pad + s + "  -- " + c]
        if p[0] == "many":
            names = []
            for a in p[1]:
                _, c = act(a, tabs)
                names.append(c)
            return [pad + "(Prog.many [" + ", ".join(bare_act(a) for a in p[1]) + "])  -- " + "; ".join(names)]
        if p[0] == "seq":
            out = [pad + "(Prog.ofList ["]
            for i, x in enumerate(p[1]):
                sub = render(x, tabs, ind + 1)
                if i < len(p[1]) - 1:
                    sub = add_comma(sub)
                out.extend(sub)
            out.append(pad + "])")
            return out
        if p[0] == "alt":
            out = [pad + "(.alt"]
            out.extend(render(p[1], tabs, ind + 1))
            out.extend(render(p[2], tabs, ind + 1))
            out.append(pad + ")")
            return out
        if p[0] == "loop":
            out = [pad + "(.loop"]
            out.extend(render(p[1], tabs, ind + 1))
            out.append(pad + ")")
            return out
        raise ValueError(p)

    def add_comma(lines):
        # put the comma before a trailing comment of the last line
        last = lines[-1]
        if "  -- " in last:
            code, com = last.split("  -- ", 1)
            lines = lines[:-1] + [code + ",  -- " + com]
        else:
            lines = lines[:-1] + [last + ","]
        return lines

    for n in ctx.ir_fns:
        tabs = ctx.fn_tables[n]
        L.append("/-- `%s` (%s:%d)   tables: %s%s -/" % (
            n, ctx.file[n], line_of(ctx.defs[n]), ", ".join("%d=%s" % (i, t) for i, t in enumerate(tabs)) or "none",
            ("   callback parameters: " + ", ".join(ctx.fn_cbparams[n])) if ctx.fn_cbparams[n] else ""))
        L.append("def body_%s : Prog :=" % lean_ident(n))
        L.extend(render(progs[n], tabs + ["?"] * 8, 1))
        L.append("")
    L.append("def fns : List Fn := [")
    for i, n in enumerate(ctx.ir_fns):
        L.append("  ⟨\"%s\", %d, %d, body_%s⟩%s" % (n, len(ctx.fn_tables[n]), len(ctx.fn_cbparams[n]), lean_ident(n),
                                                  "," if i < len(ctx.ir_fns) - 1 else ""))
    L.append("]")
    L.append("")
    callbacks = [n for n in ctx.ir_fns if n in ctx.static and n not in ctx.reload_ir]
    lifecycle = [n for n in ctx.ir_fns if n in ctx.lifecycle]
    public = [n for n in ctx.ir_fns if n not in ctx.static and n not in ctx.lifecycle]
    L.append("/-- the table API: every non-static function that takes part in locking, except the lifecycle")
    L.append("    functions (init / free: they create or destroy the lock itself and require exclusive ownership) -/")
    L.append("def publicFns : List Nat := [%s]" % ", ".join("f_" + lean_ident(n) for n in public))
    L.append("def lifecycleFns : List Nat := [%s]" % ", ".join("f_" + lean_ident(n) for n in lifecycle))
    L.append("def callbackFns : List Nat := [%s]" % ", ".join("f_" + lean_ident(n) for n in callbacks))
    L.append("/-- functions of %s that take table locks themselves -/" % RELOAD_FILE)
    L.append("def reloadFns : List Nat := [%s]" % ", ".join("f_" + lean_ident(n) for n in ctx.ir_fns if n in ctx.reload_ir))
    L.append("")
    L.append("/-- exported helpers that write table state and leave the locking to their caller -/")
    L.append("def unlockedWriters : List String := [%s]" % ", ".join('"%s"' % n for n in ctx.unlocked_writers))
    L.append("/-- (file, calling function, helper): calls of those helpers from code that is NOT translated into this IR -/")
    L.append("def unlockedWriterCalls : List (String × String × String) := [%s]" % ", ".join(
        '("%s", "%s", "%s")' % c for c in ctx.unlocked_writer_calls))
    L.append("")
    L.append("/-- table calls of `%s` (%s) in source order, with the table arguments classified" % (RELOAD_FN, RELOAD_FILE))
    L.append("    live = `rtr_socket->pfx_table|spki_table`, shadow = `*_shadow_table`, update = `*_update_table` -/")
    L.append("def reloadCalls : List (String × List String) := [")
    rc = rcalls or []
    for i, (nm, cls, line) in enumerate(rc):
        L.append("  (\"%s\", [%s])%s  -- line %d" % (nm, ", ".join('"%s"' % c for c in cls), "," if i < len(rc) - 1 else "", line))
    L.append("]")
    L.append("")
    L.append("/-- calls of `reloadFns` members in `%s`: per table of the callee (in the order of its IR table list) what the" % RELOAD_FN)
    L.append("    caller passes: live|shadow|update _ pfx|spki -/")
    L.append("def reloadIrCalls : List (String × List String) := [%s]" % ", ".join(
        '("%s", [%s])' % (nm, ", ".join('"%s"' % x for x in cls)) for nm, cls in getattr(ctx, "reload_ir_calls", [])))
    L.append("")
    L.append("end " + NAMESPACE)
    return "\n".join(L) + "\n"


def generate(repo, out_path, namespace="Rtr.Generated.Locks", info_path=None):
    """translate the tree at `repo`, write the Lean module to `out_path` (only when its content changes)"""
    global REPO, NAMESPACE
    saved = (REPO, NAMESPACE)
    REPO, NAMESPACE = repo, namespace
    try:
        ctx = extract()
        rcalls = reload_calls(ctx)
        text = emit_lean(ctx, rcalls)
    finally:
        REPO, NAMESPACE = saved
    os.makedirs(os.path.dirname(out_path), exist_ok=True)
    old = open(out_path).read() if os.path.exists(out_path) else None
    changed = old != text
    if changed:
        with open(out_path + ".tmp", "w") as f:
            f.write(text)
        os.rename(out_path + ".tmp", out_path)
    public = [n for n in ctx.ir_fns if n not in ctx.static and n not in ctx.lifecycle]
    info = {
        "fns": ctx.ir_fns, "public": public, "tables": ctx.fn_tables, "cbparams": ctx.fn_cbparams, "files": ctx.file,
        "lines": {n: line_of(ctx.defs[n]) for n in ctx.ir_fns},
        "lifecycle": sorted(ctx.lifecycle), "static": sorted(n for n in ctx.ir_fns if n in ctx.static),
        "helpers": {n: {"acc": sorted([k, list(map(str, l))] for k, l in s.acc), "cbs": sorted(s.cbs),
                        "unknown": sorted(s.unknown)} for n, s in ctx.summaries.items()},
        "reloadCalls": rcalls, "changed": changed, "repo": repo,
        "reloadFns": list(ctx.reload_ir), "reloadIrCalls": getattr(ctx, "reload_ir_calls", []),
        "unlockedWriters": ctx.unlocked_writers, "unlockedWriterCalls": ctx.unlocked_writer_calls,
    }
    if info_path:
        os.makedirs(os.path.dirname(info_path), exist_ok=True)
        with open(info_path, "w") as f:
            json.dump(info, f, indent=1)
    return info


def main():
    return generate(REPO, OUT, "Rtr.Generated.Locks", INFO)


if __name__ == "__main__":
    i = main()
    print("gen_locks: %d IR functions, %s" % (len(i["fns"]), "rewritten" if i["changed"] else "unchanged"))
