#!/usr/bin/env python3
"""Refresh the `obl.` and `eval.` columns of the per-property table in DESIGN.md (section 0.2) from evidence/<ID>.json of the last run."""
import json
import os
import re

VERIF = os.path.dirname(os.path.dirname(os.path.abspath(__file__)))


def fmt(n):
    if n >= 100000:
        return "%d k" % round(n / 1000.0)
    if n >= 1000:
        return ("%.1f k" % (n / 1000.0)).replace(".0 k", " k")
    return str(n)


def main():
    p = os.path.join(VERIF, "DESIGN.md")
    s = open(p).read()
    out = []
    for line in s.split("\n"):
        m = re.match(r"^\| (C\d\d) \| (.*?) \| ([^|]*?) \| ([^|]*?) \| (.*) \|$", line)
        ep = os.path.join(VERIF, "evidence", (m.group(1) if m else "x") + ".json")
        if m and os.path.exists(ep):
            c = json.load(open(ep)).get("coverage", {})
            obl = c.get("obligations")
            obl = len(obl) if isinstance(obl, (list, dict)) else obl
            ev = (c.get("evaluations") or 0) + (c.get("translation_tie", {}).get("search_inputs") or 0)
            if obl and ev:
                line = "| %s | %s | %s | %s | %s |" % (m.group(1), m.group(2), obl, fmt(ev), m.group(5))
        out.append(line)
    open(p, "w").write("\n".join(out))


if __name__ == "__main__":
    main()
