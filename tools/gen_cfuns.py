#!/usr/bin/env python3
"""Translator: loop-free C functions of /repo -> Lean 4 definitions (lean/RtrModel/Generated/CFuns.lean).

    clang-14 -fsyntax-only -Xclang -ast-dump=json   over the files named in FUNCS

What is translated.  The *typed* AST clang prints after semantic analysis: every implicit conversion, integer
promotion and usual arithmetic conversion is an explicit cast node there, so the translator never guesses a
type.  A C function becomes one Lean definition

    def f (params ...) : Option R

in continuation-passing style: a statement is translated together with everything that follows it (an `if`
duplicates its continuation in both branches; `switch` becomes an if-chain over the case labels with
fall-through; `break` resumes after the switch; `return` ends).  `none` means *the C text has no defined
result on this input*: a failed `assert`, a shift by at least the width, signed overflow, division by zero,
a read of a local that no statement on this path assigned, an access outside the object a pointer was
given for.  So `f x = some r` says: the function as written returns r, and says so only when the C standard does.

Representation
  * integer types     -> `BitVec n` (n = 8/16/32/64); signedness is static and selects the operation
                         (`ult`/`slt`, `>>>`/`sshiftRight`, `setWidth`/`signExtend`, overflow guards)
  * `bool`, and `int` results of comparisons / `&&` / `||` / `!` in condition position -> Lean `Bool`
  * enumerators, `static const` integer globals, `sizeof`, `offsetof` -> literals (values from the AST,
    sizes and offsets from a probe compiled against the same tree)
  * small structs (by value, or behind a pointer parameter in "value mode") -> a Lean structure with the
    fields the translated functions mention; fixed-size arrays with constant indices -> fields `a_0 .. a_{n-1}`;
    a union is a structure of its members (no overlap: reading a member other than the one last written is
    not modelled - rtrlib discriminates every union by a tag)
    a non-const pointer parameter in value mode is in/out: the updated pointee is part of the result
  * pointer parameters in "memory mode" (PDU buffers): `mem : Nat -> BitVec 8`, `msize : Nat` (bytes the
    object has) and the pointer as a `Nat` offset; loads are little-endian (host order of the platforms the
    harness runs on), guarded by `offset + width <= msize`; NULL is `C.NULL` (beyond every object)
  * calls of other translated functions: hoisted in evaluation order out of strict positions (never out of
    the right side of `&&`, `||` or a branch of `?:`), `none` propagates
  * `ntohl/htonl/ntohs/htons` -> `C.bswap32/16`; `lrtr_dbg` (debug print) -> nothing; `memset(&s, 0, sizeof s)` on
    a struct local -> the all-zero structure
  * loops, goto, function pointers, anything else -> the function is reported as untranslatable (exit status 3)

The output is rewritten only when its content changes.
"""
import json
import os
import re
import subprocess
import sys

HERE = os.path.dirname(os.path.abspath(__file__))
VERIF = os.path.dirname(HERE)
REPO = os.environ.get("VERIF_REPO", "/repo")
OUT = os.path.join(VERIF, "lean", "RtrModel", "Generated", "CFuns.lean")
INFO = os.path.join(VERIF, "build", "cfuns.json")
NAMESPACE = "Rtr.Gen.C"

# functions to translate, in dependency order per file.  mem: parameters handled in memory mode
FUNCS = [
    ("rtrlib/lib/utils.c", "lrtr_get_bits", {}),
    ("rtrlib/lib/ipv4.c", "lrtr_ipv4_get_bits", {}),
    ("rtrlib/lib/ipv4.c", "lrtr_ipv4_addr_equal", {}),
    ("rtrlib/lib/ipv6.c", "lrtr_ipv6_addr_equal", {}),
    ("rtrlib/lib/ipv6.c", "lrtr_ipv6_get_bits", {}),
    ("rtrlib/lib/ip.c", "lrtr_ip_addr_is_zero", {}),
    ("rtrlib/lib/ip.c", "lrtr_ip_addr_get_bits", {}),
    ("rtrlib/lib/ip.c", "lrtr_ip_addr_equal", {}),
    ("rtrlib/pfx/trie/trie.c", "is_left_child", {}),
    ("rtrlib/spki/hashtable/ht-spkitable.c", "tommy_inthash_u32", {}),
    ("rtrlib/spki/hashtable/ht-spkitable.c", "key_entry_cmp", {"as": {"arg": "struct key_entry", "obj": "struct key_entry"}}),
    ("rtrlib/spki/hashtable/ht-spkitable.c", "key_entry_to_spki_record", {}),
    ("rtrlib/spki/hashtable/ht-spkitable.c", "spki_record_to_key_entry", {}),
    ("rtrlib/lib/convert_byte_order.c", "lrtr_convert_short", {}),
    ("rtrlib/lib/convert_byte_order.c", "lrtr_convert_long", {}),
    ("rtrlib/rtr/rtr.c", "rtr_get_interval_mode", {}),
    ("rtrlib/rtr/rtr.c", "rtr_set_interval_mode", {}),
    ("rtrlib/transport/transport.c", "tr_send_all", {"mem": ["pdu"], "world": True}),
    ("rtrlib/transport/transport.c", "tr_recv_all", {"mem": ["pdu"], "world": True}),
    ("rtrlib/rtr/rtr.c", "rtr_purge_outdated_records", {"xworld": "struct rtr_socket"}),
    ("rtrlib/rtr/rtr.c", "rtr_fsm_start", {"xworld": "struct rtr_socket", "stepwise": True}),
    ("rtrlib/rtr/rtr.c", "rtr_stop", {"xworld": "struct rtr_socket"}),
    ("rtrlib/rtr/packets.c", "rtr_check_interval_range", {}),
    ("rtrlib/rtr/packets.c", "apply_interval_value", {}),
    ("rtrlib/rtr/packets.c", "rtr_check_interval_option", {}),
    ("rtrlib/rtr/packets.c", "rtr_get_pdu_type", {"mem": ["pdu"]}),
    ("rtrlib/rtr/packets.c", "rtr_pdu_check_size", {"mem": ["pdu"]}),
    ("rtrlib/rtr/packets.c", "rtr_pdu_convert_header_byte_order", {"mem": ["pdu"], "writes": True}),
    ("rtrlib/rtr/packets.c", "rtr_pdu_header_to_host_byte_order", {"mem": ["pdu"], "writes": True}),
    ("rtrlib/rtr/packets.c", "rtr_pdu_header_to_network_byte_order", {"mem": ["pdu"], "writes": True}),
    ("rtrlib/rtr/packets.c", "rtr_receive_pdu", {"xworld": "struct rtr_socket", "mem": ["pdu"], "writes": True, "memlocals": ["header"],
                                                  "opaque": ["txt"]}),
    ("rtrlib/rtr/packets.c", "rtr_send_error_pdu", {"xworld": "struct rtr_socket", "mem": ["erroneous_pdu", "err_text"], "writes": True,
                                                     "memlocals": ["msg"], "externs": {"rtr_send_pdu": {"ret": True, "recmem": (1, 2), "args": [2]}}}),
    ("rtrlib/rtr/packets.c", "rtr_send_error_pdu_from_host", {"xworld": "struct rtr_socket", "mem": ["erroneous_pdu", "err_text"], "writes": True,
                                                               "memlocals": ["pdu"], "externs": {"rtr_pdu_to_network_byte_order": {"fill": (0, None)}}}),
    ("rtrlib/rtr/packets.c", "rtr_send_pdu", {"xworld": "struct rtr_socket", "mem": ["pdu"], "writes": True, "memlocals": ["pdu_converted"],
                                               "externs": {"rtr_pdu_to_network_byte_order": {"fill": (0, None)},
                                                           "tr_send_all": {"ret": True, "recmem": (1, 2), "args": [2, 3]}}}),
    ("rtrlib/rtr/packets.c", "rtr_set_last_update", {"xworld": "struct rtr_socket"}),
    ("rtrlib/rtr/packets.c", "rtr_handle_error_pdu", {"xworld": "struct rtr_socket", "mem": ["buf"]}),
    ("rtrlib/rtr/packets.c", "rtr_handle_cache_response_pdu", {"xworld": "struct rtr_socket", "mem": ["pdu"]}),
    ("rtrlib/rtr/packets.c", "rtr_wait_for_sync", {"xworld": "struct rtr_socket", "localbuf": "pdu"}),
    ("rtrlib/rtr/packets.c", "rtr_sync", {"xworld": "struct rtr_socket", "localbuf": "pdu"}),
    ("rtrlib/rtr/packets.c", "rtr_send_serial_query", {"xworld": "struct rtr_socket"}),
    ("rtrlib/rtr/packets.c", "rtr_send_reset_query", {"xworld": "struct rtr_socket"}),
    ("rtrlib/rtr/packets.c", "rtr_pdu_convert_footer_byte_order", {"mem": ["pdu"], "writes": True, "memlocals": ["addr6"]}),
    ("rtrlib/rtr/rtr.c", "rtr_init", {"ident": ["tr", "pfx_table", "spki_table", "fp", "fp_param_config", "fp_param_group"]}),
    ("rtrlib/rtr/packets.c", "rtr_pdu_to_network_byte_order", {"mem": ["pdu"], "writes": True}),
    ("rtrlib/rtr/packets.c", "rtr_pdu_footer_to_host_byte_order", {"mem": ["pdu"], "writes": True}),
]

LISTED = set(f[1] for f in FUNCS)
CROSS_INLINE = {"lrtr_ipv4_addr_convert_byte_order": "rtrlib/lib/ipv4.c", "lrtr_ipv6_addr_convert_byte_order": "rtrlib/lib/ipv6.c"}
FUNC_INDEX = {f[1]: i for i, f in enumerate(FUNCS)}
# records whose pointer members are kept (as identities); elsewhere pointer members are left out of the structure
PTR_FIELD_RECORDS = {"struct key_entry", "struct spki_record"}

LEAN_RESERVED = {"from", "type", "end", "at", "with", "do", "then", "else", "if", "let", "have", "show", "fun", "in",
                 "open", "namespace", "section", "variable", "instance", "class", "structure", "def", "theorem",
                 "example", "match", "return", "mut", "for", "unless", "where", "deriving", "prefix", "local", "some",
                 "none", "mem", "msize", "Type", "Prop", "Sort", "by", "using", "import", "private", "protected",
                 "partial", "unsafe", "macro", "syntax", "notation", "infix", "infixl", "infixr", "postfix", "set_option",
                 "universe", "abbrev", "inductive", "extends", "this", "true", "false", "nomatch", "calc", "try", "catch",
                 "finally", "break", "continue", "attribute", "export", "mutual", "opaque", "axiom", "noncomputable"}

INT_TYPES = {
    "unsigned char": (8, False), "unsigned short": (16, False), "unsigned int": (32, False), "unsigned long": (64, False),
    "unsigned long long": (64, False), "char": (8, True), "signed char": (8, True), "short": (16, True), "int": (32, True),
    "long": (64, True), "long long": (64, True),
    "uint8_t": (8, False), "uint16_t": (16, False), "uint32_t": (32, False), "uint64_t": (64, False),
    "int8_t": (8, True), "int16_t": (16, True), "int32_t": (32, True), "int64_t": (64, True),
    "size_t": (64, False), "ssize_t": (64, True), "time_t": (64, True), "unsigned": (32, False),
    "__uint32_t": (32, False), "__uint16_t": (16, False), "__uint8_t": (8, False), "__uint64_t": (64, False),
}
BSWAP = {"ntohl": 32, "htonl": 32, "__bswap_32": 32, "__builtin_bswap32": 32, "__uint32_identity": None,
         "ntohs": 16, "htons": 16, "__bswap_16": 16, "__builtin_bswap16": 16}
IGNORED_CALLS = {"lrtr_dbg", "snprintf"}
# calls that leave the translated code: answered by the world (RtrModel/CSem.lean `World`), arguments recorded
EXTERN = {"lrtr_get_monotonic_time": "time", "tr_send": "io", "tr_recv": "io"}
# In a function translated over an `XWorld σ` (option "xworld": the record σ the function works on, e.g. struct rtr_socket) EVERY
# call listed here leaves the translated code: the world supplies the return value, an auxiliary 64-bit value (the time, for
# lrtr_get_monotonic_time) and - for callees that get the record (`inout`: index of that argument) - the record afterwards;
# the call is recorded with its name, the listed scalar arguments and the record at the time of the call.
EXTERNX = {
    "tr_open": {"ret": True}, "tr_close": {}, "tr_free": {},
    "rtr_send_serial_query": {"ret": True, "inout": 0}, "rtr_send_reset_query": {"ret": True, "inout": 0},
    "rtr_sync": {"ret": True, "inout": 0}, "rtr_wait_for_sync": {"ret": True, "inout": 0},
    "rtr_change_socket_state": {"inout": 0, "args": [1]},
    "sleep": {"ret": True, "args": [0]},
    "pfx_table_src_remove": {"ret": True}, "spki_table_src_remove": {"ret": True},
    "pthread_setcancelstate": {"ret": True, "args": [0]},
    "pthread_cancel": {"ret": True}, "pthread_join": {"ret": True},
    "lrtr_get_monotonic_time": {"ret": True, "out64": 0},
    "rtr_receive_pdu": {"ret": True, "inout": 0, "outbuf": 1, "args": [2, 3]},
    "rtr_send_pdu": {"ret": True, "recstruct": 1, "args": [2]},
    "rtr_handle_error_pdu": {"ret": True, "inout": 0}, "rtr_handle_cache_response_pdu": {"ret": True, "inout": 0},
    "rtr_send_error_pdu_from_host": {"ret": True, "args": [2, 3]},
    "rtr_sync_receive_and_store_pdus": {"ret": True, "inout": 0}, "rtr_set_last_update": {"ret": True, "inout": 0},
    "tr_recv_all": {"ret": True, "fill": (1, 2), "args": [2, 3]},
    "rtr_send_error_pdu_from_network": {"ret": True, "recbytes": (1, 2), "args": [2, 3, 5]},
    "rtr_pdu_footer_to_host_byte_order": {"fill": (0, None)},
}
NORETURN = {"pthread_exit"}


class Untranslatable(Exception):
    pass


class _NoUnroll(Exception):
    pass


def bad(msg, node=None):
    loc = ""
    if node is not None:
        loc = " (%s at line %s)" % (node.get("kind"), node.get("_line", "?"))
    raise Untranslatable(msg + loc)


# ------------------------------------------------------------------------------------------
# types
# ------------------------------------------------------------------------------------------

class Ty:
    def __init__(self, kind, bits=0, signed=False, name=None, elem=None, n=0):
        self.kind, self.bits, self.signed, self.name, self.elem, self.n = kind, bits, signed, name, elem, n

    def __repr__(self):
        if self.kind == "int":
            return ("i" if self.signed else "u") + str(self.bits)
        if self.kind == "ptr":
            return "ptr(%r)" % (self.elem,)
        if self.kind == "array":
            return "%r[%d]" % (self.elem, self.n)
        return self.kind + (":" + self.name if self.name else "")

    def lean(self):
        if self.kind == "int":
            return "BitVec %d" % self.bits
        if self.kind == "bool":
            return "Bool"
        if self.kind == "struct":
            return struct_lean_name(self.name)
        if self.kind == "void":
            return "Unit"
        if self.kind == "bytes":
            return "List (BitVec 8)"
        if self.kind == "ptr":
            return "Nat"
        bad("no Lean type for %r" % (self,))


def strip_quals(s):
    s = re.sub(r"\b(const|volatile|restrict)\b", " ", s)
    return re.sub(r"\s+", " ", s).strip()


def parse_type(t):
    """t: clang type dict or string"""
    if isinstance(t, dict):
        s = t.get("desugaredQualType") or t.get("qualType")
        q = t.get("qualType")
    else:
        s = q = t
    for cand in (strip_quals(q), strip_quals(s)):
        r = parse_type_str(cand)
        if r is not None:
            return r
    bad("unsupported type '%s'" % s)


TYPEDEFS = {}


def parse_type_str(s):
    s = s.strip()
    seen = 0
    while s in TYPEDEFS and s not in INT_TYPES and seen < 10:
        s = strip_quals(TYPEDEFS[s])
        seen += 1
    if s in INT_TYPES:
        b, sg = INT_TYPES[s]
        return Ty("int", b, sg)
    if s in ("_Bool", "bool"):
        return Ty("bool")
    if s == "void":
        return Ty("void")
    m = re.match(r"^(.*\S)\s*\[(\d*)\]$", s)
    if m:
        e = parse_type_str(m.group(1))
        if e is None:
            return None
        return Ty("array", elem=e, n=int(m.group(2)) if m.group(2) else 0)
    m = re.match(r"^(.*\S)\s*\[([A-Za-z_][A-Za-z0-9_]*)\]$", s)
    if m and m.group(2) in CUR_CONSTS:
        # an array whose size is a `static const` object of the tree (formally a variable-length array)
        e = parse_type_str(m.group(1))
        if e is None:
            return None
        return Ty("array", elem=e, n=CUR_CONSTS[m.group(2)])
    if s.endswith("*"):
        inner = s[:-1].strip()
        e = parse_type_str(inner)
        if e is None:
            e = Ty("opaque", name=inner)
        return Ty("ptr", elem=e)
    if s.startswith("enum "):
        return Ty("int", 32, False)
    m = re.match(r"^(struct|union) (.+)$", s)
    if m:
        return Ty("struct", name=s)
    return None


def struct_lean_name(cname):
    # 'struct lrtr_ip_addr' -> S_lrtr_ip_addr ; anonymous unions get a name from their parent field
    n = cname.replace("struct ", "").replace("union ", "U_")
    n = re.sub(r"[^A-Za-z0-9_]", "_", n)
    return "S_" + n


def lname(c):
    return c + "_" if c in LEAN_RESERVED else c


# ------------------------------------------------------------------------------------------
# AST loading
# ------------------------------------------------------------------------------------------

def include_flags():
    gen = os.path.join(VERIF, "build", "gen")
    os.makedirs(os.path.join(gen, "rtrlib"), exist_ok=True)
    cfg = os.path.join(gen, "rtrlib", "config.h")
    if not os.path.exists(cfg):
        with open(cfg, "w") as f:
            f.write("#ifndef RTR_CONFIG_H\n#define RTR_CONFIG_H\n#define RTRLIB_BGPSEC_ENABLED\n#endif\n")
    return ["-I" + REPO, "-I" + os.path.join(REPO, "third-party"), "-I" + gen]


CFLAGS = ["-std=gnu99", "-w", "-D_GNU_SOURCE", "-UNDEBUG"]


def load_ast(rel):
    src = os.path.join(REPO, rel)
    cmd = ["clang-14", "-fsyntax-only", "-Xclang", "-ast-dump=json"] + CFLAGS + include_flags() + [src]
    r = subprocess.run(cmd, stdout=subprocess.PIPE, stderr=subprocess.PIPE)
    if r.returncode != 0:
        raise SystemExit("gen_cfuns: clang failed on %s:\n%s" % (rel, r.stderr.decode()[-2000:]))
    tu = json.loads(r.stdout)
    annotate_lines(tu)
    return tu


def annotate_lines(tu):
    state = {"line": 0}

    def visit_loc(d):
        if "spellingLoc" in d or "expansionLoc" in d:
            for k in ("spellingLoc", "expansionLoc"):
                if k in d:
                    visit_loc(d[k])
            return
        if "line" in d:
            state["line"] = d["line"]

    def walk(n):
        if "loc" in n:
            visit_loc(n["loc"])
        if "range" in n and "begin" in n["range"]:
            visit_loc(n["range"]["begin"])
        n["_line"] = state["line"]
        for c in n.get("inner", []):
            walk(c)
        if "range" in n and "end" in n["range"]:
            visit_loc(n["range"]["end"])

    walk(tu)


class TU:
    """per-file tables: functions, records, enumerators, constant globals"""

    def __init__(self, rel):
        self.rel = rel
        self.ast = load_ast(rel)
        self.funcs, self.records, self.enums, self.globals, self.by_id = {}, {}, {}, {}, {}
        self.index(self.ast)

    def index(self, tu):
        for n in tu.get("inner", []):
            self.by_id[n.get("id")] = n
            k = n.get("kind")
            if k == "FunctionDecl" and any(c.get("kind") == "CompoundStmt" for c in n.get("inner", [])):
                self.funcs[n["name"]] = n
            elif k == "RecordDecl" and n.get("completeDefinition"):
                self.index_record(n, None)
            elif k == "TypedefDecl" and n.get("name") and n.get("type", {}).get("qualType"):
                t = n["type"]
                TYPEDEFS.setdefault(n["name"], t.get("desugaredQualType") or t["qualType"])
            elif k == "EnumDecl":
                CUR_ENUMS.update(self.enums)
                cur = 0
                for c in n.get("inner", []):
                    if c.get("kind") != "EnumConstantDecl":
                        continue
                    v = const_value(c.get("inner", [{}])[0]) if c.get("inner") else None
                    if v is not None:
                        cur = v
                    self.enums[c["name"]] = cur
                    CUR_ENUMS[c["name"]] = cur
                    cur += 1
            elif k == "VarDecl" and re.match(r"^\s*const\b", n.get("type", {}).get("qualType", "")):
                init = [c for c in n.get("inner", []) if not c.get("kind", "").endswith("Attr")]
                if init:
                    v = const_value(init[-1])
                elif n["name"] in self.globals:
                    continue                      # a later redeclaration without initialiser
                else:
                    v = 0                         # file-scope object without initialiser: zero
                if v is not None:
                    self.globals[n["name"]] = (v, n["type"])
                    CUR_CONSTS[n["name"]] = v

    def index_record(self, n, forced_name):
        tag = n.get("tagUsed", "struct")
        name = forced_name or ("%s %s" % (tag, n["name"]) if n.get("name") else None)
        fields = []
        anon = {}
        for c in n.get("inner", []):
            if c.get("kind") == "RecordDecl" and c.get("completeDefinition"):
                if c.get("name"):
                    self.index_record(c, None)
                else:
                    anon[c["id"]] = c
            elif c.get("kind") == "FieldDecl":
                fields.append(c)
        if name is None:
            return
        out = []
        for f in fields:
            t = f["type"]
            qt = t.get("desugaredQualType") or t.get("qualType")
            if "unnamed" in qt or "anonymous" in qt:
                # anonymous record type: name it after the field
                sub = "%s %s__%s" % ("union" if "union" in qt else "struct", name.split(" ", 1)[1], f.get("name", "anon"))
                for a in anon.values():
                    self.index_record(a, sub)
                out.append((f.get("name"), {"qualType": sub}, t))
            else:
                out.append((f.get("name"), t, t))
        self.records[name] = {"fields": out, "tag": tag}


CUR_ENUMS = {}
CUR_CONSTS = {}


def const_value(n):
    """integer value of a constant expression node, or None"""
    if n is None:
        return None
    k = n.get("kind")
    if k == "DeclRefExpr" and n.get("referencedDecl", {}).get("kind") == "EnumConstantDecl":
        return CUR_ENUMS.get(n["referencedDecl"]["name"])
    if k == "IntegerLiteral":
        return int(n["value"])
    if k == "CharacterLiteral":
        return int(n["value"])
    if k == "ConstantExpr" and "value" in n:
        return int(n["value"])
    if k in ("ImplicitCastExpr", "ParenExpr", "CStyleCastExpr", "ConstantExpr"):
        return const_value(n["inner"][0]) if n.get("inner") else None
    if k == "UnaryOperator" and n.get("opcode") == "-":
        v = const_value(n["inner"][0])
        return None if v is None else -v
    if k == "UnaryOperator" and n.get("opcode") == "~":
        v = const_value(n["inner"][0])
        return None if v is None else ~v
    if k == "BinaryOperator":
        a, b = const_value(n["inner"][0]), const_value(n["inner"][1])
        if a is None or b is None:
            return None
        op = n["opcode"]
        try:
            return {"+": a + b, "-": a - b, "*": a * b, "<<": a << b, "|": a | b, "&": a & b}[op]
        except KeyError:
            return None
    return None


# ------------------------------------------------------------------------------------------
# probe for sizeof / offsetof
# ------------------------------------------------------------------------------------------

class Probe:
    def __init__(self):
        self.sizes, self.offsets = {}, {}      # (file, type string) / (file, record, field)
        self.want_sizes, self.want_offsets = set(), set()

    def size(self, rel, tstr):
        k = (rel, tstr)
        if k in self.sizes:
            return self.sizes[k]
        self.want_sizes.add(k)
        return 0

    def offset(self, rel, rec, field):
        k = (rel, rec, field)
        if k in self.offsets:
            return self.offsets[k]
        self.want_offsets.add(k)
        return 0

    def pending(self):
        return bool(self.want_sizes or self.want_offsets)

    def run(self):
        by_file = {}
        for k in self.want_sizes:
            by_file.setdefault(k[0], []).append(("s", k))
        for k in self.want_offsets:
            by_file.setdefault(k[0], []).append(("o", k))
        os.makedirs(os.path.join(VERIF, "build", "gen"), exist_ok=True)
        for rel, items in by_file.items():
            # the values are compile-time constants: read them from the assembly of a constant table
            src = os.path.join(VERIF, "build", "gen", "cfuns_probe.c")
            asm = os.path.join(VERIF, "build", "gen", "cfuns_probe.s")
            with open(src, "w") as f:
                f.write('#include "%s"\n#include <stddef.h>\nconst unsigned long cfuns_probe_vals[] = {\n' % os.path.join(REPO, rel))
                for i, (kind, k) in enumerate(items):
                    if kind == "s":
                        f.write('  0xC0DE0000UL + %d, sizeof(%s),\n' % (i, k[1]))
                    else:
                        f.write('  0xC0DE0000UL + %d, offsetof(%s, %s),\n' % (i, k[1], k[2]))
                f.write("};\n")
            r = subprocess.run(["gcc", "-w", "-S", "-O0", "-D_GNU_SOURCE", "-UNDEBUG"] + include_flags() + ["-o", asm, src],
                               stdout=subprocess.PIPE, stderr=subprocess.PIPE)
            if r.returncode != 0:
                raise SystemExit("gen_cfuns: probe failed for %s:\n%s" % (rel, r.stderr.decode()[-2000:]))
            quads = []
            on = False
            for line in open(asm):
                line = line.strip()
                if line.startswith("cfuns_probe_vals:"):
                    on = True
                    continue
                if on:
                    m = re.match(r"^\.quad\s+(-?\d+)$", line)
                    if m:
                        quads.append(int(m.group(1)))
                    elif line.startswith(".zero"):
                        quads += [0] * (int(line.split()[1]) // 8)
                    elif quads and not line.startswith("."):
                        break
                    elif quads and line.startswith(".") and not line.startswith(".quad"):
                        break
            if len(quads) != 2 * len(items):
                raise SystemExit("gen_cfuns: probe table of %s has %d entries, expected %d" % (rel, len(quads), 2 * len(items)))
            for j in range(0, len(quads), 2):
                i = quads[j] - 0xC0DE0000
                kind, k = items[i]
                (self.sizes if kind == "s" else self.offsets)[k] = quads[j + 1]
        self.want_sizes, self.want_offsets = set(), set()


PROBE = Probe()

# ------------------------------------------------------------------------------------------
# structures used in value mode
# ------------------------------------------------------------------------------------------

STRUCTS = {}        # C record name -> {"lean": name, "fields": [(lean field, Ty, cpath)], "used": set()}
STRUCT_ORDER = []


def struct_info(tu, cname):
    if cname in STRUCTS:
        return STRUCTS[cname]
    rec = tu.records.get(cname)
    if rec is None:
        bad("record '%s' not defined in %s" % (cname, tu.rel))
    info = {"lean": struct_lean_name(cname), "fields": {}, "order": [], "c": cname}
    STRUCTS[cname] = info
    for fname, t, _orig in rec["fields"]:
        if fname is None:
            continue
        try:
            ty = parse_type(t)
        except Untranslatable:
            continue
        if ty.kind == "int" or ty.kind == "bool":
            info["fields"][fname] = ("scalar", ty)
            info["order"].append(fname)
        elif ty.kind == "struct":
            try:
                struct_info(tu, ty.name)
            except Untranslatable:
                continue
            info["fields"][fname] = ("struct", ty)
            info["order"].append(fname)
        elif ty.kind == "array" and ty.elem.kind in ("int", "bool") and 0 < ty.n <= 16:
            info["fields"][fname] = ("array", ty)
            info["order"].append(fname)
        elif ty.kind == "array" and ty.elem.kind == "int" and ty.elem.bits == 8 and ty.n > 16:
            # a byte string: handled as a whole (memcmp / memcpy over its full size), never indexed
            info["fields"][fname] = ("bytes", ty)
            info["order"].append(fname)
        elif ty.kind == "ptr" and cname in PTR_FIELD_RECORDS:
            # a pointer that is only copied and compared: its identity
            info["fields"][fname] = ("ptr", ty)
            info["order"].append(fname)
    STRUCT_ORDER.append(cname)
    return info


def struct_zero(cname):
    info = STRUCTS[cname]
    parts = []
    for f in info["order"]:
        kind, ty = info["fields"][f]
        if kind == "scalar":
            parts.append("%s := %s" % (lname(f), "false" if ty.kind == "bool" else "0#%d" % ty.bits))
        elif kind == "struct":
            parts.append("%s := %s" % (lname(f), struct_zero(ty.name)))
        elif kind == "bytes":
            parts.append("%s := List.replicate %d 0#8" % (lname(f), ty.n))
        elif kind == "ptr":
            parts.append("%s := C.NULL" % lname(f))
        else:
            for i in range(ty.n):
                parts.append("%s_%d := %s" % (f, i, "false" if ty.elem.kind == "bool" else "0#%d" % ty.elem.bits))
    return "{ " + ", ".join(parts) + " }"


def emit_structs():
    out = []
    for cname in STRUCT_ORDER:
        info = STRUCTS[cname]
        out.append("/-- `%s` (the fields of integer, boolean, array-of-integer or nested record type) -/" % cname)
        out.append("structure %s where" % info["lean"])
        n = 0
        for f in info["order"]:
            kind, ty = info["fields"][f]
            if kind == "array":
                for i in range(ty.n):
                    out.append("  %s_%d : %s" % (f, i, ty.elem.lean()))
                    n += 1
            elif kind == "bytes":
                out.append("  %s : List (BitVec 8)   -- `uint8_t %s[%d]`, used only as a whole" % (lname(f), f, ty.n))
                n += 1
            elif kind == "ptr":
                out.append("  %s : Nat   -- pointer, only copied and compared" % lname(f))
                n += 1
            else:
                out.append("  %s : %s" % (lname(f), ty.lean()))
                n += 1
        if n == 0:
            out.append("  unit_ : Unit := ()")
        out.append("deriving DecidableEq, Repr")
        out.append("")
        out.append("def %s.zero : %s := %s" % (info["lean"], info["lean"], struct_zero(cname) if n else "{ }"))
        out.append("")
    return out


# ------------------------------------------------------------------------------------------
# expression translation
# ------------------------------------------------------------------------------------------

def bound_of(v):
    """upper bound (Lean Nat text) of the object a pointer value points into"""
    return getattr(v, "bound", None) or "msize"


class V:
    """translated expression: Lean text, type, list of guards (Lean Bool terms that must be true)"""

    def __init__(self, text, ty, guards=None, const=None):
        self.text, self.ty, self.guards, self.const = text, ty, list(guards or []), const


def conj(gs):
    gs = [g for g in gs if g and g != "true"]
    if not gs:
        return None
    return " && ".join("(%s)" % g for g in gs)


def implies(c, g):
    """guard g only needed when Bool c holds"""
    return "(!(%s) || (%s))" % (c, g)


def lit(v, bits):
    v &= (1 << bits) - 1
    return "%d#%d" % (v, bits)


def litv(v, ty):
    """constant of integer type ty (python int, interpreted modulo 2^bits)"""
    v &= (1 << ty.bits) - 1
    return V(lit(v, ty.bits), ty, [], const=v)


def sval(c, ty):
    """signed/unsigned mathematical value of the constant bits c at type ty"""
    if ty.signed and c >= (1 << (ty.bits - 1)):
        return c - (1 << ty.bits)
    return c


def dot(text, field):
    if re.match(r"^[A-Za-z_][A-Za-z0-9_.]*$", text) or (text.startswith("(") and text.endswith(")")):
        return "%s.%s" % (text, field)
    return "(%s).%s" % (text, field)


class Fn:
    def __init__(self, tu, node, opts, translated):
        self.tu, self.node, self.opts, self.translated = tu, node, opts, translated
        self.name = node["name"]
        self.tmp = 0
        self.memparams = set(opts.get("mem", []))
        self.uses_mem = bool(self.memparams)
        self.writes_mem = bool(opts.get("writes"))
        self.uses_world = bool(opts.get("world")) or bool(opts.get("xworld"))
        self.xstate = opts.get("xworld")      # C record the external calls may change (XWorld σ)
        self.done_wrap = False                # inside a stepwise loop body: results are `.done r`
        self.aux = []             # auxiliary definitions (loops), in dependency order
        self.memlocals = set(opts.get("memlocals", []))
        self.pages = set()        # offsets above C.STACK of this function's own memory objects
        self.callee_pages = set() # ... and of the translated functions it calls (must be disjoint from its own)
        self.nloops = 0
        self.params = []          # (cname, Ty, mode)  mode in scalar/value/inout/mem
        self.vars = {}            # cname -> {"ty": Ty, "mode": ...}
        self.ret = None
        self.prefix = ""          # Lean-name prefix of this function's variables (non-empty for an inlined callee)
        self.stack = [self.name]  # functions being inlined (recursion guard)
        self.root = self          # the function whose definition is being emitted (owner of the temp counter)

    # ---- helpers -------------------------------------------------------------------------
    def fresh(self, base="t"):
        self.root.tmp += 1
        return "%s%d_" % (base, self.root.tmp)

    def ln(self, cname):
        if cname in self.vars and "alias" in self.vars[cname]:
            cname = self.vars[cname]["alias"]
        return lname(self.prefix + cname) if self.prefix else lname(cname)

    def setup(self):
        n = self.node
        fty = n["type"]["qualType"]
        rt = fty[:fty.index("(")].strip()
        self.ret = parse_type(rt)
        if self.ret.kind == "struct":
            struct_info(self.tu, self.ret.name)
        for p in n.get("inner", []):
            if p.get("kind") != "ParmVarDecl":
                continue
            name = p.get("name")
            if name in self.opts.get("ident", []):
                # a pointer that is only stored or tested against NULL: its identity (a 64-bit number) is all the function sees
                ty = Ty("int", 64, False)
                self.params.append((name, ty, "scalar"))
                self.vars[name] = {"ty": ty, "mode": "scalar", "ident": True}
                continue
            ty = parse_type(p["type"])
            if ty.kind == "ptr":
                if name in self.opts.get("as", {}):
                    ty = Ty("ptr", elem=Ty("struct", name=self.opts["as"][name]))
                if name in self.memparams:
                    mode = "mem"
                elif ty.elem.kind == "struct":
                    struct_info(self.tu, ty.elem.name)
                    isconst = bool(re.match(r"^\s*const\b", p["type"]["qualType"]))
                    mode = "value" if isconst else "inout"
                else:
                    bad("pointer parameter '%s' of type %s needs memory mode" % (name, p["type"]["qualType"]))
            elif ty.kind == "struct":
                struct_info(self.tu, ty.name)
                mode = "scalar"
            elif ty.kind in ("int", "bool"):
                mode = "scalar"
            else:
                bad("parameter '%s' of unsupported type" % name, p)
            self.params.append((name, ty, mode))
            self.vars[name] = {"ty": ty, "mode": mode}
            if mode == "mem":
                nmem = sum(1 for _, _, m in self.params if m == "mem")
                if nmem > 1:
                    # a second buffer parameter is an object of its own: its end is a parameter, too
                    self.vars[name]["bound"] = lname(name + "_end")

    def sig(self):
        ps = []
        if self.uses_world:
            ps.append("(w : %s)" % self.world_type())
        if self.uses_mem and not getattr(self, "mem_is_local", False):
            ps.append("(mem : Nat → BitVec 8) (msize : Nat)")
        for name, ty, mode in self.params:
            if mode == "mem":
                ps.append("(%s : Nat)" % self.ln(name))
                if self.vars[name].get("bound"):
                    ps.append("(%s : Nat)" % self.vars[name]["bound"])
            elif mode in ("value", "inout"):
                ps.append("(%s : %s)" % (self.ln(name), struct_lean_name(ty.elem.name)))
            else:
                ps.append("(%s : %s)" % (self.ln(name), ty.lean()))
        return " ".join(ps)

    def world_type(self):
        if self.root.xstate:
            return "C.XWorld %s" % struct_lean_name(self.root.xstate)
        return "C.World"

    def some_result(self, text):
        return "some (.done %s)" % text if self.root.done_wrap else "some %s" % text

    def inouts(self):
        return [(n, ty) for n, ty, m in self.params if m == "inout"]

    def result_type(self):
        parts = []
        if self.ret.kind != "void":
            parts.append(self.ret.lean())
        for n, ty in self.inouts():
            parts.append(struct_lean_name(ty.elem.name))
        if self.writes_mem:
            parts.append("(Nat → BitVec 8)")
        if self.uses_world:
            parts.append(self.world_type())
        if not parts:
            return "Unit"
        return " × ".join(parts)

    def result_value(self, retv):
        parts = []
        if self.ret.kind != "void":
            parts.append(retv)
        for n, ty in self.inouts():
            parts.append(self.ln(n))
        if self.writes_mem:
            parts.append("mem")
        if self.uses_world:
            parts.append("w")
        if not parts:
            return "()"
        return "(" + ", ".join(parts) + ")" if len(parts) > 1 else parts[0]

    # ---- expressions ---------------------------------------------------------------------
    def as_bool(self, v):
        if v.ty.kind == "bool":
            return v
        if v.ty.kind == "int":
            if getattr(v, "boolsrc", None):
                return V(v.boolsrc, Ty("bool"), v.guards)
            m = re.match(r"^\(C\.b2i \d+ (\(.*\))\)$", v.text)
            if m:
                return V(m.group(1), Ty("bool"), v.guards)
            if v.const is not None:
                return V("true" if v.const != 0 else "false", Ty("bool"), v.guards, const=int(v.const != 0))
            return V("(%s != %s)" % (v.text, lit(0, v.ty.bits)), Ty("bool"), v.guards)
        if v.ty.kind == "ptr":
            return V("(%s != C.NULL)" % v.text, Ty("bool"), v.guards)
        bad("cannot use %r as a condition" % (v.ty,))

    def as_int(self, v, ty):
        """value of C type `ty` (int) from v"""
        if v.ty.kind == "bool":
            if v.const is not None:
                return V(lit(v.const, ty.bits), ty, v.guards, const=v.const)
            r = V("(C.b2i %d %s)" % (ty.bits, v.text), ty, v.guards)
            r.boolsrc = v.text
            return r
        return v

    def cast_int(self, v, to):
        if v.ty.kind == "bool":
            return self.as_int(v, to)
        if getattr(v, "boolsrc", None) and v.ty.kind == "int":
            return self.as_int(V(v.boolsrc, Ty("bool"), v.guards), to)
        if v.ty.kind != "int":
            bad("integral cast from %r" % (v.ty,))
        if v.const is not None:
            c = sval(v.const, v.ty) & ((1 << to.bits) - 1)
            return V(lit(c, to.bits), to, v.guards, const=c)
        if v.ty.bits == to.bits:
            return V(v.text, to, v.guards)
        if to.bits < v.ty.bits or not v.ty.signed:
            return V("(BitVec.setWidth %d %s)" % (to.bits, v.text), to, v.guards)
        return V("(BitVec.signExtend %d %s)" % (to.bits, v.text), to, v.guards)

    def expr(self, n, env, want="val"):
        """env: {"defined": set of assigned C variables/leaves}.  want: 'val' | 'bool'"""
        k = n.get("kind")
        if k == "BinaryOperator" and "_hoisted" in n:
            return n["_hoisted"]
        if k in ("ParenExpr", "ConstantExpr"):
            cv = const_value(n) if k == "ConstantExpr" else None
            if cv is not None:
                ty = parse_type(n["type"])
                return litv(cv, ty)
            return self.expr(n["inner"][0], env, want)
        if k == "IntegerLiteral" or k == "CharacterLiteral":
            ty = parse_type(n["type"])
            return litv(int(n["value"]), ty)
        if k == "ImplicitCastExpr" or k == "CStyleCastExpr":
            return self.cast(n, env, want)
        if k == "DeclRefExpr":
            return self.declref(n, env)
        if k == "MemberExpr" or k == "ArraySubscriptExpr":
            return self.lvalue_read(n, env)
        if k == "UnaryOperator":
            return self.unary(n, env, want)
        if k == "BinaryOperator":
            return self.binary(n, env, want)
        if k == "ConditionalOperator":
            c = self.as_bool(self.expr(n["inner"][0], env, "bool"))
            a = self.expr(n["inner"][1], env, want)
            b = self.expr(n["inner"][2], env, want)
            ty = parse_type(n["type"])
            if ty.kind == "int":
                a, b = self.as_int(a, ty), self.as_int(b, ty)
            gs = list(c.guards) + [implies(c.text, g) for g in a.guards] + [implies("!" + c.text, g) for g in b.guards]
            return V("(if %s then %s else %s)" % (c.text, a.text, b.text), a.ty, gs)
        if k == "UnaryExprOrTypeTraitExpr":
            if n.get("name") != "sizeof":
                bad("unsupported type trait", n)
            if "argType" in n:
                t = n["argType"]["qualType"]
            else:
                t = n["inner"][0]["type"]["qualType"]
            ty = parse_type(n["type"])
            return litv(PROBE.size(self.tu.rel, t), ty)
        if k == "CallExpr":
            return self.call_expr(n, env)
        bad("unsupported expression", n)

    def declref(self, n, env):
        ref = n.get("referencedDecl", {})
        name = ref.get("name")
        rk = ref.get("kind")
        if rk == "EnumConstantDecl":
            ty = parse_type(n["type"])
            if name not in self.tu.enums:
                bad("unknown enumerator %s" % name, n)
            return litv(self.tu.enums[name], ty)
        if rk in ("VarDecl", "ParmVarDecl"):
            if name in self.vars:
                info = self.vars[name]
                if info["mode"] in ("value", "inout"):
                    # a pointer parameter in value mode used as a value: only as call argument / -> base
                    return V(self.ln(name), Ty("ptr", elem=info["ty"].elem, name="valueptr:" + info.get("alias", name)))
                if info["mode"] == "copy":
                    src = self.vars[info["of"]]
                    pv = V(self.ln(info["of"]), info["ty"])
                    if src.get("bound"):
                        pv.bound = src["bound"]
                    return pv
                if info["mode"] == "memobj":
                    pv = V(info["base"], Ty("ptr", elem=info["objty"].elem if info["objty"].kind == "array" else info["objty"]))
                    pv.bound = info["bound"]
                    return pv
                if info["mode"] == "local" and name not in env["defined"] and info["ty"].kind != "struct":
                    return V("__UNINIT__", info["ty"], ["false"])
                if info["mode"] == "local" and info["ty"].kind == "int" and name in env.get("consts", {}):
                    return litv(env["consts"][name], info["ty"])     # a local that holds a known constant on this path
                pv = V(self.ln(name), info["ty"])
                if info.get("bound"):
                    pv.bound = info["bound"]
                return pv
            if name in self.tu.globals:
                v, t = self.tu.globals[name]
                ty = parse_type(t)
                return litv(v, ty)
            bad("reference to unknown variable '%s'" % name, n)
        bad("unsupported reference kind %s" % rk, n)

    def cast(self, n, env, want):
        ck = n.get("castKind")
        sub = n["inner"][-1] if n.get("kind") == "CStyleCastExpr" else n["inner"][0]
        if ck in ("LValueToRValue", "NoOp", "FunctionToPointerDecay"):
            return self.expr(sub, env, want)
        if ck == "IntegralCast":
            to = parse_type(n["type"])
            v = self.expr(sub, env, "val")
            if to.kind == "bool":
                return self.as_bool(v)
            return self.cast_int(v, to)
        if ck == "IntegralToBoolean":
            return self.as_bool(self.expr(sub, env, "bool"))
        if ck == "BitCast" or ck == "NullToPointer" or ck == "ArrayToPointerDecay" or ck == "PointerToBoolean":
            to = parse_type(n["type"])
            if ck == "NullToPointer":
                return V("C.NULL", to)
            v = self.expr(sub, env, "val")
            if ck == "PointerToBoolean":
                return self.as_bool(v)
            if v.ty.kind == "ptr" and (v.ty.name or "").startswith("valueptr:"):
                return v
            r = V(v.text, to, v.guards)
            r.bound = getattr(v, "bound", None)
            return r
        if ck == "ToVoid":
            v = self.expr(sub, env, "val")
            return V("()", Ty("void"), v.guards)
        bad("unsupported cast kind %s" % ck, n)

    def unary(self, n, env, want):
        op = n["opcode"]
        sub = n["inner"][0]
        if op == "!":
            v = self.as_bool(self.expr(sub, env, "bool"))
            if v.const is not None:
                return V("false" if v.const else "true", Ty("bool"), v.guards, const=int(not v.const))
            return V("(!%s)" % v.text, Ty("bool"), v.guards)
        if op == "~":
            v = self.expr(sub, env)
            ty = parse_type(n["type"])
            v = self.as_int(v, ty)
            if v.const is not None:
                return litv(~v.const, ty)
            return V("(~~~%s)" % v.text, v.ty, v.guards)
        if op == "-":
            v = self.expr(sub, env)
            ty = parse_type(n["type"])
            v = self.as_int(v, ty)
            gs = list(v.guards)
            if v.const is not None and not (ty.signed and v.const == 1 << (ty.bits - 1)):
                return litv(-v.const, ty)
            if ty.signed:
                gs.append("(%s != BitVec.intMin %d)" % (v.text, ty.bits))
            return V("(-%s)" % v.text, ty, gs)
        if op == "+":
            return self.expr(sub, env)
        if op == "*":
            return self.mem_load(n, env)
        if op == "&":
            if self.uses_mem:
                r = self.mem_addr(sub, env)
                if r is not None:
                    addr, gs, ty, bnd = r
                    pv = V(addr, Ty("ptr", elem=ty), gs)
                    pv.bound = bnd
                    return pv
            # address of an lvalue path in value mode: only as call argument
            path = self.lvalue_path(sub, env)
            return self.addr_of(path, n)
        if op == "__extension__":
            return self.expr(sub, env, want)
        bad("unsupported unary operator %s" % op, n)

    def addr_of(self, path, n):
        v = V("&", Ty("ptr", elem=path["ty"], name="addrof"))
        v.path = path
        return v

    def binary(self, n, env, want):
        op = n["opcode"]
        a_n, b_n = n["inner"]
        if op in ("&&", "||"):
            a = self.as_bool(self.expr(a_n, env, "bool"))
            b = self.as_bool(self.expr(b_n, env, "bool"))
            if a.const is not None:
                if (op == "&&") == bool(a.const):
                    return V(b.text, Ty("bool"), list(a.guards) + list(b.guards), const=b.const)
                return V("false" if op == "&&" else "true", Ty("bool"), list(a.guards), const=int(op != "&&"))
            if op == "&&":
                gs = list(a.guards) + [implies(a.text, g) for g in b.guards]
            else:
                gs = list(a.guards) + [implies("!" + a.text, g) for g in b.guards]
            return V("(%s %s %s)" % (a.text, op, b.text), Ty("bool"), gs)
        if op == ",":
            bad("comma operator", n)
        if op == "=" or n.get("kind") == "CompoundAssignOperator":
            bad("assignment inside an expression", n)
        a, b = self.expr(a_n, env), self.expr(b_n, env)
        gs = list(a.guards) + list(b.guards)
        if op in ("==", "!=", "<", ">", "<=", ">="):
            if a.ty.kind == "bool" and b.ty.kind == "bool":
                a, b = self.as_int(a, Ty("int", 32, True)), self.as_int(b, Ty("int", 32, True))
            if a.ty.kind == "ptr" or b.ty.kind == "ptr":
                if op in ("==", "!="):
                    return V("(%s %s %s)" % (a.text, op, b.text), Ty("bool"), gs)
                bad("pointer comparison", n)
            if a.ty.kind == "bool":
                a = self.as_int(a, b.ty)
            if b.ty.kind == "bool":
                b = self.as_int(b, a.ty)
            if a.ty.bits != b.ty.bits or a.ty.signed != b.ty.signed:
                bad("comparison of different types %r %r" % (a.ty, b.ty), n)
            for x_, y_ in ((a, b), (b, a)):
                if getattr(x_, "boolsrc", None) and y_.const in (0, 1) and op in ("==", "!="):
                    pos = (y_.const == 1) == (op == "==")
                    return V(x_.boolsrc if pos else "(!%s)" % x_.boolsrc, Ty("bool"), gs)
            if a.const is not None and b.const is not None:
                x, y = sval(a.const, a.ty), sval(b.const, b.ty)
                r = {"==": x == y, "!=": x != y, "<": x < y, "<=": x <= y, ">": x > y, ">=": x >= y}[op]
                return V("true" if r else "false", Ty("bool"), gs, const=int(r))
            s = a.ty.signed
            t = {"==": "(%s == %s)", "!=": "(%s != %s)",
                 "<": "(BitVec.slt %s %s)" if s else "(BitVec.ult %s %s)",
                 "<=": "(BitVec.sle %s %s)" if s else "(BitVec.ule %s %s)"}
            if op in (">", ">="):
                txt = t["<" if op == ">" else "<="] % (b.text, a.text)
            else:
                txt = t[op] % (a.text, b.text)
            return V(txt, Ty("bool"), gs)
        ty = parse_type(n["type"])
        if ty.kind == "ptr":
            return self.ptr_arith(n, a, b, op, gs)
        if ty.kind != "int":
            bad("arithmetic at type %r" % (ty,), n)
        a = self.as_int(a, ty)
        if op in ("<<", ">>"):
            if b.ty.kind == "bool":
                b = self.as_int(b, Ty("int", 32, True))
            cnt = dot(b.text, "toNat")
            if b.const is not None:
                c = sval(b.const, b.ty)
                cnt = str(c)
                if not (0 <= c < ty.bits):
                    gs.append("false")
                    cnt = "0"
            else:
                if b.ty.signed:
                    gs.append("(BitVec.sle %s %s)" % (lit(0, b.ty.bits), b.text))
                gs.append("(decide (%s < %d))" % (cnt, ty.bits))
            if op == ">>":
                txt = "(BitVec.sshiftRight %s %s)" % (a.text, cnt) if ty.signed else "(%s >>> %s)" % (a.text, cnt)
            else:
                txt = "(%s <<< %s)" % (a.text, cnt)
                if ty.signed:
                    gs.append("(BitVec.sle %s %s)" % (lit(0, ty.bits), a.text))
                    gs.append("(BitVec.sshiftRight (%s <<< %s) %s == %s)" % (a.text, cnt, cnt, a.text))
            return V(txt, ty, gs)
        b = self.as_int(b, ty)
        if a.ty.bits != ty.bits or b.ty.bits != ty.bits:
            bad("operand width differs from result width", n)
        if a.const is not None and b.const is not None and not gs:
            x, y = sval(a.const, ty), sval(b.const, ty)
            r = None
            if op in ("+", "-", "*"):
                r = {"+": x + y, "-": x - y, "*": x * y}[op]
                if ty.signed and not (-(1 << (ty.bits - 1)) <= r < (1 << (ty.bits - 1))):
                    r = None
            elif op in ("/", "%") and y != 0 and x >= 0 and y > 0:
                r = x // y if op == "/" else x % y
            elif op in ("&", "|", "^"):
                r = {"&": a.const & b.const, "|": a.const | b.const, "^": a.const ^ b.const}[op]
            if r is not None:
                return litv(r, ty)
        if op in ("+", "-", "*"):
            if ty.signed:
                ov = {"+": "BitVec.saddOverflow", "-": "BitVec.ssubOverflow", "*": "BitVec.smulOverflow"}[op]
                gs.append("(!(%s %s %s))" % (ov, a.text, b.text))
            return V("(%s %s %s)" % (a.text, op, b.text), ty, gs)
        if op in ("/", "%"):
            gs.append("(%s != %s)" % (b.text, lit(0, ty.bits)))
            if ty.signed:
                gs.append("(!(%s == BitVec.intMin %d && %s == %s))" % (a.text, ty.bits, b.text, lit(-1, ty.bits)))
                f = "BitVec.sdiv" if op == "/" else "BitVec.srem"
                return V("(%s %s %s)" % (f, a.text, b.text), ty, gs)
            return V("(%s %s %s)" % (a.text, op, b.text), ty, gs)
        if op in ("&", "|", "^"):
            return V("(%s %s %s)" % (a.text, {"&": "&&&", "|": "|||", "^": "^^^"}[op], b.text), ty, gs)
        bad("unsupported binary operator %s" % op, n)

    # ---- memory mode ---------------------------------------------------------------------
    def ptr_elem_size(self, ty, n):
        e = ty.elem
        if e.kind == "int":
            return e.bits // 8
        if e.kind in ("void", "bool"):
            return 1
        if e.kind == "struct" or e.kind == "opaque":
            return PROBE.size(self.tu.rel, e.name)
        bad("pointer arithmetic on %r" % (ty,), n)

    def ptr_arith(self, n, a, b, op, gs):
        if not self.uses_mem:
            bad("pointer arithmetic outside memory mode", n)
        if a.ty.kind != "ptr":
            a, b = b, a
        if b.ty.kind != "int" or op not in ("+", "-"):
            bad("unsupported pointer arithmetic", n)
        sz = self.ptr_elem_size(a.ty, n)
        bnd = bound_of(a)
        if b.const is not None and sval(b.const, b.ty) >= 0 and op == "+":
            txt = "(%s + %d)" % (a.text, sval(b.const, b.ty) * sz)
            r = V(txt, a.ty, gs + ["(decide (%s ≤ %s))" % (txt, bnd)])
            r.bound = bnd
            return r
        if b.ty.signed:
            off = "(%s * %d)" % (dot(b.text, "toInt"), sz)
            txt = "(Int.toNat (%s %s %s))" % ("(%s : Int)" % a.text, op, off)
            gs = gs + ["(decide (0 ≤ (%s : Int) %s %s))" % (a.text, op, off)]
        else:
            if op == "-":
                gs = gs + ["(decide (%s * %d ≤ %s))" % (dot(b.text, "toNat"), sz, a.text)]
            txt = "(%s %s %s * %d)" % (a.text, op, dot(b.text, "toNat"), sz) if sz != 1 else "(%s %s %s)" % (a.text, op, dot(b.text, "toNat"))
        gs = gs + ["(decide (%s ≤ %s))" % (txt, bnd)]
        r = V(txt, a.ty, gs)
        r.bound = bnd
        return r

    def mem_load_at(self, addr, ty, gs, n, bnd="msize"):
        if ty.kind == "bool":
            w = 1
        elif ty.kind == "int":
            w = ty.bits // 8
        else:
            bad("load of type %r from memory" % (ty,), n)
        gs = gs + ["(decide (%s + %d ≤ %s))" % (addr, w, bnd)]
        if ty.kind == "bool":
            return V("(C.load8 mem %s != 0#8)" % addr, ty, gs)
        return V("(C.load%d mem %s)" % (ty.bits, addr), ty, gs)

    def mem_load(self, n, env):
        """`*p`"""
        if not self.uses_mem:
            bad("dereference outside memory mode", n)
        p = self.expr(n["inner"][0], env)
        ty = parse_type(n["type"])
        return self.mem_load_at(p.text, ty, p.guards, n, bound_of(p))

    def mem_addr(self, n, env):
        """address (Lean Nat text, guards, type) of an lvalue in memory mode, or None"""
        k = n.get("kind")
        if k == "ParenExpr":
            return self.mem_addr(n["inner"][0], env)
        if k == "MemberExpr":
            base = n["inner"][0]
            fname = n["name"]
            if n.get("isArrow"):
                p = self.expr(base, env)
                if p.ty.kind != "ptr" or (p.ty.name or "").startswith("valueptr:"):
                    return None
                rec = p.ty.elem.name
                off = PROBE.offset(self.tu.rel, rec, fname)
                addr = p.text if off == 0 and not PROBE.pending() else "(%s + %d)" % (p.text, off)
                return (addr, p.guards, parse_type(n["type"]), bound_of(p))
            r = self.mem_addr(base, env)
            if r is None:
                return None
            bt = parse_type(base["type"])
            off = PROBE.offset(self.tu.rel, bt.name, fname)
            return ("(%s + %d)" % (r[0], off), r[1], parse_type(n["type"]), r[3])
        if k == "UnaryOperator" and n.get("opcode") == "*":
            p = self.expr(n["inner"][0], env)
            return (p.text, p.guards, parse_type(n["type"]), bound_of(p))
        if k == "DeclRefExpr":
            name = n.get("referencedDecl", {}).get("name")
            info = self.vars.get(name)
            if info is not None and info["mode"] == "memobj":
                return (info["base"], [], info["objty"], info["bound"])
            return None
        if k == "ArraySubscriptExpr":
            base, idx = n["inner"]
            b = self.expr(base, env)
            if b.ty.kind != "ptr" or (b.ty.name or "").startswith("valueptr:"):
                return None
            i = self.expr(idx, env)
            fake = {"kind": "BinaryOperator", "opcode": "+", "type": {"qualType": "x"}, "_line": n.get("_line")}
            pv = self.ptr_arith(fake, b, i, "+", list(b.guards) + list(i.guards))
            return (pv.text, pv.guards, parse_type(n["type"]), bound_of(pv))
        return None

    # ---- lvalues in value mode -----------------------------------------------------------
    def lvalue_path(self, n, env):
        """{"root": C var, "steps": [lean field names], "ty": Ty, "leafkey": str}"""
        k = n.get("kind")
        if k == "ParenExpr":
            return self.lvalue_path(n["inner"][0], env)
        if k == "DeclRefExpr":
            name = n["referencedDecl"]["name"]
            if name not in self.vars:
                bad("lvalue '%s' is not a local or parameter" % name, n)
            info = self.vars[name]
            ty = info["ty"]
            if info["mode"] in ("value", "inout"):
                ty = info["ty"].elem
            return {"root": info.get("alias", name), "steps": [], "ty": ty, "const": info["mode"] == "value"}
        if k == "MemberExpr":
            base = n["inner"][0]
            if n.get("isArrow"):
                # base is a pointer value: must be a value-mode parameter
                b = base
                while b.get("kind") in ("ImplicitCastExpr", "ParenExpr"):
                    b = b["inner"][0]
                if b.get("kind") != "DeclRefExpr" or self.vars.get(b["referencedDecl"]["name"], {}).get("mode") not in ("value", "inout"):
                    bad("'->' on something that is not a value-mode pointer parameter", n)
                p = self.lvalue_path(b, env)
            else:
                p = self.lvalue_path(base, env)
            if p["ty"].kind != "struct":
                bad("member of non-struct", n)
            info = struct_info(self.tu, p["ty"].name)
            fname = n["name"]
            if fname not in info["fields"]:
                bad("field '%s' of %s has no supported type" % (fname, p["ty"].name), n)
            kind, fty = info["fields"][fname]
            if kind == "bytes":
                fty = Ty("bytes", n=fty.n)
            elif kind == "ptr":
                fty = Ty("ptr", elem=fty.elem, name="field")
            return {"root": p["root"], "steps": p["steps"] + [lname(fname) if kind != "array" else fname], "ty": fty, "const": p["const"]}
        if k == "ArraySubscriptExpr":
            base, idx = n["inner"]
            while base.get("kind") in ("ImplicitCastExpr", "ParenExpr"):
                base = base["inner"][0]
            if base.get("kind") == "DeclRefExpr" and self.vars.get(base["referencedDecl"]["name"], {}).get("mode") == "arrayalias":
                p = dict(self.vars[base["referencedDecl"]["name"]]["path"])
            else:
                p = self.lvalue_path(base, env)
            if p["ty"].kind != "array":
                bad("subscript of non-array", n)
            i = const_value(idx)
            if i is None:
                try:
                    iv = self.expr(idx, env)
                    if iv.const is not None and not iv.guards:
                        i = sval(iv.const, iv.ty)
                except Untranslatable:
                    pass
            if i is None:
                bad("array subscript is not a constant", n)
            if not (0 <= i < p["ty"].n):
                bad("constant array subscript out of bounds", n)
            steps = p["steps"][:-1] + ["%s_%d" % (p["steps"][-1], i)]
            return {"root": p["root"], "steps": steps, "ty": p["ty"].elem, "const": p["const"]}
        bad("unsupported lvalue", n)

    def path_text(self, p):
        return ".".join([self.ln(p["root"])] + p["steps"])

    def path_key(self, p):
        return ".".join([p["root"]] + p["steps"])

    def lvalue_read(self, n, env):
        if self.uses_mem:
            r = self.mem_addr(n, env)
            if r is not None:
                addr, gs, ty, bnd = r
                if ty.kind == "array":
                    pv = V(addr, Ty("ptr", elem=ty.elem), gs)
                    pv.bound = bnd
                    return pv
                if ty.kind == "struct":
                    bad("a whole record is read from memory", n)
                return self.mem_load_at(addr, ty, gs, n, bnd)
        p = self.lvalue_path(n, env)
        info = self.vars[p["root"]]
        if info["mode"] == "local" and info["ty"].kind == "struct":
            key = self.path_key(p)
            if not any(key == d or key.startswith(d + ".") or d.startswith(key + ".") for d in env["defined"]):
                return V("__UNINIT__", p["ty"], ["false"])
        return V(self.path_text(p), p["ty"])

    def update_text(self, p, value):
        """Lean text of the root variable after storing `value` at path p"""
        root = self.ln(p["root"])
        steps = p["steps"]
        if not steps:
            return value

        def build(prefix, rest):
            if not rest:
                return value
            cur = prefix + "." + rest[0]
            return "{ %s with %s := %s }" % (prefix, rest[0], build(cur, rest[1:]))
        return build(root, steps)

    # ---- calls ---------------------------------------------------------------------------
    def callee_name(self, n):
        f = n["inner"][0]
        while f.get("kind") in ("ImplicitCastExpr", "ParenExpr"):
            f = f["inner"][0]
        if f.get("kind") != "DeclRefExpr":
            bad("call through a function pointer", n)
        return f["referencedDecl"]["name"]

    def call_expr(self, n, env):
        """calls allowed inside expressions: byte swaps; translated calls must have been hoisted"""
        name = self.callee_name(n)
        if name in BSWAP:
            v = self.expr(n["inner"][1], env)
            w = BSWAP[name]
            if w is None:
                return v
            ty = parse_type(n["type"])
            v = self.as_int(v, ty)
            return V("(C.bswap%d %s)" % (w, v.text), ty, v.guards)
        if "_hoisted" in n:
            return n["_hoisted"]
        if name == "memcmp":
            a, b = self.bytes_arg(n["inner"][1], env), self.bytes_arg(n["inner"][2], env)
            self.check_whole_size(n["inner"][3], a, b, n)
            if getattr(a, "elems", None) or getattr(b, "elems", None):
                if not (getattr(a, "elems", None) and getattr(b, "elems", None)) or len(a.elems) != len(b.elems):
                    bad("memcmp of arrays of different shape", n)
                src = "(" + " || ".join("(%s != %s)" % (x, y) for x, y in zip(a.elems, b.elems)) + ")"
                r = V("(C.b2i 32 %s)" % src, Ty("int", 32, True), [])
                r.boolsrc = src
                return r
            # only the truth value of the result is defined here: 0 iff the byte strings are equal
            r = V("(C.b2i 32 (%s != %s))" % (a.text, b.text), Ty("int", 32, True), a.guards + b.guards)
            r.boolsrc = "(%s != %s)" % (a.text, b.text)
            return r
        bad("call of '%s' in a position from which it cannot be hoisted" % name, n)

    def bytes_arg(self, a, env):
        while a.get("kind") in ("ImplicitCastExpr", "ParenExpr", "CStyleCastExpr"):
            a = a["inner"][-1]
        p = self.lvalue_path(a, env)
        if p["ty"].kind == "array":
            # a small array member is expanded into one field per element
            v = V(None, p["ty"])
            v.path = p
            v.elems = [".".join([self.ln(p["root"])] + p["steps"][:-1] + ["%s_%d" % (p["steps"][-1], i)]) for i in range(p["ty"].n)]
            v.nbytes = p["ty"].n * (p["ty"].elem.bits // 8 if p["ty"].elem.kind == "int" else 1)
            return v
        if p["ty"].kind != "bytes":
            bad("memcmp/memcpy argument is not a whole byte-array member", a)
        v = V(self.path_text(p), p["ty"])
        v.path = p
        v.nbytes = p["ty"].n
        return v

    def check_whole_size(self, sz, a, b, n):
        while sz.get("kind") in ("ImplicitCastExpr", "ParenExpr"):
            sz = sz["inner"][0]
        val = None
        if sz.get("kind") == "UnaryExprOrTypeTraitExpr" and sz.get("name") == "sizeof":
            t = sz["argType"]["qualType"] if "argType" in sz else sz["inner"][0]["type"]["qualType"]
            ty = parse_type_str(strip_quals(t))
            if ty is not None and ty.kind == "array" and ty.elem.kind == "int" and ty.elem.bits == 8:
                val = ty.n
        else:
            val = const_value(sz)
        if sz.get("kind") == "UnaryExprOrTypeTraitExpr" and sz.get("name") == "sizeof" and val is None:
            t = sz["argType"]["qualType"] if "argType" in sz else sz["inner"][0]["type"].get("desugaredQualType", sz["inner"][0]["type"]["qualType"])
            ty2 = parse_type_str(strip_quals(t))
            if ty2 is not None and ty2.kind == "array" and ty2.elem.kind == "int":
                val = ty2.n * (ty2.elem.bits // 8)
        if val is None or val != getattr(a, "nbytes", a.ty.n) or val != getattr(b, "nbytes", b.ty.n):
            bad("memcmp/memcpy over something else than the whole of two equally long arrays", n)

    def real_calls(self, n):
        """does the expression contain a call that has to be hoisted (translated, external or inlined function)?"""
        if n.get("kind") == "CallExpr":
            name = self.callee_name(n)
            if self.is_extern(name) or name in self.translated or self.inlinable(name):
                return True
        return any(self.real_calls(c) for c in n.get("inner", []) if isinstance(c, dict))

    def find_calls(self, n, strict=True, out=None):
        """translated-function calls in evaluation order; rejects those under short-circuit operators"""
        if out is None:
            out = []
        k = n.get("kind")
        if k == "BinaryOperator" and "_hoisted" in n:
            return out              # a short-circuit operator whose value has been computed (with_calls)
        if k == "BinaryOperator" and n.get("opcode") in ("&&", "||"):
            self.find_calls(n["inner"][0], strict, out)
            self.find_calls(n["inner"][1], False, out)
            return out
        if k == "ConditionalOperator":
            self.find_calls(n["inner"][0], strict, out)
            self.find_calls(n["inner"][1], False, out)
            self.find_calls(n["inner"][2], False, out)
            return out
        if k == "StmtExpr":
            return out
        for c in n.get("inner", []):
            self.find_calls(c, strict, out)
        if k == "CallExpr":
            name = self.callee_name(n)
            if self.is_extern(name) or name in self.translated or self.inlinable(name):
                if not strict:
                    bad("call of '%s' under a short-circuit operator" % name, n)
                out.append(n)
        return out

    def emit_extern(self, n, env, k):
        """a call that leaves the translated code: the world supplies its result and records its arguments"""
        name = self.callee_name(n)
        if not self.uses_world:
            bad("external call '%s' in a function without a world" % name, n)
        if self.root.xstate:
            return self.emit_xextern(n, env, k)
        args = n["inner"][1:]
        kind = EXTERN[name]
        tmp = self.fresh("r")
        if kind == "time":
            # int lrtr_get_monotonic_time(time_t *seconds): writes the next clock reading through the pointer
            a = args[0]
            while a.get("kind") in ("ImplicitCastExpr", "ParenExpr"):
                a = a["inner"][0]
            if a.get("kind") != "UnaryOperator" or a.get("opcode") != "&":
                bad("lrtr_get_monotonic_time needs &local", n)
            p = self.lvalue_path(a["inner"][0], env)
            if p["steps"] or p["ty"].kind != "int" or p["ty"].bits != 64:
                bad("lrtr_get_monotonic_time target must be a time_t local", n)
            n["_hoisted"] = V(tmp, Ty("int", 32, True))
            env2 = copy_env(env)
            env2["defined"].add(p["root"])
            return "match C.extTime w with\n| (%s, t_, w) =>\n  let %s : BitVec 64 := t_\n%s" % (tmp, self.ln(p["root"]), indent(k(env2), 2))
        if kind == "io":
            # int tr_send/tr_recv(socket, buf, len, timeout): the world answers; (offset, len, timeout) are recorded
            buf, ln_, to = (self.expr(a, env) for a in args[1:4])
            ln_ = self.as_int(ln_, Ty("int", 64, False))
            to = self.as_int(to, Ty("int", 64, True))
            gs = buf.guards + ln_.guards + to.guards
            n["_hoisted"] = V(tmp, Ty("int", 32, True))
            return self.guarded(gs, "match C.extIo w %s %s %s with\n| (%s, w) =>\n%s" % (buf.text, ln_.text, to.text, tmp, indent(k(env), 2)))
        bad("no handler for external call '%s'" % name, n)

    def is_extern(self, name):
        if name in self.root.opts.get("externs", {}):
            return True
        return name in EXTERNX if self.root.xstate else name in EXTERN

    def state_var(self):
        """the in/out parameter that holds the record the external calls may change"""
        for pn, pty, mode in self.params:
            if mode in ("inout", "value") and pty.kind == "ptr" and pty.elem.kind == "struct" and pty.elem.name == self.root.xstate:
                return pn
        bad("function over an XWorld has no in/out parameter of type %s" % self.root.xstate)

    def emit_xextern(self, n, env, k):
        name = self.callee_name(n)
        spec = self.root.opts.get("externs", {}).get(name) or EXTERNX[name]
        args = n["inner"][1:]
        gs, rec = [], []
        for idx in spec.get("args", []):
            v = self.expr(args[idx], env)
            if v.ty.kind == "bool":
                v = self.as_int(v, Ty("int", 32, True))
            if v.ty.kind != "int":
                bad("recorded argument of '%s' is not an integer" % name, n)
            gs += v.guards
            rec.append(self.cast_int(v, Ty("int", 64, v.ty.signed)).text)
        sv = self.state_var()
        if "inout" in spec:
            a = self.expr(args[spec["inout"]], env)
            if not (a.ty.kind == "ptr" and (a.ty.name or "") == "valueptr:" + sv):
                bad("'%s' must be called with the record parameter itself" % name, n)
        if "recstruct" in spec:
            a = args[spec["recstruct"]]
            while a.get("kind") in ("ImplicitCastExpr", "ParenExpr", "CStyleCastExpr"):
                a = a["inner"][-1]
            if a.get("kind") != "UnaryOperator" or a.get("opcode") != "&":
                bad("'%s' needs &record" % name, n)
            pth = self.lvalue_path(a["inner"][0], env)
            if pth["ty"].kind != "struct":
                bad("'%s' needs the address of a record" % name, n)
            sinfo = struct_info(self.tu, pth["ty"].name)
            for f in sinfo["order"]:
                kind, fty = sinfo["fields"][f]
                if kind != "scalar" or fty.kind != "int":
                    bad("record passed to '%s' has a member that is not an integer" % name, n)
                key = self.path_key(pth) + "." + lname(f)
                if self.vars[pth["root"]]["mode"] == "local" and not any(key == d or key.startswith(d + ".") for d in env["defined"]):
                    gs.append("false")          # a member that no statement assigned is handed to the callee
                rec.append("(BitVec.setWidth 64 %s.%s)" % (self.path_text(pth), lname(f)))
        tmp = self.fresh("r")
        lines = []
        if "inout" in spec:
            lines.append("let %s : %s := st_" % (self.ln(sv), struct_lean_name(self.root.xstate)))
        if "recbytes" in spec:
            pv = self.expr(args[spec["recbytes"][0]], env)
            ln_ = self.expr(args[spec["recbytes"][1]], env)
            if ln_.const is None or ln_.const > 64:
                bad("'%s': the number of recorded bytes is not a small constant" % name, n)
            gs += pv.guards + ["(decide (%s + %d ≤ %s))" % (pv.text, ln_.const, bound_of(pv))]
            for i in range(ln_.const):
                rec.append("(BitVec.setWidth 64 (C.load8 mem (%s + %d)))" % (pv.text, i))
        recdyn = None
        if "recmem" in spec:
            pv = self.expr(args[spec["recmem"][0]], env)
            ln_ = self.as_int(self.expr(args[spec["recmem"][1]], env), Ty("int", 64, False))
            cnt = str(ln_.const) if ln_.const is not None else dot(ln_.text, "toNat")
            gs += pv.guards + ln_.guards + ["(decide (%s + %s ≤ %s))" % (pv.text, cnt, bound_of(pv))]
            recdyn = "C.bytesAt mem %s %s" % (pv.text, cnt)
        if "outbuf" in spec:
            if not self.uses_mem:
                bad("'%s' fills a buffer but the function has no memory object" % name, n)
            lines.append("let mem : Nat → BitVec 8 := C.memOfBytes buf_")
        if "fill" in spec:
            if not self.uses_mem:
                bad("'%s' fills a buffer but the function has no memory object" % name, n)
            pv = self.expr(args[spec["fill"][0]], env)
            if spec["fill"][1] is None:
                cnt = "(%s - %s)" % (bound_of(pv), pv.text)
                gs += pv.guards
            else:
                ln_ = self.as_int(self.expr(args[spec["fill"][1]], env), Ty("int", 64, False))
                cnt = str(ln_.const) if ln_.const is not None else dot(ln_.text, "toNat")
                gs += pv.guards + ln_.guards + ["(decide (%s + %s ≤ %s))" % (pv.text, cnt, bound_of(pv))]
            lines.append("let mem : Nat → BitVec 8 := C.memFill mem %s %s buf_" % (pv.text, cnt))
        env2 = copy_env(env)
        if "out64" in spec:
            a = args[spec["out64"]]
            while a.get("kind") in ("ImplicitCastExpr", "ParenExpr"):
                a = a["inner"][0]
            if a.get("kind") != "UnaryOperator" or a.get("opcode") != "&":
                bad("'%s' needs &object for its result" % name, n)
            p = self.lvalue_path(a["inner"][0], env)
            if p["ty"].kind != "int" or p["ty"].bits != 64:
                bad("'%s' target must be a 64-bit integer" % name, n)
            info = self.vars[p["root"]]
            rty = info["ty"].elem.lean() if info["mode"] in ("value", "inout") else info["ty"].lean()
            lines.append("let %s : %s := %s" % (self.ln(p["root"]), rty, self.update_text(p, "aux_")))
            env2["defined"].add(self.path_key(p))
            env2.get("consts", {}).pop(p["root"], None)
        rty = None
        node_ty = n.get("type", {}).get("qualType", "void")
        if spec.get("ret") and strip_quals(node_ty) != "void":
            rt = parse_type(n["type"])
            if rt.kind == "int":
                lines.append("let %s : %s := %s" % (tmp, rt.lean(), "(BitVec.setWidth %d rc_)" % rt.bits if rt.bits != 64 else "rc_"))
                n["_hoisted"] = V(tmp, rt)
            else:
                n["_hoisted"] = V("()", Ty("void"))
        else:
            n["_hoisted"] = V("()", Ty("void"))
        body = "\n".join(lines + [k(env2)])
        if "outbuf" in spec or "fill" in spec:
            call = 'C.xcallBuf w "%s" [%s] %s' % (name, ", ".join(rec), self.ln(sv))
            return self.guarded(gs, "match %s with\n| (rc_, aux_, st_, buf_, w) =>\n%s" % (call, indent(body, 2)))
        argl = "[%s]" % ", ".join(rec) if recdyn is None else "([%s] ++ %s)" % (", ".join(rec), recdyn)
        call = 'C.xcall w "%s" %s %s' % (name, argl, self.ln(sv))
        return self.guarded(gs, "match %s with\n| (rc_, aux_, st_, w) =>\n%s" % (call, indent(body, 2)))

    def inlinable(self, name):
        """a function defined in this translation unit that is not translated on its own: its body is inlined at the call
        (so that extracting a helper from a translated function changes nothing in the translation)"""
        return (name not in self.translated and name in self.tu.funcs and name not in BSWAP and name not in IGNORED_CALLS
                and not self.is_extern(name) and name not in NORETURN and name not in ("memset", "memcpy", "memcmp") and name not in LISTED)

    def emit_call(self, n, env, k):
        """hoist one translated call: returns Lean text `match f args with | none => none | some r => <k(env)>`;
        marks n["_hoisted"] with the temp that holds its value"""
        name = self.callee_name(n)
        if self.is_extern(name):
            return self.emit_extern(n, env, k)
        if name not in self.translated:
            return self.emit_inline(n, env, k)
        callee = self.translated[name]
        self.root.callee_pages |= callee.pages | callee.callee_pages
        args = n["inner"][1:]
        texts, gs, writebacks = [], [], []
        if callee.uses_world:
            if not self.uses_world:
                bad("call of '%s', which makes external calls, from a function without a world" % name, n)
            texts += ["w"]
        if callee.uses_mem:
            if not self.uses_mem:
                bad("call of memory-mode function '%s' from a function without memory" % name, n)
            bnd = "msize"
            for (pname, pty, pmode), a in zip(callee.params, args):
                if pmode == "mem":
                    bnd = bound_of(self.expr(a, env))
                    break
            texts += ["mem", bnd]
        for (pname, pty, pmode), a in zip(callee.params, args):
            if pmode in ("value", "inout"):
                v = self.expr(a, env)
                if v.ty.kind == "ptr" and (v.ty.name or "").startswith("valueptr:"):
                    root = v.ty.name.split(":", 1)[1]
                    texts.append(self.ln(root))
                    if pmode == "inout":
                        if self.vars[root]["mode"] != "inout":
                            bad("const pointee passed to a function that writes it", n)
                        writebacks.append({"root": root, "steps": [], "ty": pty.elem, "const": False})
                elif v.ty.kind == "ptr" and v.ty.name == "addrof":
                    p = v.path
                    if p["ty"].kind != "struct" or p["ty"].name != pty.elem.name:
                        bad("address-of argument of a different record type", n)
                    texts.append(self.path_text(p))
                    if pmode == "inout":
                        if p["const"]:
                            bad("const object passed to a function that writes it", n)
                        writebacks.append(p)
                else:
                    bad("unsupported argument for pointer parameter '%s'" % pname, n)
            else:
                v = self.expr(a, env)
                if pty.kind == "int":
                    v = self.as_int(v, pty)
                elif pty.kind == "bool":
                    v = self.as_bool(v)
                texts.append(v.text)
                gs += v.guards
                if pmode == "mem" and callee.vars[pname].get("bound"):
                    texts.append(bound_of(v))
        tmp = self.fresh("r")
        pats = []
        if callee.ret.kind != "void":
            pats.append(tmp)
        wb_tmps = []
        for _ in callee.inouts():
            t = self.fresh("w")
            pats.append(t)
            wb_tmps.append(t)
        if callee.writes_mem:
            if not self.writes_mem:
                bad("call of memory-writing function '%s' from a function not declared as writing" % name, n)
            pats.append("mem")
        if callee.uses_world:
            pats.append("w")
        pat = "(" + ", ".join(pats) + ")" if len(pats) > 1 else (pats[0] if pats else "()")
        n["_hoisted"] = V(tmp, callee.ret)
        lines = []
        for p, t in zip(writebacks, wb_tmps):
            lines.append("let %s := %s" % (self.ln(p["root"]), self.update_text(p, t)))
        body = k(env)
        call = "%s %s" % (name, " ".join("(%s)" % t if " " in t else t for t in texts)) if texts else name
        txt = "match %s with\n| none => none\n| some %s =>\n%s" % (call, pat, indent("\n".join(lines + [body]), 2))
        return self.guarded(gs, "(" + txt + ")")

    def emit_inline(self, n, env, k):
        """inline the body of a local helper at its call"""
        name = self.callee_name(n)
        if name in self.stack or len(self.stack) > 6:
            bad("recursive or too deeply nested call of '%s'" % name, n)
        node = self.tu.funcs[name]
        sub = Fn(self.tu, node, {}, self.translated)
        sub.root = self.root
        sub.stack = self.stack + [name]
        sub.prefix = "%s%s" % (self.prefix, self.fresh("h"))
        sub.uses_mem, sub.writes_mem = self.uses_mem, self.writes_mem
        sub.uses_world = self.uses_world
        fty = node["type"]["qualType"]
        sub.ret = parse_type(fty[:fty.index("(")].strip())
        if sub.ret.kind == "struct":
            struct_info(self.tu, sub.ret.name)
        args = n["inner"][1:]
        params = [p for p in node.get("inner", []) if p.get("kind") == "ParmVarDecl"]
        if len(params) != len(args):
            bad("call of '%s' with a different number of arguments" % name, n)
        binds, gs, writebacks = [], [], []
        for prm, a in zip(params, args):
            pty = parse_type(prm["type"])
            pname = prm.get("name")
            v = self.expr(a, env)
            gs += v.guards
            if pty.kind == "ptr":
                if v.ty.kind == "ptr" and (v.ty.name or "").startswith("valueptr:"):
                    root = v.ty.name.split(":", 1)[1]
                    isconst = bool(re.match(r"^\s*const\b", prm["type"]["qualType"])) or self.vars[root]["mode"] == "value"
                    struct_info(self.tu, pty.elem.name)
                    sub.vars[pname] = {"ty": pty, "mode": "value" if isconst else "inout"}
                    binds.append("let %s : %s := %s" % (sub.ln(pname), struct_lean_name(pty.elem.name), self.ln(root)))
                    if not isconst:
                        writebacks.append(({"root": root, "steps": [], "ty": pty.elem, "const": False}, pname))
                elif v.ty.kind == "ptr" and v.ty.name == "addrof":
                    pth = v.path
                    if pth["ty"].kind != "struct" or pty.elem.kind != "struct" or pth["ty"].name != pty.elem.name:
                        bad("address-of argument of a different record type", n)
                    isconst = bool(re.match(r"^\s*const\b", prm["type"]["qualType"])) or pth["const"]
                    sub.vars[pname] = {"ty": pty, "mode": "value" if isconst else "inout"}
                    binds.append("let %s : %s := %s" % (sub.ln(pname), struct_lean_name(pty.elem.name), self.path_text(pth)))
                    if not isconst:
                        writebacks.append((pth, pname))
                elif self.uses_mem and v.ty.kind == "ptr":
                    sub.vars[pname] = {"ty": pty, "mode": "mem"}
                    if getattr(v, "bound", None):
                        sub.vars[pname]["bound"] = v.bound      # the helper's pointer points into the caller's object
                    binds.append("let %s : Nat := %s" % (sub.ln(pname), v.text))
                else:
                    bad("unsupported pointer argument for '%s' of '%s'" % (pname, name), n)
            elif pty.kind == "struct":
                struct_info(self.tu, pty.name)
                sub.vars[pname] = {"ty": pty, "mode": "scalar"}
                binds.append("let %s : %s := %s" % (sub.ln(pname), pty.lean(), v.text))
            elif pty.kind in ("int", "bool"):
                v = self.as_int(v, pty) if pty.kind == "int" else self.as_bool(v)
                sub.vars[pname] = {"ty": pty, "mode": "scalar"}
                binds.append("let %s : %s := %s" % (sub.ln(pname), pty.lean(), v.text))
            else:
                bad("parameter '%s' of '%s' has an unsupported type" % (pname, name), n)
            sub.params.append((pname, pty, sub.vars[pname]["mode"]))
        tmp = self.fresh("r")
        n["_hoisted"] = V(tmp, sub.ret)
        caller_env = env

        def ret_k(env_sub, vtext):
            lines = []
            for pth, pname in writebacks:
                lines.append("let %s := %s" % (self.ln(pth["root"]), self.update_text(pth, sub.ln(pname))))
            if sub.ret.kind != "void":
                if vtext is None:
                    return "none"
                lines.append("let %s : %s := %s" % (tmp, sub.ret.lean(), vtext))
            return "\n".join(lines + [k(copy_env(caller_env))])
        body = [c for c in node["inner"] if c.get("kind") == "CompoundStmt"][0]
        env_sub = {"defined": set(pn for pn, _, _ in sub.params)}

        def fall_off(env2):
            if sub.ret.kind == "void":
                return ret_k(env2, None)
            return "none"
        txt = sub.stmt(body, env_sub, {"next": fall_off, "ret": ret_k})
        return self.guarded(gs, "\n".join(binds + [txt]))

    def guarded(self, gs, body):
        g = conj(gs)
        if g is None:
            return body
        return "if %s then\n%s\nelse none" % (g, indent(body, 2))

    # ---- statements (continuation-passing) -----------------------------------------------
    def with_calls(self, exprs, env, k):
        """hoist all translated calls of the expression nodes, then continue with k(env)"""
        # `A || B` / `A && B` as a whole expression (condition, initialiser, return value, right side of an assignment) with a call in B:
        # A is evaluated first (with its calls); B's calls are made only on the branch on which C evaluates B.  The continuation is
        # duplicated, as for an `if`; the operator node carries its value (`_hoisted`) while the continuation is generated.
        for e in exprs:
            if e is None:
                continue
            t = e
            while t.get("kind") == "ParenExpr" or (t.get("kind") == "ImplicitCastExpr" and t.get("castKind") in ("IntegralToBoolean", "IntegralCast", "NoOp")):
                t = t["inner"][0]
            if t.get("kind") == "BinaryOperator" and t.get("opcode") in ("||", "&&") and "_hoisted" not in t and self.real_calls(t["inner"][1]):
                a, b = t["inner"]
                is_or = t["opcode"] == "||"

                def after_a(env2, t=t, a=a, b=b, is_or=is_or):
                    va = self.as_bool(self.expr(a, env2, "bool"))

                    def short(env3):
                        t["_hoisted"] = V("true" if is_or else "false", Ty("bool"), const=is_or)
                        r = self.with_calls(exprs, copy_env(env3), k)
                        t.pop("_hoisted", None)
                        return r

                    def long_(env3):
                        def after_b(env4):
                            vb = self.as_bool(self.expr(b, env4, "bool"))
                            t["_hoisted"] = V(vb.text, Ty("bool"), const=vb.const)
                            r = self.guarded(vb.guards, self.with_calls(exprs, copy_env(env4), k))
                            t.pop("_hoisted", None)
                            return r
                        return self.with_calls([b], copy_env(env3), after_b)
                    if va.const is not None:
                        body = short(env2) if bool(va.const) == is_or else long_(env2)
                    else:
                        s_txt, l_txt = short(env2), long_(env2)
                        body = "if %s then\n%s\nelse\n%s" % (va.text, indent(paren(s_txt if is_or else l_txt), 2), indent(paren(l_txt if is_or else s_txt), 2))
                    return self.guarded(va.guards, body)
                return self.with_calls([a], env, after_a)
        calls = []
        for e in exprs:
            if e is not None:
                calls += self.find_calls(e)
        calls = [c for c in calls if "_hoisted" not in c]

        def go(i, env):
            if i == len(calls):
                return k(env)
            return self.emit_call(calls[i], env, lambda env2: go(i + 1, env2))
        return go(0, env)

    def clear_hoists(self, n):
        if isinstance(n, dict):
            n.pop("_hoisted", None)
            for c in n.get("inner", []):
                self.clear_hoists(c)

    def stmts(self, lst, i, env, ctx):
        """translate lst[i:] followed by ctx['next'](env)"""
        if i == len(lst):
            return ctx["next"](env)
        s = lst[i]
        rest = lambda env2: self.stmts(lst, i + 1, env2, ctx)
        return self.stmt(s, env, dict(ctx, next=rest))

    def is_assert(self, n):
        def has_fail(x):
            if x.get("kind") == "CallExpr":
                try:
                    if self.callee_name(x) == "__assert_fail":
                        return True
                except Untranslatable:
                    pass
            return any(has_fail(c) for c in x.get("inner", []))

        def find_if(x):
            if x.get("kind") == "IfStmt" and len(x["inner"]) == 3 and has_fail(x["inner"][2]):
                return x
            for c in x.get("inner", []):
                r = find_if(c)
                if r is not None:
                    return r
            return None
        if n.get("kind") in ("ParenExpr", "ConditionalOperator", "BinaryOperator") and has_fail(n):
            return find_if(n)
        return None

    def stmt(self, s, env, ctx):
        k = s.get("kind")
        nxt = ctx["next"]
        self.clear_hoists(s) if k not in ("CompoundStmt", "IfStmt", "SwitchStmt") else None
        if k == "NullStmt":
            return nxt(env)
        if k == "CompoundStmt":
            return self.stmts(s.get("inner", []), 0, env, ctx)
        a = self.is_assert(s)
        if a is not None:
            cond = a["inner"][0]
            c = self.as_bool(self.expr(cond, env, "bool"))
            return self.guarded(c.guards + [c.text], nxt(env))
        if k == "DeclStmt":
            decls = [d for d in s.get("inner", []) if d.get("kind") == "VarDecl"]

            def go(j, env):
                if j == len(decls):
                    return nxt(env)
                d = decls[j]
                try:
                    ty = parse_type(d["type"])
                except Untranslatable:
                    if re.match(r"^(?:const\s+)?(?:uint8_t|char|unsigned char)\s*\[[A-Za-z_][A-Za-z0-9_]*\]$", d["type"]["qualType"].strip()):
                        ty = Ty("array", elem=Ty("int", 8, False), n=0)
                    else:
                        raise
                name = d["name"]
                if name in getattr(self.root, "copies", {}) and not self.prefix:
                    src = self.root.copies[name]
                    try:
                        cty = parse_type(d["type"])
                    except Untranslatable:
                        cty = None
                    sinfo = self.vars[src]
                    if cty is not None and ((cty.kind == "ptr" and sinfo["mode"] == "mem") or
                                            (cty.kind == "int" and sinfo["ty"].kind == "int" and cty.bits == sinfo["ty"].bits)):
                        self.vars[name] = {"ty": cty if cty.kind == "ptr" else sinfo["ty"], "mode": "copy", "of": src}
                        env2 = copy_env(env)
                        env2["defined"].add(name)
                        return go(j + 1, env2)
                if ty.kind == "array" and ty.elem.kind == "int" and ty.elem.bits == 8 and ty.n > 0 and self.root.opts.get("localbuf") == name:
                    # the receive buffer: the one memory object of this function (contents unspecified until a callee fills it;
                    # modelled as zeros - the translated functions read it only after the receive call)
                    if self.uses_mem:
                        bad("a second memory object", d)
                    self.root.uses_mem = True
                    self.root.mem_is_local = True
                    self.vars[name] = {"ty": Ty("ptr", elem=ty.elem), "mode": "mem"}
                    env2 = copy_env(env)
                    env2["defined"].add(name)
                    return ("let mem : Nat → BitVec 8 := fun _ => 0#8\nlet msize : Nat := %d\nlet %s : Nat := 0\n%s"
                            % (ty.n, self.ln(name), go(j + 1, env2)))
                vla = re.match(r"^(?:const\s+)?(?:uint8_t|char|unsigned char)\s*\[([A-Za-z_][A-Za-z0-9_]*)\]$", d["type"]["qualType"].strip())
                if vla and vla.group(1) in self.vars and self.uses_mem and name in self.root.memlocals:
                    # a variable-length byte array: an object in memory whose size is the value of an integer variable
                    nv = self.expr({"kind": "DeclRefExpr", "referencedDecl": {"name": vla.group(1), "kind": "VarDecl"}, "type": {"qualType": "x"}}, env)
                    if nv.ty.kind != "int":
                        bad("size of the variable-length array is not an integer", d)
                    self.root.nstack = getattr(self.root, "nstack", 0) + 1
                    # every translated function has pages of its own (a caller may hand a pointer into its page to a translated
                    # callee, whose own objects must lie elsewhere): page number = 4 * (position of the function in FUNCS) + k
                    page = 1048576 * (4 * FUNC_INDEX.get(self.root.name, 0) + self.root.nstack)
                    self.root.pages.add(page)
                    base = "(C.STACK + %d)" % page
                    cnt = str(nv.const) if nv.const is not None else dot(nv.text, "toNat")
                    et = Ty("int", 8, False)
                    self.vars[name] = {"ty": Ty("ptr", elem=Ty("array", elem=et, n=0)), "mode": "memobj", "base": base,
                                       "objty": Ty("array", elem=et, n=0), "bound": "(C.STACK + %d + %s)" % (page, cnt)}
                    # the array must fit into its page and have a positive size (a zero-length VLA is undefined)
                    return self.guarded(nv.guards + ["(decide (0 < %s ∧ %s ≤ 1048576))" % (cnt, cnt)], go(j + 1, env))
                if self.uses_mem and name in self.root.memlocals and ty.kind in ("struct", "array"):
                    # an object whose address is taken: it lives in memory, at an address of its own beyond every buffer
                    if [c for c in d.get("inner", []) if "kind" in c and not c["kind"].endswith("Attr")]:
                        bad("initialiser of an object that lives in memory", d)
                    self.root.nstack = getattr(self.root, "nstack", 0) + 1
                    self.root.pages.add(4096 * self.root.nstack)
                    base = "(C.STACK + %d)" % (4096 * self.root.nstack)
                    size = PROBE.size(self.tu.rel, d["type"].get("desugaredQualType") or d["type"]["qualType"])
                    self.vars[name] = {"ty": Ty("ptr", elem=ty), "mode": "memobj", "base": base, "objty": ty,
                                       "bound": "(C.STACK + %d)" % (4096 * self.root.nstack + size)}
                    return go(j + 1, env)
                if ty.kind == "array" and ty.elem.kind == "int" and ty.elem.bits == 8 and (any(
                        c.get("kind") == "StringLiteral" for c in d.get("inner", [])) or name in self.root.opts.get("opaque", [])):
                    # a message text: only ever handed to a callee that is not translated
                    self.vars[name] = {"ty": ty, "mode": "opaque"}
                    return go(j + 1, env)
                if ty.kind == "struct":
                    struct_info(self.tu, ty.name)
                elif ty.kind == "ptr" and not self.uses_mem and ty.elem.kind in ("int", "bool"):
                    init0 = [c for c in d.get("inner", []) if "kind" in c and not c["kind"].endswith("Attr")]
                    a0 = init0[0] if init0 else None
                    while a0 is not None and a0.get("kind") in ("ImplicitCastExpr", "ParenExpr", "CStyleCastExpr"):
                        a0 = a0["inner"][-1]
                    if a0 is not None and a0.get("kind") in ("MemberExpr", "DeclRefExpr"):
                        pth = self.lvalue_path(a0, env)
                        if pth["ty"].kind == "array":
                            # `const T *p = rec.member_array;`: p[i] is rec.member_array[i]
                            self.vars[name] = {"ty": ty, "mode": "arrayalias", "path": pth}
                            env2 = copy_env(env)
                            env2["defined"].add(name)
                            return go(j + 1, env2)
                    bad("pointer local outside memory mode", d)
                elif ty.kind == "ptr":
                    init0 = [c for c in d.get("inner", []) if "kind" in c and not c["kind"].endswith("Attr")]
                    if init0 and ty.elem.kind == "struct":
                        v0 = self.expr(init0[0], env)
                        if v0.ty.kind == "ptr" and (v0.ty.name or "").startswith("valueptr:"):
                            root = v0.ty.name.split(":", 1)[1]
                            rinfo = self.vars[root]
                            if rinfo["ty"].elem.kind != "struct" or rinfo["ty"].elem.name != ty.elem.name:
                                bad("pointer local of a different record type than the parameter it aliases", d)
                            isconst = bool(re.match(r"^\s*const\b", d["type"]["qualType"]))
                            self.vars[name] = {"ty": rinfo["ty"], "mode": "value" if (isconst or rinfo["mode"] == "value") else rinfo["mode"],
                                               "alias": rinfo.get("alias", root)}
                            env2 = copy_env(env)
                            env2["defined"].add(name)
                            return go(j + 1, env2)
                    if not self.uses_mem:
                        bad("pointer local outside memory mode", d)
                elif ty.kind not in ("int", "bool"):
                    bad("local of unsupported type", d)
                self.vars[name] = {"ty": ty, "mode": "local"}
                init = [c for c in d.get("inner", []) if "kind" in c and not c["kind"].endswith("Attr")]
                if not init:
                    if ty.kind == "struct":
                        # members are assigned one by one; unassigned ones keep this placeholder and reading them is `none`
                        return "let %s : %s := %s.zero\n%s" % (self.ln(name), ty.lean(), ty.lean(), go(j + 1, env))
                    return go(j + 1, env)
                return self.assign_var(name, ty, init[0], env, lambda env2: go(j + 1, env2), decl=True)
            return go(0, env)
        if k == "ReturnStmt":
            if not s.get("inner"):
                if "ret" in ctx:
                    return ctx["ret"](env, None)
                return self.some_result(self.result_value(None))
            e = s["inner"][0]

            def fin(env2):
                v = self.expr(e, env2)
                if self.ret.kind == "int":
                    v = self.as_int(v, self.ret)
                elif self.ret.kind == "bool":
                    v = self.as_bool(v)
                if "ret" in ctx:
                    return self.guarded(v.guards, ctx["ret"](env2, v.text))
                return self.guarded(v.guards, self.some_result(self.result_value(v.text)))
            return self.with_calls([e], env, fin)
        if k == "BreakStmt":
            if "brk" not in ctx:
                bad("break outside switch", s)
            return ctx["brk"](env)
        if k == "IfStmt":
            inner = s["inner"]
            cond, th = inner[0], inner[1]
            el = inner[2] if len(inner) > 2 else None
            self.clear_hoists(cond)
            # `if (A || B) S else T` with a call on the right of the operator: the call must not be hoisted in front of A.  The
            # statement is the same as `if (A) S else if (B) S else T` (and `&&` as `if (A) { if (B) S else T } else T`), where every
            # call is in a strict position again (the continuation is duplicated, as for every `if`).
            cc = cond
            while cc.get("kind") in ("ParenExpr",) or (cc.get("kind") == "ImplicitCastExpr" and cc.get("castKind") in ("IntegralToBoolean", "NoOp", "LValueToRValue")):
                cc = cc["inner"][0]
            if cc.get("kind") == "BinaryOperator" and cc.get("opcode") in ("||", "&&") and self.find_calls(cc["inner"][1]) and any(
                    not (self.callee_name(c) in IGNORED_CALLS or self.callee_name(c) in BSWAP) for c in self.find_calls(cc["inner"][1])):
                a, b = cc["inner"]
                th2 = th
                el2 = el if el is not None else {"kind": "NullStmt", "inner": []}
                if cc["opcode"] == "||":
                    inner_if = {"kind": "IfStmt", "inner": [b, th2, el2], "_line": s.get("_line")}
                    outer = {"kind": "IfStmt", "inner": [a, th2, inner_if], "_line": s.get("_line")}
                else:
                    inner_if = {"kind": "IfStmt", "inner": [b, th2, el2], "_line": s.get("_line")}
                    outer = {"kind": "IfStmt", "inner": [a, inner_if, el2], "_line": s.get("_line")}
                return self.stmt(outer, env, ctx)

            def fin(env2):
                c = self.as_bool(self.expr(cond, env2, "bool"))
                if c.const is not None:
                    taken = th if c.const else el
                    body = self.stmt(taken, copy_env(env2), ctx) if taken is not None else nxt(copy_env(env2))
                    return self.guarded(c.guards, body)
                t_txt = self.stmt(th, copy_env(env2), ctx)
                e_txt = self.stmt(el, copy_env(env2), ctx) if el is not None else nxt(copy_env(env2))
                body = "if %s then\n%s\nelse\n%s" % (c.text, indent(paren(t_txt), 2), indent(paren(e_txt), 2))
                return self.guarded(c.guards, body)
            return self.with_calls([cond], env, fin)
        if k == "SwitchStmt":
            return self.switch(s, env, ctx)
        if k in ("BinaryOperator", "CompoundAssignOperator") and (s.get("opcode") == "=" or k == "CompoundAssignOperator"):
            return self.assign(s, env, nxt)
        if k == "UnaryOperator" and s.get("opcode") in ("++", "--"):
            return self.incdec(s, env, nxt)
        if k == "CallExpr":
            name = self.callee_name(s)
            if name in IGNORED_CALLS:
                return nxt(env)
            if name == "memset":
                return self.memset(s, env, nxt)
            if name == "memcpy" and self.uses_mem:
                d0, s0 = self.expr(s["inner"][1], env), self.expr(s["inner"][2], env)
                if d0.ty.kind == "ptr" and s0.ty.kind == "ptr" and not (d0.ty.name or "").startswith("valueptr") and not (s0.ty.name or "").startswith("valueptr"):
                    if not self.writes_mem:
                        bad("memcpy in a function not declared as writing memory", s)
                    ln_ = self.as_int(self.expr(s["inner"][3], env), Ty("int", 64, False))
                    cnt = str(ln_.const) if ln_.const is not None else dot(ln_.text, "toNat")
                    gs = d0.guards + s0.guards + ln_.guards + ["(decide (%s + %s ≤ %s))" % (d0.text, cnt, bound_of(d0)),
                                                                "(decide (%s + %s ≤ %s))" % (s0.text, cnt, bound_of(s0)),
                                                                "(decide (%s + %s ≤ %s ∨ %s + %s ≤ %s))" % (d0.text, cnt, s0.text, s0.text, cnt, d0.text)]
                    return self.guarded(gs, "let mem : Nat → BitVec 8 := C.memcpy mem %s %s %s\n%s" % (d0.text, s0.text, cnt, nxt(env)))
            if name == "memcpy":
                dst, src = self.bytes_arg(s["inner"][1], env), self.bytes_arg(s["inner"][2], env)
                self.check_whole_size(s["inner"][3], dst, src, s)
                if dst.path["const"]:
                    bad("memcpy into a const object", s)
                root = dst.path["root"]
                info = self.vars[root]
                rty = info["ty"].elem.lean() if info["mode"] in ("value", "inout") else info["ty"].lean()
                env3 = copy_env(env)
                env3["defined"].add(self.path_key(dst.path))
                return "let %s : %s := %s\n%s" % (self.ln(root), rty, self.update_text(dst.path, src.text), nxt(env3))
            if name in NORETURN:
                if "ret" in ctx:
                    bad("noreturn call inside an inlined helper", s)
                return self.some_result(self.result_value("C.NULL" if self.ret.kind == "ptr" else None)) if self.ret.kind in ("ptr", "void") else "none"
            if name in self.translated or self.is_extern(name) or self.inlinable(name):
                return self.with_calls([s], env, nxt)
            bad("call of untranslated function '%s'" % name, s)
        if k in ("ImplicitCastExpr", "CStyleCastExpr", "ParenExpr"):
            return self.stmt(s["inner"][-1], env, ctx)
        if k == "WhileStmt":
            return self.loop(s, env, ctx, cond=s["inner"][0], body=s["inner"][-1], inc=None, test_first=True)
        if k == "ForStmt":
            init, _condvar, cond, inc, body = s["inner"]
            if _condvar and _condvar.get("kind"):
                bad("condition variable in for", s)
            if not cond or not cond.get("kind"):
                cond = {"kind": "IntegerLiteral", "value": "1", "type": {"qualType": "int"}, "_line": s.get("_line")}
            inc = inc if inc and inc.get("kind") else None
            if init and init.get("kind"):
                return self.stmt(init, env, dict(ctx, next=lambda env2: self.loop(s, env2, ctx, cond=cond, body=body, inc=inc, test_first=True)))
            return self.loop(s, env, ctx, cond=cond, body=body, inc=inc, test_first=True)
        if k == "ContinueStmt":
            if "cont" not in ctx:
                bad("continue outside a loop", s)
            return ctx["cont"](env)
        if k == "DoStmt":
            return self.loop(s, env, ctx, cond=s["inner"][1], body=s["inner"][0], inc=None, test_first=False)
        if k == "LabelStmt":
            return self.stmt(s["inner"][-1], env, ctx)
        if k == "GotoStmt":
            tgt = s.get("targetLabelDeclId")
            lab = self.root.labels.get(tgt)
            if lab is None or self.prefix or self.root.done_wrap:
                bad("goto to something else than a label of the function's outermost block", s)
            lst, idx, top_ctx = lab
            if idx <= getattr(self, "cur_top", -1) and False:
                bad("backward goto", s)
            return self.stmts(lst, idx, env, top_ctx)
        bad("unsupported statement", s)

    def try_unroll(self, s, env, ctx, cond, body, inc, budget=16):
        """`for (i = c0; i < c1; i++)`-like loops: if the condition folds to a constant in every round (the loop counter is a known
        constant on this path and the body does not change it in an unknown way), the loop is unrolled; None otherwise"""
        def contains_jump(n):
            if n.get("kind") in ("BreakStmt", "ContinueStmt"):
                return True
            if n.get("kind") in ("ForStmt", "WhileStmt", "DoStmt", "SwitchStmt"):
                return False
            return any(contains_jump(c) for c in n.get("inner", []) if isinstance(c, dict))
        if contains_jump(body):
            return None

        def mentions_var(n):
            if n.get("kind") == "DeclRefExpr" and n.get("referencedDecl", {}).get("kind") in ("VarDecl", "ParmVarDecl"):
                return True
            return any(mentions_var(c) for c in n.get("inner", []) if isinstance(c, dict))
        if not mentions_var(cond):
            return None                 # `while (1)`: not a counted loop
        after = ctx["next"]

        def round_(env2, k):
            try:
                c = self.as_bool(self.expr(cond, env2, "bool"))
            except Untranslatable:
                return None
            if c.const is None or c.guards:
                return None
            if not c.const:
                return after(env2)
            if k >= budget:
                return None

            def nxt(env3):
                if inc is None:
                    r = round_(env3, k + 1)
                else:
                    r = self.stmt(inc, env3, dict(ctx, next=lambda env4: self._unroll_next(round_, env4, k + 1)))
                if r is None:
                    raise _NoUnroll()
                return r
            return self.stmt(body, copy_env(env2), dict(ctx, next=nxt))
        try:
            return round_(copy_env(env), 0)
        except _NoUnroll:
            return None

    def _unroll_next(self, round_, env, k):
        r = round_(env, k)
        if r is None:
            raise _NoUnroll()
        return r

    def find_copies(self, body):
        """locals `T x = (casts) p;` where p is a parameter that is never written and x is never written again and its address is
        never taken: x is p (copy propagation - such a local is not a variable of its own in the translation)"""
        params = set(pn for pn, _, _ in self.params)
        written, inits = set(), {}

        def strip(n):
            while n.get("kind") in ("ImplicitCastExpr", "ParenExpr", "CStyleCastExpr"):
                n = n["inner"][-1]
            return n

        def walk(n):
            k = n.get("kind")
            if k in ("BinaryOperator", "CompoundAssignOperator") and (n.get("opcode") == "=" or k == "CompoundAssignOperator"):
                t = strip(n["inner"][0])
                if t.get("kind") == "DeclRefExpr":
                    written.add(t["referencedDecl"]["name"])
            if k == "UnaryOperator" and n.get("opcode") in ("++", "--", "&"):
                t = strip(n["inner"][0])
                if t.get("kind") == "DeclRefExpr":
                    written.add(t["referencedDecl"]["name"])
            if k == "VarDecl":
                init = [c for c in n.get("inner", []) if "kind" in c and not c["kind"].endswith("Attr")]
                if init:
                    t = strip(init[0])
                    if t.get("kind") == "DeclRefExpr" and t.get("referencedDecl", {}).get("kind") == "ParmVarDecl":
                        inits[n["name"]] = t["referencedDecl"]["name"]
                    else:
                        inits[n["name"]] = None
                else:
                    written.add(n["name"])          # assigned later
            for c in n.get("inner", []):
                if isinstance(c, dict):
                    walk(c)
        walk(body)
        return {x: p_ for x, p_ in inits.items() if p_ is not None and p_ in params and x not in written and p_ not in written
                and self.vars.get(p_, {}).get("mode") in ("mem", "scalar")}

    def var_lean_type(self, name):
        info = self.vars[name]
        if info["mode"] in ("value", "inout"):
            return struct_lean_name(info["ty"].elem.name)
        if info["mode"] == "mem" or info["ty"].kind == "ptr":
            return "Nat"
        return info["ty"].lean()

    def loop(self, s, env, ctx, cond, body, inc, test_first):
        """`while (cond) body` / `for (;cond;inc) body`: an auxiliary definition, structurally recursive on a fuel argument,
        that carries every variable in scope; what follows the loop is translated inside it (continuation passing), so it
        returns the function's result.  Running out of fuel is `none` (a loop that does not terminate has no result)."""
        self.clear_hoists(cond)
        if test_first:
            unrolled = self.try_unroll(s, env, ctx, cond, body, inc)
            if unrolled is not None:
                return unrolled
        if self.prefix:
            bad("loop inside an inlined helper", s)
        self.root.nloops += 1
        lname_ = "%s.loop%d" % (self.name, self.root.nloops)
        live = sorted(v for v in env["defined"] if v in self.vars and "alias" not in self.vars[v] and self.vars[v]["mode"] != "copy")
        params = ["(fuel : Nat)"]
        args = []
        if self.uses_world:
            params.append("(w : %s)" % self.world_type())
            args.append("w")
        if self.uses_mem:
            params.append("(mem : Nat → BitVec 8) (msize : Nat)")
            args += ["mem", "msize"]
        for v in live:
            params.append("(%s : %s)" % (self.ln(v), self.var_lean_type(v)))
            args.append(self.ln(v))
        stepwise = bool(self.root.opts.get("stepwise"))
        if stepwise:
            tup = "(" + ", ".join(args) + ")" if len(args) > 1 else args[0]
            again = lambda env2: "some (.next %s)" % tup
        else:
            again = lambda env2: "%s fuel %s" % (lname_, " ".join(args))
        after = ctx["next"]

        def step(env2):
            if inc is None:
                return again(env2)
            return self.stmt(inc, env2, dict(ctx, next=again))
        inner_ctx = dict(ctx, next=step, brk=lambda env2: after(env2), cont=step)
        env_in = {"defined": set(live), "consts": {}}

        def fin(env2):
            c = self.as_bool(self.expr(cond, env2, "bool"))
            b_txt = self.stmt(body, copy_env(env2), inner_ctx)
            a_txt = after(copy_env(env2))
            return self.guarded(c.guards, "if %s then\n%s\nelse\n%s" % (c.text, indent(paren(b_txt), 2), indent(paren(a_txt), 2)))
        if not test_first:
            # do { body } while (cond): the body first; the test decides between another round and what follows.
            # Variables declared in the body are not in scope of the test in C, but clang resolves the names; the
            # variables carried to the next round are those live before the loop.
            def test(env2):
                def fin2(env3):
                    c = self.as_bool(self.expr(cond, env3, "bool"))
                    return self.guarded(c.guards, "if %s then\n%s\nelse\n%s" % (c.text, indent(paren(again(env3)), 2), indent(paren(after(copy_env(env3))), 2)))
                return self.with_calls([cond], env2, fin2)
            inner_ctx = dict(ctx, next=test, brk=lambda env2: after(env2), cont=test)
            fin = None
        def whole(env_x):
            if test_first:
                return self.with_calls([cond], env_x, fin)
            return self.stmt(body, copy_env(env_x), inner_ctx)
        if stepwise:
            if self.root.done_wrap:
                bad("nested stepwise loops", s)
            self.root.done_wrap = True
            try:
                body_txt = whole(env_in)
            finally:
                self.root.done_wrap = False
            tys = []
            if self.uses_world:
                tys.append(self.world_type())
            if self.uses_mem:
                tys += ["(Nat → BitVec 8)", "Nat"]
            tys += [self.var_lean_type(v) for v in live]
            tupty = " × ".join(tys)
            d1 = "def %s.step %s : Option (C.Step (%s) (%s)) :=\n%s" % (
                lname_, " ".join(params[1:]), self.root.result_type(), tupty, indent(body_txt, 2))
            d2 = ("def %s %s : Option (%s) :=\n  match fuel with\n  | 0 => none\n  | fuel + 1 =>\n    match %s.step %s with\n    | none => none\n"
                  "    | some (.done r_) => some r_\n    | some (.next %s) => %s fuel %s") % (
                lname_, " ".join(params), self.root.result_type(), lname_, " ".join(args), tup, lname_, " ".join(args))
            self.root.aux.append(d1)
            self.root.aux.append(d2)
            return "%s C.FUEL %s" % (lname_, " ".join(args))
        body_txt = whole(env_in)
        d = "def %s %s : Option (%s) :=\n  match fuel with\n  | 0 => none\n  | fuel + 1 =>\n%s" % (
            lname_, " ".join(params), self.root.result_type(), indent(body_txt, 4))
        self.root.aux.append(d)
        return "%s C.FUEL %s" % (lname_, " ".join(args))

    def memset(self, s, env, nxt):
        args = s["inner"][1:]
        a0 = args[0]
        while a0.get("kind") in ("ImplicitCastExpr", "ParenExpr", "CStyleCastExpr"):
            a0 = a0["inner"][-1]
        if a0.get("kind") != "UnaryOperator" or a0.get("opcode") != "&":
            bad("memset of something that is not &local", s)
        p = self.lvalue_path(a0["inner"][0], env)
        if p["steps"] or p["ty"].kind != "struct" or self.vars[p["root"]]["mode"] != "local":
            bad("memset target must be a whole struct local", s)
        if const_value(args[1]) != 0:
            bad("memset with a non-zero byte", s)
        sz = args[2]
        while sz.get("kind") in ("ImplicitCastExpr", "ParenExpr"):
            sz = sz["inner"][0]
        ok = sz.get("kind") == "UnaryExprOrTypeTraitExpr" and sz.get("name") == "sizeof"
        if ok:
            at = sz["argType"]["qualType"] if "argType" in sz else sz["inner"][0]["type"].get("desugaredQualType", sz["inner"][0]["type"]["qualType"])
            ok = strip_quals(at) == p["ty"].name
        if not ok:
            bad("memset size is not sizeof the struct", s)
        env = copy_env(env)
        env["defined"].add(p["root"])
        return "let %s : %s := %s.zero\n%s" % (self.ln(p["root"]), p["ty"].lean(), p["ty"].lean(), nxt(env))

    def assign_var(self, name, ty, rhs, env, nxt, decl=False):
        def fin(env2):
            if ty.kind == "struct":
                v = self.expr(rhs, env2)
                if v.ty.kind != "struct":
                    bad("struct initialiser", rhs)
            else:
                v = self.expr(rhs, env2)
                if ty.kind == "int":
                    v = self.as_int(v, ty)
                elif ty.kind == "bool":
                    v = self.as_bool(v)
            env3 = copy_env(env2)
            env3["defined"].add(name)
            env3.setdefault("consts", {}).pop(name, None)
            if ty.kind == "int" and v.const is not None and self.vars[name]["mode"] == "local":
                env3["consts"][name] = v.const
            if ty.kind == "ptr" and v.text != "C.NULL":
                self.note_bound(name, v, rhs)
            tytxt = "Nat" if ty.kind == "ptr" else ty.lean()
            return self.guarded(v.guards, "let %s : %s := %s\n%s" % (self.ln(name), tytxt, v.text, nxt(env3)))
        return self.with_calls([rhs], env, fin)

    def assign(self, s, env, nxt):
        lhs, rhs = s["inner"]
        compound = s.get("kind") == "CompoundAssignOperator"
        if self.uses_mem and self.mem_addr(lhs, env) is not None:
            return self.store(s, env, nxt)
        try:
            p = self.lvalue_path(lhs, env)
        except Untranslatable as ex:
            # a store to a pointer member that the structure does not model (pointer members are left out: no translated function can
            # read them): the store has no effect on the modelled fields.  Only plain `x->member = <pointer>`.
            t = lhs
            while t.get("kind") == "ParenExpr":
                t = t["inner"][0]
            lq = t.get("type", {}).get("qualType", "") + " " + t.get("type", {}).get("desugaredQualType", "")
            rr = rhs
            while rr.get("kind") in ("ParenExpr", "ImplicitCastExpr", "CStyleCastExpr"):
                rr = rr["inner"][-1]
            if rr.get("kind") == "DeclRefExpr" and self.vars.get(rr.get("referencedDecl", {}).get("name"), {}).get("ident"):
                lq += " *"
            if ("has no supported type" in str(ex) and not compound and t.get("kind") == "MemberExpr" and ("*" in lq)
                    and not self.find_calls(rhs)):
                self.root.dropped_stores = getattr(self.root, "dropped_stores", []) + [t.get("name")]
                return nxt(env)
            raise
        if p["const"]:
            bad("assignment through a pointer to const", s)

        def fin(env2):
            if compound:
                op = s["opcode"][:-1]
                cty = parse_type(s["computeResultType"])
                lty = parse_type(s["computeLHSType"])
                cur = V(self.path_text(p), p["ty"])
                if not p["steps"] and p["ty"].kind == "int" and self.vars[p["root"]]["mode"] == "local" and p["root"] in env2.get("consts", {}):
                    cur = litv(env2["consts"][p["root"]], p["ty"])
                if self.vars[p["root"]]["mode"] == "local" and self.path_key(p) not in env2["defined"] and p["root"] not in env2["defined"]:
                    cur = V("__UNINIT__", p["ty"], ["false"])
                fake = {"kind": "BinaryOperator", "opcode": op, "type": s["computeResultType"], "inner": [None, None]}
                a = self.cast_int(cur, lty) if p["ty"].kind == "int" else cur
                b = self.expr(rhs, env2)
                v = self.binary_vals(fake, a, b, cty)
                v = self.cast_int(v, p["ty"]) if p["ty"].kind == "int" else self.as_bool(v)
            else:
                v = self.expr(rhs, env2)
                if p["ty"].kind == "int":
                    v = self.as_int(v, p["ty"])
                elif p["ty"].kind == "bool":
                    v = self.as_bool(v)
            env3 = copy_env(env2)
            env3["defined"].add(self.path_key(p))
            env3.setdefault("consts", {}).pop(p["root"], None)
            if not p["steps"] and self.vars[p["root"]]["ty"].kind == "ptr" and self.vars[p["root"]]["mode"] == "local" and v.text != "C.NULL":
                self.note_bound(p["root"], v, rhs)
            if (not p["steps"] and p["ty"].kind == "int" and v.const is not None and self.vars[p["root"]]["mode"] == "local"):
                env3["consts"][p["root"]] = v.const
            root = p["root"]
            info = self.vars[root]
            rty = info["ty"].elem.lean() if info["mode"] in ("value", "inout") else ("Nat" if info["ty"].kind == "ptr" else info["ty"].lean())
            return self.guarded(v.guards, "let %s : %s := %s\n%s" % (self.ln(root), rty, self.update_text(p, v.text), nxt(env3)))
        return self.with_calls([rhs], env, fin)

    def store(self, s, env, nxt):
        lhs, rhs = s["inner"]
        if s.get("kind") == "CompoundAssignOperator":
            bad("compound assignment to memory", s)
        if not self.writes_mem:
            bad("store to memory in a function not declared as writing", s)

        def fin(env2):
            addr, gs, ty, bnd = self.mem_addr(lhs, env2)
            if ty.kind != "int":
                bad("store of non-integer", s)
            v = self.as_int(self.expr(rhs, env2), ty)
            w = ty.bits // 8
            gs = list(gs) + list(v.guards) + ["(decide (%s + %d ≤ %s))" % (addr, w, bnd)]
            return self.guarded(gs, "let mem : Nat → BitVec 8 := C.store%d mem %s %s\n%s" % (ty.bits, addr, v.text, nxt(env2)))
        return self.with_calls([lhs, rhs], env, fin)

    def note_bound(self, name, v, node):
        """a pointer local points into one object for its whole life (the bound of its accesses is that object's)"""
        b = bound_of(v)
        cur = self.vars[name].get("bound")
        if cur is None and not self.vars[name].get("bound_set"):
            self.vars[name]["bound"] = None if b == "msize" else b
            self.vars[name]["bound_set"] = b
        elif self.vars[name].get("bound_set") != b:
            bad("pointer local '%s' is assigned pointers into different objects" % name, node)

    def binary_vals(self, fake, a, b, ty):
        """arithmetic on already translated operands (compound assignment)"""
        op = fake["opcode"]
        gs = list(a.guards) + list(b.guards)
        a = self.as_int(a, ty)
        if op in ("<<", ">>"):
            if b.ty.kind == "bool":
                b = self.as_int(b, Ty("int", 32, True))
            cnt = dot(b.text, "toNat")
            if b.const is not None:
                c = sval(b.const, b.ty)
                cnt = str(c)
                if not (0 <= c < ty.bits):
                    gs.append("false")
                    cnt = "0"
            else:
                if b.ty.signed:
                    gs.append("(BitVec.sle %s %s)" % (lit(0, b.ty.bits), b.text))
                gs.append("(decide (%s < %d))" % (cnt, ty.bits))
            if op == ">>":
                txt = "(BitVec.sshiftRight %s %s)" % (a.text, cnt) if ty.signed else "(%s >>> %s)" % (a.text, cnt)
            else:
                txt = "(%s <<< %s)" % (a.text, cnt)
                if ty.signed:
                    gs.append("(BitVec.sle %s %s)" % (lit(0, ty.bits), a.text))
                    gs.append("(BitVec.sshiftRight (%s <<< %s) %s == %s)" % (a.text, cnt, cnt, a.text))
            return V(txt, ty, gs)
        b = self.as_int(b, ty)
        if b.ty.bits != ty.bits or a.ty.bits != ty.bits:
            bad("compound assignment operand width")
        if op in ("+", "-", "*"):
            if ty.signed:
                ov = {"+": "BitVec.saddOverflow", "-": "BitVec.ssubOverflow", "*": "BitVec.smulOverflow"}[op]
                gs.append("(!(%s %s %s))" % (ov, a.text, b.text))
            return V("(%s %s %s)" % (a.text, op, b.text), ty, gs)
        if op in ("&", "|", "^"):
            return V("(%s %s %s)" % (a.text, {"&": "&&&", "|": "|||", "^": "^^^"}[op], b.text), ty, gs)
        if op in ("/", "%") and not ty.signed:
            gs.append("(%s != %s)" % (b.text, lit(0, ty.bits)))
            return V("(%s %s %s)" % (a.text, op, b.text), ty, gs)
        bad("unsupported compound assignment operator %s" % op)

    def incdec(self, s, env, nxt):
        p = self.lvalue_path(s["inner"][0], env)
        ty = p["ty"]
        if ty.kind != "int":
            bad("++/-- on non-integer", s)
        op = "+" if s["opcode"] == "++" else "-"
        cur = self.path_text(p)
        gs = []
        known0 = env.get("consts", {}).get(p["root"]) if not p["steps"] and self.vars[p["root"]]["mode"] == "local" else None
        if ty.bits >= 32 and ty.signed:
            lim = (1 << (ty.bits - 1)) - 1 if op == "+" else (1 << (ty.bits - 1))
            if known0 is None or known0 == lim:       # with a known value the overflow test is decided here
                gs.append("(!(%s %s %s))" % ("BitVec.saddOverflow" if op == "+" else "BitVec.ssubOverflow", cur, lit(1, ty.bits)))
        if self.vars[p["root"]]["mode"] == "local" and self.path_key(p) not in env["defined"] and p["root"] not in env["defined"]:
            gs.append("false")
        root = p["root"]
        info = self.vars[root]
        rty = info["ty"].elem.lean() if info["mode"] in ("value", "inout") else info["ty"].lean()
        env = copy_env(env)
        known = env.get("consts", {}).pop(root, None)
        if known is not None and not p["steps"] and info["mode"] == "local" and not gs:
            newc = (known + (1 if op == "+" else -1)) & ((1 << ty.bits) - 1)
            if not (ty.signed and ((op == "+" and known == (1 << (ty.bits - 1)) - 1) or (op == "-" and known == (1 << (ty.bits - 1))))):
                env["consts"][root] = newc
                return "let %s : %s := %s\n%s" % (self.ln(root), rty, lit(newc, ty.bits), nxt(env))
        return self.guarded(gs, "let %s : %s := %s\n%s" % (self.ln(root), rty, self.update_text(p, "(%s %s %s)" % (cur, op, lit(1, ty.bits))), nxt(env)))

    def switch(self, s, env, ctx):
        cond, body = s["inner"][0], s["inner"][-1]
        self.clear_hoists(cond)
        if body.get("kind") != "CompoundStmt":
            bad("switch body is not a compound statement", s)
        # flatten: list of (labels, stmt)   labels: list of int or 'default'
        items = []

        def add(n, labels):
            k = n.get("kind")
            if k == "CaseStmt":
                v = const_value(n["inner"][0])
                if v is None:
                    bad("case label is not constant", n)
                add(n["inner"][-1], labels + [v])
            elif k == "DefaultStmt":
                add(n["inner"][-1], labels + ["default"])
            else:
                items.append((labels, n))
        for c in body.get("inner", []):
            if c.get("kind") == "DeclStmt":
                items.append(([], c))
            else:
                add(c, [])
        nxt = ctx["next"]
        inner_ctx = dict(ctx, brk=nxt)

        def from_item(j, env2):
            lst = [it[1] for it in items[j:]]
            return self.stmts(lst, 0, env2, dict(inner_ctx, next=nxt))

        def fin(env2):
            v = self.expr(cond, env2)
            if v.ty.kind != "int":
                bad("switch on non-integer", s)
            sw = self.fresh("sw")
            chain = []
            default_j = None
            for j, (labels, _) in enumerate(items):
                for l in labels:
                    if l == "default":
                        default_j = j
                    else:
                        chain.append((l, j))
            txt = nxt(copy_env(env2)) if default_j is None else from_item(default_j, copy_env(env2))
            for l, j in reversed(chain):
                txt = "if %s == %s then\n%s\nelse\n%s" % (sw, lit(l, v.ty.bits), indent(paren(from_item(j, copy_env(env2))), 2), indent(paren(txt), 2))
            return self.guarded(v.guards, "let %s : %s := %s\n%s" % (sw, v.ty.lean(), v.text, txt))
        return self.with_calls([cond], env, fin)

    # ---- whole function ------------------------------------------------------------------
    def translate(self):
        self.setup()
        body = [c for c in self.node["inner"] if c.get("kind") == "CompoundStmt"][0]
        env = {"defined": set(n for n, _, _ in self.params)}

        def fall_off(env2):
            if self.ret.kind == "void":
                return self.some_result(self.result_value(None))
            return "none"
        self.copies = self.find_copies(body)
        self.labels = {}
        top = body.get("inner", [])
        top_ctx = {"next": fall_off}
        for i, st in enumerate(top):
            if st.get("kind") == "LabelStmt":
                self.labels[st.get("declId")] = (top, i, top_ctx)
        txt = self.stmt(body, env, top_ctx)
        if self.pages & self.callee_pages:
            bad("the memory objects of '%s' and of a translated callee would share a page" % self.name)
        if "__UNINIT__" in txt:
            pass
        head = "def %s %s : Option (%s) :=" % (self.name, self.sig(), self.result_type())
        return "".join(a + "\n\n" for a in self.aux) + head + "\n" + indent(txt, 2)


def copy_env(env):
    return {"defined": set(env["defined"]), "consts": dict(env.get("consts", {}))}


def indent(t, n):
    pad = " " * n
    return "\n".join(pad + l if l else l for l in t.split("\n"))


def paren(t):
    if "\n" not in t and (t.startswith("some ") or t == "none"):
        return t
    lines = t.split("\n")
    return "(" + lines[0] + "\n" + "\n".join(" " + l for l in lines[1:]) + ")" if len(lines) > 1 else "(" + t + ")"


# ------------------------------------------------------------------------------------------
# driver
# ------------------------------------------------------------------------------------------

def translate_all():
    tus = {}
    for rel, _, _ in FUNCS:
        if rel not in tus:
            tus[rel] = TU(rel)
    # small helpers of other files that are inlined at their calls (name -> file that defines them)
    for hname, hrel in CROSS_INLINE.items():
        if hrel in tus and hname in tus[hrel].funcs:
            for tu in tus.values():
                tu.funcs.setdefault(hname, tus[hrel].funcs[hname])
    for attempt in range(3):
        STRUCTS.clear()
        del STRUCT_ORDER[:]
        translated, defs, failures = {}, [], []
        for rel, name, opts in FUNCS:
            tu = tus[rel]
            node = tu.funcs.get(name)
            if node is None:
                failures.append((name, "function not found in %s" % rel))
                continue
            fn = Fn(tu, node, opts, translated)
            try:
                txt = fn.translate()
            except Untranslatable as e:
                failures.append((name, str(e)))
                continue
            translated[name] = fn
            defs.append((rel, name, node.get("_line"), txt))
        if not PROBE.pending():
            break
        PROBE.run()
    return defs, failures


HEADER = """/-
  GENERATED by tools/gen_cfuns.py from the current rtrlib source tree -- do not edit.
  Loop-free C functions translated from clang's typed AST (see the translator's header for the rules).
  `none` = the C text has no defined result (failed assert, undefined shift, signed overflow, read of an
  unassigned local, access outside the object).
-/
import RtrModel.CSem

set_option linter.unusedVariables false

namespace %s

""" % NAMESPACE


def main():
    defs, failures = translate_all()
    out = [HEADER]
    out += emit_structs()
    for rel, name, line, txt in defs:
        out.append("/-- `%s` (%s) -/" % (name, rel))
        out.append(txt)
        out.append("")
    out.append("/-- names of the translated functions -/")
    out.append("def translated : List String := [%s]" % ", ".join('"%s"' % d[1] for d in defs))
    out.append("")
    out.append("/-- functions the translator could not translate (name, reason) -/")
    out.append("def untranslated : List (String × String) := [%s]" % ", ".join('("%s", "%s")' % (n, r.replace('"', "'")) for n, r in failures))
    out.append("")
    out.append("end %s" % NAMESPACE)
    text = "\n".join(out) + "\n"
    old = open(OUT).read() if os.path.exists(OUT) else None
    if old != text:
        with open(OUT, "w") as f:
            f.write(text)
    os.makedirs(os.path.dirname(INFO), exist_ok=True)
    with open(INFO, "w") as f:
        json.dump({"translated": [d[1] for d in defs], "failures": failures, "changed": old != text}, f, indent=1)
    for n, r in failures:
        print("gen_cfuns: NOT TRANSLATED %s: %s" % (n, r))
    print("gen_cfuns: %d functions translated, %d not; %s" % (len(defs), len(failures), "rewritten" if old != text else "unchanged"))
    return 3 if failures else 0


if __name__ == "__main__":
    sys.exit(main())
