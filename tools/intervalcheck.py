"""Check C17: timer values stay within protocol bounds whatever the cache sends.

  1. translate   gen_constants.regenerate(): range constants, enumerator values (Generated/Constants.lean)
  2. prove       lake build RtrProps.C17 (theorems over ALL UInt32 values; constants proved equal to the fixed
                 RFC 8210 literals) + axiom audit
  3. tie         harness/consts_harness.c (#includes rtrlib/rtr/packets.c) runs the REAL
                   rtr_check_interval_range / rtr_check_interval_option     directly
                   rtr_init, rtr_mgr_init                                    return values + stored fields
                   rtr_sync on a scripted mock transport (Cache Response + End of Data) -> the socket's fields
                   rtr_wait_for_sync with a fake clock -> the timeout the mock receive function was given
                   rtr_wait_for_sync while the PDU arrives in fragments at scripted times (at the deadline -1/0/+1,
                     header completed at the deadline, remainder at RTR_RECV_TIMEOUT -1/0/+1): EVERY call of the
                     transport receive function with its length, timeout argument and clock reading
                   rtr_start (state-machine thread) against a scripted cache -> trace of sends / waits
                 on boundary values (every range end +-1, 0, 2^32-1) x 4 modes (+ undeclared mode values) x 3
                 fields x protocol versions 0/1 (+ live downgrade, + mismatch), plus seeded random values.
                 The same lines go to the Lean model driver (constdriver); outputs are diffed.
  4. oracle      the property statement in Python with the RFC 8210 literals (NOT the generated constants).
"""
import os
import sys

sys.path.insert(0, os.path.dirname(os.path.abspath(__file__)))
import vlib
import constcheck

THEOREMS = ["Rtr.C17.constants_are_rfc8210", "Rtr.C17.bounds_are_rfc8210", "Rtr.C17.modes_and_versions",
            "Rtr.C17.init_rejects_out_of_range", "Rtr.C17.mgr_init_rejects_out_of_range", "Rtr.C17.eod_intervals",
            "Rtr.C17.in_range_unless_accept_any", "Rtr.C17.history_in_range", "Rtr.C17.accept_any_leaves_range", "Rtr.C17.v0_never_changes",
            "Rtr.C17.sync_timers", "Rtr.C17.sync_v0_never_changes", "Rtr.C17.sync_in_range", "Rtr.C17.poll_deadline",
            "Rtr.C17.poll_deadline_bounded", "Rtr.C17.notify_polls_immediately", "Rtr.C17.notify_then_query",
            "Rtr.C17.trace_polls_within_timeout", "Rtr.C17.recv_slack", "Rtr.C17.frag_poll_deadline",
            "Rtr.C17.frag_then_query"]
MODULES = ["RtrProps.C17"]

# ---- the fixed specification (RFC 8210 section 6; rtr.h / rtr_private.h documentation) -------------------
RANGE = {"refresh": (1, 86400), "retry": (1, 7200), "expire": (600, 172800)}
DEFAULT = {"refresh": 3600, "retry": 600, "expire": 7200}
IGNORE_ANY, ACCEPT_ANY, DEFAULT_MIN_MAX, IGNORE_ON_FAILURE = 0, 1, 2, 3
MODES = [IGNORE_ANY, ACCEPT_ANY, DEFAULT_MIN_MAX, IGNORE_ON_FAILURE]
TYPE = {0: "expire", 1: "refresh", 2: "retry"}           # enum rtr_interval_type
RTR_SUCCESS, RTR_ERROR, RTR_INVALID_PARAM = 0, -1, -2
U32MAX = 2 ** 32 - 1
# a PDU on the wire: 8-byte header, then the rest; once the header has arrived the client grants the cache
# RTR_RECV_TIMEOUT = 60 s for the rest (packets_private.h) - the only slack on "no later than the refresh interval"
HDR_LEN = 8
RECV_SLACK = 60
PDU_BODY = {"notify": 4, "reset": 0, "pfx4": 12}
# classes of fragment timing every run has to exercise (coverage gate)
FRAG_CLASSES = ["header-fragment-at-deadline", "header-fragment-1s-before-deadline", "header-fragment-due-1s-after-deadline",
                "header-complete-at-deadline", "remainder-at-slack-end", "remainder-due-1s-after-slack-end",
                "complete-notify-in-fragments", "wait-already-overdue-with-fragments"]


def in_range(field, v):
    return RANGE[field][0] <= v <= RANGE[field][1]


def all_in_range(r, e, y):
    return in_range("refresh", r) and in_range("expire", e) and in_range("retry", y)


def prescribed(mode, field, cur, sent):
    """unchanged, as sent, clamped to the range, or as sent only if inside the range"""
    lo, hi = RANGE[field]
    if mode == IGNORE_ANY:
        return cur
    if mode == ACCEPT_ANY:
        return sent
    if mode == DEFAULT_MIN_MAX:
        return lo if sent < lo else hi if sent > hi else sent
    if mode == IGNORE_ON_FAILURE:
        return sent if lo <= sent <= hi else cur
    return None            # undeclared mode value: only "in range unless accept-any" is demanded


def boundary(field):
    lo, hi = RANGE[field]
    return sorted(set([0, 1, lo - 1, lo, lo + 1, hi - 1, hi, hi + 1, U32MAX - 1, U32MAX, 65535, 65536, 65536 + lo]) - {-1})


def rnd_u32(r):
    x = r.random()
    if x < 0.3:
        return r.randrange(0, 2 ** 32)
    if x < 0.6:
        return r.randrange(0, 200000)
    f = r.choice(list(RANGE))
    return max(0, min(U32MAX, r.choice(boundary(f)) + r.randrange(-2, 3)))


def rnd_in_range(r, field):
    lo, hi = RANGE[field]
    return r.choice([lo, hi, DEFAULT[field], r.randrange(lo, hi + 1)])


class Op:
    def __init__(self, line, kind, **kw):
        self.line = line
        self.kind = kind
        self.__dict__.update(kw)


# ------------------------------------------------------------------------------------------
# generators
# ------------------------------------------------------------------------------------------

def gen(tier, r):
    ops = []
    mult = 4 if tier == "quick" else 60

    # rtr_check_interval_range
    for f in RANGE:
        lo, hi = RANGE[f]
        for x in boundary(f):
            ops.append(Op("range %d %d %d" % (x, lo, hi), "range", x=x, lo=lo, hi=hi))
    for _ in range(60 * mult):
        x, a, b = rnd_u32(r), rnd_u32(r), rnd_u32(r)
        ops.append(Op("range %d %d %d" % (x, a, b), "range", x=x, lo=a, hi=b))

    # rtr_check_interval_option: modes (declared and not) x types (declared and not) x boundary values
    for mode in MODES + [-1, 4, 7]:
        for ty in [0, 1, 2, 3, -1]:
            f = TYPE.get(ty, "refresh")
            for x in boundary(f):
                cur = dict((k, rnd_in_range(r, k)) for k in RANGE)
                ops.append(Op("opt %d %d %d %d %d %d" % (mode, ty, x, cur["refresh"], cur["expire"], cur["retry"]),
                              "opt", mode=mode, ty=ty, x=x, cur=cur))
    for _ in range(150 * mult):
        mode, ty, x = r.choice(MODES + [r.randrange(-5, 10)]), r.choice([0, 1, 2, r.randrange(-3, 6)]), rnd_u32(r)
        cur = dict((k, rnd_u32(r)) for k in RANGE)
        ops.append(Op("opt %d %d %d %d %d %d" % (mode, ty, x, cur["refresh"], cur["expire"], cur["retry"]),
                      "opt", mode=mode, ty=ty, x=x, cur=cur))

    # rtr_init: each field over its boundary values, the other two valid; all modes
    for f in RANGE:
        for x in boundary(f):
            v = dict((k, rnd_in_range(r, k)) for k in RANGE)
            v[f] = x
            mode = r.choice(MODES)
            ops.append(Op("init %d %d %d %d" % (v["refresh"], v["expire"], v["retry"], mode), "init", v=v, mode=mode))
    for _ in range(80 * mult):
        v = dict((k, (rnd_in_range(r, k) if r.random() < 0.6 else rnd_u32(r))) for k in RANGE)
        mode = r.choice(MODES + [r.randrange(-3, 8)])
        ops.append(Op("init %d %d %d %d" % (v["refresh"], v["expire"], v["retry"], mode), "init", v=v, mode=mode))

    # rtr_mgr_init
    for f in RANGE:
        for x in boundary(f):
            v = dict((k, rnd_in_range(r, k)) for k in RANGE)
            v[f] = x
            sizes = [r.randrange(1, 4) for _ in range(r.randrange(1, 4))]
            ops.append(Op("mgrinit %s %d %d %d" % (",".join(map(str, sizes)), v["refresh"], v["expire"], v["retry"]),
                          "mgrinit", v=v, sizes=sizes))

    # rtr_sync: Cache Response + End of Data; 4 modes x 3 fields x boundary values x version combinations
    now = 5000
    for mode in MODES:
        for f in RANGE:
            for x in boundary(f):
                for (sv, pv) in [(1, 1), (0, 0), (1, 0), (0, 1)]:
                    cur = dict((k, rnd_in_range(r, k)) for k in RANGE)
                    sent = dict((k, (rnd_in_range(r, k) if r.random() < 0.5 else rnd_u32(r))) for k in RANGE)
                    sent[f] = x
                    now += r.randrange(0, 1000)
                    ops.append(eod_op(mode, sv, pv, cur, sent, now))
    for _ in range(200 * mult):
        mode = r.choice(MODES + MODES + [r.randrange(-3, 8)])
        sv, pv = r.choice([(1, 1), (1, 1), (0, 0), (1, 0), (0, 1)])
        cur = dict((k, (rnd_in_range(r, k) if r.random() < 0.7 else rnd_u32(r))) for k in RANGE)
        sent = dict((k, rnd_u32(r)) for k in RANGE)
        ops.append(eod_op(mode, sv, pv, cur, sent, r.randrange(1, 10 ** 9)))

    # the application changes the mode while a response streams in (between the Cache Response and the End of Data): the mode in
    # effect when the End of Data is processed decides what is accepted
    for mode in MODES:
        for mode2 in MODES + [7]:
            for _ in range(3 * mult):
                cur = dict((k, rnd_in_range(r, k)) for k in RANGE)
                sent = dict((k, r.choice([0, 1, rnd_u32(r), RANGE[k][0] - 1 if RANGE[k][0] else 0, RANGE[k][1] + 1])) for k in RANGE)
                ops.append(eod_op(mode, 1, 1, cur, sent, r.randrange(1, 10 ** 9), mode2=mode2))

    # rtr_set_interval_mode: only the four declared modes are accepted
    for cur in MODES + [9]:
        for o in MODES + [-1, 4, 2 ** 31 - 1, r.randrange(-100, 100)]:
            ops.append(Op("setmode %d %d" % (cur, o), "setmode", cur=cur, o=o))

    # rtr_wait_for_sync: clock before / at / after the deadline, refresh at its extremes
    for refresh in [1, 2, 3600, 86400, 0, 86401, U32MAX]:
        for last in [0, 1, 100000]:
            for d in [-5, 0, 1, refresh - 1, refresh, refresh + 1, 2 * refresh + 7]:
                nw = last + d
                if nw < 0:
                    continue
                ev = r.choice(["notify", "other", "timeout", "intr", "error"])
                ops.append(Op("wait %d %d %d %s" % (last, refresh, nw, ev), "wait", last=last, refresh=refresh, now=nw, ev=ev))
    for _ in range(80 * mult):
        last, refresh = r.randrange(0, 10 ** 9), rnd_u32(r)
        nw = max(0, last + r.choice([r.randrange(-100, 100), r.randrange(0, 2 * refresh + 2)]))
        ev = r.choice(["notify", "other", "timeout", "intr", "error"])
        ops.append(Op("wait %d %d %d %s" % (last, refresh, nw, ev), "wait", last=last, refresh=refresh, now=nw, ev=ev))

    ops += gen_waitf(r, mult)

    # the state machine against a scripted cache
    for _ in range(40 * mult):
        mode = r.choice(MODES)
        ver = r.choice([1, 1, 1, 0])
        init = dict((k, rnd_in_range(r, k)) for k in RANGE)
        now0 = r.randrange(0, 10 ** 6)

        def sent_vals():
            if r.random() < 0.5:
                # keep the refresh interval small so that waits are short relative to dt
                return {"expire": rnd_in_range(r, "expire"), "refresh": r.choice([1, 5, 60, 3600, 86400, 0, 86401, U32MAX]),
                        "retry": rnd_in_range(r, "retry")}
            return dict((k, rnd_u32(r)) for k in RANGE)
        s0 = sent_vals()
        evs = []
        # the generator follows the prescribed timeline (spec side) so that fragments can be aimed at the deadline
        cur, _ex = after_eod(mode, ver, dict(init), s0)
        clock, last_sync = now0, now0
        for _ in range(r.randrange(0, 9)):
            k = r.choice("NNTTXIFF")
            t = max(0, last_sync + cur["refresh"] - clock)
            if k == "F":
                s = sent_vals()
                fr = aimed_frags(r, "notify", clock, clock + t)
                evs.append((k, fr, s))
                clock = spec_wait_end(fr, PDU_BODY["notify"], clock, clock + t)[0]
                cur, _ex = after_eod(mode, ver, cur, s)
                last_sync = clock
            elif k in "NT":
                s = sent_vals()
                dt = r.choice([0, 1, 4, 59, 3599, 100000]) if k == "N" else 0
                evs.append((k, dt, s))
                clock += t if k == "T" else min(dt, t)
                cur, _ex = after_eod(mode, ver, cur, s)
                last_sync = clock
            else:
                dt = r.choice([0, 1, 7, 3000, 90000])
                evs.append((k, dt, None))
                clock += min(dt, t)
        ops.append(fsm_op(mode, ver, now0, init, s0, evs))
    return ops


def fsm_op(mode, ver, now0, init, s0, evs):
    words = ["fsm", str(mode), str(ver), str(now0), str(init["refresh"]), str(init["expire"]), str(init["retry"]),
             str(s0["expire"]), str(s0["refresh"]), str(s0["retry"])]
    for k, dt, s in evs:
        if k == "F":
            words.append("F:%s:%d:%d:%d" % (",".join("%d.%d" % f for f in dt), s["expire"], s["refresh"], s["retry"]))
        elif s is not None:
            words.append("%s:%d:%d:%d:%d" % (k, dt, s["expire"], s["refresh"], s["retry"]))
        else:
            words.append("%s:%d" % (k, dt))
    return Op(" ".join(words), "fsm", mode=mode, ver=ver, now=now0, init=init, s0=s0, evs=evs)


# ---- PDUs that arrive in fragments ----------------------------------------------------------------

SIZE_PATTERNS = {
    "notify": [(12,), (8, 4), (1, 7, 4), (7, 1, 4), (1, 1, 6, 2, 2), (4, 4, 1, 3), (1,) * 12, (8, 3, 1), (3,), (8,), (7,), (8, 3), (20,), (5, 30)],
    "reset": [(8,), (1, 7), (7, 1), (4, 3), (2, 2, 2, 2)],
    "pfx4": [(20,), (8, 12), (1, 7, 11, 1), (8, 6), (7, 13)],
}
MAX_DT = 999999


def frags_from_times(sizes, times, start):
    """fragment i is due at absolute time times[i] (non-decreasing, >= start) -> [(dt, n)] or None if a gap is too long"""
    fr, prev = [], start
    for n, t in zip(sizes, times):
        if t < prev or t - prev > MAX_DT:
            return None
        fr.append((t - prev, n))
        prev = t
    return fr


def aimed_frags(r, kind, start, limit):
    """a fragment script whose critical fragment is aimed at the deadline `limit` (-1, 0, +1) and whose remainder is aimed
    at the end of the RTR_RECV_TIMEOUT slack; start <= limit"""
    for _ in range(20):
        sizes = r.choice(SIZE_PATTERNS[kind])
        j = r.randrange(len(sizes))
        anchor = limit + r.choice([-1, 0, 0, 1, -2, 0])
        if anchor < start:
            anchor = start
        times = []
        for i in range(len(sizes)):
            if i < j:
                times.append(min(anchor, start + r.choice([0, 0, 1, i])))
            elif i == j:
                times.append(anchor)
            else:
                times.append(times[-1] + r.choice([0, 0, 1, RECV_SLACK - 1, RECV_SLACK, RECV_SLACK + 1, 7]))
        times = [max(times[:i + 1]) for i in range(len(times))]
        fr = frags_from_times(sizes, times, start)
        if fr is not None:
            return fr
    return [(0, 12)]


def waitf_op(last, refresh, now, kind, fr):
    return Op(("waitf %d %d %d %s %s" % (last, refresh, now, kind, " ".join("%d.%d" % f for f in fr))).strip(), "waitf",
              last=last, refresh=refresh, now=now, pdu=kind, frags=list(fr))


def gen_waitf(r, mult):
    ops = []
    # systematic core: every size pattern x which fragment is the critical one x where it lands relative to the deadline
    # x where the following fragments land relative to the end of the slack
    for refresh in [1, 5, 3600, 86400, 0, U32MAX] + ([2, 60] if mult > 4 else []):
        for last in [1000]:
            offs = sorted(set(d for d in [0, 1, refresh - 1, refresh, refresh + 1, refresh // 2] if d >= 0))
            for d in offs:
                start = last + d
                limit = max(start, last + refresh)
                for kind in ("notify", "reset", "pfx4"):
                    pats = SIZE_PATTERNS[kind]
                    if kind != "notify" and refresh != 5:
                        pats = pats[:1]
                    for sizes in pats:
                        for j in range(len(sizes)):
                            if len(sizes) > 5 and j not in (0, 6, 7, 8, 11):
                                continue
                            for a in (-1, 0, 1):
                                anchor = limit + a
                                if anchor < start:
                                    continue
                                after = [0, 1, RECV_SLACK - 1, RECV_SLACK, RECV_SLACK + 1][(j + a + len(sizes) + d) % 5]
                                times = [start] * j + [anchor] + [anchor + after] * (len(sizes) - j - 1)
                                fr = frags_from_times(sizes, times, start)
                                if fr is not None:
                                    ops.append(waitf_op(last, refresh, start, kind, fr))
    # one byte in the last second of the refresh interval, then silence (the stretch a cache would try)
    for refresh in [1, 5, 100, 3600, 86400]:
        for n in (1, 7):
            ops.append(waitf_op(1000, refresh, 1000, "notify", [(refresh, n)]))
            ops.append(waitf_op(1000, refresh, 1000, "notify", [(max(0, refresh - 1), n), (1, 1)]))
        ops.append(waitf_op(1000, refresh, 1000, "notify", []))
    # byte by byte, one per second, deadline somewhere in the middle
    for refresh in [3, 8, 11, 12, 13, 70, 75]:
        ops.append(waitf_op(500, refresh, 500, "notify", [(1, 1)] * 12))
        ops.append(waitf_op(500, refresh, 500, "pfx4", [(1, 1)] * 20))
        ops.append(waitf_op(500, refresh, 500 + refresh + 5, "notify", [(0, 1)] * 12))
    for _ in range(60 * mult):
        refresh = r.choice([1, 2, 5, 60, 3600, 86400, 0, U32MAX, rnd_u32(r)])
        last = r.randrange(0, 10 ** 9)
        start = max(0, last + r.choice([0, 1, refresh - 1, refresh, refresh + 2, r.randrange(0, refresh + 2)]))
        limit = max(start, last + refresh)
        kind = r.choice(["notify", "notify", "reset", "pfx4"])
        if r.random() < 0.7:
            fr = aimed_frags(r, kind, start, limit)
        else:
            fr = [(r.choice([0, 0, 1, 2, 59, 60, 61, r.randrange(0, 200)]), r.randrange(1, 14)) for _ in range(r.randrange(0, 8))]
        ops.append(waitf_op(last, refresh, start, kind, fr))
    return ops


def spec_wait_end(frags, body, start, limit):
    """the prescribed course of one wait, from the cache's side: fragment i is due at start + dt_1 + .. + dt_i.  The header
    must be complete by `limit` (= max(start, last synchronisation + refresh interval)), the remainder within RECV_SLACK of
    the header's completion.  returns (time the wait ends, 'complete' | 'expired' | 'expired-in-remainder')"""
    t, got, hdr_at = start, 0, None
    for dt, n in frags:
        t += dt
        if hdr_at is None:
            if t > limit:
                return limit, "expired"
            got += n
            if got >= HDR_LEN:
                hdr_at = t
                if body == 0:
                    return t, "complete"
                if got >= HDR_LEN + body:
                    return t, "complete"
        else:
            if t > hdr_at + RECV_SLACK:
                return hdr_at + RECV_SLACK, "expired-in-remainder"
            got += n
            if got >= HDR_LEN + body:
                return t, "complete"
    if hdr_at is None:
        return limit, "expired"
    return hdr_at + RECV_SLACK, "expired-in-remainder"


def eod_op(mode, sv, pv, cur, sent, now, mode2=None):
    if mode2 is not None:
        eff = mode2 if mode2 in MODES else mode
        return Op("eodm %d %d %d %d %d %d %d %d %d %d %d" % (mode, mode2, sv, pv, cur["refresh"], cur["expire"], cur["retry"],
                                                               sent["refresh"], sent["retry"], sent["expire"], now),
                  "eod", mode=eff, sv=sv, pv=pv, cur=cur, sent=sent, now=now)
    return Op("eod %d %d %d %d %d %d %d %d %d %d" % (mode, sv, pv, cur["refresh"], cur["expire"], cur["retry"],
                                                      sent["refresh"], sent["retry"], sent["expire"], now),
              "eod", mode=mode, sv=sv, pv=pv, cur=cur, sent=sent, now=now)


def parse_op(line):
    """corpus lines -> Op (same fields as the generator produces)"""
    w = line.split()
    try:
        if w[0] == "range":
            return Op(line, "range", x=int(w[1]), lo=int(w[2]), hi=int(w[3]))
        if w[0] == "opt":
            return Op(line, "opt", mode=int(w[1]), ty=int(w[2]), x=int(w[3]),
                      cur={"refresh": int(w[4]), "expire": int(w[5]), "retry": int(w[6])})
        if w[0] == "init":
            return Op(line, "init", v={"refresh": int(w[1]), "expire": int(w[2]), "retry": int(w[3])}, mode=int(w[4]))
        if w[0] == "mgrinit":
            return Op(line, "mgrinit", sizes=[int(x) for x in w[1].split(",")],
                      v={"refresh": int(w[2]), "expire": int(w[3]), "retry": int(w[4])})
        if w[0] == "eod":
            return Op(line, "eod", mode=int(w[1]), sv=int(w[2]), pv=int(w[3]),
                      cur={"refresh": int(w[4]), "expire": int(w[5]), "retry": int(w[6])},
                      sent={"refresh": int(w[7]), "retry": int(w[8]), "expire": int(w[9])}, now=int(w[10]))
        if w[0] == "eodm":
            return eod_op(int(w[1]), int(w[3]), int(w[4]), {"refresh": int(w[5]), "expire": int(w[6]), "retry": int(w[7])},
                          {"refresh": int(w[8]), "retry": int(w[9]), "expire": int(w[10])}, int(w[11]), mode2=int(w[2]))
        if w[0] == "setmode":
            return Op(line, "setmode", cur=int(w[1]), o=int(w[2]))
        if w[0] == "wait":
            return Op(line, "wait", last=int(w[1]), refresh=int(w[2]), now=int(w[3]), ev=w[4])
        if w[0] == "waitf":
            fr = []
            for t in w[5:]:
                a, b = t.split(".")
                fr.append((int(a), int(b)))
            if w[4] not in PDU_BODY:
                return None
            return Op(line, "waitf", last=int(w[1]), refresh=int(w[2]), now=int(w[3]), pdu=w[4], frags=fr)
        if w[0] == "fsm":
            evs = []
            for t in w[10:]:
                f = t.split(":")
                if f[0] == "F":
                    fr = [tuple(int(x) for x in g.split(".")) for g in f[1].split(",")]
                    evs.append(("F", fr, {"expire": int(f[2]), "refresh": int(f[3]), "retry": int(f[4])}))
                elif f[0] in "NT":
                    evs.append((f[0], int(f[1]), {"expire": int(f[2]), "refresh": int(f[3]), "retry": int(f[4])}))
                else:
                    evs.append((f[0], int(f[1]), None))
            return Op(line, "fsm", mode=int(w[1]), ver=int(w[2]), now=int(w[3]),
                      init={"refresh": int(w[4]), "expire": int(w[5]), "retry": int(w[6])},
                      s0={"expire": int(w[7]), "refresh": int(w[8]), "retry": int(w[9])}, evs=evs)
    except (ValueError, IndexError):
        pass
    return None


# ------------------------------------------------------------------------------------------
# oracle: the property statement
# ------------------------------------------------------------------------------------------

def after_eod(mode, ver, cur, sent):
    """(fields after an End of Data, exact?) -- exact=False for undeclared mode values, where only the range
    clause applies"""
    if ver == 0:
        return dict(cur), True                  # version-0 exchanges never change the timers
    if mode in MODES:
        return dict((f, prescribed(mode, f, cur[f], sent[f])) for f in RANGE), True
    return None, False


def oracle(op, out):
    """returns a list of messages (empty = the implementation's reply satisfies the property)"""
    w = out.split()
    try:
        if op.kind == "range":
            exp = -1 if op.x < op.lo else 1 if op.x > op.hi else 0
            return [] if int(w[0]) == exp else ["rtr_check_interval_range(%d,%d,%d) = %s, expected %d" % (op.x, op.lo, op.hi, w[0], exp)]
        if op.kind == "opt":
            rc, got = int(w[0]), {"refresh": int(w[1]), "expire": int(w[2]), "retry": int(w[3])}
            if op.ty not in TYPE:
                if rc != RTR_ERROR or got != op.cur:
                    return ["invalid interval type %d: rc=%d fields=%s (expected RTR_ERROR, unchanged)" % (op.ty, rc, got)]
                return []
            f = TYPE[op.ty]
            msgs = []
            if rc != RTR_SUCCESS:
                msgs.append("rc=%d" % rc)
            for k in RANGE:
                if k != f and got[k] != op.cur[k]:
                    msgs.append("%s changed from %d to %d although the %s interval was addressed" % (k, op.cur[k], got[k], f))
            # IGNORE_ANY is implemented by the caller (the End-of-Data branch), not by this function
            p = prescribed(op.mode, f, op.cur[f], op.x) if op.mode != IGNORE_ANY else None
            if p is not None and got[f] != p:
                msgs.append("mode %d, %s: value sent %d, was %d, now %d; the mode prescribes %d" % (op.mode, f, op.x, op.cur[f], got[f], p))
            if op.mode != ACCEPT_ANY and in_range(f, op.cur[f]) and not in_range(f, got[f]):
                msgs.append("mode %d (not accept-any): %s interval left its range: %d" % (op.mode, f, got[f]))
            return msgs
        if op.kind == "init":
            rc = int(w[0])
            ok = all_in_range(op.v["refresh"], op.v["expire"], op.v["retry"])
            if ok:
                if rc != RTR_SUCCESS:
                    return ["rtr_init refused in-range intervals %s (rc=%d)" % (op.v, rc)]
                got = {"refresh": int(w[1]), "expire": int(w[2]), "retry": int(w[3])}
                if got != op.v:
                    return ["rtr_init stored %s for %s" % (got, op.v)]
                return []
            return [] if rc == RTR_INVALID_PARAM else ["rtr_init accepted / mis-reported out-of-range intervals %s (rc=%d)" % (op.v, rc)]
        if op.kind == "mgrinit":
            rc = int(w[0])
            ok = all_in_range(op.v["refresh"], op.v["expire"], op.v["retry"])
            if ok:
                if rc != RTR_SUCCESS or int(w[1]) != sum(op.sizes):
                    return ["rtr_mgr_init refused in-range intervals %s (reply %s)" % (op.v, out)]
                got = {"refresh": int(w[2]), "expire": int(w[3]), "retry": int(w[4])}
                if got != op.v or "mixed" in out:
                    return ["rtr_mgr_init: sockets hold %s for %s (%s)" % (got, op.v, out)]
                return []
            return [] if rc == RTR_INVALID_PARAM else ["rtr_mgr_init accepted / mis-reported out-of-range intervals %s (rc=%d)" % (op.v, rc)]
        if op.kind == "eod":
            rc, got = int(w[0]), {"refresh": int(w[1]), "expire": int(w[2]), "retry": int(w[3])}
            msgs = []
            accepted = (op.sv == op.pv) or (op.sv == 1 and op.pv == 0)      # same version, or live downgrade
            if not accepted:
                if got != op.cur:
                    msgs.append("refused exchange (socket v%d, PDUs v%d) changed the timers: %s -> %s" % (op.sv, op.pv, op.cur, got))
                return msgs
            if rc != RTR_SUCCESS:
                msgs.append("rtr_sync failed (rc=%d) on a well-formed Cache Response + End of Data" % rc)
            exp, exact = after_eod(op.mode, op.pv, op.cur, op.sent)
            if exact and got != exp:
                msgs.append("mode %d, version %d: sent %s, was %s, now %s; prescribed %s" % (op.mode, op.pv, op.sent, op.cur, got, exp))
            if op.mode != ACCEPT_ANY:
                for f in RANGE:
                    if in_range(f, op.cur[f]) and not in_range(f, got[f]):
                        msgs.append("mode %d (not accept-any): %s interval left its range: %d" % (op.mode, f, got[f]))
            return msgs
        if op.kind == "setmode":
            exp = op.o if op.o in MODES else op.cur
            return [] if int(w[0]) == exp else ["rtr_set_interval_mode(%d) on mode %d left mode %s" % (op.o, op.cur, w[0])]
        if op.kind == "wait":
            rc, t = int(w[0]), int(w[1])
            msgs = []
            exp = max(0, op.last + op.refresh - op.now)
            if t != exp:
                msgs.append("timeout handed to the transport = %d, expected max(0, %d + %d - %d) = %d" % (t, op.last, op.refresh, op.now, exp))
            if op.ev in ("notify", "timeout") and rc != RTR_SUCCESS:
                msgs.append("rtr_wait_for_sync = %d on %s (a poll is due)" % (rc, op.ev))
            if op.ev not in ("notify", "timeout") and rc == RTR_SUCCESS:
                msgs.append("rtr_wait_for_sync = success on %s" % op.ev)
            return msgs
        if op.kind == "waitf":
            rc, end = int(w[0]), int(w[1])
            calls = [parse_call(i) for i in w[2:]]
            limit = max(op.now, op.last + op.refresh)
            msgs, sim_end, outcome, classes = oracle_frag_calls(calls, op.frags, PDU_BODY[op.pdu], op.now, limit)
            op.classes = classes
            msgs += oracle_wait_end(end, op.frags, PDU_BODY[op.pdu], op.now, limit, op.pdu == "notify")
            if not calls:
                msgs.append("rtr_wait_for_sync did not call the transport receive function")
            want_rc = RTR_ERROR if (outcome == "complete" and op.pdu != "notify") else RTR_SUCCESS
            if not msgs and rc != want_rc:
                msgs.append("rtr_wait_for_sync = %d after '%s' (%s PDU in fragments), expected %d" % (rc, outcome, op.pdu, want_rc))
            return msgs
        if op.kind == "fsm":
            return oracle_fsm(op, w)
    except (ValueError, IndexError):
        return ["unparsable reply: " + out]
    return []


def parse_call(it):
    """R<len>:<timeout>@<now>"""
    if it[0] != "R":
        raise ValueError(it)
    a, b = it[1:].split("@")
    ln, t = a.split(":")
    return int(ln), int(t), int(b)


def oracle_frag_calls(calls, frags, body, start, limit):
    """the poll-deadline clause on EVERY call of the transport receive function of one wait.  calls = [(len, timeout, now)];
    the wait began at `start`; limit = max(start, last synchronisation + refresh interval).  While the header is incomplete
    a timeout must be non-negative and must not reach beyond `limit`; for the remainder it must be non-negative and must
    not reach beyond header completion + RECV_SLACK.  The transport is replayed from the fragment script to know how many
    bytes each call obtained.  returns (messages, clock at the end, outcome, timing classes exercised)"""
    msgs, classes = [], set()
    fr = [[dt, n] for dt, n in frags]
    got, clock, hdr_at, outcome = 0, start, None, "open"
    for i, (ln, t, nw) in enumerate(calls):
        if outcome != "open":
            msgs.append("receive call #%d at t=%d after the wait was over (%s)" % (i + 1, nw, outcome))
            break
        if nw != clock:
            msgs.append("receive call #%d at t=%d, but the previous transport call returned at t=%d" % (i + 1, nw, clock))
            break
        if t < 0:
            msgs.append("receive call #%d at t=%d: negative timeout %d handed to the transport" % (i + 1, nw, t))
        if hdr_at is None:
            if nw + max(t, 0) > limit:
                msgs.append("receive call #%d at t=%d (%d of %d header bytes read) was given timeout %d: it may block until t=%d, "
                            "later than max(start of the wait %d, last synchronisation + refresh interval) = %d" % (
                                i + 1, nw, got, HDR_LEN, t, nw + t, start, limit))
            if i > 0 and nw == limit:
                classes.add("header-fragment-at-deadline")
            if i > 0 and nw == limit - 1:
                classes.add("header-fragment-1s-before-deadline")
            if fr and nw + fr[0][0] == limit + 1:
                classes.add("header-fragment-due-1s-after-deadline")
            if i == 0 and start == limit and fr:
                classes.add("wait-already-overdue-with-fragments")
        else:
            if nw + max(t, 0) > hdr_at + RECV_SLACK:
                msgs.append("receive call #%d at t=%d (remainder of the PDU, header complete at t=%d) was given timeout %d: it may "
                            "block until t=%d, more than %d s after the header" % (i + 1, nw, hdr_at, t, nw + t, RECV_SLACK))
            if nw == hdr_at + RECV_SLACK and nw > hdr_at:
                classes.add("remainder-at-slack-end")
            if fr and nw + fr[0][0] == hdr_at + RECV_SLACK + 1:
                classes.add("remainder-due-1s-after-slack-end")
        # the scripted transport
        if fr and fr[0][0] <= t:
            clock = nw + fr[0][0]
            fr[0][0] = 0
            k = min(fr[0][1], ln)
            fr[0][1] -= k
            if not fr[0][1]:
                fr.pop(0)
            got += k
            if hdr_at is None and got >= HDR_LEN:
                hdr_at = clock
                if clock == limit and clock > start:
                    classes.add("header-complete-at-deadline")
            if got >= HDR_LEN + body:
                outcome = "complete"
                if len(calls) > 1 and body == PDU_BODY["notify"]:
                    classes.add("complete-notify-in-fragments")
        else:
            clock = nw + max(t, 0)
            outcome = "expired"
    return msgs, clock, outcome, classes


def oracle_wait_end(end, frags, body, start, limit, is_notify):
    """when the wait ends (= when the state machine sends its Serial Query)"""
    want, how = spec_wait_end(frags, body, start, limit)
    bound = limit + (RECV_SLACK if how != "expired" else 0)
    if end > bound:
        return ["the wait that began at t=%d ends at t=%d: later than max(start, last synchronisation + refresh interval) = %d%s" % (
            start, end, limit, " + %d s for the remainder of a PDU whose header arrived in time" % RECV_SLACK if how != "expired" else "")]
    if how == "complete" and is_notify and end != want:
        return ["the Serial Notify was complete at t=%d but the wait ends at t=%d (a notify is answered at once)" % (want, end)]
    if end < start:
        return ["the wait that began at t=%d ends at t=%d" % (start, end)]
    return []


def oracle_fsm(op, items):
    """walk the trace of transport calls of the real state-machine thread"""
    msgs = []
    op.classes = set()
    if any(i.startswith("!") for i in items):
        return ["harness marker in trace: " + " ".join(i for i in items if i.startswith("!"))]

    def parse(it):
        k = it[0]
        if k == "R":
            return ("R",) + parse_call(it)
        a, b = it[1:].split("@")
        return k, int(a), int(b)
    tr = [parse(i) for i in items]
    if not tr or tr[0][0] != "S" or tr[0][1] != 2:
        return ["first transport action is not a Reset Query: %s" % (items[:1],)]
    cur = dict(op.init)
    exp, exact = after_eod(op.mode, op.ver, cur, op.s0)
    cur = exp
    last_sync = op.now
    pos = 1
    evs = list(op.evs)
    while True:
        if pos >= len(tr):
            msgs.append("trace ends without the socket waiting for the next poll")
            break
        k, t, nw = tr[pos]
        if k != "W":
            msgs.append("expected a wait at position %d, got %s" % (pos, items[pos]))
            break
        want = max(0, last_sync + cur["refresh"] - nw)
        if t != want:
            msgs.append("wait at t=%d: timeout %d, but last synchronisation at %d + refresh interval %d prescribes %d" % (
                nw, t, last_sync, cur["refresh"], want))
            break
        if op.mode != ACCEPT_ANY and t > RANGE["refresh"][1] and nw >= last_sync:
            msgs.append("wait of %d s exceeds the maximal refresh interval" % t)
        pos += 1
        if not evs:
            if pos != len(tr):
                msgs.append("unexpected transport actions after the last scripted event: %s" % items[pos:pos + 3])
            break
        ek, dt, sent = evs.pop(0)
        slack = 0
        if ek == "F":
            # a Serial Notify in fragments: every receive call of this wait is in the trace
            calls = []
            while pos < len(tr) and tr[pos][0] == "R":
                calls.append(tr[pos][1:])
                pos += 1
            limit = max(nw, last_sync + cur["refresh"])
            if not calls or calls[0][1] != t or calls[0][2] != nw:
                msgs.append("wait at t=%d with timeout %d: the first receive call is %s" % (nw, t, calls[:1]))
                break
            m2, arrive, outcome, classes = oracle_frag_calls(calls, dt, PDU_BODY["notify"], nw, limit)
            op.classes |= classes
            msgs += m2
            _want, how = spec_wait_end(dt, PDU_BODY["notify"], nw, limit)
            slack = RECV_SLACK if how != "expired" else 0
            if pos < len(tr) and tr[pos][0] == "S":
                msgs += oracle_wait_end(tr[pos][2], dt, PDU_BODY["notify"], nw, limit, True)
            if msgs:
                break
        else:
            arrive = nw + (t if ek == "T" else min(dt, t))
        if ek in "NTF":
            # the poll: a Serial Query, immediately
            if pos >= len(tr) or tr[pos][0] != "S" or tr[pos][1] != 1:
                msgs.append("%s at t=%d is not followed by a Serial Query (next: %s)" % (
                    "Serial Notify" if ek == "N" else "end of the fragmented wait" if ek == "F" else "expiry of the refresh interval",
                    arrive, items[pos:pos + 1]))
                break
            if tr[pos][2] != arrive:
                msgs.append("Serial Query sent at t=%d, the %s was at t=%d" % (tr[pos][2], "notify" if ek == "N" else "expiry", arrive))
            if tr[pos][2] > max(nw, last_sync + cur["refresh"]) + slack:
                msgs.append("poll at t=%d is later than last synchronisation %d + refresh %d" % (tr[pos][2], last_sync, cur["refresh"]))
            pos += 1
            cur, _ = after_eod(op.mode, op.ver, cur, sent)
            last_sync = arrive
        else:
            # no poll; the next action must be another wait at the arrival time
            if pos < len(tr) and tr[pos][0] == "W" and tr[pos][2] != arrive:
                msgs.append("after %s the socket waits again at t=%d, expected t=%d" % (ek, tr[pos][2], arrive))
    return msgs


# ------------------------------------------------------------------------------------------
# run
# ------------------------------------------------------------------------------------------

def clause(op):
    return {"range": "range-check", "opt": "mode-application", "init": "init-range", "mgrinit": "init-range",
            "eod": "eod-intervals" if op.kind == "eod" and op.pv == 1 else "v0-unchanged", "wait": "poll-deadline",
            "setmode": "mode-application", "waitf": "poll-deadline",
            "fsm": "poll-deadline"}[op.kind]


def run(pid, tier):
    return constcheck.guarded_run(_run, pid, tier)


def _run(rep, pid, tier):
    info = constcheck.translate(rep)
    if info is None:
        return rep.finish()
    import cbmccheck
    cb_handle = cbmccheck.start(["intervals"])       # symbolic tie of rtr_check_interval_option to applyIv, every input
    proved = vlib.prove(rep, MODULES, THEOREMS, extra_targets=["constdriver"])
    import cfuncheck
    if pid in cfuncheck.LINKS and pid in cfuncheck.ENABLED:
        cfuncheck.link(rep, pid)     # translation tie: the C text of the small functions = the model, for every input
    if proved and tier == "thorough":
        ok, log = vlib.leanchecker(MODULES[0])
        rep.cov["leanchecker"] = "ok" if ok else "FAILED"
        if not ok:
            proved = False
            rep.build_log = log
    drv = constcheck.ensure_driver(rep)
    if drv is None:
        return rep.finish()
    exe, blog = constcheck.harness()
    if exe is None:
        rep.build_log = blog
        vlib.proof_failure(rep, "harness build against the current tree failed (correspondence consts)")
        return rep.finish()

    r = vlib.rng(pid)
    ops = []
    for _f, ls in constcheck.corpus_lines({"range", "opt", "init", "mgrinit", "eod", "wait", "waitf", "fsm", "setmode"}):
        for l in ls:
            o = parse_op(l)
            if o is not None:
                ops.append(o)
    ncorpus = len(ops)
    ops += gen(tier, r)
    lines = [o.line for o in ops]

    impl, crashes = constcheck.run_impl(exe, lines, max_crashes=4)
    model, mrc, merr = vlib.run_lines(drv, lines)
    if mrc != 0 or len(model) != len(lines):
        rep.build_log = "model driver failed: rc=%s %s" % (mrc, merr[-500:])
        vlib.proof_failure(rep, "model driver constdriver crashed")
        return rep.finish()

    stats = {"corpus_lines": ncorpus, "ops": {}, "rc": {}, "eod_mode_x_version": {}, "eod_field_class": {}, "wait_events": {},
             "fsm_events": {}, "init_outcomes": {}, "crashes": len(crashes), "opt_mode_x_type": {}, "fragment_timing": {},
             "waitf_pdu": {}, "recv_calls_checked": 0}
    fails, diverge = [], []
    distinct = set()
    evals = 0

    def bump(d, k):
        d[k] = d.get(k, 0) + 1
    for k, (op, io, mo) in enumerate(zip(ops, impl, model)):
        if io == "SKIPPED":
            continue
        evals += 1
        bump(stats["ops"], op.kind)
        if io.startswith("CRASH"):
            fails.append((k, "crash", "the implementation aborted: " + io[6:]))
            continue
        bump(stats["rc"], op.kind + ":" + io.split()[0] if op.kind != "fsm" else "fsm:trace")
        if op.kind == "eod":
            bump(stats["eod_mode_x_version"], "m%d:s%dp%d" % (op.mode, op.sv, op.pv))
            for f in RANGE:
                lo, hi = RANGE[f]
                x = op.sent[f]
                c = "0" if x == 0 else "below" if x < lo else "lo" if x == lo else "hi" if x == hi else \
                    "max32" if x == U32MAX else "above" if x > hi else "inside"
                bump(stats["eod_field_class"], f + ":" + c)
        elif op.kind == "opt":
            bump(stats["opt_mode_x_type"], "m%d:t%d" % (op.mode, op.ty))
        elif op.kind == "wait":
            bump(stats["wait_events"], op.ev)
        elif op.kind == "waitf":
            bump(stats["waitf_pdu"], op.pdu)
        elif op.kind == "fsm":
            for e in op.evs:
                bump(stats["fsm_events"], e[0])
        elif op.kind in ("init", "mgrinit"):
            bump(stats["init_outcomes"], op.kind + ":" + io.split()[0])
        if op.kind != "range" or io != "0":
            distinct.add((op.kind, io if op.kind != "fsm" else op.line))
        for m in oracle(op, io):
            fails.append((k, clause(op), m))
        for c in getattr(op, "classes", ()):
            bump(stats["fragment_timing"], c)
        if op.kind in ("waitf", "fsm"):
            stats["recv_calls_checked"] += sum(1 for i in io.split() if i[:1] == "R")
        if io != mo:
            diverge.append((k, io, mo))

    rep.cov.update({
        "evaluations": evals, "distinct_nontrivial": len(distinct),
        "rule": "boundary values of each RFC 8210 range (ends +-1, 0, 2^16 aliases, 2^32-1) x 4 declared modes (+ undeclared mode "
                "values) x 3 fields x versions (1/1, 0/0, live downgrade 1/0, mismatch 0/1) through the real rtr_sync; direct calls of "
                "the range/option functions; rtr_init / rtr_mgr_init on boundary settings; rtr_wait_for_sync with a fake clock before/at/"
                "after the deadline; rtr_wait_for_sync while the PDU arrives in fragments aimed at the deadline -1/0/+1 and at the end "
                "of the RTR_RECV_TIMEOUT slack -1/0/+1 (every transport receive call checked; required timing classes: " + ", ".join(FRAG_CLASSES) +
                "); the real state-machine thread against a scripted cache (incl. fragmented notifies); plus seeded random values.  "
                "distinct_nontrivial = distinct (operation kind, implementation reply) pairs, replies of in-range range checks excluded",
        "traces_validated_against_impl": evals - len(diverge),
        "distribution": stats,
    })
    for o, io in list(zip(ops, impl))[ncorpus + 400:ncorpus + 403] + [(o, io) for o, io in zip(ops, impl) if o.kind == "fsm"][:2]:
        rep.sample({"op": o.line, "impl": io})
    rep.assumptions = ["the transport is a scripted struct tr_socket; the monotonic clock is clock_gettime() of the harness",
                       "the clock advances inside a transport receive call only as scripted (arrival time of a fragment, or the "
                       "timeout the call was given)",
                       "time_t arithmetic does not overflow (clock values < 2^62)"]

    seen = set()
    for k, cl, msg in fails:
        if cl in seen or len(seen) >= 4:
            continue
        seen.add(cl)
        err = ""
        for (ci, sig, e) in crashes:
            if ci == k:
                err = "\n--- sanitizer / abort report ---\n" + e
        rep.violation(cl, "# property C17 (%s) fails on the implementation: %s\n# replay: feed this line to the harness (consts_harness.c)\n"
                      "%s\n# observed: %s\n# model   : %s\n%s" % (cl, msg, lines[k], impl[k], model[k], err),
                      signature="C17/" + cl)
    missing = [c for c in FRAG_CLASSES if not stats["fragment_timing"].get(c)]
    if missing and not fails and not crashes:
        rep.build_log = "fragment timing classes exercised: %r" % (stats["fragment_timing"],)
        vlib.proof_failure(rep, "coverage gate (C17 poll deadline under fragmented delivery): never exercised: " + ", ".join(missing))
    if diverge and not fails:
        k, io, mo = diverge[0]
        rep.build_log = "line %d: %s\n impl : %s\n model: %s" % (k, lines[k], io, mo)
        vlib.proof_failure(rep, "correspondence consts/intervals (RtrModel.Intervals vs packets.c / rtr.c / rtr_mgr.c) diverges")
    cb_failed = cbmccheck.collect(rep, cb_handle)
    if cb_failed and not fails:
        cbmccheck.report_no_input(rep, cb_failed)
    elif not proved and not fails and not diverge:
        vlib.proof_failure(rep, "\n".join(t for t, ok in rep.obligations.items() if not ok))
    return rep.finish()



def replay(path):
    return vlib.generic_replay(path, constcheck.harness, "constdriver")

if __name__ == "__main__":
    sys.exit(run(sys.argv[1] if len(sys.argv) > 1 else "C17", sys.argv[2] if len(sys.argv) > 2 else "quick"))
