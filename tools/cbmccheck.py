#!/usr/bin/env python3
"""CBMC obligations: symbolic checks of small C functions of /repo's current tree against the specification their Lean
model is proved equal to.  They support the tie between model and code (brief: cbmc "may help validate the model against
the code"); they replace no theorem.  Each obligation is a harness in harness/cbmc/<name>.c that #includes the real source
file(s); the domain is complete (all header/field values; the buffer is the real RTR_MAX_PDU_LEN receive buffer; loops are
fully unwound), no depth bound is involved.

  start(names) -> handle ; join(handle) -> {name: result}   (runs in background threads while the correspondence runs)
result: {"ok": bool, "failed": [property descriptions], "inputs": {var: value}, "log": tail, "seconds": s}
"""
import os
import re
import subprocess
import threading
import time

import vlib

CHECKS = ["--bounds-check", "--pointer-check", "--undefined-shift-check", "--signed-overflow-check", "--div-by-zero-check",
          "--object-bits", "12", "--unwind", "130", "--unwinding-assertions"]

OBLIGATIONS = {
    "checksize": "rtr_pdu_check_size == KnownSize (the specification of RtrProps/C04.lean checkSize_spec) and memory-safe on the receive buffer, for every header and nested length",
    "footer": "the in-place byte-order conversions stay inside a size-checked PDU and are undone by the inverse conversion, for every PDU",
    "getbits": "lrtr_get_bits / lrtr_ipv6_get_bits == bit-field extraction (specification of RtrModel/Bits.lean) without undefined shifts, for every argument the trie passes",
}


def _run(name, out):
    t0 = time.time()
    src = os.path.join(vlib.VERIF, "harness", "cbmc", name + ".c")
    gen = vlib._gen_include_dir()
    cmd = ["cbmc", src, "-I" + vlib.REPO, "-I" + os.path.join(vlib.REPO, "third-party"), "-I" + gen, "-I" + os.path.join(gen, "rtrlib"),
           "-DRTRLIB_VERIF", "--trace"] + CHECKS
    try:
        r = subprocess.run(cmd, stdout=subprocess.PIPE, stderr=subprocess.STDOUT, text=True, timeout=900, cwd=vlib.BUILD)
        txt = r.stdout
    except subprocess.TimeoutExpired:
        out[name] = {"ok": False, "failed": ["cbmc timed out"], "inputs": {}, "log": "timeout", "seconds": time.time() - t0, "cmd": " ".join(cmd)}
        return
    ok = "VERIFICATION SUCCESSFUL" in txt
    failed = sorted(set(re.findall(r"^\[[^\]]*\] (.*): FAILURE$", txt, re.M)))
    if not ok and not failed:
        failed = ["cbmc did not complete: " + txt[-400:].replace("\n", " | ")]
    inputs = {}
    for m in re.finditer(r"^  (in_\w+|v|from|number|first|quantity)=(-?\d+)", txt, re.M):
        inputs.setdefault(m.group(1), int(m.group(2)))
    out[name] = {"ok": ok, "failed": failed[:8], "inputs": inputs, "log": txt[-1500:], "seconds": round(time.time() - t0, 1), "cmd": " ".join(cmd)}


def start(names):
    out = {}
    ths = [threading.Thread(target=_run, args=(n, out)) for n in names]
    for t in ths:
        t.start()
    return ths, out


def join(handle):
    ths, out = handle
    for t in ths:
        t.join()
    return out


def checksize_pdu(inputs):
    """the counterexample of `checksize` as a PDU on the wire (first 16 bytes from the trace, zero-filled to its length)"""
    import struct
    ln = inputs.get("in_len", 16)
    b = struct.pack(">BBHI", inputs.get("in_ver", 1) & 0xff, inputs.get("in_type", 10) & 0xff, inputs.get("in_f16", 0) & 0xffff, ln & 0xffffffff)
    b += struct.pack(">II", inputs.get("in_w8", 0) & 0xffffffff, inputs.get("in_w12", 0) & 0xffffffff)
    if ln <= 3248:
        b = (b + b"\0" * ln)[:max(ln, 8)]
    return b


if __name__ == "__main__":
    import json
    import sys
    print(json.dumps(join(start(sys.argv[1:] or list(OBLIGATIONS))), indent=1)[:3000])
