#!/usr/bin/env python3
"""CBMC obligations: symbolic checks of small C functions of /repo's current tree against the specification their Lean
model is proved equal to.  They support the tie between model and code (brief: cbmc "may help validate the model against
the code"); they replace no theorem.  Each obligation is a harness in harness/cbmc/<name>.c that #includes the real source
file(s); the domain is complete (all header/field values; the buffer is the real RTR_MAX_PDU_LEN receive buffer; loops are
fully unwound), no depth bound is involved.

  start(names) -> handle ; join(handle) -> {name: result}   (runs in background threads while the correspondence runs)
result: {"ok": bool, "failed": [property descriptions], "inputs": {var: value}, "log": tail, "seconds": s}
"""
import os
import re
import subprocess
import threading
import time

import vlib

CHECKS = ["--bounds-check", "--pointer-check", "--undefined-shift-check", "--signed-overflow-check", "--div-by-zero-check",
          "--object-bits", "12", "--unwind", "130", "--unwinding-assertions"]

OBLIGATIONS = {
    "checksize": "rtr_pdu_check_size == KnownSize (the specification of RtrProps/C04.lean checkSize_spec) and memory-safe on the receive buffer, for every header and nested length",
    "footer": "the in-place byte-order conversions stay inside a size-checked PDU and are undone by the inverse conversion, for every PDU",
    "intervals": "rtr_check_interval_option == applyIv with the RFC 8210 ranges (take / clamp / keep per interval mode), other timers untouched, for every socket, mode, value and type",
    "getbits": "lrtr_get_bits / lrtr_ipv6_get_bits == bit-field extraction (specification of RtrModel/Bits.lean) without undefined shifts, for every argument the trie passes",
}


def _run(name, out):
    t0 = time.time()
    src = os.path.join(vlib.VERIF, "harness", "cbmc", name + ".c")
    gen = vlib._gen_include_dir()
    cmd = ["cbmc", src, "-I" + vlib.REPO, "-I" + os.path.join(vlib.REPO, "third-party"), "-I" + gen, "-I" + os.path.join(gen, "rtrlib"),
           "-DRTRLIB_VERIF", "--trace"] + CHECKS
    try:
        r = subprocess.run(cmd, stdout=subprocess.PIPE, stderr=subprocess.STDOUT, text=True, timeout=900, cwd=vlib.BUILD)
        txt = r.stdout
    except subprocess.TimeoutExpired:
        out[name] = {"ok": False, "failed": ["cbmc timed out"], "inputs": {}, "log": "timeout", "seconds": time.time() - t0, "cmd": " ".join(cmd)}
        return
    ok = "VERIFICATION SUCCESSFUL" in txt
    failed = sorted(set(re.findall(r"^\[[^\]]*\] (.*): FAILURE$", txt, re.M)))
    if not ok and not failed:
        failed = ["cbmc did not complete: " + txt[-400:].replace("\n", " | ")]
    inputs = {}
    for m in re.finditer(r"^  (in_\w+|v|from|number|first|quantity|e0|r0|y0|val|mode|type)=(-?\d+)", txt, re.M):
        inputs.setdefault(m.group(1), int(m.group(2)))
    out[name] = {"ok": ok, "failed": failed[:8], "inputs": inputs, "log": txt[-1500:], "seconds": round(time.time() - t0, 1), "cmd": " ".join(cmd)}


def start(names):
    out = {}
    ths = [threading.Thread(target=_run, args=(n, out)) for n in names]
    for t in ths:
        t.start()
    return ths, out


def join(handle):
    ths, out = handle
    for t in ths:
        t.join()
    return out


def collect(rep, handle):
    """join, record obligations/coverage in the report, return the failed ones [(name, result)]"""
    cb = join(handle)
    rep.cov["cbmc"] = {k: {"ok": v["ok"], "seconds": v["seconds"], "what": OBLIGATIONS[k]} for k, v in cb.items()}
    rep.cov.setdefault("trusted_base", []).append("cbmc 6.11 (symbolic tie obligations: %s)" % ", ".join(sorted(cb)))
    failed = []
    for k, v in cb.items():
        rep.obligations["cbmc:" + k] = v["ok"]
        if not v["ok"]:
            failed.append((k, v))
    return failed


def report_no_input(rep, failed):
    """a tie obligation fails and no property-level failing input was found"""
    rep.build_log = "\n\n".join("== cbmc obligation %s: %s\nfailed properties: %s\ncounterexample inputs: %s\ncommand: %s\n%s" % (
        k, OBLIGATIONS[k], "; ".join(v["failed"]), v["inputs"], v.get("cmd"), v["log"][-800:]) for k, v in failed)
    vlib.proof_failure(rep, "\n".join("cbmc:%s (%s)" % (k, OBLIGATIONS[k]) for k, v in failed))


def checksize_pdu(inputs):
    """the counterexample of `checksize` as a PDU on the wire (first 16 bytes from the trace, zero-filled to its length)"""
    import struct
    ln = inputs.get("in_len", 16)
    b = struct.pack(">BBHI", inputs.get("in_ver", 1) & 0xff, inputs.get("in_type", 10) & 0xff, inputs.get("in_f16", 0) & 0xffff, ln & 0xffffffff)
    b += struct.pack(">II", inputs.get("in_w8", 0) & 0xffffffff, inputs.get("in_w12", 0) & 0xffffffff)
    if ln <= 3248:
        b = (b + b"\0" * ln)[:max(ln, 8)]
    return b


if __name__ == "__main__":
    import json
    import sys
    print(json.dumps(join(start(sys.argv[1:] or list(OBLIGATIONS))), indent=1)[:3000])


def spec_grid_tie(rep, drv):
    """the C transcription of KnownSize (harness/cbmc/size_spec.h) against the Lean model's checkSize on a grid: every type value 0..12 and
    255, versions 0..2, every length 8..140 plus the extremes, Error Reports with consistent and boundary nested lengths.
    returns list of mismatching PDUs (hex)"""
    import struct
    out = os.path.join(vlib.BUILD, "spec_eval")
    src = os.path.join(vlib.VERIF, "harness", "cbmc", "spec_eval.c")
    hdr = os.path.join(vlib.VERIF, "harness", "cbmc", "size_spec.h")
    if not os.path.exists(out) or os.path.getmtime(out) < max(os.path.getmtime(src), os.path.getmtime(hdr)):
        r = subprocess.run(["gcc", "-O1", "-o", out, src], stdout=subprocess.PIPE, stderr=subprocess.STDOUT, text=True)
        if r.returncode != 0:
            return ["build of spec_eval failed: " + r.stdout[-300:]]
    rnd = vlib.rng("specgrid")
    pdus = []
    lens = list(range(8, 141)) + [3247, 3248]
    for typ in list(range(0, 13)) + [255]:
        for ver in (0, 1, 2):
            for ln in lens:
                body = bytes(rnd.getrandbits(8) for _ in range(ln - 8))
                pdus.append(struct.pack(">BBHI", ver, typ, rnd.getrandbits(16), ln) + body)
    for ln in list(range(16, 80)) + [3248]:
        for enc in sorted({0, 1, 4, 8, ln - 16, ln - 17, ln - 15, max(0, ln - 20), ln, 0xffffffff, 0xfffffff0, 0x80000000} - {-1}):
            if enc < 0:
                continue
            for dt in (0, 1, -1, 5):
                body = bytearray(rnd.getrandbits(8) for _ in range(ln - 8))
                body[0:4] = struct.pack(">I", enc & 0xffffffff)
                if enc + 8 <= ln - 8:
                    txt = ln - 16 - enc + dt
                    body[4 + enc:8 + enc] = struct.pack(">I", txt & 0xffffffff)
                pdus.append(struct.pack(">BBHI", 1, 10, 2, ln) + bytes(body))
    hexes = [p.hex() for p in pdus]
    co, rc, err = vlib.run_lines(out, hexes)
    mo, mrc, merr = vlib.run_lines(drv, ["checksize " + h for h in hexes])
    bad = [h for h, a, b in zip(hexes, co, mo) if a != b]
    if len(co) != len(hexes) or len(mo) != len(hexes):
        bad.append("line count differs: spec %d model %d inputs %d" % (len(co), len(mo), len(hexes)))
    if rep is not None:
        rep.cov["size_spec_grid"] = {"pdus": len(hexes), "accepted": sum(1 for a in co if a == "1"), "mismatches": len(bad)}
    return bad
