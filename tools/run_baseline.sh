#!/bin/sh
# Rebuild /repo/_build (guard RTRLIB_VERIF is OFF: the cmake build never defines it) and run the pinned suite.
set -e
REPO=${VERIF_REPO:-/repo}
if [ ! -f "$REPO/_build/build.ninja" ] && [ ! -f "$REPO/_build/Makefile" ]; then
  cmake -G Ninja -B "$REPO/_build" -S "$REPO" -DCMAKE_BUILD_TYPE=RelWithDebInfo >/dev/null
fi
cmake --build "$REPO/_build" >/dev/null
# test_live_validation and test_dynamic_groups need network access (always_fail in BASELINE.json)
ctest --test-dir "$REPO/_build" -j8 --timeout 900 -E "test_live_validation|test_dynamic_groups" "$@"
