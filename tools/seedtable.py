#!/usr/bin/env python3
"""Print the markdown table of seeded breakages (seeded/*/meta.json) for DESIGN.md."""
import json, os, glob
HERE = os.path.dirname(os.path.dirname(os.path.abspath(__file__)))
rows = []
for d in sorted(glob.glob(os.path.join(HERE, "seeded", "*"))):
    mp = os.path.join(d, "meta.json")
    if not os.path.exists(mp):
        continue
    m = json.load(open(mp))
    e = m.get("evaluation", {})
    what = m.get("what_it_breaks") or m.get("summary") or m.get("what") or m.get("description") or m.get("title") or ""
    if isinstance(what, list):
        what = " ".join(what)
    files = m.get("files_changed") or m.get("files") or m.get("file") or ""
    if isinstance(files, list):
        files = ", ".join(files)
    rows.append((os.path.basename(d), e.get("property", ""), str(files)[:60], str(what).replace("\n", " ").replace("|", "/")[:260],
                 "yes" if e.get("confirmed") else "no",
                 "superseded" if e.get("superseded") else ("DETECTED" if e.get("detected") else "missed"),
                 "; ".join(sorted({l.split("replay=")[1].split("/")[-1].split()[0] for l in e.get("check_lines", []) if "replay=" in l}))[:80]))
import sys
lines = []
def out(x):
    lines.append(x)
out("| seed | property | change (as described by its author) | own demo confirmed | our check | replay |")
out("|---|---|---|---|---|---|")
for r in rows:
    out("| %s | %s | %s %s | %s | %s | %s |" % (r[0], r[1], ("`%s`: " % r[2]) if r[2] else "", r[3], r[4], r[5], r[6]))
out("")
live = [r for r in rows if r[5] != "superseded"]
out("%d seeded changes (+ %d superseded by a repair of /repo, see their meta.json), %d detected." % (
    len(live), len(rows) - len(live), sum(1 for r in live if r[5] == "DETECTED")))
if "--update" in sys.argv:
    dp = os.path.join(HERE, "DESIGN.md")
    d = open(dp).read()
    a, b = d.index("<!-- SEEDTABLE BEGIN -->"), d.index("<!-- SEEDTABLE END -->")
    d = d[:a] + "<!-- SEEDTABLE BEGIN -->\n" + "\n".join(lines) + "\n" + d[b:]
    open(dp, "w").write(d)
else:
    print("\n".join(lines))
