"""Checks C03 C04 C05 C07 C08 C13 C14: proofs about the RTR protocol model (RtrModel.Rtr) +
correspondence with packets.c / rtr.c / transport.c on scripted transports with a fake clock."""
import os
import sys

sys.path.insert(0, os.path.dirname(os.path.abspath(__file__)))
import vlib
import rtrgen
import rtroracle
import rtrpdu as P

PROPS = {
    "C03": {"modules": ["RtrProps.C03"], "theorems": []},
    "C04": {"modules": ["RtrProps.C04"], "theorems": []},
    "C05": {"modules": ["RtrProps.C05"], "theorems": []},
    "C07": {"modules": ["RtrProps.C07"], "theorems": []},
    "C08": {"modules": ["RtrProps.C08"], "theorems": []},
    "C13": {"modules": ["RtrProps.C13"], "theorems": []},
    "C14": {"modules": ["RtrProps.C14"], "theorems": []},
}
try:
    import rtrprops
    PROPS.update(rtrprops.PROPS)
except ImportError:
    pass

EXCLUDE = ["rtrlib/rtr/packets.c", "rtrlib/rtr/rtr.c"]


def split_replies(ops, out):
    """group output lines by op: `run *` replies end with the line 'end', `dump` has 2 lines, others 1.
    Marker lines of the harness (`X ...`: callback log mismatch, printed with the next flush - before a show line, before either line of
    a dump) belong to no reply of their own: they go with the preceding group, so that the replies stay aligned with the ops."""
    res = []
    pos = [0]

    def take(k):
        got = []
        while len(got) < k and pos[0] < len(out):
            l = out[pos[0]]
            pos[0] += 1
            if l.startswith("X ") and res:
                res[-1].append(l)
            else:
                got.append(l)
        return got
    for op in ops:
        i = pos[0]
        if op.startswith("run "):
            j = i
            while j < len(out) and out[j] != "end":
                j += 1
            if j < len(out) and out[i] != "bad-op":
                res.append(out[i:j + 1])
                pos[0] = j + 1
            else:
                res.append(out[i:i + 1])
                pos[0] = i + 1
        elif op == "dump":
            res.append(take(2))
        else:
            res.append(take(1))
    return res


def run_cases(exe, drv, cases, B=40):
    """returns list of (case, impl replies | None, model replies, crash info | None); batches run on a thread pool"""
    from concurrent.futures import ThreadPoolExecutor
    batches = [cases[b0:b0 + B] for b0 in range(0, len(cases), B)]
    with ThreadPoolExecutor(max_workers=vlib.jobs()) as ex:
        parts = list(ex.map(lambda b: run_batch(exe, drv, b), batches))
    return [x for part in parts for x in part]


def run_batch(exe, drv, batch):
    results = []
    for _ in (0,):
        ops = [o for c in batch for o in c.ops]
        mo, mrc, merr = vlib.run_lines(drv, ops)
        io, rc, err = vlib.run_lines(exe, ops, timeout=300)
        mrep = split_replies(ops, mo)
        if rc != 0:
            # isolate
            pos = 0
            for c in batch:
                n = len(c.ops)
                o1, rc1, err1 = vlib.run_lines(exe, c.ops, timeout=120)
                m1 = mrep[pos:pos + n]
                pos += n
                if rc1 != 0:
                    results.append((c, None, m1, (rc1, err1, o1)))
                else:
                    results.append((c, split_replies(c.ops, o1), m1, None))
            continue
        irep = split_replies(ops, io)
        pos = 0
        for c in batch:
            n = len(c.ops)
            results.append((c, irep[pos:pos + n], mrep[pos:pos + n], None))
            pos += n
    return results


MSAN_FLAGS = ["-O1", "-g", "-fsanitize=memory", "-fno-omit-frame-pointer", "-fsanitize-memory-track-origins=1"]


def run_msan(exe, cases, B=40):
    """second build of the same harness under MemorySanitizer: the scripted transport formats every byte it is handed,
    so a byte that stems from uninitialised memory (C14) or a decision taken on one (C04) stops the run.
    returns list of (case, rc, stderr)"""
    from concurrent.futures import ThreadPoolExecutor

    def one(batch):
        bad = []
        ops = [o for c in batch for o in c.ops]
        o, rc, err = vlib.run_lines(exe, ops, timeout=300)
        if rc != 0:
            for c in batch:
                o1, rc1, err1 = vlib.run_lines(exe, c.ops, timeout=120)
                if rc1 != 0:
                    bad.append((c, rc1, err1))
        return bad
    batches = [cases[b0:b0 + B] for b0 in range(0, len(cases), B)]
    with ThreadPoolExecutor(max_workers=vlib.jobs()) as ex:
        parts = list(ex.map(one, batches))
    return [x for part in parts for x in part]


def crash_signature(err):
    import re
    m = re.search(r"MemorySanitizer: ([a-zA-Z-]+)[^\n]*\n(?:.*\n)*?\s+#\d+ \S+ in (rtr_\w+|tr_\w+|pfx_\w+|spki_\w+|lrtr_\w+)", err)
    if m:
        return "msan:%s in %s" % (m.group(1), m.group(2))
    if "MemorySanitizer" in err:
        return "msan:use-of-uninitialized-value"
    m = re.search(r"Assertion `([^']*)' failed", err)
    if m:
        return "assert:" + m.group(1)
    m = re.search(r"runtime error: ([^\n]*)", err)
    if m:
        return "ubsan:" + re.sub(r"0x[0-9a-f]+|\d+", "N", m.group(1))[:90]
    m = re.search(r"ERROR: AddressSanitizer: ([a-zA-Z-]+)", err)
    if m:
        return "asan:" + m.group(1)
    if "TIMEOUT" in err:
        return "hang"
    return "crash"


def sync_oracle(c, rep):
    """rep = impl replies per op; returns oracle failures"""
    idx = [i for i, o in enumerate(c.ops) if o == "show"]
    didx = [i for i, o in enumerate(c.ops) if o == "dump"]
    ridx = [i for i, o in enumerate(c.ops) if o.startswith("run ")]
    if len(idx) < 2 or len(didx) < 2 or not ridx:
        return [], None
    try:
        tr = rtroracle.Trace(rep[ridx[0]])
        fails = rtroracle.check_sync_case(rep[idx[0]][0], rep[didx[0]], tr, rep[idx[1]][0], rep[didx[1]])
    except Exception as ex:      # an oracle bug must not look like a pass
        return [("ORACLE", "oracle exception %r" % (ex,))], None
    return fails, tr


def fsm_oracle(c, rep):
    ridx = [i for i, o in enumerate(c.ops) if o == "run fsm"]
    sidx = [i for i, o in enumerate(c.ops) if o == "show"]
    didx = [i for i, o in enumerate(c.ops) if o == "dump"]
    if not ridx or not sidx:
        return [], None
    try:
        tr = rtroracle.Trace(rep[ridx[0]])
        fails = rtroracle.check_fsm_trace(tr, rep[sidx[0]][0])
        # after rtr_stop none of the socket's records remain, the others are untouched (C07)
        if len(didx) >= 2 and len(rep[didx[1]]) == 2:
            pf0, ks0 = rtroracle.parse_dump(*rep[didx[0]])
            pf1, ks1 = rtroracle.parse_dump(*rep[didx[1]])
            if rtroracle.own(pf1) or rtroracle.own(ks1):
                fails.append(("C07", "records of the socket remain after rtr_stop"))
            if rtroracle.others(pf0) != rtroracle.others(pf1) or rtroracle.others(ks0) != rtroracle.others(ks1):
                fails.append(("C07", "rtr_stop altered records of other sockets"))
        # convergence (C08): the faults are followed by a cache that answers correctly
        if c.meta.get("good_tail") and len(sidx) >= 2 and len(didx) >= 1:
            pf0, ks0 = rtroracle.parse_dump(*rep[didx[0]])
            want_p = sorted(rtrgen.rec_str((p[0], p[1], p[2], p[3], p[4], 0)) for p in c.meta["cache_p"])
            want_k = sorted(rtrgen.key_str((k[0], k[1], k[2], 0)) for k in c.meta["cache_k"])
            v0 = rtroracle.parse_show(rep[sidx[1]][0])["ver"] == 0
            # a version-0 session carries no router keys: keys learned before a downgrade can neither be confirmed nor withdrawn
            states = [e for e in tr.events if e[0] == "state"]
            # protocol time at which the faults ended = clock when the first byte of the good tail was read
            # (the clock is printed with state changes and opens: the first one after that byte)
            cum, t_good, reached = 0, None, False
            for e in tr.events:
                if e[0] in ("state", "open") and e[2] is not None and reached and t_good is None:
                    t_good = e[2]
                elif e[0] == "rx":
                    cum += len(e[1])
                    if cum > c.meta.get("good_from", 0):
                        reached = True
            if not states or states[-1][1] != "ESTABLISHED":
                fails.append(("C08", "after the faults ended the cache answered up to %d queries correctly but the client is not ESTABLISHED (%s)" % (
                    c.meta["good_tail"], states[-1][1] if states else "no state")))
            elif rtroracle.own(pf0) != want_p or (not v0 and rtroracle.own(ks0) != want_k):
                fails.append(("C08", "after the faults ended and the cache answered correctly the client is ESTABLISHED but its records differ from the cache's data set"))
            elif t_good is not None and states[-1][2] is not None:
                iv = [c.meta["refresh"], c.meta["expire"], c.meta["retry"]]
                bound = max(iv[0], 3600) + max(iv[1], 7200) + 8 * max(iv[2], 600) + 8 * 60
                if states[-1][2] - t_good > bound:
                    fails.append(("C08", "convergence took %d s of protocol time after the faults ended (bound refresh+expire+8*retry+8*60 = %d)" % (
                        states[-1][2] - t_good, bound)))
    except Exception as ex:
        return [("ORACLE", "oracle exception %r" % (ex,))], None
    return fails, tr


def cblog_fails(flat_lines):
    """`X cblog ...` lines of the harness: replaying the update callbacks does not give the table contents (C09 prefixes, C10 router keys)"""
    out = []
    for l in flat_lines:
        if l.startswith("X cblog "):
            out.append(("C10" if ("router key" in l or "router-key" in l) else "C09",
                        "the update callbacks are not an exact change log of the table during synchronisation: " + l[8:200]))
    return out


def cblog_scan(rep, pid, tier):
    """used by the C09 / C10 checks: synchronisations and state-machine conversations against tables whose update callbacks feed a
    shadow set inside the harness; returns [(case, message)] for this property"""
    ok, log = vlib.lake_build(["rtrdriver"])
    drv = vlib.driver_path("rtrdriver")
    exe, blog = vlib.build_harness("rtr", ["rtr_harness.c"], exclude=EXCLUDE, flags=vlib.SAN_FLAGS_NOALIGN)
    if exe is None or not os.path.exists(drv):
        return None
    r = vlib.rng(pid + "/cblog")
    cases = [rtrgen.gen_sync_case(r) for _ in range({"quick": 2500, "thorough": 40000}[tier])]

    def run_model(ops):
        o, rc_, err_ = vlib.run_lines(drv, ops)
        return o
    from concurrent.futures import ThreadPoolExecutor
    nf = {"quick": 120, "thorough": 3000}[tier]
    with ThreadPoolExecutor(max_workers=vlib.jobs()) as ex:
        cases += list(ex.map(lambda i: rtrgen.gen_fsm_case(vlib.rng("%s/cblog/fsm/%d" % (pid, i)), run_model), range(nf)))
    found = []
    n_dump = 0
    for c, irep, mrep, crash in run_cases(exe, drv, cases):
        if crash:
            continue
        flat = [l for x in irep for l in x]
        n_dump += sum(1 for l in flat if l.startswith("D pfx") or l.startswith("T pfx"))
        for p, msg in cblog_fails(flat):
            if p == pid:
                found.append((c, msg))
    # reloads with one refused allocation each (every request of the exchange in turn): a copy of the other sources' records that
    # fails half-way must not be swapped in - records would vanish without a callback.  Implementation only (the model has no allocator).
    ra = vlib.rng(pid + "/cblog/allocfail")
    bases = [rtrgen.gen_reload_case(ra) for _ in range({"quick": 3, "thorough": 40}[tier])]
    while not any(b.meta["mut"] == "reload" and b.meta["others_v6"] >= 2 for b in bases):
        bases.append(rtrgen.gen_reload_case(ra))
    probes = [rtrgen.allocfail_variant(b, 10 ** 12) for b in bases]
    counted = {}
    for c, irep, crash in run_impl_cases(exe, probes):
        a = [l for x in (irep or []) for l in x if l.startswith("A ")]
        counted[id(c)] = int(a[0].split()[1]) if a else 0
    variants = []
    for b, pr in zip(bases, probes):
        variants += [rtrgen.allocfail_variant(b, k) for k in range(1, min(counted.get(id(pr), 0), 200) + 1)]
    n_ref = 0
    for c, irep, crash in run_impl_cases(exe, variants):
        if crash:
            continue
        flat = [l for x in irep for l in x]
        n_ref += any(l.startswith("A ") and l.split()[2] == "1" for l in flat)
        n_dump += sum(1 for l in flat if l.startswith("D pfx") or l.startswith("T pfx"))
        for p, msg in cblog_fails(flat):
            if p == pid:
                found.append((c, msg + " (one allocation request of the exchange was refused)"))
    rep.cov["sync_callback_log_allocfail"] = {"scenarios": len(bases), "runs": len(variants), "runs_with_a_refused_request": n_ref}
    rep.cov["sync_callback_log"] = {"conversations": len(cases), "table_dumps_compared_with_callback_replay": n_dump}
    rep.cov["evaluations"] = rep.cov.get("evaluations", 0) + n_dump
    return found


def outcome_key(rep, c):
    """what must not depend on the segmentation: return value, socket, tables, bytes sent"""
    idx = [i for i, o in enumerate(c.ops) if o == "show"]
    didx = [i for i, o in enumerate(c.ops) if o == "dump"]
    ridx = [i for i, o in enumerate(c.ops) if o.startswith("run ")]
    tr = rtroracle.Trace(rep[ridx[0]])
    return (tr.ret, rep[idx[1]][0], tuple(rep[didx[1]]), tuple(tr.sent_bytes()), tuple(e[1] for e in tr.events if e[0] == "state"))


CBMC_FOR = {"C04": ["checksize", "footer", "getbits"], "C14": ["footer"]}


def fsm_outcome_key(rep, c):
    """what must not depend on the segmentation of a conversation: state changes with their times, bytes sent, final socket and tables"""
    ridx = [i for i, o in enumerate(c.ops) if o == "run fsm"]
    sidx = [i for i, o in enumerate(c.ops) if o == "show"]
    didx = [i for i, o in enumerate(c.ops) if o == "dump"]
    tr = rtroracle.Trace(rep[ridx[0]])
    return (tuple(e for e in tr.events if e[0] in ("state", "open", "close", "sleep")), tuple(tr.sent_bytes()),
            rep[sidx[1]][0] if len(sidx) > 1 else None, tuple(rep[didx[0]]) if didx else None)


# ------------------------------------------------------------------------------------------
# Classes of cases beyond the random conversations (each reaches a region that needs something rare): which of them a
# property runs, how many cases per tier.  Every class has a coverage gate: if a run did not exercise what the class exists
# for, the check fails (a generator that silently stops reaching its region would otherwise look like a pass).
# ------------------------------------------------------------------------------------------
EXTRA_CLASSES = {
    "C03": ["keyheavy", "allocfail", "restart", "hugeundo"],
    "C04": ["keyheavy", "restart"],
    "C05": ["restart", "livestop"],
    "C07": ["restart", "livestop", "foreign"],
    "C13": ["restart"],
    "C14": ["sendtime", "restart"],
}
EXTRA_N = {   # class -> (quick, thorough)
    "keyheavy": (6, 120), "keyheavy_big": (1, 6), "allocfail": (4, 80), "restart": (60, 2000), "livestop_bases": (6, 150),
    "livestop_max": (260, 8000), "sendall": (1500, 40000), "sendtime_sync": (250, 6000), "sendtime_fsm": (60, 2000), "foreign": (3, 12),
}


def run_impl_cases(exe, cases, B=40):
    """implementation only - for schedules the model does not describe (a stop request in the middle of a transport call, a refused
    allocation, time passing inside write calls): the property oracles decide.  returns [(case, replies | None, crash | None)]"""
    from concurrent.futures import ThreadPoolExecutor

    def one(batch):
        ops = [o for c in batch for o in c.ops]
        io, rc, err = vlib.run_lines(exe, ops, timeout=300)
        out = []
        if rc != 0:
            for c in batch:
                o1, rc1, err1 = vlib.run_lines(exe, c.ops, timeout=120)
                out.append((c, None, (rc1, err1, o1)) if rc1 != 0 else (c, split_replies(c.ops, o1), None))
            return out
        irep = split_replies(ops, io)
        pos = 0
        for c in batch:
            out.append((c, irep[pos:pos + len(c.ops)], None))
            pos += len(c.ops)
        return out
    batches = [cases[b0:b0 + B] for b0 in range(0, len(cases), B)]
    with ThreadPoolExecutor(max_workers=vlib.jobs()) as ex:
        parts = list(ex.map(one, batches))
    return [x for part in parts for x in part]


def sync_multi_oracle(c, rep):
    """every `run sync` of a case (several exchanges against one socket), each with the show/dump pair before and after it"""
    fails = []
    last_tr = None
    try:
        for i, o in enumerate(c.ops):
            if not o.startswith("run sync"):
                continue
            if i < 2 or i + 2 >= len(c.ops) or c.ops[i - 2] != "show" or c.ops[i - 1] != "dump" or c.ops[i + 1] != "show" or c.ops[i + 2] != "dump":
                continue
            tr = rtroracle.Trace(rep[i])
            last_tr = tr
            fails += rtroracle.check_sync_case(rep[i - 2][0], rep[i - 1], tr, rep[i + 1][0], rep[i + 2])
            b = rtroracle.parse_show(rep[i - 2][0])
            fails += rtroracle.check_report_codes(rep[i - 1], tr, bool(b["req"]) and b["lu"] != 0 or bool(b["reset"]))
            fails += rtroracle.check_write_ops(rep[i])
    except Exception as ex:
        return [("ORACLE", "oracle exception %r" % (ex,))], None
    return fails, last_tr


def fsm_multi_oracle(c, rep):
    """every run of the state machine in a case (stop/start cycles of one socket): the trace oracles on each run together with the
    rtr_stop that ends it (a later run starts from what the show before it says: version kept, first query a Reset Query), and
    after every stop: none of the socket's records remain, the others are untouched"""
    fails = []
    last_tr = None
    try:
        runs = [i for i, o in enumerate(c.ops) if o == "run fsm"]
        for n, i in enumerate(runs):
            nxt = runs[n + 1] if n + 1 < len(runs) else len(c.ops)
            shows = [j for j in range(i) if c.ops[j] == "show"]
            if not shows or rep[i] == ["bad-op"]:
                continue
            stop_j = next((j for j in range(i + 1, nxt) if c.ops[j] == "run stop"), None)
            lines = list(rep[i]) + (list(rep[stop_j]) if stop_j is not None else [])
            tr = rtroracle.Trace(lines)
            last_tr = tr
            for f in rtroracle.check_fsm_trace(tr, rep[shows[-1]][0]):
                fails.append((f[0], ("run %d of the socket: " % (n + 1) if n else "") + f[1]))
            fails += rtroracle.check_write_ops(lines)
            if stop_j is not None:
                d0 = [j for j in range(i + 1, stop_j) if c.ops[j] == "dump"]
                d1 = [j for j in range(stop_j + 1, nxt) if c.ops[j] == "dump"]
                if d0 and d1 and len(rep[d0[-1]]) == 2 and len(rep[d1[0]]) == 2:
                    pf0, ks0 = rtroracle.parse_dump(*rep[d0[-1]])
                    pf1, ks1 = rtroracle.parse_dump(*rep[d1[0]])
                    if rtroracle.own(pf1) or rtroracle.own(ks1):
                        fails.append(("C07", "records of the socket remain after rtr_stop"))
                    if rtroracle.others(pf0) != rtroracle.others(pf1) or rtroracle.others(ks0) != rtroracle.others(ks1):
                        fails.append(("C07", "rtr_stop altered records of other sockets (%d + %d before, %d + %d after)" % (
                            len(rtroracle.others(pf0)), len(rtroracle.others(ks0)), len(rtroracle.others(pf1)), len(rtroracle.others(ks1)))))
    except Exception as ex:
        return [("ORACLE", "oracle exception %r" % (ex,))], None
    return fails, last_tr


def transport_calls(lines):
    return sum(1 for l in lines if l[:2] in ("O ", "W ", "R "))


def eod_completed_after_stop(lines):
    """live stop: did the stop request arrive during a receive call after which the thread still completed an End of Data PDU?"""
    k = next((i for i, l in enumerate(lines) if l.startswith("X stop-request")), None)
    if k is None or "(recv)" not in lines[k]:
        return False
    before = sum(1 for l in lines[:k] if l.startswith("R ") and l.split()[4].isdigit())
    # the state callback of rtr_stop runs on the other thread while the receive call is in progress: not an event of this exchange
    j = next((i for i in range(k, len(lines)) if lines[i].startswith("S SHUTDOWN")), None)
    tr = rtroracle.Trace([l for i, l in enumerate(lines) if i != j])
    seen = 0
    for e in tr.events:
        if e[0] == "rx":
            seen += 1
        elif e[0] == "pdu" and seen > before and e[2] and len(e[1]) >= 2 and e[1][1] == P.EOD:
            return True
    return False


def extra_classes(pid, tier, exe, drv, run_model, fsm_done):
    """runs the classes of EXTRA_CLASSES[pid]; `fsm_done` = [(case, impl replies)] of conversations that have already run (bases for
    the live-stop sweep).  returns dict(fails, divergences, crashes, stats, gates) - gates: [(class, text)] that were not met"""
    T = 0 if tier == "quick" else 1
    classes = EXTRA_CLASSES.get(pid, [])
    fails, divergences, crashes, gates = [], [], [], []
    stats = {}
    from concurrent.futures import ThreadPoolExecutor

    def both(cases, oracle):
        for c, irep, mrep, crash in run_cases(exe, drv, cases, B=20):
            if crash:
                crashes.append((c, crash))
                continue
            flat_i = [l for x in irep for l in x]
            flat_m = [l for x in mrep for l in x]
            d = vlib.first_divergence(flat_i, flat_m)
            if d is not None:
                divergences.append((c, d, flat_i[d] if d < len(flat_i) else "<eof>", flat_m[d] if d < len(flat_m) else "<eof>"))
            fs, _tr = oracle(c, irep)
            for f in fs + cblog_fails(flat_i):
                fails.append((c, f))
            yield c, irep

    def impl(cases, oracle):
        for c, irep, crash in run_impl_cases(exe, cases):
            if crash:
                crashes.append((c, crash))
                continue
            fs, _tr = oracle(c, irep)
            for f in fs + cblog_fails([l for x in irep for l in x]):
                fails.append((c, f))
            yield c, irep

    # minimised histories of these classes that once failed: corpus/rtr/*.mops (implementation and model), *.xops (implementation
    # only); a line `allocfail *` stands for one copy of the case per allocation request (1..60)
    def auto_oracle(c, rep):
        return (fsm_multi_oracle if "run fsm" in c.ops else sync_multi_oracle)(c, rep)
    cdir = os.path.join(vlib.VERIF, "corpus", "rtr")
    xcorp, mcorp = [], []
    for f in sorted(os.listdir(cdir)) if os.path.isdir(cdir) else []:
        if not f.endswith((".xops", ".mops")):
            continue
        lines = [l.strip() for l in open(os.path.join(cdir, f)) if l.strip() and not l.startswith("#")]
        for k in (range(1, 61) if "allocfail *" in lines else [None]):
            c = rtrgen.FsmCase() if "run fsm" in lines else rtrgen.SyncCase()
            c.ops = [("allocfail %d" % k) if l == "allocfail *" else l for l in lines]
            c.meta = {"mut": "corpus:" + f + ("" if k is None else " k=%d" % k), "good_tail": 0, "used": ["corpus"]}
            (xcorp if f.endswith(".xops") else mcorp).append(c)
    if classes:
        stats["corpus"] = {"cases": len(xcorp) + len(mcorp)}
        for _c, _irep in impl(xcorp, auto_oracle):
            pass
        for _c, _irep in both(mcorp, auto_oracle):
            pass

    if "keyheavy" in classes:
        r = vlib.rng(pid + "/keyheavy")
        bit, _divs = rtrgen.hashlin_params()
        cases = [rtrgen.gen_keyheavy_case(r, b=bit + 1, recipe="shrink_grow")]
        cases += [rtrgen.gen_keyheavy_case(r) for _ in range(EXTRA_N["keyheavy"][T] - 1)]
        # a table of 2^(bit+5) buckets (more than 1000 keys) costs the model seconds: quick tier only where memory safety is the property
        n_big = EXTRA_N["keyheavy_big"][T] if (pid == "C04" or tier != "quick") else 0
        cases += [rtrgen.gen_keyheavy_case(r, b=bit + 5, recipe="shrink_grow") for _ in range(n_big)]
        cases += [rtrgen.gen_keyheavy_case(r, b=bit + 3, recipe="shrink_grow")]
        st = {"cases": len(cases), "exchanges": 0, "max_keys": 0, "shrink_then_grow": 0, "sizes": {}}
        for c, irep in both(cases, sync_multi_oracle):
            st["exchanges"] += sum(1 for o in c.ops if o == "run sync")
            st["max_keys"] = max([st["max_keys"]] + c.meta["counts"])
            st["shrink_then_grow"] += c.meta["stg"] is not None
            st["sizes"][str(c.meta["b"])] = st["sizes"].get(str(c.meta["b"]), 0) + 1
        stats["keyheavy"] = st
        if not st["shrink_then_grow"] or st["max_keys"] <= (1 << (bit + 1)) or (n_big and st["max_keys"] <= (1 << (bit + 4))):
            gates.append(("keyheavy", "no router-key history that grows a table past its initial size, withdraws into an unfinished shrink and "
                          "grows again ran to the end (shrink-then-grow cases %d, largest key set %d, initial table size 2^%d)" % (
                              st["shrink_then_grow"], st["max_keys"], bit)))

    if "allocfail" in classes:
        r = vlib.rng(pid + "/allocfail")
        bases = [rtrgen.gen_reload_case(r) for _ in range(EXTRA_N["allocfail"][T])]
        while not any(b.meta["mut"] == "reload" and b.meta["others_v6"] >= 2 for b in bases):
            bases.append(rtrgen.gen_reload_case(r))
        counted = {}
        probes = [rtrgen.allocfail_variant(b, 10 ** 12) for b in bases]       # no refusal: counts the requests of the exchange
        for c, irep in impl(probes, sync_multi_oracle):
            a = [l for x in irep for l in x if l.startswith("A ")]
            counted[id(c)] = int(a[0].split()[1]) if a else 0
        variants = []
        n_req = []
        for b, pr in zip(bases, probes):
            nreq = min(counted.get(id(pr), 0), 200)
            n_req.append(nreq)
            variants += [rtrgen.allocfail_variant(b, k) for k in range(1, nreq + 1)]
        st = {"scenarios": len(bases), "reloads": sum(1 for b in bases if b.meta["mut"] == "reload"), "requests": n_req, "runs": len(variants),
              "refused": 0, "ret": {}}
        for c, irep in impl(variants, sync_multi_oracle):
            flat = [l for x in irep for l in x]
            st["refused"] += any(l.startswith("A ") and l.split()[2] == "1" for l in flat)
            for l in flat:
                if l.startswith("ret "):
                    st["ret"][l.split()[1]] = st["ret"].get(l.split()[1], 0) + 1
        stats["allocfail"] = st
        if st["refused"] < 10 or not st["reloads"]:
            gates.append(("allocfail", "fewer than 10 synchronisations ran with a refused allocation (%d), or no reload among them" % st["refused"]))

    if "hugeundo" in classes:
        r = vlib.rng(pid + "/hugeundo")
        cases = [rtrgen.gen_hugeundo_case(r, "pfx")] + ([rtrgen.gen_hugeundo_case(r, "key")] if tier != "quick" else [rtrgen.gen_hugeundo_case(r, "key", n=65536)])
        st = {"cases": len(cases), "pdus": [c.meta["n"] for c in cases], "refused_and_undone": 0}
        for c, irep in impl(cases, sync_multi_oracle):
            ri = c.ops.index("run sync")
            tr = rtroracle.Trace(irep[ri])
            after = irep[ri + 2]
            st["refused_and_undone"] += (tr.ret is not None and tr.ret != 0 and len(after) <= 8)
        stats["hugeundo"] = st
        if st["refused_and_undone"] < len(cases):
            gates.append(("hugeundo", "an incremental response of more than 2^16 PDUs followed by a refused PDU did not end in a refused "
                          "exchange with the earlier table contents (%d of %d)" % (st["refused_and_undone"], len(cases))))

    if "restart" in classes:
        n = EXTRA_N["restart"][T]

        def gen_one(i):
            ri = vlib.rng("%s/restart/%d" % (pid, i))
            return rtrgen.gen_fsm_restart_case(ri, run_model, second_ver=0 if i % 2 == 0 else None)
        with ThreadPoolExecutor(max_workers=vlib.jobs()) as ex:
            cases = list(ex.map(gen_one, range(n)))
        st = {"cases": len(cases), "second_run_v0_answer_to_v1_socket": 0, "second_runs_with_data": 0, "first_query_reset": 0}
        for c, irep in both(cases, fsm_multi_oracle):
            runs = [i for i, o in enumerate(c.ops) if o == "run fsm"]
            if len(runs) < 2 or irep[runs[1]] == ["bad-op"]:
                continue
            shows = [j for j in range(runs[1]) if c.ops[j] == "show"]
            s1 = rtroracle.parse_show(irep[shows[-1]][0])
            tr2 = rtroracle.Trace(irep[runs[1]])
            first_pdu = next((e for e in tr2.events if e[0] == "pdu"), None)
            if s1["ver"] == 1 and s1["hasrecv"] == 1 and first_pdu and len(first_pdu[1]) >= 2 and first_pdu[1][0] == 0 and first_pdu[1][1] != P.ERROR:
                st["second_run_v0_answer_to_v1_socket"] += 1
            st["second_runs_with_data"] += any(e[0] == "state" and e[1] == "ESTABLISHED" for e in tr2.events)
            sent = [x for seg in tr2.sent_bytes() for x in P.decode_stream(seg)[0]]
            st["first_query_reset"] += bool(sent) and sent[0]["type"] == P.RESET_QUERY
        stats["restart"] = st
        if not st["second_run_v0_answer_to_v1_socket"] or not st["second_runs_with_data"]:
            gates.append(("restart", "no stop/start cycle in which a socket that had received PDUs at version 1 was restarted and answered "
                          "with a lower version first (%d), or none whose second run synchronised (%d)" % (
                              st["second_run_v0_answer_to_v1_socket"], st["second_runs_with_data"])))

    if "livestop" in classes:
        r = vlib.rng(pid + "/livestop")
        bases = []
        for ver in (1, 0):
            b = rtrgen.simple_conversation(r, ver)
            (bc, birep, bcrash), = run_impl_cases(exe, [b])
            if birep is not None:
                bases.append((b, birep))
        for c, irep in fsm_done:
            if len(bases) >= EXTRA_N["livestop_bases"][T] + 2:
                break
            if c.meta.get("mut") == "fsm" and "run fsm" in c.ops:
                bases.append((c, irep))
        variants = []
        for b, irep in bases:
            i = b.ops.index("run fsm")
            ncalls = transport_calls(irep[i])
            for k in range(1, ncalls + 1):
                if len(variants) < EXTRA_N["livestop_max"][T]:
                    variants.append(rtrgen.livestop_variant(r, b, k))
        st = {"conversations": len(bases), "runs": len(variants), "stopped_in": {}, "call_completed_after_stop": 0, "eod_completed_after_stop": 0,
              "restarts": 0}
        for c, irep in impl(variants, fsm_multi_oracle):
            i = c.ops.index("run fsm")
            j = c.ops.index("run stop")
            lines = list(irep[i]) + list(irep[j])
            x = [l for l in lines if l.startswith("X stop-request")]
            if x:
                what = x[0].split("(")[-1].rstrip(")")
                st["stopped_in"][what] = st["stopped_in"].get(what, 0) + 1
                k = lines.index(x[0])
                st["call_completed_after_stop"] += any(l[:2] in ("O ", "W ", "R ") for l in lines[k + 1:])
                st["eod_completed_after_stop"] += eod_completed_after_stop(lines)
            runs = [n for n, o in enumerate(c.ops) if o == "run fsm"]
            st["restarts"] += len(runs) > 1 and irep[runs[1]] != ["bad-op"]
        stats["livestop"] = st
        if st["eod_completed_after_stop"] < 2 or len(st["stopped_in"]) < 3 or not st["restarts"]:
            gates.append(("livestop", "the sweep of rtr_stop over the transport calls of a conversation did not reach: a stop during each kind of call "
                          "(%s), at least two stops during a receive after which the thread still completed an End of Data (%d), restarts (%d)" % (
                              st["stopped_in"], st["eod_completed_after_stop"], st["restarts"])))

    if "foreign" in classes:
        r = vlib.rng(pid + "/foreign")
        lits = sorted(set(x + e for x in vlib.source_literals()["ints"] if 255 <= x <= 1100 for e in (0, 1)) - {255, 300})
        sizes = ([300] + lits)[:EXTRA_N["foreign"][T]]
        cases = [rtrgen.gen_foreign_node_case(r, n, expiry) for n in sizes for expiry in (False, True)]
        st = {"cases": len(cases), "records_on_one_prefix": sizes, "purged_with_foreign_node": 0}
        for c, irep in both(cases, fsm_multi_oracle):
            i = c.ops.index("run fsm")
            d = [j for j in range(i) if c.ops[j] == "show"]
            flat = [l for x in irep for l in x]
            st["purged_with_foreign_node"] += any(l.startswith(("T pfx", "D pfx")) and len(l.split()) - 2 >= c.meta["n"] for l in flat)
        stats["foreign"] = st
        if st["purged_with_foreign_node"] < 2 or max(sizes) < 257:
            gates.append(("foreign", "no stop / expiry ran against a prefix that carries more than 256 records of another source"))

    if "sendtime" in classes:
        r = vlib.rng(pid + "/sendtime")
        # (a) the loop of tr_send_all alone: implementation = model, and its return value means what rtr_send_pdu takes it for
        lines, pdus = [], []
        for _ in range(EXTRA_N["sendall"][T]):
            l, pdu = rtrgen.gen_sendall_line(r)
            lines.append(l)
            pdus.append(pdu)
        io, rc, err = vlib.run_lines(exe, ["sock 3600 7200 600 1"] + lines, timeout=300)
        mo, mrc, merr = vlib.run_lines(drv, ["sock 3600 7200 600 1"] + lines)
        st = {"sendall_calls": len(lines), "late_partial": 0, "ret": {}}
        cl = rtrgen.SyncCase()
        cl.meta = {"mut": "sendall"}
        if rc != 0:
            cl.ops = ["sock 3600 7200 600 1"] + lines
            crashes.append((cl, (rc, err, io)))
        else:
            def groups(out):
                g, cur = [], []
                for l in out[1:]:
                    cur.append(l)
                    if l == "end":
                        g.append(cur)
                        cur = []
                return g
            gi, gm = groups(io), groups(mo)
            for k, (l, pdu) in enumerate(zip(lines, pdus)):
                ci = rtrgen.SyncCase()
                ci.ops = ["sock 3600 7200 600 1", l]
                ci.meta = {"mut": "sendall"}
                out = gi[k] if k < len(gi) else []
                for f in rtroracle.check_sendall(pdu, out):
                    fails.append((ci, f))
                if k >= len(gm) or out != gm[k]:
                    d = next((x for x in range(min(len(out), len(gm[k]) if k < len(gm) else 0)) if out[x] != gm[k][x]), 0)
                    divergences.append((ci, d, out[d] if d < len(out) else "<eof>", gm[k][d] if k < len(gm) and d < len(gm[k]) else "<eof>"))
                # (counted on the model's reply: what the schedule is does not depend on what the implementation makes of it)
                w = [x.split() for x in (gm[k] if k < len(gm) else []) if x.startswith("V ")]
                st["late_partial"] += any(int(a[2]) < 0 for a in w)
                for x in out:
                    if x.startswith("ret "):
                        key = "complete" if int(x.split()[1]) >= 0 else x.split()[1]
                        st["ret"][key] = st["ret"].get(key, 0) + 1
        # (b) whole exchanges and conversations on such a link: what reaches the transport is still a sequence of complete PDUs
        rs = vlib.rng(pid + "/sendtime/sync")
        sync_cases = []
        muts = ["bad_flags", "dup", "unknown_wd", "bad_length", "unknown_type", "bad_version", "eod_session", "hostile_len", "key_bad_flags", "cr_session",
                "unexpected_type", "error_nested_len"]
        for k in range(EXTRA_N["sendtime_sync"][T]):
            sync_cases.append(rtrgen.with_send_time(rs, rtrgen.gen_sync_case(rs, force_mut=muts[k % len(muts)]), at=0 if k % 2 == 0 else None))
        st["exchanges"] = len(sync_cases)
        st["partial_then_more"] = 0
        for c, irep in impl(sync_cases, sync_multi_oracle):
            flat = [l for x in irep for l in x]
            ws = [l.split() for l in flat if l.startswith("W ")]
            st["partial_then_more"] += any(a[3].isdigit() and int(a[3]) < int(a[1]) for a in ws)
        fsm_cases = []
        for c, irep in fsm_done[:EXTRA_N["sendtime_fsm"][T]]:
            if "run fsm" in c.ops:
                fsm_cases.append(rtrgen.with_send_time(rs, c))
        st["conversations"] = len(fsm_cases)
        for c, irep in impl(fsm_cases, fsm_multi_oracle):
            flat = [l for x in irep for l in x]
            ws = [l.split() for l in flat if l.startswith("W ")]
            st["partial_then_more"] += any(a[3].isdigit() and int(a[3]) < int(a[1]) for a in ws)
        stats["sendtime"] = st
        if st["late_partial"] < 20 or st["partial_then_more"] < 20:
            gates.append(("sendtime", "too few write schedules with a partial write after which the send deadline had passed (%d direct calls, %d "
                          "exchanges / conversations)" % (st["late_partial"], st["partial_then_more"])))
    return {"fails": fails, "divergences": divergences, "crashes": crashes, "stats": stats, "gates": gates}


def run(pid, tier):
    rep = vlib.Report(pid, tier)
    Pp = PROPS[pid]
    cb_handle = None
    if pid in CBMC_FOR:
        import cbmccheck
        cb_handle = cbmccheck.start(CBMC_FOR[pid])      # symbolic tie of small C functions; runs while the rest proceeds
    proved = True
    if Pp["theorems"]:
        proved = vlib.prove(rep, Pp["modules"], Pp["theorems"], extra_targets=["rtrdriver"])
    else:
        ok, log = vlib.lake_build(["rtrdriver"])
        rep.cov["checker_cmd"] = "(no theorem registered yet for this property)"
        rep.cov["trusted_base"] = []
    import cfuncheck
    if pid in cfuncheck.LINKS and pid in cfuncheck.ENABLED:
        cfuncheck.link(rep, pid)     # translation tie: the C text of the small functions = the model, for every input
    if pid in ("C01", "C02", "C09", "C10", "C03"):
        import lockcheck
        lockcheck.gate(rep, pid)     # the sequential theorems are claimed for shared tables: one critical section per call
    drv = vlib.driver_path("rtrdriver")
    exe, blog = vlib.build_harness("rtr", ["rtr_harness.c"], exclude=EXCLUDE, flags=vlib.SAN_FLAGS_NOALIGN)
    if exe is None or not os.path.exists(drv):
        rep.build_log = blog
        vlib.proof_failure(rep, "harness/driver build failed (correspondence rtr)")
        return rep.finish()

    r = vlib.rng(pid)
    n_sync = {"quick": 6000, "thorough": 150000}[tier]
    cases = []
    cdir = os.path.join(vlib.VERIF, "corpus", "rtr")
    ncorpus = 0
    if os.path.isdir(cdir):
        for f in sorted(os.listdir(cdir)):
            if f.endswith(".ops"):
                c = rtrgen.SyncCase()
                c.ops = [l.strip() for l in open(os.path.join(cdir, f)) if l.strip() and not l.startswith("#")]
                c.meta = {"mut": "corpus:" + f}
                cases.append(c)
                ncorpus += 1
    for i in range(n_sync):
        cases.append(rtrgen.gen_sync_case(r))
    # chunk-independence variants for a sample
    variants = []
    for c in cases[ncorpus:ncorpus + n_sync // 6]:
        if c.meta.get("mut") in ("fault",):
            continue
        variants.append((c, rtrgen.rechunk_case(r, c, "bytes")))
        variants.append((c, rtrgen.rechunk_case(r, c, "whole")))
    # state-machine conversations (generated reactively against the model driver)
    def run_model(ops):
        o, rc_, err_ = vlib.run_lines(drv, ops)
        return o
    n_fsm = {"quick": 600, "thorough": 20000}[tier]
    fsm_cases = []
    rf = vlib.rng(pid + "/fsm")
    fdir = os.path.join(vlib.VERIF, "corpus", "rtr")
    if os.path.isdir(fdir):
        for f in sorted(os.listdir(fdir)):
            if f.endswith(".fsm"):
                c = rtrgen.FsmCase()
                c.ops = [l.strip() for l in open(os.path.join(fdir, f)) if l.strip() and not l.startswith("#")]
                c.meta = {"mut": "corpus:" + f, "used": ["corpus"], "good_tail": 0}
                fsm_cases.append(c)
    from concurrent.futures import ThreadPoolExecutor

    def gen_one(i):
        ri = vlib.rng("%s/fsm/%d" % (pid, i))       # one PRNG per case, derived from VERIF_SEED: order-independent, replays exactly
        if i % 4 == 3:
            return rtrgen.gen_fsm_case(ri, run_model, nsteps=ri.randrange(1, 6), good_tail=16)
        return rtrgen.gen_fsm_case(ri, run_model)
    with ThreadPoolExecutor(max_workers=vlib.jobs()) as ex:
        fsm_cases += list(ex.map(gen_one, range(n_fsm)))
    # chunk independence of whole conversations (wait_for_sync with an expired timer, partial headers across reconnects ...)
    fsm_variants = []
    rv = vlib.rng(pid + "/fsmchunk")
    for c in fsm_cases[:max(40, len(fsm_cases) // 3)]:
        for mode in ("bytes", "whole"):
            v = rtrgen.rechunk_case(rv, c, mode)
            v.meta = dict(c.meta)
            v.meta["good_tail"] = 0          # the convergence oracle runs on the original only
            v.meta["mut"] = "fsm-rechunk-" + mode
            fsm_variants.append((c, v))
    allcases = cases + [v for _, v in variants] + fsm_cases + [v for _, v in fsm_variants]
    fsm_ids = set(id(c) for c in fsm_cases) | set(id(v) for _, v in fsm_variants)
    results = run_cases(exe, drv, allcases)
    msan_bad, msan_n = [], 0
    if pid in ("C04", "C14"):
        mexe, mlog = vlib.build_harness("rtr_msan", ["rtr_harness.c"], exclude=EXCLUDE, flags=MSAN_FLAGS, link=["-fsanitize=memory"],
                                        cc="clang-14", variant="msan")
        if mexe is None:
            rep.build_log = mlog
            vlib.proof_failure(rep, "MemorySanitizer build of the rtr harness failed")
        else:
            msan_cases = cases + [v for _, v in variants] + (fsm_cases if tier == "thorough" else fsm_cases[:60])
            msan_n = len(msan_cases)
            msan_bad = run_msan(mexe, msan_cases)
    byid = {id(c): (irep, mrep, crash) for (c, irep, mrep, crash) in results}
    stats = {"cases": len(allcases), "corpus": ncorpus, "mut": {}, "ret": {}, "states": {}, "errcodes": {}, "crashes": 0,
             "rechunk_pairs": len(variants)}
    distinct = set()
    divergences, fails, crashes = [], [], []
    for c, irep, mrep, crash in results:
        m = c.meta.get("mut", "?")
        stats["mut"][m] = stats["mut"].get(m, 0) + 1
        if crash:
            stats["crashes"] += 1
            crashes.append((c, crash))
            continue
        flat_i = [l for x in irep for l in x]
        flat_m = [l for x in mrep for l in x]
        d = vlib.first_divergence(flat_i, flat_m)
        if d is not None:
            divergences.append((c, d, flat_i[d] if d < len(flat_i) else "<eof>", flat_m[d] if d < len(flat_m) else "<eof>"))
        if id(c) in fsm_ids:
            fs, tr = fsm_oracle(c, irep)
            stats["fsm"] = stats.get("fsm", 0) + 1
            for u in c.meta.get("used", []):
                stats.setdefault("fsm_steps", {})
                stats["fsm_steps"][u] = stats["fsm_steps"].get(u, 0) + 1
        else:
            fs, tr = sync_oracle(c, irep)
        for f in fs:
            fails.append((c, f))
        for f in cblog_fails(flat_i):
            fails.append((c, f))
        if tr is not None:
            stats["ret"][str(tr.ret)] = stats["ret"].get(str(tr.ret), 0) + 1
            for e in tr.events:
                if e[0] == "state":
                    stats["states"][e[1]] = stats["states"].get(e[1], 0) + 1
            for seg in tr.sent_bytes():
                for p in P.decode_stream(seg)[0]:
                    if p["type"] == P.ERROR:
                        stats["errcodes"][str(p["f16"])] = stats["errcodes"].get(str(p["f16"]), 0) + 1
            distinct.add((m, tr.ret, tuple(e[1] for e in tr.events if e[0] == "state"), len(tr.consumed)))
    # chunk independence (C04)
    for base, var in variants:
        bi, vi = byid.get(id(base)), byid.get(id(var))
        if not bi or not vi or bi[2] or vi[2]:
            continue
        try:
            if outcome_key(bi[0], base) != outcome_key(vi[0], var):
                fails.append((var, ("C04", "outcome depends on how the stream is split into reads")))
        except Exception as ex:
            fails.append((var, ("ORACLE", "rechunk comparison failed: %r" % (ex,))))

    for base, var in fsm_variants:
        bi, vi = byid.get(id(base)), byid.get(id(var))
        if not bi or not vi or bi[2] or vi[2]:
            continue
        try:
            if fsm_outcome_key(bi[0], base) != fsm_outcome_key(vi[0], var):
                fails.append((var, ("C04", "the outcome of a conversation depends on how the stream is split into reads (compare with the same script, bytes merged: %s)" % (
                    " ".join(o for o in base.ops if o.startswith("tape "))[:1500]))))
        except Exception as ex:
            fails.append((var, ("ORACLE", "fsm rechunk comparison failed: %r" % (ex,))))
    stats["fsm_rechunk_pairs"] = len(fsm_variants)

    # classes of cases beyond the random conversations (EXTRA_CLASSES): own generators, oracles and coverage gates
    import time
    t_x = time.time()
    xr = extra_classes(pid, tier, exe, drv, run_model,
                       [(c, byid[id(c)][0]) for c in fsm_cases if id(c) in byid and byid[id(c)][0] is not None and not byid[id(c)][2]])
    fails += xr["fails"]
    divergences += xr["divergences"]
    crashes += xr["crashes"]
    stats["crashes"] += len(xr["crashes"])
    stats["classes"] = xr["stats"]
    stats["classes_wall_s"] = round(time.time() - t_x, 1)
    n_extra = sum(v.get(k, 0) for v in xr["stats"].values() for k in ("cases", "runs", "sendall_calls", "exchanges", "conversations")
                  if isinstance(v.get(k, 0), int))

    rep.cov.update({
        "evaluations": len(allcases) + n_extra, "distinct_nontrivial": len(distinct),
        "rule": "one response (valid, or with one mutation: duplicate, unknown withdrawal, bad flags, session mismatch, unexpected/unknown type, "
                "error PDU, bad length, bad version, truncation, transport fault, hostile prefix lengths, host bits, ...) against a prepared socket and "
                "pre-populated tables (own + two other sources), random segmentation into reads, optional partial/failed writes; distinct = distinct "
                "(mutation, return, state-callback sequence, bytes consumed)",
        "traces_validated_against_impl": len(allcases) - len(divergences) - len(crashes),
        "distribution": stats,
    })
    for c in cases[ncorpus:ncorpus + 2]:
        rep.sample({"mutation": c.meta.get("mut"), "ops": [o[:160] for o in c.ops[-8:]]})
    rep.assumptions = ["thread cancellation is not exercised (the script ends by a stop request observed in recv)",
                       "the transport delivers at least one byte per successful recv/send call"]
    if xr["stats"]:
        rep.assumptions.append("classes beyond the model (implementation + property oracles only): rtr_stop from another thread during the k-th transport "
                               "call (every k of a conversation; the call then completes), the k-th allocation of an exchange refused (every k), "
                               "write calls that take time inside whole exchanges; stop/start cycles, router-key-heavy exchanges, tr_send_all with "
                               "the clock and a crowded foreign prefix run on model and implementation")

    rep.cov["msan_runs"] = msan_n
    cb_failed = []
    if cb_handle is not None:
        cb = cbmccheck.join(cb_handle)
        rep.cov["cbmc"] = {k: {"ok": v["ok"], "seconds": v["seconds"], "what": cbmccheck.OBLIGATIONS[k]} for k, v in cb.items()}
        rep.cov.setdefault("trusted_base", []).append("cbmc 6.11 (symbolic tie of rtr_pdu_check_size / byte-order conversions / lrtr_get_bits to their specifications)")
        for k, v in cb.items():
            rep.obligations["cbmc:" + k] = v["ok"]
            if not v["ok"]:
                cb_failed.append((k, v))
        if "checksize" in cb:
            # the C transcription of the specification used by that obligation == the Lean model's checkSize (grid)
            gb = cbmccheck.spec_grid_tie(rep, drv)
            rep.obligations["tie:size_spec_grid"] = not gb
            if gb:
                cb_failed.append(("checksize", {"failed": ["harness/cbmc/size_spec.h differs from the Lean model's checkSize on: " + "; ".join(gb[:3])],
                                                "inputs": {}, "log": "", "cmd": "tools/cbmccheck.py spec_grid_tie"}))
        # a counterexample of the size check is a PDU: run it through the real receive path like any other case
        for k, v in cb_failed:
            if k == "checksize" and v["inputs"]:
                cx = rtrgen.SyncCase()
                pdu = cbmccheck.checksize_pdu(v["inputs"])
                cx.ops = ["sock 3600 7200 600 1", "set version %d" % (v["inputs"].get("in_ver", 1) & 1), "set session 7", "set serial 5", "set reqsess 0",
                          "set lastupdate 900", "set state 3", "set hasrecv 1", "tape rx:" + pdu.hex(), "show", "dump", "run sync", "show", "dump"]
                cx.meta = {"mut": "cbmc:checksize counterexample"}
                for c, irep, mrep, crash in run_cases(exe, drv, [cx]):
                    if crash:
                        stats["crashes"] += 1
                        crashes.append((c, crash))
                    else:
                        flat_i = [l for x in irep for l in x]
                        flat_m = [l for x in mrep for l in x]
                        d = vlib.first_divergence(flat_i, flat_m)
                        fs, tr = sync_oracle(c, irep)
                        for f in fs:
                            fails.append((c, f))
                        if d is not None:
                            # the proven model rejects what the specification rejects: accepting it is C04's own clause
                            fails.append((c, ("C04", "a PDU whose length is inconsistent with its type is treated differently from the size specification "
                                              "(cbmc counterexample of rtr_pdu_check_size; impl: %s | model: %s)" % (
                                                  flat_i[d][:120] if d < len(flat_i) else "<eof>", flat_m[d][:120] if d < len(flat_m) else "<eof>"))))
    conv_divs = []
    if pid == "C14":
        import pduconvcheck
        ev, conv_divs = pduconvcheck.run_tie(rep)
        rep.cov["evaluations"] = rep.cov.get("evaluations", 0) + ev
    mine = [(c, f) for (c, f) in fails if f[0] in (pid, "ORACLE")]
    for c, rc1, err1 in msan_bad[:2]:
        sig = crash_signature(err1)
        rep.violation("uninit", "# uninitialised memory is used or sent (MemorySanitizer build of the harness, rc=%s): %s\n# mutation: %s\n%s\n"
                      "--- stderr (tail) ---\n%s\n" % (rc1, sig, c.meta.get("mut"), "\n".join(c.ops),
                                                        "\n".join(l for l in err1.splitlines() if "RTR Socket" not in l)[-3000:]),
                      signature="%s/%s" % (pid, sig))
    for c, (rc1, err1, o1) in crashes[:3]:
        if pid not in ("C04",) and tier == "quick" and pid != "C03":
            pass
        sig = crash_signature(err1)
        ops = minimise(exe, c.ops, lambda o, rc, err: rc != 0)
        rep.violation("crash", "# implementation aborted / hung (rc=%s): %s\n# mutation: %s\n%s\n--- stderr (tail) ---\n%s\n" % (
            rc1, sig, c.meta.get("mut"), "\n".join(ops), "\n".join(l for l in err1.splitlines() if "RTR" not in l)[-2500:]),
            signature="%s/%s" % (pid, sig))
    seen = set()
    for c, (p, msg) in mine:
        key = msg[:60]
        if key in seen:
            continue
        seen.add(key)
        if len(seen) > 4:
            break
        rep.violation("oracle%d" % len(seen), "# property %s fails on the implementation: %s\n# mutation: %s\n%s\n" % (
            p, msg, c.meta.get("mut"), "\n".join(c.ops)), signature="%s/%s" % (p, key))
    for cls, text in xr["gates"]:
        rep.violation("coverage_" + cls, "# coverage gate of the case class '%s' is not met: %s\n# (the class exists to reach a region the random "
                      "conversations do not enter; a run that did not reach it is not a pass)\n" % (cls, text), no_input=True)
    for d in conv_divs[:2]:
        if d.get("kind") in ("roundtrip", "crash"):
            rep.violation("conv_" + d["kind"], "# byte-order conversion: %s\n# the C functions rtr_pdu_to_host_byte_order / rtr_pdu_to_network_byte_order on\n%s\nimpl : %s\nmodel: %s\n" % (
                d.get("kind"), d.get("op"), d.get("impl"), d.get("model")), signature="C14/conv_" + d["kind"])
    if any(d.get("kind") in ("model", "build") for d in conv_divs) and not any(d.get("kind") in ("roundtrip", "crash") for d in conv_divs):
        d = [x for x in conv_divs if x.get("kind") in ("model", "build")][0]
        rep.build_log = "byte-order tie: %s\nop   : %s\nimpl : %s\nmodel: %s" % (d.get("kind"), d.get("op"), str(d.get("impl"))[:600], str(d.get("model"))[:600])
        vlib.proof_failure(rep, "correspondence pduconv (model RtrModel.PduConv vs rtr_pdu_*_byte_order in packets.c) diverges")
    if divergences and not mine and not crashes and not msan_bad:
        c, d, a, b = divergences[0]
        rep.build_log = "%d of %d cases diverge; first: mutation %s, reply line %d\n impl : %s\n model: %s\nops:\n%s" % (
            len(divergences), len(allcases), c.meta.get("mut"), d, a[:400], b[:400], "\n".join(c.ops))
        vlib.proof_failure(rep, "correspondence rtr (model RtrModel.Rtr vs packets.c/rtr.c/transport.c) diverges")
    if cb_failed and not mine and not crashes and not msan_bad:
        rep.build_log = "\n\n".join("== cbmc obligation %s: %s\nfailed properties: %s\ncounterexample inputs: %s\ncommand: %s\n%s" % (
            k, cbmccheck.OBLIGATIONS[k], "; ".join(v["failed"]), v["inputs"], v.get("cmd"), v["log"][-800:]) for k, v in cb_failed)
        vlib.proof_failure(rep, "\n".join("cbmc:%s (%s)" % (k, cbmccheck.OBLIGATIONS[k]) for k, v in cb_failed))
    elif not proved and not mine and not crashes and not divergences and not msan_bad:
        vlib.proof_failure(rep, "\n".join(t for t, ok in rep.obligations.items() if not ok))
    rep.extra = {"divergences": len(divergences), "fails": len(fails)}
    return rep.finish()


def replay(path):
    """./check --replay <file> for the protocol domain: run the recorded conversation on the implementation of the current tree
    (ASan/UBSan build, and the MemorySanitizer build) and on the model, re-evaluate the oracles; exit 1 if it still fails"""
    ops = []
    for l in open(path):
        l = l.rstrip("\n")
        if l.startswith("--- "):
            break
        if l and not l.startswith("#"):
            ops.append(l)
    if not ops or not ops[0].startswith("sock "):
        print(open(path).read())
        print("(no recorded conversation in this replay file: it names the proof obligation / correspondence that no longer checks)")
        return 1
    vlib.lake_build(["rtrdriver"])
    drv = vlib.driver_path("rtrdriver")
    exe, blog = vlib.build_harness("rtr", ["rtr_harness.c"], exclude=EXCLUDE, flags=vlib.SAN_FLAGS_NOALIGN)
    if exe is None:
        print(blog)
        return 1
    c = rtrgen.SyncCase()
    c.ops = ops
    c.meta = {"mut": "replay", "good_tail": 0}
    bad = 0
    if any(o.startswith("sendall ") for o in ops):
        # direct calls of tr_send_all: implementation = model, and the meaning of the return value
        io, rc, err = vlib.run_lines(exe, ops, timeout=120)
        mo, mrc, merr = vlib.run_lines(drv, ops)
        print("\n".join(io))
        if rc != 0:
            print("implementation aborted (rc=%s): %s" % (rc, crash_signature(err)))
            return 1
        if io != mo:
            bad = 1
            d = vlib.first_divergence(io, mo)
            print("DIVERGENCE from the model at reply line %s\n impl : %s\n model: %s" % (d, io[d] if d is not None and d < len(io) else "<eof>",
                                                                                       mo[d] if d is not None and d < len(mo) else "<eof>"))
        pos = 1
        for o in ops[1:]:
            if o.startswith("sendall "):
                j = pos
                while j < len(io) and io[j] != "end":
                    j += 1
                for f in rtroracle.check_sendall(bytes.fromhex(o.split()[3]), io[pos:j + 1]):
                    bad = 1
                    print("ORACLE %s: %s" % f)
                pos = j + 1
            else:
                pos += 1
        print("replay: %s" % ("FAILS" if bad else "passes on the current tree"))
        return bad
    # schedules the model does not describe (a stop request during a transport call, a refused allocation, time passing inside a write
    # call): the implementation runs alone and the property oracles decide
    impl_only = any(o.startswith(("stopat ", "allocfail ", "run syncaf")) or (o.startswith("sendq ") and "dt:" in o) for o in ops)
    if impl_only:
        (c, irep, crash), = run_impl_cases(exe, [c])
        mrep = irep
    else:
        (c, irep, mrep, crash), = run_cases(exe, drv, [c])
    if crash:
        print("implementation aborted (rc=%s): %s" % (crash[0], crash_signature(crash[1])))
        print("\n".join(l for l in crash[1].splitlines() if "RTR Socket" not in l)[-3000:])
        return 1
    flat_i = [l for x in irep for l in x]
    flat_m = [l for x in mrep for l in x]
    print("\n".join(l[:2000] for l in flat_i))
    d = vlib.first_divergence(flat_i, flat_m)
    if d is not None:
        bad = 1
        print("DIVERGENCE from the model at reply line %d\n impl : %s\n model: %s" % (d, flat_i[d][:2000] if d < len(flat_i) else "<eof>", flat_m[d][:2000] if d < len(flat_m) else "<eof>"))
    if any(o == "run fsm" for o in ops):
        fs = fsm_oracle(c, irep)[0] if sum(1 for o in ops if o == "run fsm") == 1 and not impl_only else []
        fs += [f for f in fsm_multi_oracle(c, irep)[0] if f not in fs]
    else:
        fs = sync_oracle(c, irep)[0] if sum(1 for o in ops if o.startswith("run sync")) == 1 else []
        fs += [f for f in sync_multi_oracle(c, irep)[0] if f not in fs]
    for f in fs + cblog_fails(flat_i):
        bad = 1
        print("ORACLE %s: %s" % f)
    if impl_only:
        print("replay: %s" % ("FAILS" if bad else "passes on the current tree"))
        return bad
    mexe, mlog = vlib.build_harness("rtr_msan", ["rtr_harness.c"], exclude=EXCLUDE, flags=MSAN_FLAGS, link=["-fsanitize=memory"], cc="clang-14", variant="msan")
    if mexe:
        for c2, rc1, err1 in run_msan(mexe, [c]):
            bad = 1
            print("MemorySanitizer: %s" % crash_signature(err1))
    print("replay: %s" % ("FAILS" if bad else "passes on the current tree"))
    return bad


def minimise(exe, ops, pred):
    """keep setup lines, minimise the tape events"""
    return ops


if __name__ == "__main__":
    sys.exit(run(sys.argv[1], sys.argv[2] if len(sys.argv) > 2 else "quick"))
