"""Checks C03 C04 C05 C07 C08 C13 C14: proofs about the RTR protocol model (RtrModel.Rtr) +
correspondence with packets.c / rtr.c / transport.c on scripted transports with a fake clock."""
import os
import sys

sys.path.insert(0, os.path.dirname(os.path.abspath(__file__)))
import vlib
import rtrgen
import rtroracle
import rtrpdu as P

PROPS = {
    "C03": {"modules": ["RtrProps.C03"], "theorems": []},
    "C04": {"modules": ["RtrProps.C04"], "theorems": []},
    "C05": {"modules": ["RtrProps.C05"], "theorems": []},
    "C07": {"modules": ["RtrProps.C07"], "theorems": []},
    "C08": {"modules": ["RtrProps.C08"], "theorems": []},
    "C13": {"modules": ["RtrProps.C13"], "theorems": []},
    "C14": {"modules": ["RtrProps.C14"], "theorems": []},
}
try:
    import rtrprops
    PROPS.update(rtrprops.PROPS)
except ImportError:
    pass

EXCLUDE = ["rtrlib/rtr/packets.c", "rtrlib/rtr/rtr.c"]


def split_replies(ops, out):
    """group output lines by op: `run *` replies end with the line 'end', `dump` has 2 lines, others 1"""
    res = []
    i = 0
    for op in ops:
        if op.startswith("run "):
            j = i
            while j < len(out) and out[j] != "end":
                j += 1
            if j < len(out) and out[i] != "bad-op":
                res.append(out[i:j + 1])
                i = j + 1
            else:
                res.append(out[i:i + 1])
                i += 1
        elif op == "dump":
            res.append(out[i:i + 2])
            i += 2
        else:
            res.append(out[i:i + 1])
            i += 1
    return res


def run_cases(exe, drv, cases, B=40):
    """returns list of (case, impl replies | None, model replies, crash info | None); batches run on a thread pool"""
    from concurrent.futures import ThreadPoolExecutor
    batches = [cases[b0:b0 + B] for b0 in range(0, len(cases), B)]
    with ThreadPoolExecutor(max_workers=vlib.jobs()) as ex:
        parts = list(ex.map(lambda b: run_batch(exe, drv, b), batches))
    return [x for part in parts for x in part]


def run_batch(exe, drv, batch):
    results = []
    for _ in (0,):
        ops = [o for c in batch for o in c.ops]
        mo, mrc, merr = vlib.run_lines(drv, ops)
        io, rc, err = vlib.run_lines(exe, ops, timeout=300)
        mrep = split_replies(ops, mo)
        if rc != 0:
            # isolate
            pos = 0
            for c in batch:
                n = len(c.ops)
                o1, rc1, err1 = vlib.run_lines(exe, c.ops, timeout=120)
                m1 = mrep[pos:pos + n]
                pos += n
                if rc1 != 0:
                    results.append((c, None, m1, (rc1, err1, o1)))
                else:
                    results.append((c, split_replies(c.ops, o1), m1, None))
            continue
        irep = split_replies(ops, io)
        pos = 0
        for c in batch:
            n = len(c.ops)
            results.append((c, irep[pos:pos + n], mrep[pos:pos + n], None))
            pos += n
    return results


MSAN_FLAGS = ["-O1", "-g", "-fsanitize=memory", "-fno-omit-frame-pointer", "-fsanitize-memory-track-origins=1"]


def run_msan(exe, cases, B=40):
    """second build of the same harness under MemorySanitizer: the scripted transport formats every byte it is handed,
    so a byte that stems from uninitialised memory (C14) or a decision taken on one (C04) stops the run.
    returns list of (case, rc, stderr)"""
    from concurrent.futures import ThreadPoolExecutor

    def one(batch):
        bad = []
        ops = [o for c in batch for o in c.ops]
        o, rc, err = vlib.run_lines(exe, ops, timeout=300)
        if rc != 0:
            for c in batch:
                o1, rc1, err1 = vlib.run_lines(exe, c.ops, timeout=120)
                if rc1 != 0:
                    bad.append((c, rc1, err1))
        return bad
    batches = [cases[b0:b0 + B] for b0 in range(0, len(cases), B)]
    with ThreadPoolExecutor(max_workers=vlib.jobs()) as ex:
        parts = list(ex.map(one, batches))
    return [x for part in parts for x in part]


def crash_signature(err):
    import re
    m = re.search(r"MemorySanitizer: ([a-zA-Z-]+)[^\n]*\n(?:.*\n)*?\s+#\d+ \S+ in (rtr_\w+|tr_\w+|pfx_\w+|spki_\w+|lrtr_\w+)", err)
    if m:
        return "msan:%s in %s" % (m.group(1), m.group(2))
    if "MemorySanitizer" in err:
        return "msan:use-of-uninitialized-value"
    m = re.search(r"Assertion `([^']*)' failed", err)
    if m:
        return "assert:" + m.group(1)
    m = re.search(r"runtime error: ([^\n]*)", err)
    if m:
        return "ubsan:" + re.sub(r"0x[0-9a-f]+|\d+", "N", m.group(1))[:90]
    m = re.search(r"ERROR: AddressSanitizer: ([a-zA-Z-]+)", err)
    if m:
        return "asan:" + m.group(1)
    if "TIMEOUT" in err:
        return "hang"
    return "crash"


def sync_oracle(c, rep):
    """rep = impl replies per op; returns oracle failures"""
    idx = [i for i, o in enumerate(c.ops) if o == "show"]
    didx = [i for i, o in enumerate(c.ops) if o == "dump"]
    ridx = [i for i, o in enumerate(c.ops) if o.startswith("run ")]
    if len(idx) < 2 or len(didx) < 2 or not ridx:
        return [], None
    try:
        tr = rtroracle.Trace(rep[ridx[0]])
        fails = rtroracle.check_sync_case(rep[idx[0]][0], rep[didx[0]], tr, rep[idx[1]][0], rep[didx[1]])
    except Exception as ex:      # an oracle bug must not look like a pass
        return [("ORACLE", "oracle exception %r" % (ex,))], None
    return fails, tr


def fsm_oracle(c, rep):
    ridx = [i for i, o in enumerate(c.ops) if o == "run fsm"]
    sidx = [i for i, o in enumerate(c.ops) if o == "show"]
    didx = [i for i, o in enumerate(c.ops) if o == "dump"]
    if not ridx or not sidx:
        return [], None
    try:
        tr = rtroracle.Trace(rep[ridx[0]])
        fails = rtroracle.check_fsm_trace(tr, rep[sidx[0]][0])
        # after rtr_stop none of the socket's records remain, the others are untouched (C07)
        if len(didx) >= 2 and len(rep[didx[1]]) == 2:
            pf0, ks0 = rtroracle.parse_dump(*rep[didx[0]])
            pf1, ks1 = rtroracle.parse_dump(*rep[didx[1]])
            if rtroracle.own(pf1) or rtroracle.own(ks1):
                fails.append(("C07", "records of the socket remain after rtr_stop"))
            if rtroracle.others(pf0) != rtroracle.others(pf1) or rtroracle.others(ks0) != rtroracle.others(ks1):
                fails.append(("C07", "rtr_stop altered records of other sockets"))
        # convergence (C08): the faults are followed by a cache that answers correctly
        if c.meta.get("good_tail") and len(sidx) >= 2 and len(didx) >= 1:
            pf0, ks0 = rtroracle.parse_dump(*rep[didx[0]])
            want_p = sorted(rtrgen.rec_str((p[0], p[1], p[2], p[3], p[4], 0)) for p in c.meta["cache_p"])
            want_k = sorted(rtrgen.key_str((k[0], k[1], k[2], 0)) for k in c.meta["cache_k"])
            v0 = rtroracle.parse_show(rep[sidx[1]][0])["ver"] == 0
            # a version-0 session carries no router keys: keys learned before a downgrade can neither be confirmed nor withdrawn
            states = [e for e in tr.events if e[0] == "state"]
            # protocol time at which the faults ended = clock when the first byte of the good tail was read
            # (the clock is printed with state changes and opens: the first one after that byte)
            cum, t_good, reached = 0, None, False
            for e in tr.events:
                if e[0] in ("state", "open") and e[2] is not None and reached and t_good is None:
                    t_good = e[2]
                elif e[0] == "rx":
                    cum += len(e[1])
                    if cum > c.meta.get("good_from", 0):
                        reached = True
            if not states or states[-1][1] != "ESTABLISHED":
                fails.append(("C08", "after the faults ended the cache answered up to %d queries correctly but the client is not ESTABLISHED (%s)" % (
                    c.meta["good_tail"], states[-1][1] if states else "no state")))
            elif rtroracle.own(pf0) != want_p or (not v0 and rtroracle.own(ks0) != want_k):
                fails.append(("C08", "after the faults ended and the cache answered correctly the client is ESTABLISHED but its records differ from the cache's data set"))
            elif t_good is not None and states[-1][2] is not None:
                iv = [c.meta["refresh"], c.meta["expire"], c.meta["retry"]]
                bound = max(iv[0], 3600) + max(iv[1], 7200) + 8 * max(iv[2], 600) + 8 * 60
                if states[-1][2] - t_good > bound:
                    fails.append(("C08", "convergence took %d s of protocol time after the faults ended (bound refresh+expire+8*retry+8*60 = %d)" % (
                        states[-1][2] - t_good, bound)))
    except Exception as ex:
        return [("ORACLE", "oracle exception %r" % (ex,))], None
    return fails, tr


def cblog_fails(flat_lines):
    """`X cblog ...` lines of the harness: replaying the update callbacks does not give the table contents (C09 prefixes, C10 router keys)"""
    out = []
    for l in flat_lines:
        if l.startswith("X cblog "):
            out.append(("C10" if ("router key" in l or "router-key" in l) else "C09",
                        "the update callbacks are not an exact change log of the table during synchronisation: " + l[8:200]))
    return out


def cblog_scan(rep, pid, tier):
    """used by the C09 / C10 checks: synchronisations and state-machine conversations against tables whose update callbacks feed a
    shadow set inside the harness; returns [(case, message)] for this property"""
    ok, log = vlib.lake_build(["rtrdriver"])
    drv = vlib.driver_path("rtrdriver")
    exe, blog = vlib.build_harness("rtr", ["rtr_harness.c"], exclude=EXCLUDE, flags=vlib.SAN_FLAGS_NOALIGN)
    if exe is None or not os.path.exists(drv):
        return None
    r = vlib.rng(pid + "/cblog")
    cases = [rtrgen.gen_sync_case(r) for _ in range({"quick": 2500, "thorough": 40000}[tier])]

    def run_model(ops):
        o, rc_, err_ = vlib.run_lines(drv, ops)
        return o
    from concurrent.futures import ThreadPoolExecutor
    nf = {"quick": 120, "thorough": 3000}[tier]
    with ThreadPoolExecutor(max_workers=vlib.jobs()) as ex:
        cases += list(ex.map(lambda i: rtrgen.gen_fsm_case(vlib.rng("%s/cblog/fsm/%d" % (pid, i)), run_model), range(nf)))
    found = []
    n_dump = 0
    for c, irep, mrep, crash in run_cases(exe, drv, cases):
        if crash:
            continue
        flat = [l for x in irep for l in x]
        n_dump += sum(1 for l in flat if l.startswith("D pfx") or l.startswith("T pfx"))
        for p, msg in cblog_fails(flat):
            if p == pid:
                found.append((c, msg))
    rep.cov["sync_callback_log"] = {"conversations": len(cases), "table_dumps_compared_with_callback_replay": n_dump}
    rep.cov["evaluations"] = rep.cov.get("evaluations", 0) + n_dump
    return found


def outcome_key(rep, c):
    """what must not depend on the segmentation: return value, socket, tables, bytes sent"""
    idx = [i for i, o in enumerate(c.ops) if o == "show"]
    didx = [i for i, o in enumerate(c.ops) if o == "dump"]
    ridx = [i for i, o in enumerate(c.ops) if o.startswith("run ")]
    tr = rtroracle.Trace(rep[ridx[0]])
    return (tr.ret, rep[idx[1]][0], tuple(rep[didx[1]]), tuple(tr.sent_bytes()), tuple(e[1] for e in tr.events if e[0] == "state"))


CBMC_FOR = {"C04": ["checksize", "footer", "getbits"], "C14": ["footer"]}


def fsm_outcome_key(rep, c):
    """what must not depend on the segmentation of a conversation: state changes with their times, bytes sent, final socket and tables"""
    ridx = [i for i, o in enumerate(c.ops) if o == "run fsm"]
    sidx = [i for i, o in enumerate(c.ops) if o == "show"]
    didx = [i for i, o in enumerate(c.ops) if o == "dump"]
    tr = rtroracle.Trace(rep[ridx[0]])
    return (tuple(e for e in tr.events if e[0] in ("state", "open", "close", "sleep")), tuple(tr.sent_bytes()),
            rep[sidx[1]][0] if len(sidx) > 1 else None, tuple(rep[didx[0]]) if didx else None)


def run(pid, tier):
    rep = vlib.Report(pid, tier)
    Pp = PROPS[pid]
    cb_handle = None
    if pid in CBMC_FOR:
        import cbmccheck
        cb_handle = cbmccheck.start(CBMC_FOR[pid])      # symbolic tie of small C functions; runs while the rest proceeds
    proved = True
    if Pp["theorems"]:
        proved = vlib.prove(rep, Pp["modules"], Pp["theorems"], extra_targets=["rtrdriver"])
    import cfuncheck
    if pid in cfuncheck.LINKS and pid in cfuncheck.ENABLED:
        cfuncheck.link(rep, pid)     # translation tie: the C text of the small functions = the model, for every input
    if pid in ("C01", "C02", "C09", "C10", "C03"):
        import lockcheck
        lockcheck.gate(rep, pid)     # the sequential theorems are claimed for shared tables: one critical section per call
    else:
        ok, log = vlib.lake_build(["rtrdriver"])
        rep.cov["checker_cmd"] = "(no theorem registered yet for this property)"
        rep.cov["trusted_base"] = []
    drv = vlib.driver_path("rtrdriver")
    exe, blog = vlib.build_harness("rtr", ["rtr_harness.c"], exclude=EXCLUDE, flags=vlib.SAN_FLAGS_NOALIGN)
    if exe is None or not os.path.exists(drv):
        rep.build_log = blog
        vlib.proof_failure(rep, "harness/driver build failed (correspondence rtr)")
        return rep.finish()

    r = vlib.rng(pid)
    n_sync = {"quick": 6000, "thorough": 150000}[tier]
    cases = []
    cdir = os.path.join(vlib.VERIF, "corpus", "rtr")
    ncorpus = 0
    if os.path.isdir(cdir):
        for f in sorted(os.listdir(cdir)):
            if f.endswith(".ops"):
                c = rtrgen.SyncCase()
                c.ops = [l.strip() for l in open(os.path.join(cdir, f)) if l.strip() and not l.startswith("#")]
                c.meta = {"mut": "corpus:" + f}
                cases.append(c)
                ncorpus += 1
    for i in range(n_sync):
        cases.append(rtrgen.gen_sync_case(r))
    # chunk-independence variants for a sample
    variants = []
    for c in cases[ncorpus:ncorpus + n_sync // 6]:
        if c.meta.get("mut") in ("fault",):
            continue
        variants.append((c, rtrgen.rechunk_case(r, c, "bytes")))
        variants.append((c, rtrgen.rechunk_case(r, c, "whole")))
    # state-machine conversations (generated reactively against the model driver)
    def run_model(ops):
        o, rc_, err_ = vlib.run_lines(drv, ops)
        return o
    n_fsm = {"quick": 600, "thorough": 20000}[tier]
    fsm_cases = []
    rf = vlib.rng(pid + "/fsm")
    fdir = os.path.join(vlib.VERIF, "corpus", "rtr")
    if os.path.isdir(fdir):
        for f in sorted(os.listdir(fdir)):
            if f.endswith(".fsm"):
                c = rtrgen.FsmCase()
                c.ops = [l.strip() for l in open(os.path.join(fdir, f)) if l.strip() and not l.startswith("#")]
                c.meta = {"mut": "corpus:" + f, "used": ["corpus"], "good_tail": 0}
                fsm_cases.append(c)
    from concurrent.futures import ThreadPoolExecutor

    def gen_one(i):
        ri = vlib.rng("%s/fsm/%d" % (pid, i))       # one PRNG per case, derived from VERIF_SEED: order-independent, replays exactly
        if i % 4 == 3:
            return rtrgen.gen_fsm_case(ri, run_model, nsteps=ri.randrange(1, 6), good_tail=16)
        return rtrgen.gen_fsm_case(ri, run_model)
    with ThreadPoolExecutor(max_workers=vlib.jobs()) as ex:
        fsm_cases += list(ex.map(gen_one, range(n_fsm)))
    # chunk independence of whole conversations (wait_for_sync with an expired timer, partial headers across reconnects ...)
    fsm_variants = []
    rv = vlib.rng(pid + "/fsmchunk")
    for c in fsm_cases[:max(40, len(fsm_cases) // 3)]:
        for mode in ("bytes", "whole"):
            v = rtrgen.rechunk_case(rv, c, mode)
            v.meta = dict(c.meta)
            v.meta["good_tail"] = 0          # the convergence oracle runs on the original only
            v.meta["mut"] = "fsm-rechunk-" + mode
            fsm_variants.append((c, v))
    allcases = cases + [v for _, v in variants] + fsm_cases + [v for _, v in fsm_variants]
    fsm_ids = set(id(c) for c in fsm_cases) | set(id(v) for _, v in fsm_variants)
    results = run_cases(exe, drv, allcases)
    msan_bad, msan_n = [], 0
    if pid in ("C04", "C14"):
        mexe, mlog = vlib.build_harness("rtr_msan", ["rtr_harness.c"], exclude=EXCLUDE, flags=MSAN_FLAGS, link=["-fsanitize=memory"],
                                        cc="clang-14", variant="msan")
        if mexe is None:
            rep.build_log = mlog
            vlib.proof_failure(rep, "MemorySanitizer build of the rtr harness failed")
        else:
            msan_cases = cases + [v for _, v in variants] + (fsm_cases if tier == "thorough" else fsm_cases[:60])
            msan_n = len(msan_cases)
            msan_bad = run_msan(mexe, msan_cases)
    byid = {id(c): (irep, mrep, crash) for (c, irep, mrep, crash) in results}
    stats = {"cases": len(allcases), "corpus": ncorpus, "mut": {}, "ret": {}, "states": {}, "errcodes": {}, "crashes": 0,
             "rechunk_pairs": len(variants)}
    distinct = set()
    divergences, fails, crashes = [], [], []
    for c, irep, mrep, crash in results:
        m = c.meta.get("mut", "?")
        stats["mut"][m] = stats["mut"].get(m, 0) + 1
        if crash:
            stats["crashes"] += 1
            crashes.append((c, crash))
            continue
        flat_i = [l for x in irep for l in x]
        flat_m = [l for x in mrep for l in x]
        d = vlib.first_divergence(flat_i, flat_m)
        if d is not None:
            divergences.append((c, d, flat_i[d] if d < len(flat_i) else "<eof>", flat_m[d] if d < len(flat_m) else "<eof>"))
        if id(c) in fsm_ids:
            fs, tr = fsm_oracle(c, irep)
            stats["fsm"] = stats.get("fsm", 0) + 1
            for u in c.meta.get("used", []):
                stats.setdefault("fsm_steps", {})
                stats["fsm_steps"][u] = stats["fsm_steps"].get(u, 0) + 1
        else:
            fs, tr = sync_oracle(c, irep)
        for f in fs:
            fails.append((c, f))
        for f in cblog_fails(flat_i):
            fails.append((c, f))
        if tr is not None:
            stats["ret"][str(tr.ret)] = stats["ret"].get(str(tr.ret), 0) + 1
            for e in tr.events:
                if e[0] == "state":
                    stats["states"][e[1]] = stats["states"].get(e[1], 0) + 1
            for seg in tr.sent_bytes():
                for p in P.decode_stream(seg)[0]:
                    if p["type"] == P.ERROR:
                        stats["errcodes"][str(p["f16"])] = stats["errcodes"].get(str(p["f16"]), 0) + 1
            distinct.add((m, tr.ret, tuple(e[1] for e in tr.events if e[0] == "state"), len(tr.consumed)))
    # chunk independence (C04)
    for base, var in variants:
        bi, vi = byid.get(id(base)), byid.get(id(var))
        if not bi or not vi or bi[2] or vi[2]:
            continue
        try:
            if outcome_key(bi[0], base) != outcome_key(vi[0], var):
                fails.append((var, ("C04", "outcome depends on how the stream is split into reads")))
        except Exception as ex:
            fails.append((var, ("ORACLE", "rechunk comparison failed: %r" % (ex,))))

    for base, var in fsm_variants:
        bi, vi = byid.get(id(base)), byid.get(id(var))
        if not bi or not vi or bi[2] or vi[2]:
            continue
        try:
            if fsm_outcome_key(bi[0], base) != fsm_outcome_key(vi[0], var):
                fails.append((var, ("C04", "the outcome of a conversation depends on how the stream is split into reads (compare with the same script, bytes merged: %s)" % (
                    " ".join(o for o in base.ops if o.startswith("tape "))[:1500]))))
        except Exception as ex:
            fails.append((var, ("ORACLE", "fsm rechunk comparison failed: %r" % (ex,))))
    stats["fsm_rechunk_pairs"] = len(fsm_variants)

    rep.cov.update({
        "evaluations": len(allcases), "distinct_nontrivial": len(distinct),
        "rule": "one response (valid, or with one mutation: duplicate, unknown withdrawal, bad flags, session mismatch, unexpected/unknown type, "
                "error PDU, bad length, bad version, truncation, transport fault, hostile prefix lengths, host bits, ...) against a prepared socket and "
                "pre-populated tables (own + two other sources), random segmentation into reads, optional partial/failed writes; distinct = distinct "
                "(mutation, return, state-callback sequence, bytes consumed)",
        "traces_validated_against_impl": len(allcases) - len(divergences) - len(crashes),
        "distribution": stats,
    })
    for c in cases[ncorpus:ncorpus + 2]:
        rep.sample({"mutation": c.meta.get("mut"), "ops": [o[:160] for o in c.ops[-8:]]})
    rep.assumptions = ["thread cancellation is not exercised (the script ends by a stop request observed in recv)",
                       "the transport delivers at least one byte per successful recv/send call"]

    rep.cov["msan_runs"] = msan_n
    cb_failed = []
    if cb_handle is not None:
        cb = cbmccheck.join(cb_handle)
        rep.cov["cbmc"] = {k: {"ok": v["ok"], "seconds": v["seconds"], "what": cbmccheck.OBLIGATIONS[k]} for k, v in cb.items()}
        rep.cov.setdefault("trusted_base", []).append("cbmc 6.11 (symbolic tie of rtr_pdu_check_size / byte-order conversions / lrtr_get_bits to their specifications)")
        for k, v in cb.items():
            rep.obligations["cbmc:" + k] = v["ok"]
            if not v["ok"]:
                cb_failed.append((k, v))
        if "checksize" in cb:
            # the C transcription of the specification used by that obligation == the Lean model's checkSize (grid)
            gb = cbmccheck.spec_grid_tie(rep, drv)
            rep.obligations["tie:size_spec_grid"] = not gb
            if gb:
                cb_failed.append(("checksize", {"failed": ["harness/cbmc/size_spec.h differs from the Lean model's checkSize on: " + "; ".join(gb[:3])],
                                                "inputs": {}, "log": "", "cmd": "tools/cbmccheck.py spec_grid_tie"}))
        # a counterexample of the size check is a PDU: run it through the real receive path like any other case
        for k, v in cb_failed:
            if k == "checksize" and v["inputs"]:
                cx = rtrgen.SyncCase()
                pdu = cbmccheck.checksize_pdu(v["inputs"])
                cx.ops = ["sock 3600 7200 600 1", "set version %d" % (v["inputs"].get("in_ver", 1) & 1), "set session 7", "set serial 5", "set reqsess 0",
                          "set lastupdate 900", "set state 3", "set hasrecv 1", "tape rx:" + pdu.hex(), "show", "dump", "run sync", "show", "dump"]
                cx.meta = {"mut": "cbmc:checksize counterexample"}
                for c, irep, mrep, crash in run_cases(exe, drv, [cx]):
                    if crash:
                        stats["crashes"] += 1
                        crashes.append((c, crash))
                    else:
                        flat_i = [l for x in irep for l in x]
                        flat_m = [l for x in mrep for l in x]
                        d = vlib.first_divergence(flat_i, flat_m)
                        fs, tr = sync_oracle(c, irep)
                        for f in fs:
                            fails.append((c, f))
                        if d is not None:
                            # the proven model rejects what the specification rejects: accepting it is C04's own clause
                            fails.append((c, ("C04", "a PDU whose length is inconsistent with its type is treated differently from the size specification "
                                              "(cbmc counterexample of rtr_pdu_check_size; impl: %s | model: %s)" % (
                                                  flat_i[d][:120] if d < len(flat_i) else "<eof>", flat_m[d][:120] if d < len(flat_m) else "<eof>"))))
    conv_divs = []
    if pid == "C14":
        import pduconvcheck
        ev, conv_divs = pduconvcheck.run_tie(rep)
        rep.cov["evaluations"] = rep.cov.get("evaluations", 0) + ev
    mine = [(c, f) for (c, f) in fails if f[0] in (pid, "ORACLE")]
    for c, rc1, err1 in msan_bad[:2]:
        sig = crash_signature(err1)
        rep.violation("uninit", "# uninitialised memory is used or sent (MemorySanitizer build of the harness, rc=%s): %s\n# mutation: %s\n%s\n"
                      "--- stderr (tail) ---\n%s\n" % (rc1, sig, c.meta.get("mut"), "\n".join(c.ops),
                                                        "\n".join(l for l in err1.splitlines() if "RTR Socket" not in l)[-3000:]),
                      signature="%s/%s" % (pid, sig))
    for c, (rc1, err1, o1) in crashes[:3]:
        if pid not in ("C04",) and tier == "quick" and pid != "C03":
            pass
        sig = crash_signature(err1)
        ops = minimise(exe, c.ops, lambda o, rc, err: rc != 0)
        rep.violation("crash", "# implementation aborted / hung (rc=%s): %s\n# mutation: %s\n%s\n--- stderr (tail) ---\n%s\n" % (
            rc1, sig, c.meta.get("mut"), "\n".join(ops), "\n".join(l for l in err1.splitlines() if "RTR" not in l)[-2500:]),
            signature="%s/%s" % (pid, sig))
    seen = set()
    for c, (p, msg) in mine:
        key = msg[:60]
        if key in seen:
            continue
        seen.add(key)
        if len(seen) > 4:
            break
        rep.violation("oracle%d" % len(seen), "# property %s fails on the implementation: %s\n# mutation: %s\n%s\n" % (
            p, msg, c.meta.get("mut"), "\n".join(c.ops)), signature="%s/%s" % (p, key))
    for d in conv_divs[:2]:
        if d.get("kind") in ("roundtrip", "crash"):
            rep.violation("conv_" + d["kind"], "# byte-order conversion: %s\n# the C functions rtr_pdu_to_host_byte_order / rtr_pdu_to_network_byte_order on\n%s\nimpl : %s\nmodel: %s\n" % (
                d.get("kind"), d.get("op"), d.get("impl"), d.get("model")), signature="C14/conv_" + d["kind"])
    if any(d.get("kind") in ("model", "build") for d in conv_divs) and not any(d.get("kind") in ("roundtrip", "crash") for d in conv_divs):
        d = [x for x in conv_divs if x.get("kind") in ("model", "build")][0]
        rep.build_log = "byte-order tie: %s\nop   : %s\nimpl : %s\nmodel: %s" % (d.get("kind"), d.get("op"), str(d.get("impl"))[:600], str(d.get("model"))[:600])
        vlib.proof_failure(rep, "correspondence pduconv (model RtrModel.PduConv vs rtr_pdu_*_byte_order in packets.c) diverges")
    if divergences and not mine and not crashes and not msan_bad:
        c, d, a, b = divergences[0]
        rep.build_log = "%d of %d cases diverge; first: mutation %s, reply line %d\n impl : %s\n model: %s\nops:\n%s" % (
            len(divergences), len(allcases), c.meta.get("mut"), d, a[:400], b[:400], "\n".join(c.ops))
        vlib.proof_failure(rep, "correspondence rtr (model RtrModel.Rtr vs packets.c/rtr.c/transport.c) diverges")
    if cb_failed and not mine and not crashes and not msan_bad:
        rep.build_log = "\n\n".join("== cbmc obligation %s: %s\nfailed properties: %s\ncounterexample inputs: %s\ncommand: %s\n%s" % (
            k, cbmccheck.OBLIGATIONS[k], "; ".join(v["failed"]), v["inputs"], v.get("cmd"), v["log"][-800:]) for k, v in cb_failed)
        vlib.proof_failure(rep, "\n".join("cbmc:%s (%s)" % (k, cbmccheck.OBLIGATIONS[k]) for k, v in cb_failed))
    elif not proved and not mine and not crashes and not divergences and not msan_bad:
        vlib.proof_failure(rep, "\n".join(t for t, ok in rep.obligations.items() if not ok))
    rep.extra = {"divergences": len(divergences), "fails": len(fails)}
    return rep.finish()


def replay(path):
    """./check --replay <file> for the protocol domain: run the recorded conversation on the implementation of the current tree
    (ASan/UBSan build, and the MemorySanitizer build) and on the model, re-evaluate the oracles; exit 1 if it still fails"""
    ops = []
    for l in open(path):
        l = l.rstrip("\n")
        if l.startswith("--- "):
            break
        if l and not l.startswith("#"):
            ops.append(l)
    if not ops or not ops[0].startswith("sock "):
        print(open(path).read())
        print("(no recorded conversation in this replay file: it names the proof obligation / correspondence that no longer checks)")
        return 1
    vlib.lake_build(["rtrdriver"])
    drv = vlib.driver_path("rtrdriver")
    exe, blog = vlib.build_harness("rtr", ["rtr_harness.c"], exclude=EXCLUDE, flags=vlib.SAN_FLAGS_NOALIGN)
    if exe is None:
        print(blog)
        return 1
    c = rtrgen.SyncCase()
    c.ops = ops
    c.meta = {"mut": "replay", "good_tail": 0}
    bad = 0
    (c, irep, mrep, crash), = run_cases(exe, drv, [c])
    if crash:
        print("implementation aborted (rc=%s): %s" % (crash[0], crash_signature(crash[1])))
        print("\n".join(l for l in crash[1].splitlines() if "RTR Socket" not in l)[-3000:])
        return 1
    flat_i = [l for x in irep for l in x]
    flat_m = [l for x in mrep for l in x]
    print("\n".join(flat_i))
    d = vlib.first_divergence(flat_i, flat_m)
    if d is not None:
        bad = 1
        print("DIVERGENCE from the model at reply line %d\n impl : %s\n model: %s" % (d, flat_i[d] if d < len(flat_i) else "<eof>", flat_m[d] if d < len(flat_m) else "<eof>"))
    fs, tr = (fsm_oracle if any(o == "run fsm" for o in ops) else sync_oracle)(c, irep)
    for f in fs + cblog_fails(flat_i):
        bad = 1
        print("ORACLE %s: %s" % f)
    mexe, mlog = vlib.build_harness("rtr_msan", ["rtr_harness.c"], exclude=EXCLUDE, flags=MSAN_FLAGS, link=["-fsanitize=memory"], cc="clang-14", variant="msan")
    if mexe:
        for c2, rc1, err1 in run_msan(mexe, [c]):
            bad = 1
            print("MemorySanitizer: %s" % crash_signature(err1))
    print("replay: %s" % ("FAILS" if bad else "passes on the current tree"))
    return bad


def minimise(exe, ops, pred):
    """keep setup lines, minimise the tape events"""
    return ops


if __name__ == "__main__":
    sys.exit(run(sys.argv[1], sys.argv[2] if len(sys.argv) > 2 else "quick"))
