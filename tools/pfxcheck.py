"""Checks C01, C02, C09: proofs about the prefix-table model + correspondence with trie.c / trie-pfx.c."""
import os
import sys

sys.path.insert(0, os.path.dirname(os.path.abspath(__file__)))
import vlib
import pfxgen
from pfxgen import Universe, SetSpec, fmt_rec_args, parse_rec_str, rec_str, hexaddr, W, Case

PROPS = {
    "C01": {
        "modules": ["RtrProps.C01", "RtrProps.C01b"],
        "theorems": ["Rtr.C01.validate_state", "Rtr.C01.validate_state_table", "Rtr.C01.validate_reasons",
                     "Rtr.C01.wf_reachable", "Rtr.C01.depth_le_len", "Rtr.C01.validate_defined",
                     "Rtr.C01.bits_link4", "Rtr.C01.bits_cover4", "Rtr.C01.bits_link6", "Rtr.C01.bits_cover6"],
    },
    "C02": {
        "modules": ["RtrProps.C02", "RtrProps.C02b"],
        "theorems": ["Rtr.C02.add_refines", "Rtr.C02.remove_refines", "Rtr.C02.srcRemove_refines",
                     "Rtr.C02.forEach_enumerates", "Rtr.C02.history_refines",
                     # the same for arbitrary records (non-canonical prefixes): weaker invariant, no hypothesis on the operations
                     "Rtr.C02.add_refines_any", "Rtr.C02.remove_refines_any", "Rtr.C02.srcRemove_refines_any",
                     "Rtr.C02.forEach_enumerates_any", "Rtr.C02.history_refines_any", "Rtr.C02.history_from_empty_any",
                     "Rtr.TableWF_TableWFg"],
    },
    "C09": {
        "modules": ["RtrProps.C09", "RtrProps.C09b"],
        "theorems": ["Rtr.C09.log_replays", "Rtr.C09.log_exact", "Rtr.C09.step_logOK", "Rtr.C09.free_log",
                     "Rtr.C09.notifyDiff_net", "Rtr.C09.notifyDiff_logOK", "Rtr.C09.reload_log_replays",
                     "Rtr.C09.log_replays_reload"],
    },
}


def gen_history(r, hid, nops, nq, observe_every, deep=False, reload=False, noncanon=False):
    c = Case(hid, "random-noncanonical" if noncanon else "random")
    u = Universe(r, deep=deep, noncanon=noncanon)
    vtag = "valx" if noncanon else "val"      # RFC 6811 is stated for canonical prefixes: non-canonical answers are compared with the model only
    c.emit("new 0", ("new",))
    stored = []
    k = 0

    def observe():
        pfxgen.observe(c)
    for i in range(nops):
        x = r.random()
        if x < 0.55 or not stored:
            rec = u.rec(r)
            c.emit("add 0 " + fmt_rec_args(rec), ("add", rec))
            stored.append(rec)
        elif x < 0.62:
            rec = r.choice(stored)
            c.emit("add 0 " + fmt_rec_args(rec), ("add", rec))          # likely duplicate
        elif x < 0.85:
            rec = r.choice(stored)
            c.emit("rm 0 " + fmt_rec_args(rec), ("rm", rec))
        elif x < 0.92:
            rec = u.rec(r)
            c.emit("rm 0 " + fmt_rec_args(rec), ("rm", rec))            # likely unknown
        elif x < 0.97:
            s = r.choice(pfxgen.SRCS)
            c.emit("srcrm 0 %d" % s, ("srcrm", s))
        else:
            # a query in the middle of the history
            q = u.query(r, stored)
            pfxgen.emit_val(c, q, vtag)
        k += 1
        if k % observe_every == 0:
            observe()
    if reload:
        # what rtr_sync does for a full reload of source s: shadow copy, fill, swap, notify_diff, discard
        s = r.choice(pfxgen.SRCS)
        fill = []
        for _ in range(r.randrange(0, 10)):
            rec = u.rec(r)
            if r.random() < 0.4 and stored:
                rec = r.choice(stored)
            fill.append(rec)
        pfxgen.emit_reload(c, r, s, fill)
        observe()
    observe()
    for _ in range(nq):
        q = u.query(r, stored)
        pfxgen.emit_val(c, q, vtag)
    c.emit("free 0", ("free",))
    c.emit("log 0", ("log",))
    c.emit("dump 0", ("dump",))
    return c


def gen_bits(r, n):
    c = Case("bits")
    for _ in range(n):
        v = r.getrandbits(32)
        if r.random() < 0.2:
            v = r.choice([0, 0xffffffff, 0x80000000, 1])
        f = r.choice([0, 0, 1, 7, 31, r.randrange(32)])
        q = r.choice([1, 1, 32, 8, r.randrange(1, 33)])
        c.emit("bits4 %08x %d %d" % (v, f, q), ("bits",))
    for _ in range(n):
        v = r.getrandbits(128)
        if r.random() < 0.3:
            lvl = r.randrange(128)
            c.emit("bits6 %032x %d 1" % (v, lvl), ("bits",))
        else:
            q = r.choice([1, 32, 33, 64, 65, 96, 97, 127, 128, r.randrange(1, 129)])
            c.emit("bits6 %032x 0 %d" % (v, q), ("bits",))
    for _ in range(n):
        for v in (4, 6):
            w = W(v)
            a = r.getrandbits(w)
            lvl = r.choice([0, w - 1, r.randrange(w)])
            c.emit("left %d %s %d" % (v, hexaddr(v, a), lvl), ("bits",))
            ln = r.choice([1, w, r.randrange(1, w + 1)])
            b = a if r.random() < 0.5 else a ^ (1 << r.randrange(w))
            c.emit("cov %d %s %d %s" % (v, hexaddr(v, a), ln, hexaddr(v, b)), ("bits",))
    return c


def oracle(case, out, props):
    """evaluate the properties' statements on the implementation's own observations.
    returns list of (prop, line index, message)"""
    fails = []
    tabs = {0: set(), 1: set()}    # C02: the mathematical sets (table 0 = the live table, table 1 = the shadow table of a reload)
    contents = set()           # last enumerated contents of table 0 (impl)
    have_dump = False
    replayed = set()           # C09: replay of the callback stream
    dirty = False              # table mutated since last dump
    armed = False              # a "fail k" line precedes this operation
    partial = None             # a removal by source that reported an allocation failure: (set before, source)
    for i, (tag, line) in enumerate(zip(case.tags, out)):
        kind = tag[0]
        if kind == "fail":
            armed = True
            continue
        if kind == "failinfo":
            continue
        fired = False
        if armed:
            # the allocator's report follows the operation
            fired = i + 1 < len(out) and "fired=1" in out[i + 1]
            armed = False
        if kind in ("add", "rm", "add1"):
            rec = tag[1]
            if rec is None:
                continue
            S = tabs[1 if kind == "add1" else 0]
            if line == "-1":
                # PFX_ERROR: only an allocation failure justifies it, and the set is as it was
                if not fired:
                    fails.append(("C02", i, "%s of %s reports an error (-1) although no allocation failed" % (kind, rec_str(rec))))
            else:
                if kind == "rm":
                    exp = 0 if rec in S else -3
                    S.discard(rec)
                else:
                    exp = -2 if rec in S else 0
                    S.add(rec)
                if line != str(exp):
                    fails.append(("C02", i, "%s of %s returned %s, set semantics says %s" % (kind, rec_str(rec), line, exp)))
            dirty = True
        elif kind == "srcrm":
            if line == "-1" and fired:
                partial = (set(tabs[0]), tag[1])
            else:
                tabs[0] = set(r for r in tabs[0] if r[5] != tag[1])
                if line != "0":
                    fails.append(("C02", i, "srcrm returned %s" % line))
            dirty = True
        elif kind == "new1":
            tabs[1] = set()
            dirty = True
        elif kind == "copyx":
            if line != "0" and not tabs[1]:
                fails.append(("C02", i, "copy into an empty table returned %s" % line))
            tabs[1] |= set(r for r in tabs[0] if r[5] != tag[1])
            dirty = True
        elif kind == "swap":
            tabs[0], tabs[1] = tabs[1], tabs[0]
            dirty = True
        elif kind == "diff":
            tabs[1] = set(r for r in tabs[1] if not (r[5] == tag[1] and r in tabs[0]))
            dirty = True
        elif kind == "free1":
            tabs[1] = set()
            dirty = True
        elif kind == "dump":
            toks = line.split()[1:]
            recs = [parse_rec_str(t) for t in toks]
            if len(set(recs)) != len(recs):
                fails.append(("C02", i, "enumeration yields a record twice"))
            contents = set(recs)
            have_dump = True
            dirty = False
            if partial is not None:
                before, src = partial
                partial = None
                if not (set(r for r in before if r[5] != src) <= contents <= before):
                    fails.append(("C02", i, "after a failed removal by source the contents are not between the old set and the old set minus the source"))
                tabs[0] = set(contents)
            elif contents != tabs[0]:
                missing = tabs[0] - contents
                extra = contents - tabs[0]
                fails.append(("C02", i, "contents differ from the mathematical set: missing %s extra %s" % (
                    [rec_str(x) for x in sorted(missing)][:4], [rec_str(x) for x in sorted(extra)][:4])))
                tabs[0] = set(contents)
        elif kind == "log":
            for t in line.split()[1:]:
                rec = parse_rec_str(t[1:])
                if t[0] == "+":
                    if rec in replayed:
                        fails.append(("C09", i, "callback reports addition of a record that was already reported present: " + t))
                    replayed.add(rec)
                else:
                    if rec not in replayed:
                        fails.append(("C09", i, "callback reports removal of a record not reported present: " + t))
                    replayed.discard(rec)
            # the preceding dump (same observation point) must equal the replay
            if have_dump and not dirty and replayed != contents:
                fails.append(("C09", i, "replayed callback stream differs from table contents: only-in-replay %s only-in-table %s" % (
                    [rec_str(x) for x in sorted(replayed - contents)][:4], [rec_str(x) for x in sorted(contents - replayed)][:4])))
                replayed = set(contents)
        elif kind == "free":
            dirty = True
            tabs[0] = set()
        elif kind == "val":
            v, q, n, asn = tag[1]
            toks = line.split()
            if line == "rc=-1" and fired:
                continue            # PFX_ERROR for want of memory; the table is judged by the next dump
            if not toks or toks[0] not in ("VALID", "INVALID", "NOTFOUND"):
                fails.append(("C01", i, "validation did not answer: " + line))
                continue
            reasons = [parse_rec_str(t) for t in toks[1:]]
            msg = pfxgen.check_validation(tabs[0], v, q, n, asn, toks[0], reasons)
            if msg:
                fails.append(("C01", i, "query %d:%s/%d AS%d: %s" % (v, hexaddr(v, q), n, asn, msg)))
    return fails


SHAPE_RE = None


def measure(case, io, m):
    """what this history reached on the implementation (for the coverage gates): deepest node per family, largest node,
    allocation failures that fired, first add into an empty family failed at allocation k"""
    global SHAPE_RE
    import re
    if SHAPE_RE is None:
        SHAPE_RE = re.compile(r"\((\d+) [0-9a-f]+/\d+ [-LR][-LR] \[([^\]]*)\]\)")
    d4 = d6 = node = 0
    sizes = set()
    for tag, line in zip(case.tags, io):
        if tag[0] != "shape":
            continue
        p4, _, p6 = line.partition(" shape6")
        for part, v in ((p4, 4), (p6, 6)):
            for mm in SHAPE_RE.finditer(part):
                d = int(mm.group(1))
                nn = mm.group(2).count(",") + 1 if mm.group(2) else 0
                if v == 4:
                    d4 = max(d4, d)
                else:
                    d6 = max(d6, d)
                if nn > node:
                    node = nn
                if nn >= 32:
                    sizes.add(nn)
    m["max_depth4"] = max(m.get("max_depth4", 0), d4)
    m["max_depth6"] = max(m.get("max_depth6", 0), d6)
    cls = case.cls
    m.setdefault("classes", {})
    m["classes"][cls] = m["classes"].get(cls, 0) + 1
    if cls == "fat":
        m.setdefault("fat_sizes", set()).update(sizes)
        # a removal by source that hit exactly one record of the big node
        want = case.expect.get("node")
        if want in sizes:
            m.setdefault("fat_done", set()).add(want)
    elif cls == "spine":
        for v, d in ((4, d4), (6, d6)):
            if case.expect.get("depth%d" % v) == d:
                m.setdefault("spine", set()).add((v, case.expect["pattern"]))
    elif cls == "ncspine":
        m["nc_depth4"] = max(m.get("nc_depth4", 0), d4)
        m["nc_depth6"] = max(m.get("nc_depth6", 0), d6)
        for v, d in ((4, d4), (6, d6)):
            if case.expect.get("ncnodes%d" % v) == d + 1:
                m.setdefault("nc_exact", set()).add((v, d + 1))
    elif cls == "allocfail":
        seen_family = set()
        for i, tag in enumerate(case.tags):
            if tag[0] == "fail" and i + 2 < len(io):
                fired = "fired=1" in io[i + 2]
                if fired:
                    m["alloc_fired"] = m.get("alloc_fired", 0) + 1
                    if io[i + 1] in ("-1", "rc=-1"):
                        m["alloc_failed_ops"] = m.get("alloc_failed_ops", 0) + 1
                op = case.tags[i + 1]
                if op[0] == "add" and op[1][0] not in seen_family:
                    if fired and io[i + 1] == "-1":
                        m.setdefault("first_add_failed", set()).add((op[1][0], tag[1]))
                    elif not fired and io[i + 1] == "0":
                        # k exceeds the number of requests this add makes: every request of it has been made to fail
                        m.setdefault("first_add_exhausted", set()).add(op[1][0])
            elif tag[0] == "add" and i < len(io) and io[i] == "0":
                seen_family.add(tag[1][0])      # only the very first successful add of a family counts as "into an empty family"


def model_ops(ops, impl):
    """the request lines for the model: an operation that the armed allocator made fail (it reported an error) is, for the
    model, `failed <op>` - error code, every table as it was"""
    if not any(o.startswith("fail ") for o in ops):
        return ops
    out = list(ops)
    for i, o in enumerate(ops):
        if o.startswith("fail ") and i + 2 < len(ops) and ops[i + 2] == "failinfo" and i + 2 < len(impl):
            if "fired=1" in impl[i + 2] and impl[i + 1] in ("-1", "rc=-1"):
                out[i + 1] = "failed " + ops[i + 1]
    return out


def norm_impl(lines):
    return ["failinfo" if l.startswith("failinfo ") else l for l in lines]


def build_cases(r, tier, corpus):
    """the histories of one run: corpus, then the classes that reach a particular region deterministically, then random ones"""
    cases = list(corpus)
    rf = vlib.rng("pfx-classes")
    for n, light in pfxgen.fat_sizes(tier):
        c = pfxgen.gen_fat(rf, "fat:%d" % n, n, light)
        c.nomodel = n > 8000
        cases.append(c)
    for v in (4, 6):
        for pat in pfxgen.SPINE_PATTERNS:
            for order in ("asc", "desc", "shuffle"):
                cases.append(pfxgen.gen_spine(rf, "spine:%d:%s:%s" % (v, pat, order), v, pat, order))
    for v, ms in pfxgen.noncanon_spines(tier).items():
        for j, M in enumerate(ms):
            pats = pfxgen.SPINE_PATTERNS if tier == "thorough" else [pfxgen.SPINE_PATTERNS[j % 4]]
            if M == 2 * W(v) + 1 and tier != "thorough":
                pats = ["left", "rand"]
            for pat in pats:
                cases.append(pfxgen.gen_noncanon_spine(rf, "ncspine:%d:%d:%s" % (v, M, pat), v, M, pat))
    for h in range({"quick": 24, "thorough": 400}[tier]):
        cases.append(pfxgen.gen_allocfail(rf, "allocfail:%d" % h, rf.randrange(4, 9)))
    for h in range({"quick": 150, "thorough": 3000}[tier]):
        cases.append(gen_history(rf, "nc:%d" % h, rf.randrange(10, 60), rf.randrange(5, 20), rf.choice([1, 3, 7]),
                                 reload=(rf.random() < 0.3), noncanon=True))
    nh = {"quick": 1500, "thorough": 20000}[tier]
    for h in range(nh):
        x = r.random()
        if x < 0.5:
            cases.append(gen_history(r, h, r.randrange(3, 25), r.randrange(5, 30), 1, reload=(r.random() < 0.3)))
        elif x < 0.9:
            cases.append(gen_history(r, h, r.randrange(20, 80), r.randrange(10, 40), r.choice([1, 3, 7]), reload=(r.random() < 0.3)))
        else:
            cases.append(gen_history(r, h, r.randrange(60, 200), r.randrange(20, 60), 10, deep=True))
    cases.append(gen_bits(r, 300 if tier == "quick" else 5000))
    return cases


def gates(m, tier):
    """coverage gates: a class that is required and was not exercised is a failure of the check"""
    bad = []
    want = set(n for n, _ in pfxgen.fat_sizes(tier))
    got = m.get("fat_done", set())
    if want - got:
        bad.append("fat-node class: no trie node with %s records was observed" % sorted(want - got)[:6])
    if not any(n >= 300 for n in got):
        bad.append("fat-node class: no node with 300 or more records")
    for v in (4, 6):
        for pat in pfxgen.SPINE_PATTERNS:
            if (v, pat) not in m.get("spine", set()):
                bad.append("full-spine class: IPv%d pattern %s did not reach depth %d" % (v, pat, W(v)))
        if m.get("nc_depth%d" % v, 0) < 2 * W(v):
            bad.append("non-canonical class: deepest IPv%d path has depth %d, %d required" % (v, m.get("nc_depth%d" % v, 0), 2 * W(v)))
    for v in (4, 6):
        # the first add into an empty family: allocation 1 failed, and so did every further one the add makes (the attempt with
        # the next k went through without reaching the armed request)
        if (v, 1) not in m.get("first_add_failed", set()) or v not in m.get("first_add_exhausted", set()):
            bad.append("failing allocator: first add into an empty IPv%d half not failed at every allocation it makes (failed at %s, exhausted: %s)" % (
                v, sorted(k for f, k in m.get("first_add_failed", set()) if f == v), v in m.get("first_add_exhausted", set())))
    if m.get("alloc_failed_ops", 0) < {"quick": 80, "thorough": 1300}[tier]:
        bad.append("failing allocator: only %d operations failed" % m.get("alloc_failed_ops", 0))
    return bad


def run(pid, tier):
    import time
    rep = vlib.Report(pid, tier)
    P = PROPS[pid]
    phases = {}
    t_ph = time.time()
    cb_handle = None
    if pid == "C01":
        import cbmccheck
        cb_handle = cbmccheck.start(["getbits"])      # symbolic tie of lrtr_get_bits / lrtr_ipv6_get_bits to the bit-field specification
    proved = vlib.prove(rep, P["modules"], P["theorems"], extra_targets=["pfxdriver"])
    import cfuncheck
    if pid in cfuncheck.LINKS and pid in cfuncheck.ENABLED:
        cfuncheck.link(rep, pid)     # translation tie: the C text of the small functions = the model, for every input
    if pid in ("C01", "C02", "C09", "C10", "C03"):
        import lockcheck
        lockcheck.gate(rep, pid)     # the sequential theorems are claimed for shared tables: one critical section per call
    drv = vlib.driver_path("pfxdriver")
    if not os.path.exists(drv):
        ok, log = vlib.lake_build(["pfxdriver"])
        if not ok:
            rep.build_log = log
    exe, blog = vlib.build_harness("pfx", ["pfx_harness.c"])
    if exe is None:
        rep.build_log = blog
        vlib.proof_failure(rep, "harness build against /repo failed (correspondence pfx)")
        return rep.finish()

    phases["proofs_drivers_harness_build (incl. waiting for the shared lake lock)"] = round(time.time() - t_ph, 1)
    t_ph = time.time()
    r = vlib.rng(pid)
    # corpus first
    cdir = os.path.join(vlib.VERIF, "corpus", "pfx")
    corpus = []
    if os.path.isdir(cdir):
        for f in sorted(os.listdir(cdir)):
            if f.endswith(".ops"):
                c = Case("corpus:" + f, "corpus")
                for line in open(os.path.join(cdir, f)):
                    line = line.strip()
                    if not line or line.startswith("#"):
                        continue
                    c.emit(line, tag_of(line))
                corpus.append(c)
    cases = build_cases(r, tier, corpus)

    stats = {"histories": len(cases), "ops": 0, "rc": {}, "states": {}, "max_depth4": 0, "max_depth6": 0,
             "reloads": 0, "corpus": len(corpus)}
    meas = {}
    distinct = set()
    divergences = []
    oracle_fails = []
    crashes = []

    # run in batches so that a crash only loses one batch; a batch is at most 50 histories / 12000 request lines
    batches = []
    cur, curn = [], 0
    for c in cases:
        if cur and (len(cur) >= 50 or curn + len(c.ops) > 12000 or getattr(c, "nomodel", False) or getattr(cur[-1], "nomodel", False)):
            batches.append(cur)
            cur, curn = [], 0
        cur.append(c)
        curn += len(c.ops)
    if cur:
        batches.append(cur)

    def run_batch(batch):
        ops = [l for c in batch for l in c.ops]
        impl, rc, err = vlib.run_lines(exe, ops, timeout=1800)
        if rc != 0 or len(impl) != len(ops):
            return ops, impl, rc, err, None, 0, ""
        if all(getattr(c, "nomodel", False) for c in batch):
            # histories too long for the list-based model (a node with tens of thousands of records): judged by the oracles only
            return ops, impl, rc, err, norm_impl(impl), 0, ""
        model, mrc, merr = vlib.run_lines(drv, model_ops(ops, impl), timeout=600)
        return ops, impl, rc, err, model, mrc, merr

    from concurrent.futures import ThreadPoolExecutor
    stop = False
    with ThreadPoolExecutor(max_workers=min(6, vlib.jobs())) as ex:
        futs = [ex.submit(run_batch, b) for b in batches]
        for bi, (batch, fut) in enumerate(zip(batches, futs)):
            if stop:
                fut.cancel()
                continue
            ops, impl, rc, err, model, mrc, merr = fut.result()
            if model is not None and mrc != 0:
                rep.build_log = "model driver failed: rc=%s %s" % (mrc, merr[-500:])
                vlib.proof_failure(rep, "model driver crashed on batch %d" % bi)
                for f2 in futs[bi + 1:]:
                    f2.cancel()
                return rep.finish()
            if model is None:
                # locate the history that crashes by running them singly
                for c in batch:
                    o1, rc1, err1 = vlib.run_lines(exe, c.ops, timeout=600)
                    if rc1 != 0 or len(o1) != len(c.ops):
                        crashes.append((c, len(o1), rc1, err1))
                        break
                if tier == "quick":
                    stop = True
                continue
            pos = 0
            for c in batch:
                n = len(c.ops)
                io, mo = impl[pos:pos + n], model[pos:pos + n]
                pos += n
                stats["ops"] += n
                d = vlib.first_divergence(norm_impl(io), mo)
                if d is not None:
                    divergences.append((c, d, io[d] if d < len(io) else "<eof>", mo[d] if d < len(mo) else "<eof>"))
                for f in oracle(c, io, pid):
                    oracle_fails.append((c, f))
                measure(c, io, meas)
                for tag, line in zip(c.tags, io):
                    if tag[0] in ("add", "rm"):
                        stats["rc"][tag[0] + line] = stats["rc"].get(tag[0] + line, 0) + 1
                    elif tag[0] in ("val", "valx"):
                        st = line.split(None, 1)[0] if line else "?"
                        stats["states"][st] = stats["states"].get(st, 0) + 1
                        distinct.add((tag[1], hash(line)))
                    elif tag[0] == "shape":
                        distinct.add(hash(line))
                    elif tag[0] == "swap":
                        stats["reloads"] += 1
            if (divergences or oracle_fails or crashes) and tier == "quick":
                stop = True
    phases["histories (generate, run both sides, oracles)"] = round(time.time() - t_ph, 1)
    rep.cov["phases_s"] = phases
    stats["max_depth4"] = meas.get("max_depth4", 0)
    stats["max_depth6"] = meas.get("max_depth6", 0)
    unmet = [] if (divergences or oracle_fails or crashes) else gates(meas, tier)
    stats["classes"] = meas.get("classes", {})
    stats["fat_node_sizes"] = sorted(meas.get("fat_done", set()))
    stats["full_spines"] = sorted("%d:%s" % x for x in meas.get("spine", set()))
    stats["noncanonical_max_depth"] = {"ipv4": meas.get("nc_depth4", 0), "ipv6": meas.get("nc_depth6", 0)}
    stats["noncanonical_exact_path_lengths"] = sorted("%d:%d" % x for x in meas.get("nc_exact", set()))
    stats["alloc_failures_fired"] = meas.get("alloc_fired", 0)
    stats["alloc_failed_operations"] = meas.get("alloc_failed_ops", 0)
    stats["first_add_into_empty_family_failed_at"] = sorted("v%d:k%d" % x for x in meas.get("first_add_failed", set()))
    stats["coverage_gates_unmet"] = unmet
    stats["histories_judged_by_the_oracles_only (too long for the model)"] = [c.hid for c in cases if getattr(c, "nomodel", False)]

    rep.cov.update({
        "evaluations": stats["ops"], "distinct_nontrivial": len(distinct),
        "rule": "random operation histories over nested prefix universes (both families, 3 sources, 4 AS numbers incl. 0), "
                "observed after every k-th op (dump, trie shape, callback log) and closed by queries derived from stored "
                "prefixes; plus classes that reach a region deterministically, each with a coverage gate: fat nodes (one "
                "prefix/length holding 255..257, 300 and L-1..L+1 records for every integer literal L of the sources under test, "
                "queries whose only match is late in the node's array, removal of a source owning one of the records), full "
                "spines (33 / 129 nested prefixes, 4 bit patterns x 3 insertion orders, with reload = shadow copy + swap + diff), "
                "non-canonical prefixes (host bits set: random histories and root paths of up to 2w+1 nodes, lengths from the "
                "literals of the sources), failing allocator (allocation k = 1.. of every operation of short histories). "
                "distinct = distinct (query, answer) pairs and distinct trie shapes observed on the implementation",
        "domains": {"theorems (C01, C02, C09)": "records with canonical prefixes (length <= 32/128, host bits zero): TableWF / RecOK",
                    "correspondence model = implementation": "canonical and non-canonical prefixes with length <= 32/128 (the model is literal: it needs no well-formedness to run)",
                    "set semantics (C02) and callback replay (C09) evaluated by the Python oracle on the implementation's answers": "canonical and non-canonical prefixes, operations that fail for want of memory included",
                    "RFC 6811 oracle (C01)": "canonical prefixes only (validation of a table holding non-canonical records is compared with the model, not with RFC 6811)"},
        "traces_validated_against_impl": len(cases) - len(divergences) - len(crashes),
        "distribution": stats,
    })
    for c in cases[:2] + cases[-1:]:
        rep.sample({"history": c.hid, "ops": c.ops[:12]})
    rep.assumptions = ["pthread rwlocks are not exercised here (single thread)",
                       "allocation failures: add / remove / remove-by-source / validate with the k-th request failing are run and judged "
                       "by the set oracle here; the model of failing allocation itself is C18's"]

    mine = [x for x in oracle_fails if x[1][0] == pid]
    sync_found = []
    if pid == "C09":
        # the callbacks are also the change log of what rtr_sync does to the table (apply, undo, purge, atomic reload)
        import rtrcheck
        sync_found = rtrcheck.cblog_scan(rep, pid, tier)
        if sync_found is None:
            vlib.proof_failure(rep, "protocol harness build failed (callback log during synchronisation)")
            sync_found = []
        af = rep.cov.get("sync_callback_log_allocfail", {})
        if not sync_found and af and af.get("runs_with_a_refused_request", 0) < 10:
            unmet.append("callback log under allocation failure: fewer than 10 reloads ran with a refused allocation request (%s)" % af)
        for c, msg in sync_found[:2]:
            rep.violation("oracle_sync", "# property %s fails on the implementation: %s\n# mutation: %s\n%s\n" % (pid, msg, c.meta.get("mut"), "\n".join(c.ops)))
    # crashes: sanitizer / assertion aborts are failing inputs for C01 (validation must answer) and C04
    for c, nout, rc1, err1 in crashes:
        ops = minimise_crash(exe, c.ops)
        sig = crash_signature(err1)
        rep.violation("crash", "# implementation aborted (rc=%s) after %d replies\n# %s\n%s\n--- stderr ---\n%s\n" % (
            rc1, nout, sig, "\n".join(ops), err1[-3000:]), signature=sig)
    for c, (p, i, msg) in mine[:3]:
        ops = minimise_oracle(exe, c, p, msg)
        rep.violation("oracle", "# property %s fails on the implementation: %s\n# history %s line %d\n%s\n" % (
            p, msg, c.hid, i, "\n".join(ops)))
    if divergences and not mine and not crashes:
        c, d, a, b = divergences[0]
        rep.build_log = "history %s line %d (%s)\n impl : %s\n model: %s\nops:\n%s" % (
            c.hid, d, c.ops[d] if d < len(c.ops) else "", a, b, "\n".join(c.ops[:d + 1]))
        vlib.proof_failure(rep, "correspondence pfx (model RtrModel.PfxTable vs trie.c/trie-pfx.c) diverges")
    if unmet and not mine and not crashes and not divergences:
        rep.build_log = "\n".join(unmet)
        vlib.proof_failure(rep, "coverage gate of the prefix-table correspondence not met (a required class of histories was not exercised)")
    cb_failed = []
    if cb_handle is not None:
        cb = cbmccheck.join(cb_handle)
        rep.cov["cbmc"] = {k: {"ok": v["ok"], "seconds": v["seconds"], "what": cbmccheck.OBLIGATIONS[k]} for k, v in cb.items()}
        rep.cov.setdefault("trusted_base", []).append("cbmc 6.11 (symbolic tie of lrtr_get_bits / lrtr_ipv6_get_bits to the bit-field specification)")
        for k, v in cb.items():
            rep.obligations["cbmc:" + k] = v["ok"]
            if not v["ok"]:
                cb_failed.append((k, v))
    if cb_failed and not mine and not crashes:
        rep.build_log = "\n\n".join("== cbmc obligation %s: %s\nfailed properties: %s\ncounterexample inputs: %s\ncommand: %s\n%s" % (
            k, cbmccheck.OBLIGATIONS[k], "; ".join(v["failed"]), v["inputs"], v.get("cmd"), v["log"][-800:]) for k, v in cb_failed)
        vlib.proof_failure(rep, "\n".join("cbmc:%s (%s)" % (k, cbmccheck.OBLIGATIONS[k]) for k, v in cb_failed))
    elif not proved and not mine and not crashes and not divergences:
        vlib.proof_failure(rep, "\n".join(t for t, ok in rep.obligations.items() if not ok))
    return rep.finish()


def replay(path):
    """./check --replay <file> for the prefix-table domain: re-run the recorded history on the current tree and on the model"""
    pid = os.path.basename(path).split("_")[0]
    c = Case("replay")
    for l in open(path):
        l = l.rstrip("\n")
        if l.startswith("--- "):
            break
        if l and not l.startswith("#"):
            c.emit(l.split("    => ")[0], tag_of(l.split("    => ")[0]))
    if not c.ops:
        print(open(path).read())
        print("(no recorded history in this replay file: it names the proof obligation / correspondence that no longer checks)")
        return 1
    vlib.lake_build(["pfxdriver"])
    drv = vlib.driver_path("pfxdriver")
    exe, blog = vlib.build_harness("pfx", ["pfx_harness.c"])
    if exe is None:
        print(blog)
        return 1
    io, rc, err = vlib.run_lines(exe, c.ops, timeout=600)
    mo, mrc, merr = vlib.run_lines(drv, model_ops(c.ops, io), timeout=600)
    print("\n".join("%s    => %s" % (a, b) for a, b in zip(c.ops, io)))
    bad = 0
    if rc != 0 or len(io) != len(c.ops):
        bad = 1
        print("implementation aborted (rc=%s) after %d replies: %s\n%s" % (rc, len(io), crash_signature(err), err[-2500:]))
    else:
        d = vlib.first_divergence(norm_impl(io), mo)
        if d is not None:
            bad = 1
            print("DIVERGENCE from the model at line %d (%s)\n impl : %s\n model: %s" % (d, c.ops[d] if d < len(c.ops) else "", io[d] if d < len(io) else "<eof>", mo[d] if d < len(mo) else "<eof>"))
        for f in oracle(c, io, pid):
            if f[0] == pid:
                bad = 1
                print("ORACLE %s line %s: %s" % f)
    print("replay: %s" % ("FAILS" if bad else "passes on the current tree"))
    return bad


def tag_of(line):
    w = line.split()

    def rec(ws):
        return (int(ws[0]), int(ws[1], 16), int(ws[2]), int(ws[3]), int(ws[4]), int(ws[5]))
    try:
        if w[0] in ("add", "rm") and w[1] == "0":
            return (w[0], rec(w[2:8]))
        if w[0] == "add" and w[1] == "1":
            return ("add1", rec(w[2:8]))
        if w[0] == "srcrm" and w[1] == "0":
            return ("srcrm", int(w[2]))
        if w[0] == "val":
            return ("val", (int(w[2]), int(w[3], 16), int(w[4]), int(w[5])))
        if w[0] in ("dump", "shape", "log") and w[1] == "0":
            return (w[0],)
        if w[0] == "free":
            return ("free",) if w[1] == "0" else ("free1",) if w[1] == "1" else ("other",)
        if w[0] in ("new", "newnocb"):
            return ("new",) if w[1] == "0" else ("new1",) if w[1] == "1" else ("other",)
        if w[0] in ("bits4", "bits6", "left", "cov"):
            return ("bits",)
        if w[0] == "fail":
            return ("fail", int(w[1]))
        if w[0] == "failinfo":
            return ("failinfo",)
        if w[0] == "swap" and w[1:3] == ["0", "1"]:
            return ("swap",)
        if w[0] in ("copyx", "diff") and w[1:3] == ["0", "1"]:
            return (w[0], int(w[3]))
    except (ValueError, IndexError):
        pass
    return ("other",)


def crash_signature(err):
    import re
    m = re.search(r"Assertion `([^']*)' failed", err)
    if m:
        return "assert:" + m.group(1)
    m = re.search(r"runtime error: ([^\n]*)", err)
    if m:
        return "ubsan:" + re.sub(r"0x[0-9a-f]+|\d+", "N", m.group(1))[:80]
    m = re.search(r"ERROR: AddressSanitizer: ([a-zA-Z-]+)", err)
    if m:
        return "asan:" + m.group(1)
    return "crash"


def units(ops):
    """indices grouped so that minimisation keeps a history meaningful: `fail k` / operation / `failinfo` stay together, and so
    does a reload (new shadow table .. copy .. fill .. swap .. diff .. free of the shadow table: the callback oracle is about
    the live table, a swap without its diff is not a history the library produces)"""
    out = []
    i = 0
    while i < len(ops):
        if ops[i].startswith("fail ") and i + 2 < len(ops) and ops[i + 2] == "failinfo":
            out.append([i, i + 1, i + 2])
            i += 3
        elif ops[i] in ("newnocb 1", "new 1") and "free 1" in ops[i:]:
            j = ops.index("free 1", i)
            out.append(list(range(i, j + 1)))
            i = j + 1
        else:
            out.append([i])
            i += 1
    return out


def minimise_crash(exe, ops):
    def fails(us):
        o, rc, err = vlib.run_lines(exe, [ops[i] for u in us for i in u], timeout=600)
        return rc != 0
    us = vlib.ddmin(units(ops), fails, max_tests=150)
    return [ops[i] for u in us for i in u]


def minimise_oracle(exe, case, prop, msg):
    def fails(us):
        c = Case("min")
        for u in us:
            for i in u:
                c.emit(case.ops[i], case.tags[i])
        o, rc, err = vlib.run_lines(exe, c.ops, timeout=600)
        if rc != 0 or len(o) != len(c.ops):
            return False
        return any(f[0] == prop and f[2].split(":")[0] == msg.split(":")[0] for f in oracle(c, o, prop))
    us = vlib.ddmin(units(case.ops), fails, max_tests=150)
    return [case.ops[i] for u in us for i in u]


if __name__ == "__main__":
    pid = sys.argv[1]
    tier = sys.argv[2] if len(sys.argv) > 2 else "quick"
    sys.exit(run(pid, tier))
